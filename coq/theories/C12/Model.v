(** C12 — std.format and the % operator implement printf-style formatting.

    IMPL-MODEL: a transliteration of crates/jrsonnet-evaluator/src/stdlib/format.rs
    (parse_codes / parse_code / try_parse_*, render_integer and its three callers,
    render_float, render_float_sci, format_code, format_arr, format_obj, get_dotted_field) and
    of std_format's dispatch (stdlib/mod.rs).  Strings are lists of code points ([list N]);
    the parser only ever tests and splits at ASCII characters, so parsing the code points is
    parsing the UTF-8 bytes.  `u16` arithmetic is written out: `checked_mul/checked_add` of the width
    accumulator is [chk16] (failure = the FieldWidthTooLarge error), the unchecked `-` of the
    %g arm is [sub16] (failure [Err EPanic] = the overflow panic of a checked build; proved
    unreachable), `saturating_sub`/`saturating_add` are [N.sub]/[N.min].  `iv.floor() as i64` saturates ([sat_i64]).
    The tables (conversion letters, flag letters, length modifiers, digit alphabet, radixes,
    prefixes, default precisions) come from Gen/GenFormat.v, regenerated from the source.
    Numbers are exact rationals num/den (every finite double is one); the float renderers are
    transliterated over exact rational arithmetic: faithful where the binary64 operations of
    the code are exact (the class the correspondence generator stays in), an idealisation
    elsewhere (libm log10/powf/mul_add are outside the model).

    SPEC: Python's conversion-specifier grammar and std.jsonnet's rendering rules
    (render_int / render_hex / render_float_dec / render_float_sci / format_code /
    format_codes_arr / format_codes_obj), over unbounded integers, width counted in code
    points.  Definitions only; proofs are in Proofs.v. *)
From Coq Require Import List ZArith NArith Bool.
From JrV Require Import Gen.GenFormat.
Import ListNotations.
Open Scope N_scope.

(* ------------------------------------------------------------------ results *)
Inductive err :=
| ETrunc            (* TruncatedFormatCode *)
| EUnrec (c : N)    (* UnrecognizedConversionType *)
| ENotEnough        (* NotEnoughValues *)
| ETooMany          (* "too many values to format" *)
| EStarObj          (* CannotUseStarWidthWithObject *)
| EKeysReq          (* MappingKeysRequired *)
| ENoField          (* SubfieldNotFound / SubfieldDidntYieldAnObject / no such field *)
| EType             (* wrong argument type, star argument not a u16 *)
| EChar             (* %c: not one character / invalid code point *)
| ETooLarge         (* FieldWidthTooLarge: a width / precision above 65535 *)
| EPanic            (* arithmetic overflow / debug_assert panic (impl-model only) *)
| EFuel.            (* model fuel exhausted (never judged) *)

Inductive res (A : Type) := Ok (a : A) | Err (e : err).
Arguments Ok {A} a.
Arguments Err {A} e.

Definition bind {A B} (r : res A) (f : A -> res B) : res B :=
  match r with Ok a => f a | Err e => Err e end.
Notation "'do' x <- r ; k" := (bind r (fun x => k)) (at level 200, x pattern, r at level 100, k at level 200).

(* ------------------------------------------------------------------ characters *)
Definition ch_pct : N := 37.
Definition ch_lparen : N := 40.
Definition ch_rparen : N := 41.
Definition ch_star : N := 42.
Definition ch_plus : N := 43.
Definition ch_minus : N := 45.
Definition ch_dot : N := 46.
Definition ch_zero : N := 48.
Definition ch_space : N := 32.
Definition ch_e : N := 101.
Definition ch_E : N := 69.

(* ------------------------------------------------------------------ codes *)
Record cflags := { f_alt : bool; f_zero : bool; f_left : bool; f_blank : bool; f_sign : bool }.
Definition no_flags : cflags := {| f_alt := false; f_zero := false; f_left := false; f_blank := false; f_sign := false |}.
Inductive width := WStar | WFixed (n : N).
Record code := { c_mkey : list N; c_flags : cflags; c_width : width; c_prec : option width;
                 c_type : gconv; c_caps : bool }.
Inductive element := EStr (s : list N) | ECode (c : code).

Definition set_flag (g : gflag) (f : cflags) : cflags :=
  match g with
  | FAlt => {| f_alt := true; f_zero := f_zero f; f_left := f_left f; f_blank := f_blank f; f_sign := f_sign f |}
  | FZero => {| f_alt := f_alt f; f_zero := true; f_left := f_left f; f_blank := f_blank f; f_sign := f_sign f |}
  | FLeft => {| f_alt := f_alt f; f_zero := f_zero f; f_left := true; f_blank := f_blank f; f_sign := f_sign f |}
  | FBlank => {| f_alt := f_alt f; f_zero := f_zero f; f_left := f_left f; f_blank := true; f_sign := f_sign f |}
  | FSign => {| f_alt := f_alt f; f_zero := f_zero f; f_left := f_left f; f_blank := f_blank f; f_sign := true |}
  end.

Fixpoint assoc {A} (k : N) (l : list (N * A)) : option A :=
  match l with
  | [] => None
  | (k', a) :: t => if k =? k' then Some a else assoc k t
  end.
Fixpoint memN (k : N) (l : list N) : bool :=
  match l with [] => false | x :: t => (k =? x) || memN k t end.

(* ================================================================== IMPL-MODEL: parser *)
Definition u16_max : N := 65535.
(** `checked_mul` / `checked_add` in u16 with exact result [n], `.ok_or(FieldWidthTooLarge)?` *)
Definition chk16 (n : N) : res N := if n <=? u16_max then Ok n else Err ETooLarge.
(** an unchecked u16 `a - b` *)
Definition sub16 (a b : N) : res N := if b <=? a then Ok (a - b) else Err EPanic.

(** try_parse_mapping_key: the scan for `)` *)
Fixpoint key_scan (s acc : list N) : res (list N * list N) :=
  match s with
  | [] => Err ETrunc
  | c :: t => if c =? ch_rparen then Ok (rev acc, t) else key_scan t (c :: acc)
  end.
Definition impl_mapping_key (s : list N) : res (list N * list N) :=
  match s with
  | [] => Err ETrunc
  | c :: t => if c =? ch_lparen then key_scan t [] else Ok ([], s)
  end.

(** try_parse_cflags *)
Fixpoint impl_cflags_loop (s : list N) (f : cflags) : res (cflags * list N) :=
  match s with
  | [] => Err ETrunc
  | c :: t => match assoc c flag_table with
              | Some g => impl_cflags_loop t (set_flag g f)
              | None => Ok (f, s)
              end
  end.
Definition impl_cflags (s : list N) := impl_cflags_loop s no_flags.

Definition digit_of (c : N) : option N :=
  if (48 <=? c) && (c <=? 57) then Some (c - 48) else None.

(** try_parse_field_width: `out.checked_mul(10).and_then(checked_add digit)` in u16, then the
    end-of-input test *)
Fixpoint impl_width_loop (s : list N) (out : N) : res (N * list N) :=
  match s with
  | [] => Err ETrunc
  | c :: t =>
      match digit_of c with
      | None => Ok (out, s)
      | Some d =>
          match chk16 (out * 10) with
          | Err e => Err e
          | Ok o1 => match chk16 (o1 + d) with
                     | Err e => Err e
                     | Ok o2 => impl_width_loop t o2
                     end
          end
      end
  end.
Definition impl_field_width (s : list N) : res (width * list N) :=
  match s with
  | [] => Err ETrunc
  | c :: t => if c =? ch_star then Ok (WStar, t)
              else do nr <- impl_width_loop s 0; Ok (WFixed (fst nr), snd nr)
  end.
Definition impl_precision (s : list N) : res (option width * list N) :=
  match s with
  | [] => Err ETrunc
  | c :: t => if c =? ch_dot then do wr <- impl_field_width t; Ok (Some (fst wr), snd wr)
              else Ok (None, s)
  end.
(** try_parse_length_modifier: skips at most one h/l/L *)
Definition impl_lenmod (s : list N) : res (list N) :=
  match s with
  | [] => Err ETrunc
  | c :: t => if memN c lenmod_chars then match t with [] => Err ETrunc | _ => Ok t end else Ok s
  end.
Definition impl_convtype (s : list N) : res ((gconv * bool) * list N) :=
  match s with
  | [] => Err ETrunc
  | c :: t => match assoc c conv_table with
              | Some v => Ok (v, t)
              | None => Err (EUnrec c)
              end
  end.
Definition impl_parse_code (s : list N) : res (code * list N) :=
  do kr <- impl_mapping_key s;
  do fr <- impl_cflags (snd kr);
  do wr <- impl_field_width (snd fr);
  do pr <- impl_precision (snd wr);
  do s5 <- impl_lenmod (snd pr);
  do cr <- impl_convtype s5;
  Ok ({| c_mkey := fst kr; c_flags := fst fr; c_width := fst wr; c_prec := fst pr;
         c_type := fst (fst cr); c_caps := snd (fst cr) |}, snd cr).

(** literal text up to the next `%` *)
Fixpoint lit_span (s : list N) : list N * list N :=
  match s with
  | [] => ([], [])
  | c :: t => if c =? ch_pct then ([], s) else let r := lit_span t in (c :: fst r, snd r)
  end.
Definition lit_elem (l : list N) : list element := match l with [] => [] | _ => [EStr l] end.

Section Codes.
  Variable parse_code : list N -> res (code * list N).
  (** parse_codes; the rest handed back by parse_code is a suffix, fuel [S (length s)] suffices *)
  Fixpoint parse_codes_f (fuel : nat) (s : list N) : res (list element) :=
    match fuel with
    | O => Err EFuel
    | S f =>
        let r := lit_span s in
        match snd r with
        | [] => Ok (lit_elem (fst r))
        | _ :: after =>
            match parse_code after with
            | Err e => Err e
            | Ok (c, rest) =>
                match parse_codes_f f rest with
                | Err e => Err e
                | Ok es => Ok (lit_elem (fst r) ++ ECode c :: es)
                end
            end
        end
    end.
  Definition parse_codes (s : list N) := parse_codes_f (S (length s)) s.
End Codes.
Definition impl_parse_codes := parse_codes impl_parse_code.

(* ================================================================== SPEC: parser *)
(** Python's conversion specifier: `%` [ `(` key `)` ] flags* [ `*` | digits ] [ `.` ( `*` | digits ) ]
    [ h | l | L ] letter — written with take-while / fold, unbounded numbers. *)
Fixpoint span (p : N -> bool) (s : list N) : list N * list N :=
  match s with
  | [] => ([], [])
  | c :: t => if p c then let r := span p t in (c :: fst r, snd r) else ([], s)
  end.
Definition spec_flag (c : N) : option gflag :=
  if c =? 35 then Some FAlt else if c =? 48 then Some FZero else if c =? 45 then Some FLeft
  else if c =? 32 then Some FBlank else if c =? 43 then Some FSign else None.

Definition is_flag (c : N) : bool :=
  (c =? 35) || (c =? 48) || (c =? 45) || (c =? 32) || (c =? 43).
Definition is_digit (c : N) : bool := (48 <=? c) && (c <=? 57).
Definition is_lenmod (c : N) : bool := (c =? 104) || (c =? 108) || (c =? 76).
Definition decimal (ds : list N) : N := fold_left (fun a d => 10 * a + (d - 48)) ds 0.
Definition spec_conv (c : N) : option (gconv * bool) :=
  if (c =? 100) || (c =? 105) || (c =? 117) then Some (GDecimal, false)      (* d i u *)
  else if c =? 111 then Some (GOctal, false)                                 (* o *)
  else if c =? 120 then Some (GHexadecimal, false)                           (* x *)
  else if c =? 88 then Some (GHexadecimal, true)                             (* X *)
  else if c =? 101 then Some (GScientific, false)                            (* e *)
  else if c =? 69 then Some (GScientific, true)                              (* E *)
  else if c =? 102 then Some (GFloat, false)                                 (* f *)
  else if c =? 70 then Some (GFloat, true)                                   (* F *)
  else if c =? 103 then Some (GShorter, false)                               (* g *)
  else if c =? 71 then Some (GShorter, true)                                 (* G *)
  else if c =? 99 then Some (GChar, false)                                   (* c *)
  else if c =? 115 then Some (GString, false)                                (* s *)
  else if c =? 37 then Some (GPercent, false)                                (* % *)
  else None.

Definition spec_mapping_key (s : list N) : res (list N * list N) :=
  match s with
  | [] => Err ETrunc
  | c :: t =>
      if c =? ch_lparen then
        let r := span (fun x => negb (x =? ch_rparen)) t in
        match snd r with [] => Err ETrunc | _ :: rest => Ok (fst r, rest) end
      else Ok ([], s)
  end.
Definition spec_cflags (s : list N) : res (cflags * list N) :=
  let r := span is_flag s in
  match snd r with
  | [] => Err ETrunc
  | _ => Ok ({| f_alt := memN 35 (fst r); f_zero := memN 48 (fst r); f_left := memN 45 (fst r);
                f_blank := memN 32 (fst r); f_sign := memN 43 (fst r) |}, snd r)
  end.
Definition spec_field_width (s : list N) : res (width * list N) :=
  match s with
  | [] => Err ETrunc
  | c :: t =>
      if c =? ch_star then Ok (WStar, t)
      else let r := span is_digit s in
           (* a field width / precision is at most 65535 (stated limit; an error, reported first) *)
           if u16_max <? decimal (fst r) then Err ETooLarge
           else match snd r with [] => Err ETrunc | _ => Ok (WFixed (decimal (fst r)), snd r) end
  end.
Definition spec_precision (s : list N) : res (option width * list N) :=
  match s with
  | [] => Err ETrunc
  | c :: t => if c =? ch_dot then do wr <- spec_field_width t; Ok (Some (fst wr), snd wr)
              else Ok (None, s)
  end.
(** at most ONE length modifier *)
Definition spec_lenmod (s : list N) : res (list N) :=
  match s with
  | [] => Err ETrunc
  | c :: t => if is_lenmod c then match t with [] => Err ETrunc | _ => Ok t end else Ok s
  end.
Definition spec_convtype (s : list N) : res ((gconv * bool) * list N) :=
  match s with
  | [] => Err ETrunc
  | c :: t => match spec_conv c with Some v => Ok (v, t) | None => Err (EUnrec c) end
  end.
Definition spec_parse_code (s : list N) : res (code * list N) :=
  do kr <- spec_mapping_key s;
  do fr <- spec_cflags (snd kr);
  do wr <- spec_field_width (snd fr);
  do pr <- spec_precision (snd wr);
  do s5 <- spec_lenmod (snd pr);
  do cr <- spec_convtype s5;
  Ok ({| c_mkey := fst kr; c_flags := fst fr; c_width := fst wr; c_prec := fst pr;
         c_type := fst (fst cr); c_caps := snd (fst cr) |}, snd cr).
Definition spec_parse_codes := parse_codes spec_parse_code.

(* ================================================================== values *)
(** [VNum num den shown]: the number num/den (den > 0) and its std.toString text;
    [VOpq shown]: null / booleans / arrays — only the text matters to `%s`;
    [VObj fields shown]. *)
Inductive value :=
| VNum (num den : Z) (shown : list N)
| VStr (s : list N)
| VOpq (shown : list N)
| VObj (fields : list (list N * value)) (shown : list N).

Inductive top := TArr (vs : list value) | TObj (fields : list (list N * value)) | TOne (v : value).

Definition shown_of (v : value) : list N :=
  match v with VNum _ _ s => s | VStr s => s | VOpq s => s | VObj _ s => s end.

Fixpoint list_eqb (a b : list N) : bool :=
  match a, b with
  | [], [] => true
  | x :: a', y :: b' => (x =? y) && list_eqb a' b'
  | _, _ => false
  end.
Fixpoint field_get (k : list N) (fs : list (list N * value)) : option value :=
  match fs with
  | [] => None
  | (k', v) :: t => if list_eqb k k' then Some v else field_get k t
  end.

(* ================================================================== integer rendering *)
Open Scope Z_scope.
Definition i64_max : Z := 2 ^ 63 - 1.
(** `f as i64` of a non-negative integral float *)
Definition sat_i64 (z : Z) : Z := Z.min z i64_max.

(** `while v != 0 { nums.push(v % radix); v /= radix }` — least significant first *)
Fixpoint digits_loop (fuel : nat) (radix v : Z) : list Z :=
  match fuel with
  | O => []
  | S f => if v =? 0 then [] else (v mod radix) :: digits_loop f radix (v / radix)
  end.
Definition impl_digits (radix iv : Z) : list Z :=
  if iv =? 0 then [0] else digits_loop 64 radix iv.

Definition to_upper (c : N) : N := if ((97 <=? c) && (c <=? 122))%N then (c - 32)%N else c.
Definition digit_char (caps : bool) (d : Z) : N :=
  let c := nth (Z.to_nat d) digit_alphabet 63%N in
  if caps then to_upper c else c.

Definition sign_chars (neg sign blank : bool) : list N :=
  if neg then [ch_minus] else if sign then [ch_plus] else if blank then [ch_space] else [].

Definition b2n (b : bool) : N := if b then 1%N else 0%N.
Definition lenN {A} (l : list A) : N := N.of_nat (length l).

(** render_integer (iv: the non-negative integral float handed in, before `as i64`) *)
Definition impl_render_integer (neg : bool) (iv : Z) (padding precision : N) (blank sign : bool)
           (radix : Z) (zero_prefix : list N) (prefix_in_padding caps : bool) : list N :=
  let iv := sat_i64 iv in
  let digits := impl_digits radix iv in
  let zp := (padding - b2n (neg || blank || sign))%N in
  let pref_len := lenN zero_prefix in
  let zp2 := (N.max (zp - (if prefix_in_padding then 0 else pref_len)) precision
              - ((if prefix_in_padding then pref_len else 0) + lenN digits))%N in
  sign_chars neg sign blank
  ++ (if (iv =? 0) && prefix_in_padding then [] else zero_prefix)
  ++ repeat ch_zero (N.to_nat zp2)
  ++ map (digit_char caps) (rev digits).

Definition impl_render_decimal (neg : bool) (iv : Z) (padding precision : N) (blank sign : bool) :=
  impl_render_integer neg iv padding precision blank sign radix_decimal prefix_decimal
                      prefix_in_padding_decimal caps_decimal.
(** `if alt && iv >= 1.0` on the magnitude: the same as floor(iv) >= 1 *)
Definition impl_render_octal (neg : bool) (iv : Z) (padding precision : N)
           (alt blank sign : bool) :=
  impl_render_integer neg iv padding precision blank sign radix_octal
                      (if alt && (1 <=? iv) then prefix_octal else []) prefix_in_padding_octal caps_octal.
(** [n]: the FLOORED argument (format_code passes value.floor()); `iv < 0.0`, `iv.abs()` *)
Definition impl_render_hex (n : Z) (padding precision : N) (alt blank sign caps : bool) :=
  impl_render_integer (n <? 0) (Z.abs n) padding precision blank sign radix_hex
                      (if alt then (if caps then prefix_hex_upper else prefix_hex_lower) else [])
                      prefix_in_padding_hex caps.

(* ------------------------------------------------------------------ SPEC (std.jsonnet) *)
(** aux(n) = if n == 0 then '' else aux(n / radix) + digit(n % radix) — most significant first *)
Fixpoint spec_digits_f (fuel : nat) (radix n : Z) : list Z :=
  match fuel with
  | O => []
  | S f => if n <=? 0 then [] else spec_digits_f f radix (n / radix) ++ [n mod radix]
  end.
Definition spec_digits (radix n : Z) : list Z := spec_digits_f (S (Z.to_nat (Z.log2 n))) radix n.
Definition spec_digit_char (caps : bool) (d : Z) : N :=
  if d <? 10 then Z.to_N (48 + d) else Z.to_N ((if caps then 65 else 97) + (d - 10)).
Definition spec_numeral (caps : bool) (radix mag : Z) : list N :=
  if mag =? 0 then [ch_zero] else map (spec_digit_char caps) (spec_digits radix mag).
(** read a digit string back *)
Definition read_back (radix : Z) (ds_msf : list Z) : Z := fold_left (fun a d => a * radix + d) ds_msf 0.

Definition pad_left (s : list N) (w : Z) (c : N) : list N := repeat c (Z.to_nat (w - Z.of_nat (length s))) ++ s.
Definition pad_right (s : list N) (w : Z) (c : N) : list N := s ++ repeat c (Z.to_nat (w - Z.of_nat (length s))).

(** render_int(neg, mag, min_chars, min_digits, blank, plus, radix, zero_prefix) *)
Definition spec_render_int (neg : bool) (mag : Z) (min_chars min_digits : Z) (blank plus : bool)
           (radix : Z) (zero_prefix : list N) : list N :=
  let dec := if mag =? 0 then [ch_zero] else zero_prefix ++ spec_numeral false radix mag in
  let zp := min_chars - (if neg || blank || plus then 1 else 0) in
  let zp2 := Z.max zp min_digits in
  sign_chars neg plus blank ++ pad_left dec zp2 ch_zero.
(** render_hex(n, min_chars, min_digits, blank, sign, add_zerox, capitals); n an integer *)
Definition spec_render_hex (n : Z) (min_chars min_digits : Z) (blank sign add_zerox caps : bool) : list N :=
  let hex := spec_numeral caps 16 (Z.abs n) in
  let neg := n <? 0 in
  let zp := min_chars - (if neg || blank || sign then 1 else 0) - (if add_zerox then 2 else 0) in
  let zp2 := Z.max zp min_digits in
  sign_chars neg sign blank
  ++ (if add_zerox then (if caps then [48%N; 88%N] else [48%N; 120%N]) else [])
  ++ pad_left hex zp2 ch_zero.

(* ================================================================== float rendering, exact rationals *)
Definition pow10 (p : Z) : Z := 10 ^ p.
(** floor (|num/den| * 10^p + 1/2) *)
Definition round_half_up (num den p : Z) : Z := (2 * Z.abs num * pow10 p + den) / (2 * den).

(** floor(log10 (num/den)) for num, den > 0 — search downward / upward with fuel *)
Fixpoint exp10_up (fuel : nat) (num den e : Z) : Z :=   (* num/den >= 10^e known; find largest *)
  match fuel with
  | O => e
  | S f => if num >=? den * 10 then exp10_up f num (den * 10) (e + 1) else e
  end.
Fixpoint exp10_down (fuel : nat) (num den e : Z) : Z :=  (* num/den < 10^e... *)
  match fuel with
  | O => e
  | S f => if num <? den then exp10_down f (num * 10) den (e - 1) else e
  end.
Definition exp10 (num den : Z) : Z :=
  if num =? 0 then 0
  else if Z.abs num >=? den then exp10_up 400 (Z.abs num) den 0
  else exp10_down 400 (Z.abs num) den 0.
(** num/den / 10^e as a rational *)
Definition scale10 (num den e : Z) : Z * Z :=
  if e >=? 0 then (num, den * pow10 e) else (num * pow10 (- e), den).

Fixpoint strip_trailing_zeros_rev (r : list N) : list N :=
  match r with
  | c :: t => if (c =? ch_zero)%N then strip_trailing_zeros_rev t else r
  | [] => []
  end.
Definition strip_trailing_zeros (s : list N) : list N := rev (strip_trailing_zeros_rev (rev s)).

(** render_float(n, padding, precision, blank, sign, ensure_pt, trailing) *)
Definition impl_render_float (num den : Z) (padding precision : N) (blank sign ensure_pt trailing : bool)
  : res (list N) :=
  let p := Z.of_N precision in
  let r := round_half_up num den p in
  let whole := r / pow10 p in
  let frac := r mod pow10 p in
  let dot_size := if (precision =? 0)%N && negb ensure_pt then 0%N else 1%N in
  (* 10.0f64.powi(precision) is +inf from 10^309 on: numerator, whole and frac are inf/NaN and the
     debug_assert!(iv >= 0.0) of render_integer fails (a checked build panics) *)
  if (308 <? precision)%N then Err EPanic else
  (* padding.saturating_sub(precision.saturating_add(dot_size)) *)
  let padding := (padding - N.min u16_max (precision + dot_size))%N in
  let out := impl_render_decimal (num <? 0) whole padding 0 blank sign in
  if (precision =? 0)%N then Ok (out ++ (if ensure_pt then [ch_dot] else []))
  else if trailing || (frac >? 0) then
    let frac_str := impl_render_decimal false frac precision 0 false false in
    Ok (out ++ [ch_dot] ++ (if trailing then frac_str else strip_trailing_zeros frac_str))
  else Ok (out ++ (if ensure_pt then [ch_dot] else [])).

(** render_float_sci *)
Definition impl_render_float_sci (num den : Z) (padding precision : N)
           (blank sign ensure_pt trailing caps : bool) : res (list N) :=
  let e := exp10 num den in
  let m := scale10 num den e in
  let exponent_str := impl_render_decimal (e <? 0) (Z.abs e) exponent_min_chars 0 false true in
  let padding := (padding - (lenN exponent_str + 1))%N in
  do body <- impl_render_float (fst m) (snd m) padding precision blank sign ensure_pt trailing;
  Ok (body ++ [if caps then ch_E else ch_e] ++ exponent_str).

(** the Shorter (%g) arm of format_code *)
Definition impl_render_shorter (num den : Z) (padding fpprec0 : N) (blank sign alt caps : bool) : res (list N) :=
  let fpprec := N.max fpprec0 1 in     (* let fpprec = fpprec.max(1) *)
  let e := exp10 num den in
  if (e <? -4) || (e >=? Z.of_N fpprec) then
    do p1 <- sub16 fpprec 1;
    impl_render_float_sci num den padding p1 blank sign alt alt caps
  else
    (* 1.max(exponent as u16 + 1): the cast saturates negatives to 0 *)
    let digits_before_pt := N.max 1 (Z.to_N e + 1) in
    do p1 <- sub16 fpprec digits_before_pt;
    impl_render_float num den padding p1 blank sign alt alt.

(* ------------------------------------------------------------------ SPEC (std.jsonnet, exact) *)
Definition spec_render_float (num den : Z) (zero_pad : Z) (blank sign ensure_pt trailing : bool) (prec : Z)
  : list N :=
  let r := round_half_up num den prec in
  let whole := r / pow10 prec in
  let frac := r mod pow10 prec in
  let dot_size := if (prec =? 0) && negb ensure_pt then 0 else 1 in
  let zp := zero_pad - prec - dot_size in
  let str := spec_render_int (num <? 0) whole zp 0 blank sign 10 [] in
  if prec =? 0 then str ++ (if ensure_pt then [ch_dot] else [])
  else if trailing || (frac >? 0) then
    let frac_str := spec_render_int false frac prec 0 false false 10 [] in
    str ++ [ch_dot] ++ (if trailing then frac_str else strip_trailing_zeros frac_str)
  else str ++ (if ensure_pt then [ch_dot] else []).
Definition spec_render_float_sci (num den : Z) (zero_pad : Z) (blank sign ensure_pt trailing caps : bool)
           (prec : Z) : list N :=
  let e := exp10 num den in
  let m := scale10 num den e in
  let suff := [if caps then ch_E else ch_e] ++ spec_render_int (e <? 0) (Z.abs e) 3 0 false true 10 [] in
  let zp2 := zero_pad - Z.of_nat (length suff) in
  spec_render_float (fst m) (snd m) zp2 blank sign ensure_pt trailing prec ++ suff.
(** `%g`; a precision of 0 is taken as 1 (C / Python rule) *)
Definition spec_render_shorter (num den : Z) (zero_pad : Z) (fpprec0 : Z) (blank sign alt caps : bool) : list N :=
  let fpprec := if fpprec0 =? 0 then 1 else fpprec0 in
  let e := exp10 num den in
  if (e <? -4) || (e >=? fpprec) then
    spec_render_float_sci num den zero_pad blank sign alt alt caps (fpprec - 1)
  else
    let digits_before_pt := Z.max 1 (e + 1) in
    spec_render_float num den zero_pad blank sign alt alt (fpprec - digits_before_pt).

(* ================================================================== format_code *)
Definition utf8_len (c : N) : N :=
  if (c <? 128)%N then 1%N else if (c <? 2048)%N then 2%N else if (c <? 65536)%N then 3%N else 4%N.
Definition byte_len (s : list N) : N := fold_right (fun c a => (utf8_len c + a)%N) 0%N s.

Definition valid_scalar (c : Z) : bool :=
  (0 <=? c) && (c <=? 1114111) && negb ((55296 <=? c) && (c <=? 57343)).

(** floor(|num/den|) *)
Definition floor_abs (num den : Z) : Z := Z.abs num / den.
(** value <= -1.0 *)
Definition le_m1 (num den : Z) : bool := (num <? 0) && (floor_abs num den >=? 1).

Definition as_num (v : value) : res (Z * Z) :=
  match v with VNum n d _ => Ok (n, d) | _ => Err EType end.

(** final padding: `width.saturating_sub(u16::try_from(tmp_out.chars().count()).unwrap_or(u16::MAX))` *)
Definition impl_pad (left : bool) (width : N) (tmp : list N) : list N :=
  let padding := (width - (if lenN tmp <=? u16_max then lenN tmp else u16_max))%N in
  if left then tmp ++ repeat ch_space (N.to_nat padding)
  else repeat ch_space (N.to_nat padding) ++ tmp.
Definition spec_pad (left : bool) (width : N) (tmp : list N) : list N :=
  if left then pad_right tmp (Z.of_N width) ch_space else pad_left tmp (Z.of_N width) ch_space.

(** `n as u32` of a float: truncation toward zero, saturating *)
Definition as_u32 (num den : Z) : Z :=
  if num <? 0 then 0 else Z.min (num / den) 4294967295.

Definition impl_format_tmp (v : value) (c : code) (width : N) (precision : option N) : res (list N) :=
  let fl := c_flags c in
  let fpprec := match precision with Some p => p | None => default_fp_precision end in
  let iprec := match precision with Some p => p | None => default_int_precision end in
  let padding := if f_zero fl && negb (f_left fl) then width else 0%N in
  match c_type c with
  | GString => Ok (shown_of v)
  | GDecimal =>
      do nd <- as_num v;
      Ok (impl_render_decimal (le_m1 (fst nd) (snd nd)) (floor_abs (fst nd) (snd nd)) padding iprec
                              (f_blank fl) (f_sign fl))
  | GOctal =>
      do nd <- as_num v;
      Ok (impl_render_octal (le_m1 (fst nd) (snd nd)) (floor_abs (fst nd) (snd nd))
                            padding iprec (f_alt fl) (f_blank fl) (f_sign fl))
  | GHexadecimal =>
      do nd <- as_num v;
      Ok (impl_render_hex (fst nd / snd nd) padding iprec
                          (f_alt fl) (f_blank fl) (f_sign fl) (c_caps c))
  | GScientific =>
      do nd <- as_num v;
      impl_render_float_sci (fst nd) (snd nd) padding fpprec (f_blank fl) (f_sign fl) (f_alt fl) true (c_caps c)
  | GFloat =>
      do nd <- as_num v;
      impl_render_float (fst nd) (snd nd) padding fpprec (f_blank fl) (f_sign fl) (f_alt fl) true
  | GShorter =>
      do nd <- as_num v;
      impl_render_shorter (fst nd) (snd nd) padding fpprec (f_blank fl) (f_sign fl) (f_alt fl) (c_caps c)
  | GChar =>
      match v with
      | VNum n d _ =>
          if le_m1 n d then Err EChar      (* if n <= -1.0 { bail!(..) } *)
          else let u := as_u32 n d in if valid_scalar u then Ok [Z.to_N u] else Err EChar
      | VStr s => match s with [_] => Ok s | _ => Err EChar end
      | _ => Err EType
      end
  | GPercent => Ok [ch_pct]
  end.
Definition impl_format_code (v : value) (c : code) (width : N) (precision : option N) : res (list N) :=
  do tmp <- impl_format_tmp v c width precision;
  Ok (impl_pad (f_left (c_flags c)) width tmp).

(** SPEC format_code (std.jsonnet): same dispatch over the spec renderers, unbounded widths *)
Definition spec_format_tmp (v : value) (c : code) (width : N) (precision : option N) : res (list N) :=
  let fl := c_flags c in
  let fpprec := match precision with Some p => Z.of_N p | None => 6 end in
  let iprec := match precision with Some p => Z.of_N p | None => 0 end in
  let zp := if f_zero fl && negb (f_left fl) then Z.of_N width else 0 in
  match c_type c with
  | GString => Ok (shown_of v)
  | GDecimal =>
      do nd <- as_num v;
      Ok (spec_render_int (le_m1 (fst nd) (snd nd)) (floor_abs (fst nd) (snd nd)) zp iprec
                          (f_blank fl) (f_sign fl) 10 [])
  | GOctal =>
      do nd <- as_num v;
      Ok (spec_render_int (le_m1 (fst nd) (snd nd)) (floor_abs (fst nd) (snd nd)) zp iprec
                          (f_blank fl) (f_sign fl) 8 (if f_alt fl then [ch_zero] else []))
  | GHexadecimal =>
      do nd <- as_num v;
      (* render_hex(std.floor(val), ...) *)
      Ok (spec_render_hex (fst nd / snd nd) zp iprec (f_blank fl) (f_sign fl) (f_alt fl) (c_caps c))
  | GScientific =>
      do nd <- as_num v;
      Ok (spec_render_float_sci (fst nd) (snd nd) zp (f_blank fl) (f_sign fl) (f_alt fl) true (c_caps c) fpprec)
  | GFloat =>
      do nd <- as_num v;
      Ok (spec_render_float (fst nd) (snd nd) zp (f_blank fl) (f_sign fl) (f_alt fl) true fpprec)
  | GShorter =>
      do nd <- as_num v;
      Ok (spec_render_shorter (fst nd) (snd nd) zp fpprec (f_blank fl) (f_sign fl) (f_alt fl) (c_caps c))
  | GChar =>
      match v with
      | VNum n d _ =>
          (* std.char of the number: a code point; below 0 or above 0x10FFFF is an error *)
          if le_m1 n d then Err EChar
          else let u := Z.abs n / d in if valid_scalar u then Ok [Z.to_N u] else Err EChar
      | VStr s => match s with [_] => Ok s | _ => Err EChar end
      | _ => Err EType
      end
  | GPercent => Ok [ch_pct]
  end.
Definition spec_format_code (v : value) (c : code) (width : N) (precision : option N) : res (list N) :=
  do tmp <- spec_format_tmp v c width precision;
  Ok (spec_pad (f_left (c_flags c)) width tmp).


(* ------------------------------------------------------------------ finding classes *)
Definition wf_value (v : value) : Prop := match v with VNum _ d _ => 0 < d | _ => True end.
Definition is_int_conv (t : gconv) : bool :=
  match t with GDecimal | GOctal | GHexadecimal => true | _ => false end.
(** integer conversions on which the code is known to differ from the specification:
    |floor x| >= 2^63 (`as i64` saturates) *)
Definition known_int_class (v : value) (c : code) : bool :=
  match v with
  | VNum n d _ => (2 ^ 63 <=? floor_abs n d) || (2 ^ 63 <=? Z.abs (n / d))
  | _ => false
  end.

(* ================================================================== format_arr / format_obj *)
(** u16::from_untyped *)
Definition impl_u16_of (v : value) : res N :=
  match v with
  | VNum n d _ => if (n mod d =? 0) && (0 <=? n / d) && (n / d <=? 65535) then Ok (Z.to_N (n / d)) else Err EType
  | _ => Err EType
  end.
(** SPEC: a `*` argument is a non-negative integer within the field-width limit *)
Definition spec_nat_of (v : value) : res N :=
  match v with
  | VNum n d _ => if (n mod d =? 0) && (0 <=? n / d) && (n / d <=? 65535) then Ok (Z.to_N (n / d)) else Err EType
  | _ => Err EType
  end.

Section Run.
  Variable star_of : value -> res N.
  Variable format_code : value -> code -> N -> option N -> res (list N).

  Definition take_val (vals : list value) : res (value * list value) :=
    match vals with [] => Err ENotEnough | v :: t => Ok (v, t) end.

  (** one code of format_arr: `*` width, `*` precision, value — in this order *)
  Definition step_arr (c : code) (vals : list value) : res (list N * list value) :=
    do wv <- match c_width c with
             | WStar => do vt <- take_val vals; do n <- star_of (fst vt); Ok (n, snd vt)
             | WFixed n => Ok (n, vals)
             end;
    do pv <- match c_prec c with
             | Some WStar => do vt <- take_val (snd wv); do n <- star_of (fst vt); Ok (Some n, snd vt)
             | Some (WFixed n) => Ok (Some n, snd wv)
             | None => Ok (None, snd wv)
             end;
    do vv <- match c_type c with
             | GPercent => Ok (VOpq [], snd pv)
             | _ => take_val (snd pv)
             end;
    do out <- format_code (fst vv) c (fst wv) (fst pv);
    Ok (out, snd vv).

  Fixpoint run_arr (es : list element) (vals : list value) : res (list N) :=
    match es with
    | [] => match vals with [] => Ok [] | _ => Err ETooMany end
    | EStr s :: t => do r <- run_arr t vals; Ok (s ++ r)
    | ECode c :: t => do ov <- step_arr c vals; do r <- run_arr t (snd ov); Ok (fst ov ++ r)
    end.

  (** field.split('.') *)
  Fixpoint split_dot (s cur : list N) : list (list N) :=
    match s with
    | [] => [rev cur]
    | c :: t => if (c =? ch_dot)%N then rev cur :: split_dot t [] else split_dot t (c :: cur)
    end.
  (** get_dotted_field *)
  Fixpoint get_path (path : list (list N)) (cur : value) : res value :=
    match path with
    | [] => Ok cur
    | k :: t => match cur with
                | VObj fs _ => match field_get k fs with Some v => get_path t v | None => Err ENoField end
                | _ => Err ENoField
                end
    end.
  Definition lookup (fs : list (list N * value)) (key : list N) : res value :=
    match field_get key fs with
    | Some v => Ok v
    | None => get_path (split_dot key []) (VObj fs [])
    end.

  Definition step_obj (c : code) (fs : list (list N * value)) : res (list N) :=
    do w <- match c_width c with WStar => Err EStarObj | WFixed n => Ok n end;
    do p <- match c_prec c with Some WStar => Err EStarObj | Some (WFixed n) => Ok (Some n) | None => Ok None end;
    do v <- match c_type c with
            | GPercent => Ok (VOpq [])
            | _ => match c_mkey c with [] => Err EKeysReq | k => lookup fs k end
            end;
    format_code v c w p.

  Fixpoint run_obj (es : list element) (fs : list (list N * value)) : res (list N) :=
    match es with
    | [] => Ok []
    | EStr s :: t => do r <- run_obj t fs; Ok (s ++ r)
    | ECode c :: t => do o <- step_obj c fs; do r <- run_obj t fs; Ok (o ++ r)
    end.
End Run.

(** The Rust loops stop at the first failing code; [run_arr]/[run_obj] above compute the tail
    first only syntactically ([bind] on the head result comes first), so the FIRST error in
    left-to-right order is the one reported — as in the code. *)

Definition std_format (parse : list N -> res (list element)) (star_of : value -> res N)
           (fc : value -> code -> N -> option N -> res (list N)) (fmt : list N) (t : top) : res (list N) :=
  do es <- parse fmt;
  match t with
  | TArr vs => run_arr star_of fc es vs
  | TObj fs => run_obj fc es fs
  | TOne v => run_arr star_of fc es [v]
  end.

Definition impl_std_format := std_format impl_parse_codes impl_u16_of impl_format_code.
Definition spec_std_format := std_format spec_parse_codes spec_nat_of spec_format_code.

(** number of values a code list consumes *)
Definition need_code (c : code) : nat :=
  ((match c_width c with WStar => 1 | _ => 0 end)
   + (match c_prec c with Some WStar => 1 | _ => 0 end)
   + (match c_type c with GPercent => 0 | _ => 1 end))%nat.
Fixpoint need (es : list element) : nat :=
  match es with
  | [] => 0
  | EStr _ :: t => need t
  | ECode c :: t => (need_code c + need t)%nat
  end.

(* ------------------------------------------------------------------ result projection for the harness *)
(** error classes printed to the correspondence: 0 ok-text, else a small class number *)
Definition err_class (e : err) : N :=
  match e with
  | ETrunc => 1 | EUnrec _ => 2 | ENotEnough => 3 | ETooMany => 4 | EStarObj => 5 | EKeysReq => 6
  | ENoField => 7 | EType => 8 | EChar => 9 | EPanic => 10 | EFuel => 11 | ETooLarge => 12
  end%N.
Definition show (r : res (list N)) : N * list N :=
  match r with Ok s => (0%N, s) | Err e => (err_class e, []) end.
Definition shown_eqb (a b : N * list N) : bool := (fst a =? fst b)%N && list_eqb (snd a) (snd b).
(** (impl result, [] when the spec result is the same else [spec result]) *)
Definition run_case (fmt : list N) (t : top) : (N * list N) * list (N * list N) :=
  let i := show (impl_std_format fmt t) in
  let s := show (spec_std_format fmt t) in
  (i, if shown_eqb i s then [] else [s]).
Definition run_cases (fmt : list N) (ts : list top) := map (run_case fmt) ts.
(** parse only (for widths too large to render inside Coq) *)
Definition parse_class (r : res (list element)) : N := match r with Ok _ => 0%N | Err e => err_class e end.
Definition run_parse (fmt : list N) : N * N :=
  (parse_class (impl_parse_codes fmt), parse_class (spec_parse_codes fmt)).
