(** Statements of the C12 property theorems, pinned: weakening one breaks this file. *)
From Coq Require Import List ZArith NArith Bool.
From JrV Require Import Gen.GenFormat C12.Model C12.Properties.
Import ListNotations.

Check C12_conv_table_ok : forall c, assoc c conv_table = spec_conv c.
Check C12_flag_table_ok : forall c, assoc c flag_table = spec_flag c.
Check C12_lenmod_table_ok : forall c, memN c lenmod_chars = is_lenmod c.
Check C12_parse_refines : forall s, impl_parse_codes s = spec_parse_codes s.
Check C12_width_limit_examples :
  impl_parse_codes [37; 54; 53; 53; 51; 54; 100]%N = Err ETooLarge /\
  impl_parse_codes [37; 54; 53; 53; 51; 53; 100]%N =
    Ok [ECode {| c_mkey := []; c_flags := no_flags; c_width := WFixed 65535; c_prec := None;
                 c_type := GDecimal; c_caps := false |}] /\
  impl_parse_codes [37; 108; 108; 100]%N = Err (EUnrec 108).
Check C12_literal_copied : forall pc so fc s,
  ~ In ch_pct s ->
  std_format (parse_codes pc) so fc s (TArr []) = Ok s /\
  (forall fs, std_format (parse_codes pc) so fc s (TObj fs) = Ok s).
Check C12_percent_consumes_nothing : forall star_of fc c w vals,
  c_type c = GPercent -> c_width c = WFixed w -> c_prec c <> Some WStar ->
  step_arr star_of fc c vals =
  bind (fc (VOpq []) c w (match c_prec c with Some (WFixed n) => Some n | _ => None end))
       (fun out => Ok (out, vals)).
Check C12_values_consumed_ltr : forall star_of fc c vals out rest,
  step_arr star_of fc c vals = Ok (out, rest) ->
  exists used, vals = used ++ rest /\ length used = need_code c /\
               forall rest', step_arr star_of fc c (used ++ rest') = Ok (out, rest').
Check C12_value_count : forall star_of fc es vals,
  (forall out, run_arr star_of fc es vals = Ok out -> length vals = need es) /\
  (length vals <> need es -> exists e, run_arr star_of fc es vals = Err e).
Check C12_int_roundtrip : forall radix z,
  (radix = 8 \/ radix = 10 \/ radix = 16)%Z -> (0 <= z < 2 ^ 63)%Z ->
  read_back radix (rev (impl_digits radix z)) = z /\
  Forall (fun d => (0 <= d < radix)%Z) (impl_digits radix z).
Check C12_int_format_refines : forall v c w p,
  wf_value v -> is_int_conv (c_type c) = true -> known_int_class v c = false ->
  impl_format_tmp v c w p = spec_format_tmp v c w p.
Check C12_i64_saturation_refuted :
  impl_render_decimal false (2 ^ 63) 0 0 false false <> spec_render_int false (2 ^ 63) 0 0 false false 10 [].
Check C12_char_format_refines : forall v c w p,
  wf_value v -> c_type c = GChar -> impl_format_tmp v c w p = spec_format_tmp v c w p.
Check C12_width_exact : forall left w tmp,
  lenN (spec_pad left w tmp) = N.max w (lenN tmp) /\
  exists n, spec_pad left w tmp = if left then tmp ++ repeat ch_space n else repeat ch_space n ++ tmp.
Check C12_pad_refines : forall left w tmp,
  (w <= u16_max)%N -> impl_pad left w tmp = spec_pad left w tmp.
Check C12_g_no_underflow : forall num den padding fpprec b s alt caps,
  (fpprec <= 308)%N -> exists o, impl_render_shorter num den padding fpprec b s alt caps = Ok o.
Check C12_float_pow_overflow_refuted :
  impl_render_float 1 1 0 309 false false false true = Err EPanic /\
  exists o, impl_render_float 1 1 0 308 false false false true = Ok o.
Check C12_obj_mode_rules : forall fc c fs,
  (c_width c = WStar \/ c_prec c = Some WStar -> step_obj fc c fs = Err EStarObj) /\
  (forall w, c_width c = WFixed w -> c_prec c <> Some WStar -> c_type c <> GPercent ->
             c_mkey c = [] -> step_obj fc c fs = Err EKeysReq) /\
  (forall k, field_get k fs = None -> ~ In ch_dot k -> lookup fs k = Err ENoField) /\
  (forall w v, c_width c = WFixed w -> c_prec c <> Some WStar -> c_type c <> GPercent ->
               c_mkey c <> [] -> field_get (c_mkey c) fs = Some v ->
               step_obj fc c fs = fc v c w (match c_prec c with Some (WFixed n) => Some n | _ => None end)).

(** definitions pinned by evaluation *)
Check eq_refl : show (impl_std_format [37; 48; 53; 100]%N (TOne (VNum (-3) 1 []))) = (0%N, [45; 48; 48; 48; 51]%N).
Check eq_refl : show (spec_std_format [37; 35; 120]%N (TOne (VNum 0 1 []))) = (0%N, [48; 120; 48]%N).
Check eq_refl : show (impl_std_format [37; 35; 120]%N (TOne (VNum 0 1 []))) = (0%N, [48; 120; 48]%N).
Check eq_refl : show (impl_std_format [37; 120]%N (TOne (VNum (-3) 2 []))) = (0%N, [45; 50]%N).
Check eq_refl : show (impl_std_format [37; 53; 115]%N (TOne (VStr [233%N]))) = (0%N, [32; 32; 32; 32; 233]%N).
Check eq_refl : show (impl_std_format [37; 99]%N (TOne (VNum (-1) 1 []))) = (9%N, []).
Check eq_refl : show (spec_std_format [37; 46; 51; 101]%N (TOne (VNum 1 2 []))) = (0%N, [53; 46; 48; 48; 48; 101; 45; 48; 49]%N).
Check eq_refl : show (impl_std_format [37]%N (TArr [])) = (1%N, []).
Check eq_refl : show (spec_std_format [37; 115; 32; 37; 115]%N (TArr [VStr [97%N]])) = (3%N, []).
Check eq_refl : show (spec_std_format [37; 115]%N (TArr [VStr [97%N]; VStr [98%N]])) = (4%N, []).
Check eq_refl : run_parse [37; 57; 57; 57; 57; 57; 100]%N = (12%N, 12%N).
Check eq_refl : show (impl_std_format [37; 100]%N (TOne (VNum (10 ^ 30) 1 []))) = (0%N, [57; 50; 50; 51; 51; 55; 50; 48; 51; 54; 56; 53; 52; 55; 55; 53; 56; 48; 55]%N).
