(** Statements of the C12 property theorems, pinned: weakening one breaks this file. *)
From Coq Require Import List ZArith NArith Bool.
From JrV Require Import Gen.GenFormat C12.Model C12.Properties.
Import ListNotations.

Check C12_conv_table_ok : forall c, assoc c conv_table = spec_conv c.
Check C12_flag_table_ok : forall c, assoc c flag_table = spec_flag c.
Check C12_lenmod_table_ok : forall c, memN c lenmod_chars = is_lenmod c.
Check C12_parse_refines : forall s,
  impl_parse_codes s <> Err EPanic -> known_lenmod s = false ->
  impl_parse_codes s = spec_parse_codes s.
Check C12_parse_width_overflow_refuted :
  exists s es, impl_parse_codes s = Err EPanic /\ spec_parse_codes s = Ok es.
Check C12_width_panic_only_if_big : forall s,
  impl_field_width s = Err EPanic ->
  exists n rest, spec_field_width s = Ok (WFixed n, rest) /\ (u16_max < n)%N \/
                 spec_field_width s = Err ETrunc /\ (u16_max < decimal (fst (span is_digit s)))%N.
Check C12_parse_lenmod_refuted :
  exists s es c, impl_parse_codes s = Ok es /\ spec_parse_codes s = Err (EUnrec c) /\ known_lenmod s = true.
Check C12_literal_copied : forall pc so fc s,
  ~ In ch_pct s ->
  std_format (parse_codes pc) so fc s (TArr []) = Ok s /\
  (forall fs, std_format (parse_codes pc) so fc s (TObj fs) = Ok s).
Check C12_percent_consumes_nothing : forall star_of fc c w vals,
  c_type c = GPercent -> c_width c = WFixed w -> c_prec c <> Some WStar ->
  step_arr star_of fc c vals =
  bind (fc (VOpq []) c w (match c_prec c with Some (WFixed n) => Some n | _ => None end))
       (fun out => Ok (out, vals)).
Check C12_values_consumed_ltr : forall star_of fc c vals out rest,
  step_arr star_of fc c vals = Ok (out, rest) ->
  exists used, vals = used ++ rest /\ length used = need_code c /\
               forall rest', step_arr star_of fc c (used ++ rest') = Ok (out, rest').
Check C12_value_count : forall star_of fc es vals,
  (forall out, run_arr star_of fc es vals = Ok out -> length vals = need es) /\
  (length vals <> need es -> exists e, run_arr star_of fc es vals = Err e).
Check C12_int_roundtrip : forall radix z,
  (radix = 8 \/ radix = 10 \/ radix = 16)%Z -> (0 <= z < 2 ^ 63)%Z ->
  read_back radix (rev (impl_digits radix z)) = z /\
  Forall (fun d => (0 <= d < radix)%Z) (impl_digits radix z).
Check C12_int_format_refines : forall v c w p,
  wf_value v -> is_int_conv (c_type c) = true -> known_int_class v c = false ->
  impl_format_tmp v c w p = spec_format_tmp v c w p.
Check C12_hex_alt_zero_refuted :
  impl_render_hex false 0 0 0 true false false false = [48%N] /\
  spec_render_hex 0 0 0 false false true false = [48%N; 120%N; 48%N].
Check C12_i64_saturation_refuted :
  impl_render_decimal false (2 ^ 63) 0 0 false false <> spec_render_int false (2 ^ 63) 0 0 false false 10 [].
Check C12_hex_negative_fraction_refuted :
  exists v c, wf_value v /\ known_int_class v c = true /\
    impl_format_tmp v c 0 None = Ok [45; 49]%N /\ spec_format_tmp v c 0 None = Ok [45; 50]%N.
Check C12_width_exact : forall left w tmp,
  lenN (spec_pad left w tmp) = N.max w (lenN tmp) /\
  exists n, spec_pad left w tmp = if left then tmp ++ repeat ch_space n else repeat ch_space n ++ tmp.
Check C12_pad_refines_ascii : forall left w tmp,
  Forall (fun c => (c < 128)%N) tmp -> (lenN tmp < 65536)%N ->
  impl_pad left w tmp = spec_pad left w tmp.
Check C12_width_bytes_refuted :
  lenN (impl_pad false 5 [233%N]) = 4%N /\ lenN (spec_pad false 5 [233%N]) = 5%N.
Check C12_g_underflow_refuted :
  impl_render_shorter 1 2 0 0 false false false false = Err EPanic /\
  spec_render_shorter 1 2 0 0 false false false false = [49]%N.
Check C12_obj_mode_rules : forall fc c fs,
  (c_width c = WStar \/ c_prec c = Some WStar -> step_obj fc c fs = Err EStarObj) /\
  (forall w, c_width c = WFixed w -> c_prec c <> Some WStar -> c_type c <> GPercent ->
             c_mkey c = [] -> step_obj fc c fs = Err EKeysReq) /\
  (forall k, field_get k fs = None -> ~ In ch_dot k -> lookup fs k = Err ENoField) /\
  (forall w v, c_width c = WFixed w -> c_prec c <> Some WStar -> c_type c <> GPercent ->
               c_mkey c <> [] -> field_get (c_mkey c) fs = Some v ->
               step_obj fc c fs = fc v c w (match c_prec c with Some (WFixed n) => Some n | _ => None end)).

(** definitions pinned by evaluation *)
Check eq_refl : show (impl_std_format [37; 48; 53; 100]%N (TOne (VNum (-3) 1 []))) = (0%N, [45; 48; 48; 48; 51]%N).
Check eq_refl : show (spec_std_format [37; 35; 120]%N (TOne (VNum 0 1 []))) = (0%N, [48; 120; 48]%N).
Check eq_refl : show (impl_std_format [37; 35; 120]%N (TOne (VNum 0 1 []))) = (0%N, [48]%N).
Check eq_refl : show (spec_std_format [37; 46; 51; 101]%N (TOne (VNum 1 2 []))) = (0%N, [53; 46; 48; 48; 48; 101; 45; 48; 49]%N).
Check eq_refl : show (impl_std_format [37]%N (TArr [])) = (1%N, []).
Check eq_refl : show (spec_std_format [37; 115; 32; 37; 115]%N (TArr [VStr [97%N]])) = (3%N, []).
Check eq_refl : show (spec_std_format [37; 115]%N (TArr [VStr [97%N]; VStr [98%N]])) = (4%N, []).
Check eq_refl : run_parse [37; 57; 57; 57; 57; 57; 100]%N = (10%N, 0%N, false).
