(** Statements of the C12 source-tie theorems, pinned: weakening one breaks this file. *)
From Coq Require Import List ZArith NArith Bool.
From JrV Require Import Gen.GenFormat Gen.GenFormatParse C12.Model C12.ModelSource C12.PropertiesSource.
Import ListNotations.

Check C12_model_is_translated_source_subparsers : forall s,
  gen_mapping_key s = impl_mapping_key s /\ gen_cflags s = impl_cflags s /\
  gen_field_width s = impl_field_width s /\ gen_precision s = impl_precision s /\
  gen_lenmod s = impl_lenmod s /\ gen_convtype s = impl_convtype s.
Check C12_model_is_translated_source_parse_code : forall s, gen_parse_code s = impl_parse_code s.
Check C12_model_is_translated_source_parser : forall s, gen_parse_codes s = impl_parse_codes s.
Check C12_model_is_translated_source_arr : forall star_of fc,
  (forall c vals, gen_step_arr star_of fc c vals = step_arr star_of fc c vals) /\
  (forall es vals, gen_run_arr star_of fc es vals = run_arr star_of fc es vals).
Check C12_model_is_translated_source_obj : forall fc,
  (forall c fs, gen_step_obj fc c fs = step_obj fc c fs) /\
  (forall es fs, gen_run_obj fc es fs = run_obj fc es fs).
Check C12_model_is_translated_source_format : forall fmt t, src_std_format fmt t = impl_std_format fmt t.
Check C12_source_parse_refines : forall s, src_parse_codes s = spec_parse_codes s.
Check C12_source_values_consumed_ltr : forall star_of fc c vals out rest,
  gen_step_arr star_of fc c vals = Ok (out, rest) ->
  exists used, vals = used ++ rest /\ length used = need_code c /\
               forall rest', gen_step_arr star_of fc c (used ++ rest') = Ok (out, rest').
Check C12_source_value_count : forall star_of fc es vals,
  (forall out, gen_run_arr star_of fc es vals = Ok out -> length vals = need es) /\
  (length vals <> need es -> exists e, gen_run_arr star_of fc es vals = Err e).
Check C12_source_percent_consumes_nothing : forall star_of fc c w vals,
  c_type c = GPercent -> c_width c = WFixed w -> c_prec c <> Some WStar ->
  gen_step_arr star_of fc c vals =
  bind (fc (VOpq []) c w (match c_prec c with Some (WFixed n) => Some n | _ => None end))
       (fun out => Ok (out, vals)).

(** definitions pinned: the assembled translated std.format really is built from the Gen functions *)
Check eq_refl : src_parse_codes = gen_parse_codes.
Check eq_refl : src_std_format [37; 37]%N (TArr []) = Ok [37%N].
Check eq_refl : src_std_format [37; 42; 100]%N (TArr [VNum 3 1 []; VNum 7 1 []]) = Ok [32; 32; 55]%N.
Check eq_refl : src_run_parse [37; 108; 108; 100]%N = (2, 2)%N.
