(** C12 — source tie, property theorems only.  Gen/GenFormatParse.v is re-translated from the
    statements of stdlib/format.rs on every run; these theorems are re-checked against it.
    Each is closed by [exact] of a lemma from ProofsSource.v and followed by [Print Assumptions];
    statements are pinned again in PinsSource.v. *)
From Coq Require Import List ZArith NArith Bool.
From JrV Require Import Gen.GenFormat Gen.GenFormatParse C12.Model C12.ModelSource C12.ProofsSource.
Import ListNotations.

(** The six sub-parsers translated from try_parse_mapping_key / try_parse_cflags /
    try_parse_field_width / try_parse_precision / try_parse_length_modifier / parse_conversion_type
    (their loops over flag characters and digits, the checked u16 accumulation, `*`, `.`, the single
    optional length modifier, every truncation return) are the hand model's, for EVERY string. *)
Theorem C12_model_is_translated_source_subparsers : forall s,
  gen_mapping_key s = impl_mapping_key s /\ gen_cflags s = impl_cflags s /\
  gen_field_width s = impl_field_width s /\ gen_precision s = impl_precision s /\
  gen_lenmod s = impl_lenmod s /\ gen_convtype s = impl_convtype s.
Proof.
  intros s. exact (conj (src_mapping_key s) (conj (src_cflags s) (conj (src_field_width s)
         (conj (src_precision s) (conj (src_lenmod s) (src_convtype s)))))).
Qed.
Print Assumptions C12_model_is_translated_source_subparsers.

(** parse_code: the order of the try_parse_* calls and the fields of the Code record. *)
Theorem C12_model_is_translated_source_parse_code : forall s, gen_parse_code s = impl_parse_code s.
Proof. exact src_parse_code. Qed.
Print Assumptions C12_model_is_translated_source_parse_code.

(** parse_codes: literal runs, the `%` introducer, the loop over codes. *)
Theorem C12_model_is_translated_source_parser : forall s, gen_parse_codes s = impl_parse_codes s.
Proof. exact src_parse_codes_eq. Qed.
Print Assumptions C12_model_is_translated_source_parser.

(** format_arr: the value-slice bookkeeping of one code (`*` width, `*` precision, the value, `%%`),
    and the loop with its leftover test — for all codes, all value lists, any renderer. *)
Theorem C12_model_is_translated_source_arr : forall star_of fc,
  (forall c vals, gen_step_arr star_of fc c vals = step_arr star_of fc c vals) /\
  (forall es vals, gen_run_arr star_of fc es vals = run_arr star_of fc es vals).
Proof. intros so fc. exact (conj (src_step_arr so fc) (src_run_arr so fc)). Qed.
Print Assumptions C12_model_is_translated_source_arr.

(** format_obj: `*` refused, mapping key required, field lookup then dotted path. *)
Theorem C12_model_is_translated_source_obj : forall fc,
  (forall c fs, gen_step_obj fc c fs = step_obj fc c fs) /\
  (forall es fs, gen_run_obj fc es fs = run_obj fc es fs).
Proof. intros fc. exact (conj (src_step_obj fc) (src_run_obj fc)). Qed.
Print Assumptions C12_model_is_translated_source_obj.

(** std.format assembled from the translated functions is the hand model, for ALL format
    strings (code-point lists) and ALL right-hand values. *)
Theorem C12_model_is_translated_source_format : forall fmt t, src_std_format fmt t = impl_std_format fmt t.
Proof. exact src_std_format_eq. Qed.
Print Assumptions C12_model_is_translated_source_format.

(** Corollary: the TRANSLATED parser refines the printf grammar SPEC, for every string. *)
Theorem C12_source_parse_refines : forall s, src_parse_codes s = spec_parse_codes s.
Proof. exact src_parse_refines. Qed.
Print Assumptions C12_source_parse_refines.

(** Corollaries: value consumption exactness of the TRANSLATED format_arr. *)
Theorem C12_source_values_consumed_ltr : forall star_of fc c vals out rest,
  gen_step_arr star_of fc c vals = Ok (out, rest) ->
  exists used, vals = used ++ rest /\ length used = need_code c /\
               forall rest', gen_step_arr star_of fc c (used ++ rest') = Ok (out, rest').
Proof. exact src_step_arr_consumes. Qed.
Print Assumptions C12_source_values_consumed_ltr.

Theorem C12_source_value_count : forall star_of fc es vals,
  (forall out, gen_run_arr star_of fc es vals = Ok out -> length vals = need es) /\
  (length vals <> need es -> exists e, gen_run_arr star_of fc es vals = Err e).
Proof. exact src_value_count. Qed.
Print Assumptions C12_source_value_count.

Theorem C12_source_percent_consumes_nothing : forall star_of fc c w vals,
  c_type c = GPercent -> c_width c = WFixed w -> c_prec c <> Some WStar ->
  gen_step_arr star_of fc c vals =
  bind (fc (VOpq []) c w (match c_prec c with Some (WFixed n) => Some n | _ => None end))
       (fun out => Ok (out, vals)).
Proof. exact src_percent_consumes_nothing. Qed.
Print Assumptions C12_source_percent_consumes_nothing.

(* ------------------------------------------------------------------ non-vacuity *)
(** "%(k)#05.3ld" through the translated parser: key, two flags, width, precision, one modifier. *)
Example C12_source_parser_nonvacuous :
  gen_parse_codes [120; 37; 40; 107; 41; 35; 48; 53; 46; 51; 108; 100; 121]%N =
  Ok [EStr [120%N];
      ECode {| c_mkey := [107%N]; c_flags := set_flag FZero (set_flag FAlt no_flags); c_width := WFixed 5;
               c_prec := Some (WFixed 3); c_type := GDecimal; c_caps := false |};
      EStr [121%N]] /\
  gen_parse_codes [37; 53]%N = Err ETrunc /\
  gen_parse_codes [37; 54; 53; 53; 51; 54; 100]%N = Err ETooLarge /\
  gen_parse_codes [37; 108; 108; 100]%N = Err (EUnrec 108).
Proof. repeat split; vm_compute; reflexivity. Qed.

(** "%*.*f|%%|%s" % [8, 2, 3.14159, "x"]: three values for the first code, none for `%%`, one for `%s`;
    one value short / one too many are the two count errors. *)
Example C12_source_format_nonvacuous :
  let fmt := [37; 42; 46; 42; 102; 124; 37; 37; 124; 37; 115]%N in
  src_std_format fmt (TArr [VNum 8 1 []; VNum 2 1 []; VNum 314159 100000 []; VStr [120%N]]) =
    Ok [32; 32; 32; 32; 51; 46; 49; 52; 124; 37; 124; 120]%N /\
  src_std_format fmt (TArr [VNum 8 1 []; VNum 2 1 []; VNum 314159 100000 []]) = Err ENotEnough /\
  src_std_format fmt (TArr [VNum 8 1 []; VNum 2 1 []; VNum 314159 100000 []; VStr [120%N]; VStr []]) = Err ETooMany /\
  src_std_format [37; 40; 97; 41; 100]%N (TObj [([97%N], VNum 7 1 [])]) = Ok [55%N] /\
  src_std_format [37; 42; 100]%N (TObj [([97%N], VNum 7 1 [])]) = Err EStarObj /\
  src_std_format [37; 100]%N (TObj [([97%N], VNum 7 1 [])]) = Err EKeysReq.
Proof. cbv zeta. repeat split; vm_compute; reflexivity. Qed.

Example C12_source_values_consumed_nonvacuous :
  exists out, gen_step_arr impl_u16_of impl_format_code
    {| c_mkey := []; c_flags := no_flags; c_width := WStar; c_prec := Some WStar; c_type := GFloat; c_caps := false |}
    [VNum 8 1 []; VNum 2 1 []; VNum 314159 100000 []; VStr [120%N]] = Ok (out, [VStr [120%N]]).
Proof. eexists. vm_compute. reflexivity. Qed.
