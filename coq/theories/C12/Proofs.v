(** C12 — lemmas.  Parser: the transliterated u16 parser refines the grammar; integer
    renderers: digit vector round trip, the saturating u16 padding arithmetic equals
    std.jsonnet's render_int / render_hex; value consumption of format_arr; object mode. *)
From Coq Require Import List ZArith NArith Lia Bool.
From JrV Require Import Gen.GenFormat C12.Model.
Import ListNotations.
Open Scope N_scope.
Ltac Zify.zify_post_hook ::= Z.div_mod_to_equations.

Lemma key_scan_span : forall s acc,
  key_scan s acc =
  match snd (span (fun x => negb (x =? ch_rparen)) s) with
  | [] => Err ETrunc
  | _ :: rest => Ok (rev acc ++ fst (span (fun x => negb (x =? ch_rparen)) s), rest)
  end.
Proof.
  induction s as [|c t IH]; intros acc; cbn [key_scan span].
  - reflexivity.
  - destruct (c =? ch_rparen) eqn:E; cbn [negb fst snd].
    + rewrite app_nil_r. reflexivity.
    + rewrite IH. cbn [rev]. destruct (snd (span _ t)); [reflexivity|].
      rewrite <- app_assoc. reflexivity.
Qed.

Lemma mapping_key_refines : forall s, impl_mapping_key s = spec_mapping_key s.
Proof.
  intros [|c t]; [reflexivity|]. unfold impl_mapping_key, spec_mapping_key.
  destruct (c =? ch_lparen); [|reflexivity]. rewrite key_scan_span. reflexivity.
Qed.

Lemma flag_table_ok : forall c, assoc c flag_table = spec_flag c.
Proof.
  intros c. unfold spec_flag.
  destruct (c =? 35) eqn:E1; [apply N.eqb_eq in E1; subst; reflexivity|].
  destruct (c =? 48) eqn:E2; [apply N.eqb_eq in E2; subst; reflexivity|].
  destruct (c =? 45) eqn:E3; [apply N.eqb_eq in E3; subst; reflexivity|].
  destruct (c =? 32) eqn:E4; [apply N.eqb_eq in E4; subst; reflexivity|].
  destruct (c =? 43) eqn:E5; [apply N.eqb_eq in E5; subst; reflexivity|].
  unfold flag_table; cbn [assoc]. rewrite ?E1, ?E2, ?E3, ?E4, ?E5. reflexivity.
Qed.

Lemma is_flag_spec : forall c, is_flag c = match spec_flag c with Some _ => true | None => false end.
Proof.
  intros c. unfold is_flag, spec_flag.
  destruct (c =? 35), (c =? 48), (c =? 45), (c =? 32), (c =? 43); reflexivity.
Qed.

Definition add_flag (f : cflags) (c : N) : cflags :=
  match spec_flag c with Some g => set_flag g f | None => f end.

Lemma cflags_loop_span : forall s f,
  impl_cflags_loop s f =
  match snd (span is_flag s) with
  | [] => Err ETrunc
  | _ => Ok (fold_left add_flag (fst (span is_flag s)) f, snd (span is_flag s))
  end.
Proof.
  induction s as [|c t IH]; intros f; cbn [impl_cflags_loop span]; [reflexivity|].
  rewrite flag_table_ok, is_flag_spec. unfold add_flag at 1.
  destruct (spec_flag c) eqn:E; cbn [fst snd].
  - rewrite IH. cbn [fold_left]. unfold add_flag at 1. rewrite E. reflexivity.
  - reflexivity.
Qed.
Lemma add_flags_proj : forall fs f,
  fold_left add_flag fs f =
  {| f_alt := f_alt f || memN 35 fs; f_zero := f_zero f || memN 48 fs; f_left := f_left f || memN 45 fs;
     f_blank := f_blank f || memN 32 fs; f_sign := f_sign f || memN 43 fs |}.
Proof.
  induction fs as [|c t IH]; intros f; cbn [fold_left memN].
  - destruct f; cbn. rewrite !orb_false_r. reflexivity.
  - rewrite IH. unfold add_flag, spec_flag.
    rewrite (N.eqb_sym 35 c), (N.eqb_sym 48 c), (N.eqb_sym 45 c), (N.eqb_sym 32 c), (N.eqb_sym 43 c).
    destruct (c =? 35) eqn:E1; [apply N.eqb_eq in E1; subst; cbn; rewrite ?orb_true_r; reflexivity|].
    destruct (c =? 48) eqn:E2; [apply N.eqb_eq in E2; subst; cbn; rewrite ?orb_true_r; reflexivity|].
    destruct (c =? 45) eqn:E3; [apply N.eqb_eq in E3; subst; cbn; rewrite ?orb_true_r; reflexivity|].
    destruct (c =? 32) eqn:E4; [apply N.eqb_eq in E4; subst; cbn; rewrite ?orb_true_r; reflexivity|].
    destruct (c =? 43) eqn:E5; [apply N.eqb_eq in E5; subst; cbn; rewrite ?orb_true_r; reflexivity|].
    cbn. reflexivity.
Qed.

Lemma cflags_refines : forall s, impl_cflags s = spec_cflags s.
Proof.
  intros s. unfold impl_cflags, spec_cflags. rewrite cflags_loop_span, add_flags_proj. reflexivity.
Qed.
Lemma digit_of_spec : forall c, digit_of c = if is_digit c then Some (c - 48) else None.
Proof. reflexivity. Qed.

Definition dec_step (a d : N) : N := 10 * a + (d - 48).

Lemma width_loop_span : forall s out,
  impl_width_loop s out = Err EPanic \/
  impl_width_loop s out =
  match snd (span is_digit s) with
  | [] => Err ETrunc
  | _ => Ok (fold_left dec_step (fst (span is_digit s)) out, snd (span is_digit s))
  end.
Proof.
  induction s as [|c t IH]; intros out; cbn [impl_width_loop span]; [right; reflexivity|].
  rewrite digit_of_spec. destruct (is_digit c) eqn:D; cbn [fst snd]; [|right; reflexivity].
  unfold chk16. destruct (out * 10 <=? u16_max) eqn:C1; [|left; reflexivity].
  destruct (out * 10 + (c - 48) <=? u16_max) eqn:C2; [|left; reflexivity].
  destruct (IH (out * 10 + (c - 48))) as [P|E]; [left; exact P|right].
  rewrite E. cbn [fold_left]. replace (dec_step out c) with (out * 10 + (c - 48)) by (unfold dec_step; lia). reflexivity.
Qed.

Lemma field_width_refines : forall s,
  impl_field_width s = Err EPanic \/ impl_field_width s = spec_field_width s.
Proof.
  intros [|c t]; [right; reflexivity|]. unfold impl_field_width, spec_field_width.
  destruct (c =? ch_star); [right; reflexivity|].
  destruct (width_loop_span (c :: t) 0) as [P|E]; [left; rewrite P; reflexivity|right].
  rewrite E. unfold decimal. fold dec_step.
  destruct (snd (span is_digit (c :: t))); reflexivity.
Qed.

Lemma precision_refines : forall s,
  impl_precision s = Err EPanic \/ impl_precision s = spec_precision s.
Proof.
  intros [|c t]; [right; reflexivity|]. unfold impl_precision, spec_precision.
  destruct (c =? ch_dot); [|right; reflexivity].
  destruct (field_width_refines t) as [P|E]; [left; rewrite P; reflexivity|right; rewrite E; reflexivity].
Qed.

Lemma conv_table_ok : forall c, assoc c conv_table = spec_conv c.
Proof.
  intros c. unfold spec_conv.
  destruct (c =? 100) eqn:E1; [apply N.eqb_eq in E1; subst; reflexivity|].
  destruct (c =? 105) eqn:E2; [apply N.eqb_eq in E2; subst; reflexivity|].
  destruct (c =? 117) eqn:E3; [apply N.eqb_eq in E3; subst; reflexivity|].
  destruct (c =? 111) eqn:E4; [apply N.eqb_eq in E4; subst; reflexivity|].
  destruct (c =? 120) eqn:E5; [apply N.eqb_eq in E5; subst; reflexivity|].
  destruct (c =? 88) eqn:E6; [apply N.eqb_eq in E6; subst; reflexivity|].
  destruct (c =? 101) eqn:E7; [apply N.eqb_eq in E7; subst; reflexivity|].
  destruct (c =? 69) eqn:E8; [apply N.eqb_eq in E8; subst; reflexivity|].
  destruct (c =? 102) eqn:E9; [apply N.eqb_eq in E9; subst; reflexivity|].
  destruct (c =? 70) eqn:E10; [apply N.eqb_eq in E10; subst; reflexivity|].
  destruct (c =? 103) eqn:E11; [apply N.eqb_eq in E11; subst; reflexivity|].
  destruct (c =? 71) eqn:E12; [apply N.eqb_eq in E12; subst; reflexivity|].
  destruct (c =? 99) eqn:E13; [apply N.eqb_eq in E13; subst; reflexivity|].
  destruct (c =? 115) eqn:E14; [apply N.eqb_eq in E14; subst; reflexivity|].
  destruct (c =? 37) eqn:E15; [apply N.eqb_eq in E15; subst; reflexivity|].
  unfold conv_table; cbn [assoc orb].
  rewrite ?E1, ?E2, ?E3, ?E4, ?E5, ?E6, ?E7, ?E8, ?E9, ?E10, ?E11, ?E12, ?E13, ?E14, ?E15. reflexivity.
Qed.

Lemma lenmod_table_ok : forall c, memN c lenmod_chars = is_lenmod c.
Proof.
  intros c. unfold is_lenmod.
  destruct (c =? 104) eqn:E1; [apply N.eqb_eq in E1; subst; reflexivity|].
  destruct (c =? 108) eqn:E2; [apply N.eqb_eq in E2; subst; reflexivity|].
  destruct (c =? 76) eqn:E3; [apply N.eqb_eq in E3; subst; reflexivity|].
  unfold lenmod_chars; cbn [memN]. rewrite ?E1, ?E2, ?E3. reflexivity.
Qed.

Lemma lenmod_not_conv : forall c, is_lenmod c = true -> spec_conv c = None.
Proof.
  intros c. unfold is_lenmod.
  destruct (c =? 104) eqn:E1; [apply N.eqb_eq in E1; subst; reflexivity|].
  destruct (c =? 108) eqn:E2; [apply N.eqb_eq in E2; subst; reflexivity|].
  destruct (c =? 76) eqn:E3; [apply N.eqb_eq in E3; subst; reflexivity|].
  discriminate.
Qed.

Lemma convtype_refines : forall s, impl_convtype s = spec_convtype s.
Proof. intros [|c t]; [reflexivity|]. unfold impl_convtype, spec_convtype. rewrite conv_table_ok. reflexivity. Qed.

Lemma lenmod_conv_refines : forall s,
  (exists c, is_lenmod c = true /\ bind (spec_lenmod s) spec_convtype = Err (EUnrec c)) \/
  bind (impl_lenmod s) impl_convtype = bind (spec_lenmod s) spec_convtype.
Proof.
  intros [|c t]; [right; reflexivity|].
  cbn [impl_lenmod spec_lenmod]. rewrite lenmod_table_ok.
  destruct (is_lenmod c) eqn:L.
  - destruct t as [|c2 t2]; [right; reflexivity|].
    cbn [impl_lenmod]. rewrite lenmod_table_ok.
    destruct (is_lenmod c2) eqn:L2.
    + left. exists c2. split; [exact L2|]. cbn [bind spec_convtype]. rewrite (lenmod_not_conv _ L2). reflexivity.
    + right. cbn [bind]. apply convtype_refines.
  - right. cbn [bind]. apply convtype_refines.
Qed.

Lemma bind_assoc : forall A B C (r : res A) (f : A -> res B) (g : B -> res C),
  bind (bind r f) g = bind r (fun a => bind (f a) g).
Proof. intros. destruct r; reflexivity. Qed.

Lemma parse_code_refines : forall s,
  impl_parse_code s = Err EPanic \/
  (exists c, is_lenmod c = true /\ spec_parse_code s = Err (EUnrec c)) \/
  impl_parse_code s = spec_parse_code s.
Proof.
  intros s. unfold impl_parse_code, spec_parse_code.
  rewrite mapping_key_refines. destruct (spec_mapping_key s) as [[k r1]|e]; cbn [bind fst snd]; [|auto].
  rewrite cflags_refines. destruct (spec_cflags r1) as [[f r2]|e]; cbn [bind fst snd]; [|auto].
  destruct (field_width_refines r2) as [P|E]; [left; rewrite P; reflexivity|rewrite E].
  destruct (spec_field_width r2) as [[w r3]|e]; cbn [bind fst snd]; [|auto].
  destruct (precision_refines r3) as [P|E2]; [left; rewrite P; reflexivity|rewrite E2].
  destruct (spec_precision r3) as [[p r4]|e]; cbn [bind fst snd]; [|auto].
  rewrite <- !bind_assoc.
  destruct (lenmod_conv_refines r4) as [[c [L S]]|E3].
  - right; left. exists c. split; [exact L|]. rewrite S. reflexivity.
  - right; right. rewrite E3. reflexivity.
Qed.
Lemma parse_codes_f_refines : forall fuel s,
  parse_codes_f impl_parse_code fuel s <> Err EPanic ->
  (forall c, is_lenmod c = true -> parse_codes_f spec_parse_code fuel s <> Err (EUnrec c)) ->
  parse_codes_f impl_parse_code fuel s = parse_codes_f spec_parse_code fuel s.
Proof.
  induction fuel as [|f IH]; intros s H1 H2; [reflexivity|].
  cbn [parse_codes_f] in *.
  destruct (snd (lit_span s)) as [|p after]; [reflexivity|].
  destruct (parse_code_refines after) as [P|[[c [L S]]|E]].
  - exfalso. apply H1. rewrite P. reflexivity.
  - exfalso. apply (H2 c L). rewrite S. reflexivity.
  - rewrite E in *. destruct (spec_parse_code after) as [[cd rest]|e]; [|reflexivity].
    rewrite IH; [reflexivity| |].
    + intro X. apply H1. rewrite X. reflexivity.
    + intros c L X. apply (H2 c L). rewrite X. reflexivity.
Qed.

Lemma parse_refines : forall s,
  impl_parse_codes s <> Err EPanic -> known_lenmod s = false ->
  impl_parse_codes s = spec_parse_codes s.
Proof.
  intros s H1 H2. unfold impl_parse_codes, spec_parse_codes, parse_codes in *.
  apply parse_codes_f_refines; [exact H1|].
  intros c L X. unfold known_lenmod, spec_parse_codes, parse_codes in H2. rewrite X in H2. congruence.
Qed.

(* refutations *)
Lemma parse_width_overflow_refuted :
  exists s es, impl_parse_codes s = Err EPanic /\ spec_parse_codes s = Ok es.
Proof. exists [37; 54; 53; 53; 51; 54; 100]. eexists. split; vm_compute; reflexivity. Qed.

Lemma parse_lenmod_refuted :
  exists s es c, impl_parse_codes s = Ok es /\ spec_parse_codes s = Err (EUnrec c) /\ known_lenmod s = true.
Proof. exists [37; 108; 108; 100]. eexists. eexists. repeat split; vm_compute; reflexivity. Qed.
Lemma fold_dec_ge : forall l a, a <= fold_left dec_step l a.
Proof.
  induction l as [|d t IH]; intros a; cbn [fold_left]; [lia|].
  specialize (IH (dec_step a d)). unfold dec_step in *. lia.
Qed.

(** the u16 accumulator overflows only when the width the grammar reads is above 65535 *)
Lemma width_panic_only_if_big : forall s out,
  impl_width_loop s out = Err EPanic ->
  u16_max < fold_left dec_step (fst (span is_digit s)) out.
Proof.
  induction s as [|c t IH]; intros out H; cbn [impl_width_loop span] in *; [discriminate|].
  rewrite digit_of_spec in H. destruct (is_digit c) eqn:D; [|discriminate].
  cbn [fst fold_left]. unfold chk16 in H.
  destruct (out * 10 <=? u16_max) eqn:C1.
  - destruct (out * 10 + (c - 48) <=? u16_max) eqn:C2.
    + replace (dec_step out c) with (out * 10 + (c - 48)) by (unfold dec_step; lia). apply IH. exact H.
    + apply N.leb_gt in C2. pose proof (fold_dec_ge (fst (span is_digit t)) (dec_step out c)).
      unfold dec_step in *. lia.
  - apply N.leb_gt in C1. pose proof (fold_dec_ge (fst (span is_digit t)) (dec_step out c)).
    unfold dec_step in *. lia.
Qed.

Lemma field_width_panic_only_if_big : forall s,
  impl_field_width s = Err EPanic ->
  exists n rest, spec_field_width s = Ok (WFixed n, rest) /\ u16_max < n \/ spec_field_width s = Err ETrunc /\ u16_max < decimal (fst (span is_digit s)).
Proof.
  intros [|c t] H; [discriminate|]. unfold impl_field_width, spec_field_width in *.
  destruct (c =? ch_star); [discriminate|].
  destruct (impl_width_loop (c :: t) 0) as [[n r]|e] eqn:W; [discriminate|].
  cbn [bind] in H. inversion H; subst.
  pose proof (width_panic_only_if_big _ _ W) as B. fold dec_step in B.
  exists (decimal (fst (span is_digit (c :: t)))), (snd (span is_digit (c :: t))).
  unfold decimal. fold dec_step.
  destruct (snd (span is_digit (c :: t))); [right|left]; split; try reflexivity; exact B.
Qed.

Open Scope Z_scope.

Definition lsf_value (radix : Z) (l : list Z) : Z := fold_right (fun d a => a * radix + d) 0 l.

Lemma read_back_rev : forall radix l, read_back radix (rev l) = lsf_value radix l.
Proof.
  intros. unfold read_back, lsf_value.
  rewrite <- (rev_involutive l) at 2. rewrite fold_left_rev_right. reflexivity.
Qed.

Lemma pow2_succ : forall f, 2 ^ Z.of_nat (S f) = 2 * 2 ^ Z.of_nat f.
Proof. intros. rewrite Nat2Z.inj_succ, Z.pow_succ_r by lia. reflexivity. Qed.

Lemma div_radix_bound : forall r v P, 2 <= r -> 0 <= v < 2 * P -> 0 <= v / r < P.
Proof. intros r v P Hr Hv. split; [apply Z.div_pos; lia|]. apply Z.div_lt_upper_bound; nia. Qed.

Lemma digits_loop_value : forall fuel radix v, 2 <= radix -> 0 <= v < 2 ^ Z.of_nat fuel ->
  lsf_value radix (digits_loop fuel radix v) = v.
Proof.
  induction fuel as [|f IH]; intros radix v Hr Hv.
  - cbn in *. lia.
  - cbn [digits_loop]. destruct (v =? 0) eqn:E; [apply Z.eqb_eq in E; subst; reflexivity|].
    cbn [lsf_value fold_right]. fold (lsf_value radix (digits_loop f radix (v / radix))).
    rewrite IH; [|exact Hr|apply div_radix_bound; [exact Hr|rewrite <- pow2_succ; exact Hv]].
    pose proof (Z.div_mod v radix ltac:(lia)). lia.
Qed.

Lemma digits_loop_range : forall fuel radix v, 2 <= radix -> 0 <= v ->
  Forall (fun d => 0 <= d < radix) (digits_loop fuel radix v).
Proof.
  induction fuel as [|f IH]; intros radix v Hr Hv; cbn [digits_loop]; [constructor|].
  destruct (v =? 0); [constructor|]. constructor.
  - apply Z.mod_pos_bound. lia.
  - apply IH; [exact Hr|apply Z.div_pos; lia].
Qed.

Lemma int_roundtrip : forall radix z,
  (radix = 8 \/ radix = 10 \/ radix = 16) -> 0 <= z < 2 ^ 63 ->
  read_back radix (rev (impl_digits radix z)) = z /\
  Forall (fun d => 0 <= d < radix) (impl_digits radix z).
Proof.
  intros radix z Hr Hz. assert (2 <= radix) by lia. unfold impl_digits.
  destruct (z =? 0) eqn:E.
  - apply Z.eqb_eq in E. subst. split; [cbn; lia|]. constructor; [lia|constructor].
  - split.
    + rewrite read_back_rev. apply digits_loop_value; [assumption|].
      change (Z.of_nat 64) with 64. lia.
    + apply digits_loop_range; lia.
Qed.

(* the digit vector, reversed, is std.jsonnet's aux(n) *)
Lemma digits_loop_spec : forall f1 f2 radix v, 2 <= radix ->
  0 <= v < 2 ^ Z.of_nat f1 -> v < 2 ^ Z.of_nat f2 ->
  rev (digits_loop f1 radix v) = spec_digits_f f2 radix v.
Proof.
  induction f1 as [|f1 IH]; intros f2 radix v Hr H1 H2.
  - cbn in H1. assert (v = 0) by lia. subst. destruct f2; reflexivity.
  - cbn [digits_loop]. destruct f2 as [|f2].
    + cbn in H2. assert (v = 0) by lia. subst. reflexivity.
    + cbn [spec_digits_f]. destruct (v =? 0) eqn:E.
      * apply Z.eqb_eq in E. subst. reflexivity.
      * apply Z.eqb_neq in E. replace (v <=? 0) with false by (symmetry; apply Z.leb_gt; lia).
        cbn [rev]. rewrite (IH f2); [reflexivity|exact Hr| |].
        -- apply div_radix_bound; [exact Hr|rewrite <- pow2_succ; exact H1].
        -- apply div_radix_bound; [exact Hr|rewrite <- pow2_succ; lia].
Qed.

Lemma log2_fuel : forall n, 0 < n -> n < 2 ^ Z.of_nat (S (Z.to_nat (Z.log2 n))).
Proof.
  intros n Hn. rewrite Nat2Z.inj_succ, Z2Nat.id by apply Z.log2_nonneg.
  apply Z.log2_spec. exact Hn.
Qed.

Lemma digit_char_spec : forall caps d, 0 <= d < 16 -> digit_char caps d = spec_digit_char caps d.
Proof.
  intros caps d H.
  assert (C : d = 0 \/ d = 1 \/ d = 2 \/ d = 3 \/ d = 4 \/ d = 5 \/ d = 6 \/ d = 7 \/ d = 8 \/ d = 9 \/
              d = 10 \/ d = 11 \/ d = 12 \/ d = 13 \/ d = 14 \/ d = 15) by lia.
  repeat (destruct C as [C|C]; [subst; destruct caps; reflexivity|]). subst; destruct caps; reflexivity.
Qed.

Lemma numeral_refines : forall caps radix iv,
  (radix = 8 \/ radix = 10 \/ radix = 16) -> 0 <= iv < 2 ^ 63 ->
  map (digit_char caps) (rev (impl_digits radix iv)) = spec_numeral caps radix iv.
Proof.
  intros caps radix iv Hr Hz. assert (2 <= radix) by lia.
  unfold impl_digits, spec_numeral. destruct (iv =? 0) eqn:E; [destruct caps; reflexivity|].
  apply Z.eqb_neq in E. unfold spec_digits.
  rewrite <- (digits_loop_spec 64); [| lia | change (Z.of_nat 64) with 64; lia | apply log2_fuel; lia].
  apply map_ext_in. intros d Hd. apply digit_char_spec.
  apply in_rev in Hd.
  pose proof (digits_loop_range 64 radix iv ltac:(lia) ltac:(lia)) as F.
  rewrite Forall_forall in F. specialize (F d Hd). lia.
Qed.
Lemma sat_small : forall iv, 0 <= iv < 2 ^ 63 -> sat_i64 iv = iv.
Proof. intros. unfold sat_i64, i64_max. lia. Qed.

Lemma repeat_eq : forall (c : N) a b, a = b -> repeat c a = repeat c b.
Proof. intros; subst; reflexivity. Qed.

Lemma spec_numeral_len : forall caps radix iv,
  (radix = 8 \/ radix = 10 \/ radix = 16) -> 0 <= iv < 2 ^ 63 ->
  length (spec_numeral caps radix iv) = length (impl_digits radix iv).
Proof. intros. rewrite <- numeral_refines by assumption. rewrite map_length, rev_length. reflexivity. Qed.

(** render_decimal = std.jsonnet render_int radix 10 *)
Lemma render_decimal_refines : forall neg iv padding precision blank sign,
  0 <= iv < 2 ^ 63 ->
  impl_render_decimal neg iv padding precision blank sign =
  spec_render_int neg iv (Z.of_N padding) (Z.of_N precision) blank sign 10 [].
Proof.
  intros neg iv padding precision blank sign Hz.
  unfold impl_render_decimal, impl_render_integer, spec_render_int.
  change radix_decimal with 10. change prefix_decimal with (@nil N).
  change prefix_in_padding_decimal with false. change caps_decimal with false.
  rewrite (sat_small iv Hz). rewrite numeral_refines by (auto; lia).
  f_equal. cbn [app]. replace (if iv =? 0 then [] else []) with (@nil N) by (destruct (iv =? 0); reflexivity).
  cbn [app].
  assert (D : (if iv =? 0 then [ch_zero] else spec_numeral false 10 iv) = spec_numeral false 10 iv).
  { unfold spec_numeral. destruct (iv =? 0); reflexivity. }
  rewrite D. unfold pad_left. f_equal. apply repeat_eq.
  rewrite spec_numeral_len by (auto; lia).
  unfold lenN, b2n. destruct (neg || blank || sign); cbn [length]; lia.
Qed.

(** render_octal = render_int radix 8 with zero_prefix "0" — except `#` on 0 < |x| < 1 *)
Lemma render_octal_refines : forall neg nonzero iv padding precision alt blank sign,
  0 <= iv < 2 ^ 63 -> (iv <> 0 -> nonzero = true) ->
  alt && nonzero && (iv =? 0) = false ->
  impl_render_octal neg nonzero iv padding precision alt blank sign =
  spec_render_int neg iv (Z.of_N padding) (Z.of_N precision) blank sign 8 (if alt then [ch_zero] else []).
Proof.
  intros neg nonzero iv padding precision alt blank sign Hz Hnz Hk.
  unfold impl_render_octal, impl_render_integer, spec_render_int.
  change radix_octal with 8. change prefix_octal with [ch_zero].
  change prefix_in_padding_octal with true. change caps_octal with false.
  rewrite (sat_small iv Hz). rewrite numeral_refines by (auto; lia).
  f_equal. unfold pad_left.
  pose proof (spec_numeral_len false 8 iv ltac:(auto) Hz) as L.
  destruct (iv =? 0) eqn:E.
  - assert (alt && nonzero = false) by (destruct alt, nonzero; cbn in *; congruence).
    rewrite H. cbn [app]. f_equal.
    + apply repeat_eq. unfold lenN, b2n. apply Z.eqb_eq in E. subst.
      destruct (neg || blank || sign); cbn; lia.
    + apply Z.eqb_eq in E. subst. reflexivity.
  - apply Z.eqb_neq in E. rewrite (Hnz E). rewrite andb_true_r.
    destruct alt.
    + cbn [app]. rewrite app_comm_cons, repeat_cons, <- app_assoc. cbn [app].
      f_equal. apply repeat_eq. unfold lenN, b2n. cbn [length app]. rewrite ?L.
      destruct (neg || blank || sign); cbn [length]; lia.
    + cbn [app]. f_equal. apply repeat_eq. unfold lenN, b2n. cbn [length app]. rewrite ?L.
      destruct (neg || blank || sign); cbn [length]; lia.
Qed.

(** render_hexadecimal = std.jsonnet render_hex — except `#` on a zero magnitude *)
Lemma render_hex_refines : forall neg iv padding precision alt blank sign caps,
  0 <= iv < 2 ^ 63 -> (neg = true -> iv <> 0) -> (alt = true -> iv <> 0) ->
  impl_render_hex neg iv padding precision alt blank sign caps =
  spec_render_hex (if neg then - iv else iv) (Z.of_N padding) (Z.of_N precision) blank sign alt caps.
Proof.
  intros neg iv padding precision alt blank sign caps Hz Hneg Halt.
  unfold impl_render_hex, impl_render_integer, spec_render_hex.
  change radix_hex with 16. change prefix_hex_upper with [48%N; 88%N]. change prefix_hex_lower with [48%N; 120%N].
  change prefix_in_padding_hex with false.
  rewrite (sat_small iv Hz). rewrite numeral_refines by (auto; lia).
  assert (A : Z.abs (if neg then - iv else iv) = iv) by (destruct neg; lia).
  assert (Ng : ((if neg then - iv else iv) <? 0) = neg).
  { destruct neg; [apply Z.ltb_lt; specialize (Hneg eq_refl); lia | apply Z.ltb_ge; lia]. }
  rewrite A, Ng.
  pose proof (spec_numeral_len caps 16 iv ltac:(auto) Hz) as L.
  f_equal. unfold pad_left.
  destruct alt.
  - specialize (Halt eq_refl). replace (iv =? 0) with false by (symmetry; apply Z.eqb_neq; exact Halt).
    f_equal. f_equal. apply repeat_eq. unfold lenN, b2n. cbn [length app]. rewrite ?L.
    destruct caps; destruct (neg || blank || sign); cbn [length]; lia.
  - replace (if iv =? 0 then [] else []) with (@nil N) by (destruct (iv =? 0); reflexivity).
    cbn [app]. f_equal. apply repeat_eq. unfold lenN, b2n. cbn [length app]. rewrite ?L.
    destruct (neg || blank || sign); cbn [length]; lia.
Qed.

Lemma render_hex_alt_zero_refuted :
  impl_render_hex false 0 0 0 true false false false = [48%N] /\
  spec_render_hex 0 0 0 false false true false = [48%N; 120%N; 48%N].
Proof. split; vm_compute; reflexivity. Qed.

Lemma render_saturation_refuted :
  impl_render_decimal false (2 ^ 63) 0 0 false false <> spec_render_int false (2 ^ 63) 0 0 false false 10 [].
Proof. vm_compute. discriminate. Qed.
(* ------------------------------------------------------------------ format_code, integer conversions *)
Lemma floor_abs_nonneg : forall n d, 0 < d -> 0 <= floor_abs n d.
Proof. intros. unfold floor_abs. apply Z.div_pos; lia. Qed.

Lemma hex_signed_floor : forall n d, 0 < d -> ((n <? 0) && negb (n mod d =? 0)) = false ->
  (if n <? 0 then - floor_abs n d else floor_abs n d) = n / d.
Proof.
  intros n d Hd H. unfold floor_abs. destruct (n <? 0) eqn:E.
  - apply Z.ltb_lt in E. cbn in H. apply negb_false_iff, Z.eqb_eq in H.
    rewrite Z.abs_neq by lia. rewrite Z.div_opp_l_z by lia. lia.
  - apply Z.ltb_ge in E. rewrite Z.abs_eq by lia. reflexivity.
Qed.

Lemma hex_neg_nonzero : forall n d, 0 < d -> ((n <? 0) && negb (n mod d =? 0)) = false ->
  (n <? 0) = true -> floor_abs n d <> 0.
Proof.
  intros n d Hd H E. rewrite E in H. cbn in H. apply negb_false_iff, Z.eqb_eq in H.
  apply Z.ltb_lt in E. unfold floor_abs. rewrite Z.abs_neq by lia.
  rewrite Z.div_opp_l_z by lia.
  assert (n / d < 0) by (apply Z.div_lt_upper_bound; lia). lia.
Qed.

Lemma int_format_refines : forall v c w p,
  wf_value v -> is_int_conv (c_type c) = true -> known_int_class v c = false ->
  impl_format_tmp v c w p = spec_format_tmp v c w p.
Proof.
  intros v c w p Hwf Hc Hk. unfold impl_format_tmp, spec_format_tmp.
  assert (P : forall (b : bool), Z.of_N (if b then w else 0%N) = if b then Z.of_N w else 0)
    by (intros []; reflexivity).
  assert (Q : Z.of_N (match p with Some q => q | None => default_int_precision end) =
              match p with Some q => Z.of_N q | None => 0 end) by (destruct p; reflexivity).
  destruct v as [n d sh|s|sh|fs sh]; try (destruct (c_type c); try discriminate; reflexivity).
  cbn [wf_value] in Hwf. unfold known_int_class in Hk.
  apply orb_false_iff in Hk. destruct Hk as [Hsat Hk]. apply Z.leb_gt in Hsat.
  pose proof (floor_abs_nonneg n d Hwf) as Hnn.
  destruct (c_type c); try discriminate; cbn [as_num bind fst snd]; f_equal.
  - rewrite render_decimal_refines by lia. rewrite P, Q. reflexivity.
  - rewrite render_octal_refines; [rewrite P, Q; reflexivity | lia | | ].
    + intros Hm. destruct (n =? 0) eqn:E; [|reflexivity].
      apply Z.eqb_eq in E. subst. unfold floor_abs in Hm. cbn in Hm. try rewrite Z.div_0_l in Hm by lia. congruence.
    + exact Hk.
  - apply orb_false_iff in Hk. destruct Hk as [Ha Hf].
    rewrite render_hex_refines; [rewrite P, Q, (hex_signed_floor n d Hwf Hf); reflexivity | lia | | ].
    + apply hex_neg_nonzero; assumption.
    + intros A. rewrite A in Ha. cbn in Ha. apply Z.eqb_neq. exact Ha.
Qed.

Lemma hex_negative_fraction_refuted :
  exists v c, wf_value v /\ known_int_class v c = true /\
    impl_format_tmp v c 0 None = Ok [45; 49]%N /\ spec_format_tmp v c 0 None = Ok [45; 50]%N.
Proof.
  exists (VNum (-3) 2 []), {| c_mkey := []; c_flags := no_flags; c_width := WFixed 0; c_prec := None;
                              c_type := GHexadecimal; c_caps := false |}.
  repeat split; vm_compute; reflexivity.
Qed.

(* ------------------------------------------------------------------ final padding *)
Lemma byte_len_ascii : forall s, Forall (fun c => (c < 128)%N) s -> byte_len s = lenN s.
Proof.
  induction 1 as [|c t Hc Ht IH]; [reflexivity|].
  unfold byte_len, lenN in *. cbn [fold_right length]. rewrite IH. unfold utf8_len.
  replace (c <? 128)%N with true by (symmetry; apply N.ltb_lt; exact Hc). lia.
Qed.

Lemma pad_refines : forall left w tmp,
  Forall (fun c => (c < 128)%N) tmp -> (lenN tmp < 65536)%N ->
  impl_pad left w tmp = spec_pad left w tmp.
Proof.
  intros left w tmp Ha Hl. unfold impl_pad, spec_pad, pad_left, pad_right.
  rewrite (byte_len_ascii tmp Ha). rewrite N.mod_small by exact Hl.
  assert (E : N.to_nat (w - lenN tmp) = Z.to_nat (Z.of_N w - Z.of_nat (length tmp))) by (unfold lenN; lia).
  rewrite E. reflexivity.
Qed.

Lemma width_exact : forall left w tmp,
  lenN (spec_pad left w tmp) = N.max w (lenN tmp) /\
  exists n, spec_pad left w tmp = if left then tmp ++ repeat ch_space n else repeat ch_space n ++ tmp.
Proof.
  intros left w tmp. split.
  - unfold spec_pad, pad_left, pad_right, lenN. destruct left; rewrite app_length, repeat_length; lia.
  - unfold spec_pad, pad_left, pad_right. destruct left; eexists; reflexivity.
Qed.

Lemma width_bytes_refuted :
  lenN (impl_pad false 5 [233%N]) = 4%N /\ lenN (spec_pad false 5 [233%N]) = 5%N.
Proof. split; vm_compute; reflexivity. Qed.

Lemma g_underflow_refuted :
  impl_render_shorter 1 2 0 0 false false false false = Err EPanic /\
  spec_render_shorter 1 2 0 0 false false false false = [49]%N.
Proof. split; vm_compute; reflexivity. Qed.
(* ------------------------------------------------------------------ format_arr: values consumed left to right *)
Section RunFacts.
  Variable star_of : value -> res N.
  Variable fc : value -> code -> N -> option N -> res (list N).

  Definition get_star (vals : list value) : res (N * list value) :=
    do vt <- take_val vals; do n <- star_of (fst vt); Ok (n, snd vt).

  Lemma get_star_inv : forall vals n rest, get_star vals = Ok (n, rest) ->
    exists v, vals = v :: rest /\ forall rest', get_star (v :: rest') = Ok (n, rest').
  Proof.
    intros [|v t] n rest H; [discriminate|]. unfold get_star in *. cbn [take_val bind fst snd] in *.
    destruct (star_of v) eqn:S; [|discriminate]. cbn [bind] in *. inversion H; subst.
    exists v. split; [reflexivity|]. intros. rewrite S. reflexivity.
  Qed.

  (** the three stages of one code, each taking a prefix of the remaining values *)
  Definition stage_w (c : code) (vals : list value) : res (N * list value) :=
    match c_width c with WStar => get_star vals | WFixed n => Ok (n, vals) end.
  Definition stage_p (c : code) (vals : list value) : res (option N * list value) :=
    match c_prec c with
    | Some WStar => do nr <- get_star vals; Ok (Some (fst nr), snd nr)
    | Some (WFixed n) => Ok (Some n, vals)
    | None => Ok (None, vals)
    end.
  Definition stage_v (c : code) (vals : list value) : res (value * list value) :=
    match c_type c with GPercent => Ok (VOpq [], vals) | _ => take_val vals end.

  Lemma step_arr_stages : forall c vals,
    step_arr star_of fc c vals =
    do wv <- stage_w c vals; do pv <- stage_p c (snd wv); do vv <- stage_v c (snd pv);
    do out <- fc (fst vv) c (fst wv) (fst pv); Ok (out, snd vv).
  Proof.
    intros c vals. unfold step_arr, stage_w, stage_p, stage_v, get_star.
    destruct (c_width c).
    - destruct vals as [|v t]; cbn [take_val bind fst snd]; [reflexivity|].
      destruct (star_of v); cbn [bind fst snd]; [|reflexivity].
      destruct (c_prec c) as [[|n']|]; try reflexivity.
      destruct t as [|v2 t2]; cbn [take_val bind fst snd]; [reflexivity|].
      destruct (star_of v2); reflexivity.
    - cbn [bind fst snd]. destruct (c_prec c) as [[|n']|]; try reflexivity.
      destruct vals as [|v2 t2]; cbn [take_val bind fst snd]; [reflexivity|].
      destruct (star_of v2); reflexivity.
  Qed.

  Lemma stage_w_inv : forall c vals w rest, stage_w c vals = Ok (w, rest) ->
    exists used, vals = used ++ rest /\ length used = (match c_width c with WStar => 1 | _ => 0 end)%nat /\
                 forall rest', stage_w c (used ++ rest') = Ok (w, rest').
  Proof.
    intros c vals w rest H. unfold stage_w in *. destruct (c_width c).
    - destruct (get_star_inv _ _ _ H) as [v [E F]]. exists [v]. repeat split; [exact E|exact F].
    - inversion H; subst. exists []. repeat split.
  Qed.

  Lemma stage_p_inv : forall c vals p rest, stage_p c vals = Ok (p, rest) ->
    exists used, vals = used ++ rest /\ length used = (match c_prec c with Some WStar => 1 | _ => 0 end)%nat /\
                 forall rest', stage_p c (used ++ rest') = Ok (p, rest').
  Proof.
    intros c vals p rest H. unfold stage_p in *. destruct (c_prec c) as [[|n]|].
    - destruct (get_star vals) as [[n r]|e] eqn:G; [|discriminate]. cbn [bind fst snd] in H. inversion H; subst.
      destruct (get_star_inv _ _ _ G) as [v [E F]]. exists [v]. repeat split; [exact E|].
      intros rest'. cbn [app]. rewrite F. reflexivity.
    - inversion H; subst. exists []. repeat split.
    - inversion H; subst. exists []. repeat split.
  Qed.

  Lemma stage_v_inv : forall c vals v rest, stage_v c vals = Ok (v, rest) ->
    exists used, vals = used ++ rest /\ length used = (match c_type c with GPercent => 0 | _ => 1 end)%nat /\
                 forall rest', stage_v c (used ++ rest') = Ok (v, rest').
  Proof.
    intros c vals v rest H. unfold stage_v in *.
    destruct (c_type c);
      try (destruct vals as [|x t]; [discriminate|]; cbn [take_val] in H; inversion H; subst;
           exists [v]; repeat split);
      inversion H; subst; exists []; repeat split.
  Qed.

  (** one code consumes exactly [need_code c] values from the FRONT, and its output does not
      depend on what follows them *)
  Lemma step_arr_consumes : forall c vals out rest,
    step_arr star_of fc c vals = Ok (out, rest) ->
    exists used, vals = used ++ rest /\ length used = need_code c /\
                 forall rest', step_arr star_of fc c (used ++ rest') = Ok (out, rest').
  Proof.
    intros c vals out rest H. rewrite step_arr_stages in H.
    destruct (stage_w c vals) as [[w r1]|e] eqn:W; [|discriminate]. cbn [bind fst snd] in H.
    destruct (stage_p c r1) as [[p r2]|e] eqn:P; [|discriminate]. cbn [bind fst snd] in H.
    destruct (stage_v c r2) as [[v r3]|e] eqn:V; [|discriminate]. cbn [bind fst snd] in H.
    destruct (fc v c w p) as [o|e] eqn:F; [|discriminate]. cbn [bind] in H. inversion H; subst.
    destruct (stage_w_inv _ _ _ _ W) as [u1 [E1 [L1 F1]]].
    destruct (stage_p_inv _ _ _ _ P) as [u2 [E2 [L2 F2]]].
    destruct (stage_v_inv _ _ _ _ V) as [u3 [E3 [L3 F3]]].
    exists (u1 ++ u2 ++ u3). subst. repeat split.
    - rewrite <- !app_assoc. reflexivity.
    - rewrite !app_length, L1, L2, L3. unfold need_code. lia.
    - intros rest'. rewrite step_arr_stages. rewrite <- !app_assoc.
      rewrite F1. cbn [bind fst snd]. rewrite F2. cbn [bind fst snd]. rewrite F3. cbn [bind fst snd].
      rewrite F. reflexivity.
  Qed.

  Lemma values_consumed : forall es vals out,
    run_arr star_of fc es vals = Ok out -> length vals = need es.
  Proof.
    induction es as [|[s|c] t IH]; intros vals out H; cbn [run_arr need] in *.
    - destruct vals; [reflexivity|discriminate].
    - destruct (run_arr star_of fc t vals) eqn:R; [|discriminate]. eapply IH. exact R.
    - destruct (step_arr star_of fc c vals) as [[o rest]|e] eqn:S; [|discriminate]. cbn [bind fst snd] in H.
      destruct (run_arr star_of fc t rest) eqn:R; [|discriminate].
      destruct (step_arr_consumes _ _ _ _ S) as [used [E [L _]]]. subst.
      rewrite app_length, L, (IH _ _ R). reflexivity.
  Qed.

  Lemma wrong_count_is_error : forall es vals,
    length vals <> need es -> exists e, run_arr star_of fc es vals = Err e.
  Proof.
    intros es vals H. destruct (run_arr star_of fc es vals) eqn:R; [|eexists; reflexivity].
    exfalso. apply H. eapply values_consumed. exact R.
  Qed.

  (** literal text *)
  Lemma run_arr_literal : forall s, run_arr star_of fc (lit_elem s) [] = Ok s.
  Proof. intros [|c t]; cbn; [reflexivity|]. rewrite app_nil_r. reflexivity. Qed.
  Lemma run_obj_literal : forall s fs, run_obj fc (lit_elem s) fs = Ok s.
  Proof. intros [|c t] fs; cbn; [reflexivity|]. rewrite app_nil_r. reflexivity. Qed.

  (** `%%` (fixed width, no `*`) takes no value *)
  Lemma percent_consumes_nothing : forall c w vals,
    c_type c = GPercent -> c_width c = WFixed w -> c_prec c <> Some WStar ->
    step_arr star_of fc c vals =
    do out <- fc (VOpq []) c w (match c_prec c with Some (WFixed n) => Some n | _ => None end); Ok (out, vals).
  Proof.
    intros c w vals T W P. unfold step_arr. rewrite T, W.
    destruct (c_prec c) as [[|n]|]; [congruence| |]; reflexivity.
  Qed.

  (** object mode *)
  Lemma obj_star_is_error : forall c fs,
    c_width c = WStar \/ c_prec c = Some WStar ->
    step_obj fc c fs = Err EStarObj.
  Proof.
    intros c fs [H|H]; unfold step_obj; rewrite H; [reflexivity|].
    destruct (c_width c); reflexivity.
  Qed.
  Lemma obj_key_required : forall c fs w,
    c_width c = WFixed w -> c_prec c <> Some WStar -> c_type c <> GPercent -> c_mkey c = [] ->
    step_obj fc c fs = Err EKeysReq.
  Proof.
    intros c fs w W P T K. unfold step_obj. rewrite W, K. cbn [bind].
    destruct (c_prec c) as [[|n]|]; [congruence| |]; cbn [bind]; destruct (c_type c); try congruence; reflexivity.
  Qed.
  Lemma obj_found : forall c fs w v,
    c_width c = WFixed w -> c_prec c <> Some WStar -> c_type c <> GPercent -> c_mkey c <> [] ->
    field_get (c_mkey c) fs = Some v ->
    step_obj fc c fs = fc v c w (match c_prec c with Some (WFixed n) => Some n | _ => None end).
  Proof.
    intros c fs w v W P T K G. unfold step_obj. rewrite W. cbn [bind].
    destruct (c_mkey c) as [|k0 kt] eqn:M; [congruence|].
    destruct (c_prec c) as [[|n]|]; [congruence| |]; cbn [bind];
      (destruct (c_type c); try congruence; unfold lookup; rewrite G; reflexivity).
  Qed.
End RunFacts.

Lemma split_dot_nodot : forall s cur, ~ In ch_dot s -> split_dot s cur = [rev cur ++ s].
Proof.
  induction s as [|c t IH]; intros cur H; cbn [split_dot].
  - rewrite app_nil_r. reflexivity.
  - destruct (c =? ch_dot)%N eqn:E; [apply N.eqb_eq in E; subst; exfalso; apply H; left; reflexivity|].
    rewrite IH by (intro X; apply H; right; exact X). cbn [rev]. rewrite <- app_assoc. reflexivity.
Qed.

Lemma obj_missing_key_is_error : forall fs k,
  field_get k fs = None -> ~ In ch_dot k -> lookup fs k = Err ENoField.
Proof.
  intros fs k G D. unfold lookup. rewrite G, split_dot_nodot by exact D. cbn [rev app get_path]. rewrite G. reflexivity.
Qed.

(** literal text is copied unchanged, whatever parser is plugged in *)
Lemma lit_span_nopct : forall s, ~ In ch_pct s -> lit_span s = (s, []).
Proof.
  induction s as [|c t IH]; intros H; cbn [lit_span]; [reflexivity|].
  destruct (c =? ch_pct)%N eqn:E; [apply N.eqb_eq in E; subst; exfalso; apply H; left; reflexivity|].
  rewrite IH by (intro X; apply H; right; exact X). reflexivity.
Qed.

Lemma literal_copied : forall pc so fc s,
  ~ In ch_pct s ->
  std_format (parse_codes pc) so fc s (TArr []) = Ok s /\
  (forall fs, std_format (parse_codes pc) so fc s (TObj fs) = Ok s).
Proof.
  intros pc so fc s H. unfold std_format, parse_codes. cbn [parse_codes_f].
  rewrite (lit_span_nopct s H). cbn [fst snd bind]. split.
  - apply run_arr_literal.
  - intros fs. apply run_obj_literal.
Qed.

Lemma percent_example :
  impl_std_format [97; 37; 37; 98]%N (TArr []) = Ok [97; 37; 98]%N /\
  spec_std_format [97; 37; 37; 98]%N (TArr []) = Ok [97; 37; 98]%N.
Proof. split; vm_compute; reflexivity. Qed.
