(** C12 — lemmas.  Parser: the transliterated parser (checked u16 accumulator) IS the grammar;
    integer renderers: digit vector round trip, the saturating u16 padding arithmetic equals
    std.jsonnet's render_int / render_hex; %c; final padding; value consumption of format_arr;
    object mode. *)
From Coq Require Import List ZArith NArith Lia Bool.
From JrV Require Import Gen.GenFormat C12.Model.
Import ListNotations.
Open Scope N_scope.
Ltac Zify.zify_post_hook ::= Z.div_mod_to_equations.

Lemma key_scan_span : forall s acc,
  key_scan s acc =
  match snd (span (fun x => negb (x =? ch_rparen)) s) with
  | [] => Err ETrunc
  | _ :: rest => Ok (rev acc ++ fst (span (fun x => negb (x =? ch_rparen)) s), rest)
  end.
Proof.
  induction s as [|c t IH]; intros acc; cbn [key_scan span].
  - reflexivity.
  - destruct (c =? ch_rparen) eqn:E; cbn [negb fst snd].
    + rewrite app_nil_r. reflexivity.
    + rewrite IH. cbn [rev]. destruct (snd (span _ t)); [reflexivity|].
      rewrite <- app_assoc. reflexivity.
Qed.

Lemma mapping_key_refines : forall s, impl_mapping_key s = spec_mapping_key s.
Proof.
  intros [|c t]; [reflexivity|]. unfold impl_mapping_key, spec_mapping_key.
  destruct (c =? ch_lparen); [|reflexivity]. rewrite key_scan_span. reflexivity.
Qed.

Lemma flag_table_ok : forall c, assoc c flag_table = spec_flag c.
Proof.
  intros c. unfold spec_flag.
  destruct (c =? 35) eqn:E1; [apply N.eqb_eq in E1; subst; reflexivity|].
  destruct (c =? 48) eqn:E2; [apply N.eqb_eq in E2; subst; reflexivity|].
  destruct (c =? 45) eqn:E3; [apply N.eqb_eq in E3; subst; reflexivity|].
  destruct (c =? 32) eqn:E4; [apply N.eqb_eq in E4; subst; reflexivity|].
  destruct (c =? 43) eqn:E5; [apply N.eqb_eq in E5; subst; reflexivity|].
  unfold flag_table; cbn [assoc]. rewrite ?E1, ?E2, ?E3, ?E4, ?E5. reflexivity.
Qed.

Lemma is_flag_spec : forall c, is_flag c = match spec_flag c with Some _ => true | None => false end.
Proof.
  intros c. unfold is_flag, spec_flag.
  destruct (c =? 35), (c =? 48), (c =? 45), (c =? 32), (c =? 43); reflexivity.
Qed.

Definition add_flag (f : cflags) (c : N) : cflags :=
  match spec_flag c with Some g => set_flag g f | None => f end.

Lemma cflags_loop_span : forall s f,
  impl_cflags_loop s f =
  match snd (span is_flag s) with
  | [] => Err ETrunc
  | _ => Ok (fold_left add_flag (fst (span is_flag s)) f, snd (span is_flag s))
  end.
Proof.
  induction s as [|c t IH]; intros f; cbn [impl_cflags_loop span]; [reflexivity|].
  rewrite flag_table_ok, is_flag_spec. unfold add_flag at 1.
  destruct (spec_flag c) eqn:E; cbn [fst snd].
  - rewrite IH. cbn [fold_left]. unfold add_flag at 1. rewrite E. reflexivity.
  - reflexivity.
Qed.
Lemma add_flags_proj : forall fs f,
  fold_left add_flag fs f =
  {| f_alt := f_alt f || memN 35 fs; f_zero := f_zero f || memN 48 fs; f_left := f_left f || memN 45 fs;
     f_blank := f_blank f || memN 32 fs; f_sign := f_sign f || memN 43 fs |}.
Proof.
  induction fs as [|c t IH]; intros f; cbn [fold_left memN].
  - destruct f; cbn. rewrite !orb_false_r. reflexivity.
  - rewrite IH. unfold add_flag, spec_flag.
    rewrite (N.eqb_sym 35 c), (N.eqb_sym 48 c), (N.eqb_sym 45 c), (N.eqb_sym 32 c), (N.eqb_sym 43 c).
    destruct (c =? 35) eqn:E1; [apply N.eqb_eq in E1; subst; cbn; rewrite ?orb_true_r; reflexivity|].
    destruct (c =? 48) eqn:E2; [apply N.eqb_eq in E2; subst; cbn; rewrite ?orb_true_r; reflexivity|].
    destruct (c =? 45) eqn:E3; [apply N.eqb_eq in E3; subst; cbn; rewrite ?orb_true_r; reflexivity|].
    destruct (c =? 32) eqn:E4; [apply N.eqb_eq in E4; subst; cbn; rewrite ?orb_true_r; reflexivity|].
    destruct (c =? 43) eqn:E5; [apply N.eqb_eq in E5; subst; cbn; rewrite ?orb_true_r; reflexivity|].
    cbn. reflexivity.
Qed.

Lemma cflags_refines : forall s, impl_cflags s = spec_cflags s.
Proof.
  intros s. unfold impl_cflags, spec_cflags. rewrite cflags_loop_span, add_flags_proj. reflexivity.
Qed.
Lemma digit_of_spec : forall c, digit_of c = if is_digit c then Some (c - 48) else None.
Proof. reflexivity. Qed.

Definition dec_step (a d : N) : N := 10 * a + (d - 48).

Lemma fold_dec_ge : forall l a, a <= fold_left dec_step l a.
Proof.
  induction l as [|d t IH]; intros a; cbn [fold_left]; [lia|].
  specialize (IH (dec_step a d)). unfold dec_step in *. lia.
Qed.

(** the checked u16 accumulator: "too large" exactly when the decimal value of the digit run
    exceeds 65535 (reported before the end-of-input test), else the value *)
Lemma width_loop_span : forall s out, out <= u16_max ->
  impl_width_loop s out =
  if u16_max <? fold_left dec_step (fst (span is_digit s)) out then Err ETooLarge
  else match snd (span is_digit s) with
       | [] => Err ETrunc
       | _ => Ok (fold_left dec_step (fst (span is_digit s)) out, snd (span is_digit s))
       end.
Proof.
  induction s as [|c t IH]; intros out Ho; cbn [impl_width_loop span].
  - cbn [fst snd fold_left]. replace (u16_max <? out) with false by (symmetry; apply N.ltb_ge; exact Ho).
    reflexivity.
  - rewrite digit_of_spec. destruct (is_digit c) eqn:D; cbn [fst snd fold_left].
    + unfold chk16.
      pose proof (fold_dec_ge (fst (span is_digit t)) (dec_step out c)) as G.
      destruct (out * 10 <=? u16_max) eqn:C1.
      * destruct (out * 10 + (c - 48) <=? u16_max) eqn:C2.
        -- apply N.leb_le in C2. rewrite IH by exact C2.
           replace (dec_step out c) with (out * 10 + (c - 48)) by (unfold dec_step; lia). reflexivity.
        -- apply N.leb_gt in C2.
           assert (E : (u16_max <? fold_left dec_step (fst (span is_digit t)) (dec_step out c)) = true)
             by (apply N.ltb_lt; unfold dec_step in *; lia).
           rewrite E. reflexivity.
      * apply N.leb_gt in C1.
        assert (E : (u16_max <? fold_left dec_step (fst (span is_digit t)) (dec_step out c)) = true)
          by (apply N.ltb_lt; unfold dec_step in *; lia).
        rewrite E. reflexivity.
    + replace (u16_max <? out) with false by (symmetry; apply N.ltb_ge; exact Ho). reflexivity.
Qed.

Lemma field_width_refines : forall s, impl_field_width s = spec_field_width s.
Proof.
  intros [|c t]; [reflexivity|]. unfold impl_field_width, spec_field_width.
  destruct (c =? ch_star); [reflexivity|].
  rewrite width_loop_span by (unfold u16_max; lia).
  unfold decimal. fold dec_step.
  destruct (u16_max <? fold_left dec_step (fst (span is_digit (c :: t))) 0); [reflexivity|].
  destruct (snd (span is_digit (c :: t))); reflexivity.
Qed.

Lemma precision_refines : forall s, impl_precision s = spec_precision s.
Proof.
  intros [|c t]; [reflexivity|]. unfold impl_precision, spec_precision.
  destruct (c =? ch_dot); [|reflexivity]. rewrite field_width_refines. reflexivity.
Qed.

Lemma conv_table_ok : forall c, assoc c conv_table = spec_conv c.
Proof.
  intros c. unfold spec_conv.
  destruct (c =? 100) eqn:E1; [apply N.eqb_eq in E1; subst; reflexivity|].
  destruct (c =? 105) eqn:E2; [apply N.eqb_eq in E2; subst; reflexivity|].
  destruct (c =? 117) eqn:E3; [apply N.eqb_eq in E3; subst; reflexivity|].
  destruct (c =? 111) eqn:E4; [apply N.eqb_eq in E4; subst; reflexivity|].
  destruct (c =? 120) eqn:E5; [apply N.eqb_eq in E5; subst; reflexivity|].
  destruct (c =? 88) eqn:E6; [apply N.eqb_eq in E6; subst; reflexivity|].
  destruct (c =? 101) eqn:E7; [apply N.eqb_eq in E7; subst; reflexivity|].
  destruct (c =? 69) eqn:E8; [apply N.eqb_eq in E8; subst; reflexivity|].
  destruct (c =? 102) eqn:E9; [apply N.eqb_eq in E9; subst; reflexivity|].
  destruct (c =? 70) eqn:E10; [apply N.eqb_eq in E10; subst; reflexivity|].
  destruct (c =? 103) eqn:E11; [apply N.eqb_eq in E11; subst; reflexivity|].
  destruct (c =? 71) eqn:E12; [apply N.eqb_eq in E12; subst; reflexivity|].
  destruct (c =? 99) eqn:E13; [apply N.eqb_eq in E13; subst; reflexivity|].
  destruct (c =? 115) eqn:E14; [apply N.eqb_eq in E14; subst; reflexivity|].
  destruct (c =? 37) eqn:E15; [apply N.eqb_eq in E15; subst; reflexivity|].
  unfold conv_table; cbn [assoc orb].
  rewrite ?E1, ?E2, ?E3, ?E4, ?E5, ?E6, ?E7, ?E8, ?E9, ?E10, ?E11, ?E12, ?E13, ?E14, ?E15. reflexivity.
Qed.

Lemma lenmod_table_ok : forall c, memN c lenmod_chars = is_lenmod c.
Proof.
  intros c. unfold is_lenmod.
  destruct (c =? 104) eqn:E1; [apply N.eqb_eq in E1; subst; reflexivity|].
  destruct (c =? 108) eqn:E2; [apply N.eqb_eq in E2; subst; reflexivity|].
  destruct (c =? 76) eqn:E3; [apply N.eqb_eq in E3; subst; reflexivity|].
  unfold lenmod_chars; cbn [memN]. rewrite ?E1, ?E2, ?E3. reflexivity.
Qed.

Lemma lenmod_refines : forall s, impl_lenmod s = spec_lenmod s.
Proof. intros [|c t]; [reflexivity|]. unfold impl_lenmod, spec_lenmod. rewrite lenmod_table_ok. reflexivity. Qed.

Lemma convtype_refines : forall s, impl_convtype s = spec_convtype s.
Proof. intros [|c t]; [reflexivity|]. unfold impl_convtype, spec_convtype. rewrite conv_table_ok. reflexivity. Qed.

Lemma parse_code_refines : forall s, impl_parse_code s = spec_parse_code s.
Proof.
  intros s. unfold impl_parse_code, spec_parse_code.
  rewrite mapping_key_refines. destruct (spec_mapping_key s) as [[k r1]|e]; cbn [bind fst snd]; [|reflexivity].
  rewrite cflags_refines. destruct (spec_cflags r1) as [[f r2]|e]; cbn [bind fst snd]; [|reflexivity].
  rewrite field_width_refines. destruct (spec_field_width r2) as [[w r3]|e]; cbn [bind fst snd]; [|reflexivity].
  rewrite precision_refines. destruct (spec_precision r3) as [[p r4]|e]; cbn [bind fst snd]; [|reflexivity].
  rewrite lenmod_refines. destruct (spec_lenmod r4) as [r5|e]; cbn [bind]; [|reflexivity].
  rewrite convtype_refines. reflexivity.
Qed.

Lemma parse_codes_f_ext : forall (f g : list N -> res (code * list N)),
  (forall s, f s = g s) -> forall fuel s, parse_codes_f f fuel s = parse_codes_f g fuel s.
Proof.
  intros f g H. induction fuel as [|n IH]; intros s; [reflexivity|].
  cbn [parse_codes_f]. destruct (snd (lit_span s)) as [|p after]; [reflexivity|].
  rewrite H. destruct (g after) as [[cd rest]|e]; [|reflexivity]. rewrite IH. reflexivity.
Qed.

Lemma parse_refines : forall s, impl_parse_codes s = spec_parse_codes s.
Proof. intros s. apply parse_codes_f_ext. exact parse_code_refines. Qed.

(** the grammar never yields a panic: a width above 65535 is the "too large" error *)
Lemma width_limit_examples :
  impl_parse_codes [37; 54; 53; 53; 51; 54; 100] = Err ETooLarge /\
  impl_parse_codes [37; 54; 53; 53; 51; 53; 100] =
    Ok [ECode {| c_mkey := []; c_flags := no_flags; c_width := WFixed 65535; c_prec := None;
                 c_type := GDecimal; c_caps := false |}] /\
  impl_parse_codes [37; 108; 108; 100] = Err (EUnrec 108).
Proof. repeat split; vm_compute; reflexivity. Qed.
Open Scope Z_scope.

Definition lsf_value (radix : Z) (l : list Z) : Z := fold_right (fun d a => a * radix + d) 0 l.

Lemma read_back_rev : forall radix l, read_back radix (rev l) = lsf_value radix l.
Proof.
  intros. unfold read_back, lsf_value.
  rewrite <- (rev_involutive l) at 2. rewrite fold_left_rev_right. reflexivity.
Qed.

Lemma pow2_succ : forall f, 2 ^ Z.of_nat (S f) = 2 * 2 ^ Z.of_nat f.
Proof. intros. rewrite Nat2Z.inj_succ, Z.pow_succ_r by lia. reflexivity. Qed.

Lemma div_radix_bound : forall r v P, 2 <= r -> 0 <= v < 2 * P -> 0 <= v / r < P.
Proof. intros r v P Hr Hv. split; [apply Z.div_pos; lia|]. apply Z.div_lt_upper_bound; nia. Qed.

Lemma digits_loop_value : forall fuel radix v, 2 <= radix -> 0 <= v < 2 ^ Z.of_nat fuel ->
  lsf_value radix (digits_loop fuel radix v) = v.
Proof.
  induction fuel as [|f IH]; intros radix v Hr Hv.
  - cbn in *. lia.
  - cbn [digits_loop]. destruct (v =? 0) eqn:E; [apply Z.eqb_eq in E; subst; reflexivity|].
    cbn [lsf_value fold_right]. fold (lsf_value radix (digits_loop f radix (v / radix))).
    rewrite IH; [|exact Hr|apply div_radix_bound; [exact Hr|rewrite <- pow2_succ; exact Hv]].
    pose proof (Z.div_mod v radix ltac:(lia)). lia.
Qed.

Lemma digits_loop_range : forall fuel radix v, 2 <= radix -> 0 <= v ->
  Forall (fun d => 0 <= d < radix) (digits_loop fuel radix v).
Proof.
  induction fuel as [|f IH]; intros radix v Hr Hv; cbn [digits_loop]; [constructor|].
  destruct (v =? 0); [constructor|]. constructor.
  - apply Z.mod_pos_bound. lia.
  - apply IH; [exact Hr|apply Z.div_pos; lia].
Qed.

Lemma int_roundtrip : forall radix z,
  (radix = 8 \/ radix = 10 \/ radix = 16) -> 0 <= z < 2 ^ 63 ->
  read_back radix (rev (impl_digits radix z)) = z /\
  Forall (fun d => 0 <= d < radix) (impl_digits radix z).
Proof.
  intros radix z Hr Hz. assert (2 <= radix) by lia. unfold impl_digits.
  destruct (z =? 0) eqn:E.
  - apply Z.eqb_eq in E. subst. split; [cbn; lia|]. constructor; [lia|constructor].
  - split.
    + rewrite read_back_rev. apply digits_loop_value; [assumption|].
      change (Z.of_nat 64) with 64. lia.
    + apply digits_loop_range; lia.
Qed.

(* the digit vector, reversed, is std.jsonnet's aux(n) *)
Lemma digits_loop_spec : forall f1 f2 radix v, 2 <= radix ->
  0 <= v < 2 ^ Z.of_nat f1 -> v < 2 ^ Z.of_nat f2 ->
  rev (digits_loop f1 radix v) = spec_digits_f f2 radix v.
Proof.
  induction f1 as [|f1 IH]; intros f2 radix v Hr H1 H2.
  - cbn in H1. assert (v = 0) by lia. subst. destruct f2; reflexivity.
  - cbn [digits_loop]. destruct f2 as [|f2].
    + cbn in H2. assert (v = 0) by lia. subst. reflexivity.
    + cbn [spec_digits_f]. destruct (v =? 0) eqn:E.
      * apply Z.eqb_eq in E. subst. reflexivity.
      * apply Z.eqb_neq in E. replace (v <=? 0) with false by (symmetry; apply Z.leb_gt; lia).
        cbn [rev]. rewrite (IH f2); [reflexivity|exact Hr| |].
        -- apply div_radix_bound; [exact Hr|rewrite <- pow2_succ; exact H1].
        -- apply div_radix_bound; [exact Hr|rewrite <- pow2_succ; lia].
Qed.

Lemma log2_fuel : forall n, 0 < n -> n < 2 ^ Z.of_nat (S (Z.to_nat (Z.log2 n))).
Proof.
  intros n Hn. rewrite Nat2Z.inj_succ, Z2Nat.id by apply Z.log2_nonneg.
  apply Z.log2_spec. exact Hn.
Qed.

Lemma digit_char_spec : forall caps d, 0 <= d < 16 -> digit_char caps d = spec_digit_char caps d.
Proof.
  intros caps d H.
  assert (C : d = 0 \/ d = 1 \/ d = 2 \/ d = 3 \/ d = 4 \/ d = 5 \/ d = 6 \/ d = 7 \/ d = 8 \/ d = 9 \/
              d = 10 \/ d = 11 \/ d = 12 \/ d = 13 \/ d = 14 \/ d = 15) by lia.
  repeat (destruct C as [C|C]; [subst; destruct caps; reflexivity|]). subst; destruct caps; reflexivity.
Qed.

Lemma numeral_refines : forall caps radix iv,
  (radix = 8 \/ radix = 10 \/ radix = 16) -> 0 <= iv < 2 ^ 63 ->
  map (digit_char caps) (rev (impl_digits radix iv)) = spec_numeral caps radix iv.
Proof.
  intros caps radix iv Hr Hz. assert (2 <= radix) by lia.
  unfold impl_digits, spec_numeral. destruct (iv =? 0) eqn:E; [destruct caps; reflexivity|].
  apply Z.eqb_neq in E. unfold spec_digits.
  rewrite <- (digits_loop_spec 64); [| lia | change (Z.of_nat 64) with 64; lia | apply log2_fuel; lia].
  apply map_ext_in. intros d Hd. apply digit_char_spec.
  apply in_rev in Hd.
  pose proof (digits_loop_range 64 radix iv ltac:(lia) ltac:(lia)) as F.
  rewrite Forall_forall in F. specialize (F d Hd). lia.
Qed.
Lemma sat_small : forall iv, 0 <= iv < 2 ^ 63 -> sat_i64 iv = iv.
Proof. intros. unfold sat_i64, i64_max. lia. Qed.

Lemma repeat_eq : forall (c : N) a b, a = b -> repeat c a = repeat c b.
Proof. intros; subst; reflexivity. Qed.

Lemma spec_numeral_len : forall caps radix iv,
  (radix = 8 \/ radix = 10 \/ radix = 16) -> 0 <= iv < 2 ^ 63 ->
  length (spec_numeral caps radix iv) = length (impl_digits radix iv).
Proof. intros. rewrite <- numeral_refines by assumption. rewrite map_length, rev_length. reflexivity. Qed.

(** render_decimal = std.jsonnet render_int radix 10 *)
Lemma render_decimal_refines : forall neg iv padding precision blank sign,
  0 <= iv < 2 ^ 63 ->
  impl_render_decimal neg iv padding precision blank sign =
  spec_render_int neg iv (Z.of_N padding) (Z.of_N precision) blank sign 10 [].
Proof.
  intros neg iv padding precision blank sign Hz.
  unfold impl_render_decimal, impl_render_integer, spec_render_int.
  change radix_decimal with 10. change prefix_decimal with (@nil N).
  change prefix_in_padding_decimal with false. change caps_decimal with false.
  rewrite (sat_small iv Hz). rewrite numeral_refines by (auto; lia).
  f_equal. rewrite andb_false_r. cbn [app].
  assert (D : (if iv =? 0 then [ch_zero] else spec_numeral false 10 iv) = spec_numeral false 10 iv).
  { unfold spec_numeral. destruct (iv =? 0); reflexivity. }
  rewrite D. unfold pad_left. f_equal. apply repeat_eq.
  rewrite spec_numeral_len by (auto; lia).
  unfold lenN, b2n. destruct (neg || blank || sign); cbn [length]; lia.
Qed.

(** render_octal = render_int radix 8 with zero_prefix "0" *)
Lemma render_octal_refines : forall neg iv padding precision alt blank sign,
  0 <= iv < 2 ^ 63 ->
  impl_render_octal neg iv padding precision alt blank sign =
  spec_render_int neg iv (Z.of_N padding) (Z.of_N precision) blank sign 8 (if alt then [ch_zero] else []).
Proof.
  intros neg iv padding precision alt blank sign Hz.
  unfold impl_render_octal, impl_render_integer, spec_render_int.
  change radix_octal with 8. change prefix_octal with [ch_zero].
  change prefix_in_padding_octal with true. change caps_octal with false.
  rewrite (sat_small iv Hz). rewrite numeral_refines by (auto; lia).
  f_equal. unfold pad_left.
  pose proof (spec_numeral_len false 8 iv ltac:(auto) Hz) as L.
  destruct (iv =? 0) eqn:E.
  - apply Z.eqb_eq in E. subst. replace (1 <=? 0) with false by reflexivity.
    rewrite andb_false_r. cbn [andb app]. f_equal.
    apply repeat_eq. unfold lenN, b2n. destruct (neg || blank || sign); cbn; lia.
  - apply Z.eqb_neq in E. replace (1 <=? iv) with true by (symmetry; apply Z.leb_le; lia).
    rewrite andb_true_r. cbn [andb].
    destruct alt.
    + cbn [andb app]. rewrite app_comm_cons, repeat_cons, <- app_assoc. cbn [app].
      f_equal. apply repeat_eq. unfold lenN, b2n. cbn [length app]. rewrite ?L.
      destruct (neg || blank || sign); cbn [length]; lia.
    + cbn [andb app]. f_equal. apply repeat_eq. unfold lenN, b2n. cbn [length app]. rewrite ?L.
      destruct (neg || blank || sign); cbn [length]; lia.
Qed.

(** render_hexadecimal (on the floored argument) = std.jsonnet render_hex *)
Lemma render_hex_refines : forall n padding precision alt blank sign caps,
  Z.abs n < 2 ^ 63 ->
  impl_render_hex n padding precision alt blank sign caps =
  spec_render_hex n (Z.of_N padding) (Z.of_N precision) blank sign alt caps.
Proof.
  intros n padding precision alt blank sign caps Hz.
  assert (Hz' : 0 <= Z.abs n < 2 ^ 63) by lia.
  unfold impl_render_hex, impl_render_integer, spec_render_hex.
  change radix_hex with 16. change prefix_hex_upper with [48%N; 88%N]. change prefix_hex_lower with [48%N; 120%N].
  change prefix_in_padding_hex with false.
  rewrite (sat_small _ Hz'). rewrite numeral_refines by (auto; lia).
  rewrite andb_false_r.
  pose proof (spec_numeral_len caps 16 (Z.abs n) ltac:(auto) Hz') as L.
  f_equal. unfold pad_left.
  destruct alt.
  - f_equal. f_equal. apply repeat_eq. unfold lenN, b2n. cbn [length app]. rewrite ?L.
    destruct caps; destruct ((n <? 0) || blank || sign); cbn [length]; lia.
  - cbn [app]. f_equal. apply repeat_eq. unfold lenN, b2n. cbn [length app]. rewrite ?L.
    destruct ((n <? 0) || blank || sign); cbn [length]; lia.
Qed.

Lemma render_saturation_refuted :
  impl_render_decimal false (2 ^ 63) 0 0 false false <> spec_render_int false (2 ^ 63) 0 0 false false 10 [].
Proof. vm_compute. discriminate. Qed.
(* ------------------------------------------------------------------ format_code, integer conversions *)
Lemma floor_abs_nonneg : forall n d, 0 < d -> 0 <= floor_abs n d.
Proof. intros. unfold floor_abs. apply Z.div_pos; lia. Qed.

Lemma int_format_refines : forall v c w p,
  wf_value v -> is_int_conv (c_type c) = true -> known_int_class v c = false ->
  impl_format_tmp v c w p = spec_format_tmp v c w p.
Proof.
  intros v c w p Hwf Hc Hk. unfold impl_format_tmp, spec_format_tmp.
  assert (P : forall (b : bool), Z.of_N (if b then w else 0%N) = if b then Z.of_N w else 0)
    by (intros []; reflexivity).
  assert (Q : Z.of_N (match p with Some q => q | None => default_int_precision end) =
              match p with Some q => Z.of_N q | None => 0 end) by (destruct p; reflexivity).
  destruct v as [n d sh|s|sh|fs sh]; try (destruct (c_type c); try discriminate; reflexivity).
  cbn [wf_value] in Hwf. unfold known_int_class in Hk.
  apply orb_false_iff in Hk. destruct Hk as [Hsat Hsat2]. apply Z.leb_gt in Hsat. apply Z.leb_gt in Hsat2.
  pose proof (floor_abs_nonneg n d Hwf) as Hnn.
  destruct (c_type c); try discriminate; cbn [as_num bind fst snd]; f_equal.
  - rewrite render_decimal_refines by lia. rewrite P, Q. reflexivity.
  - rewrite render_octal_refines by lia. rewrite P, Q. reflexivity.
  - rewrite render_hex_refines by lia. rewrite P, Q. reflexivity.
Qed.

Lemma int_format_nonvacuous_known : exists v c, wf_value v /\ is_int_conv (c_type c) = true /\ known_int_class v c = true.
Proof.
  exists (VNum (2 ^ 63) 1 []), {| c_mkey := []; c_flags := no_flags; c_width := WFixed 0; c_prec := None;
                                  c_type := GDecimal; c_caps := false |}.
  repeat split; vm_compute; reflexivity.
Qed.

(** %c: the guard for negative numbers and the saturating `as u32` agree with std.char *)
Lemma char_format_refines : forall v c w p,
  wf_value v -> c_type c = GChar -> impl_format_tmp v c w p = spec_format_tmp v c w p.
Proof.
  intros v c w p Hwf Hc. unfold impl_format_tmp, spec_format_tmp. rewrite Hc.
  destruct v as [n d sh|s|sh|fs sh]; try reflexivity.
  cbn [wf_value] in Hwf. destruct (le_m1 n d) eqn:L; [reflexivity|].
  unfold as_u32, le_m1, floor_abs, valid_scalar in *.
  destruct (n <? 0) eqn:E.
  - cbn [andb] in L. apply Z.geb_leb in L || idtac.
    assert (Z.abs n / d = 0).
    { assert (0 <= Z.abs n / d) by (apply Z.div_pos; lia).
      destruct (Z.abs n / d >=? 1) eqn:G; [discriminate|]. rewrite Z.geb_leb in G. apply Z.leb_gt in G. lia. }
    rewrite H. reflexivity.
  - apply Z.ltb_ge in E. rewrite Z.abs_eq by lia.
    assert (0 <= n / d) by (apply Z.div_pos; lia).
    destruct (Z.le_gt_cases (n / d) 4294967295) as [Hs|Hb].
    + rewrite Z.min_l by lia. reflexivity.
    + rewrite Z.min_r by lia.
      replace (n / d <=? 1114111) with false by (symmetry; apply Z.leb_gt; lia).
      destruct (0 <=? n / d); reflexivity.
Qed.

(* ------------------------------------------------------------------ final padding *)
Lemma pad_refines : forall left w tmp,
  (w <= u16_max)%N -> impl_pad left w tmp = spec_pad left w tmp.
Proof.
  intros left w tmp Hw. unfold impl_pad, spec_pad, pad_left, pad_right.
  assert (E : N.to_nat (w - (if (lenN tmp <=? u16_max)%N then lenN tmp else u16_max)) =
              Z.to_nat (Z.of_N w - Z.of_nat (length tmp))).
  { destruct (lenN tmp <=? u16_max)%N eqn:C; unfold lenN, u16_max in *.
    - lia.
    - apply N.leb_gt in C. lia. }
  rewrite E. reflexivity.
Qed.

Lemma width_exact : forall left w tmp,
  lenN (spec_pad left w tmp) = N.max w (lenN tmp) /\
  exists n, spec_pad left w tmp = if left then tmp ++ repeat ch_space n else repeat ch_space n ++ tmp.
Proof.
  intros left w tmp. split.
  - unfold spec_pad, pad_left, pad_right, lenN. destruct left; rewrite app_length, repeat_length; lia.
  - unfold spec_pad, pad_left, pad_right. destruct left; eexists; reflexivity.
Qed.

Lemma pad_nonascii_example :
  impl_pad false 5 [233%N] = [32; 32; 32; 32; 233]%N /\ lenN (impl_pad true 5 [128512%N]) = 5%N.
Proof. split; vm_compute; reflexivity. Qed.

(* ------------------------------------------------------------------ %e %f %g never underflow *)
Lemma render_float_ok : forall num den padding precision b s e t,
  (precision <= 308)%N -> exists o, impl_render_float num den padding precision b s e t = Ok o.
Proof.
  intros. unfold impl_render_float. cbv zeta.
  replace (308 <? precision)%N with false by (symmetry; apply N.ltb_ge; assumption).
  destruct (precision =? 0)%N; [eexists; reflexivity|].
  match goal with |- context [if ?b then Ok _ else Ok _] => destruct b end; eexists; reflexivity.
Qed.

Lemma render_float_sci_ok : forall num den padding precision b s e t caps,
  (precision <= 308)%N -> exists o, impl_render_float_sci num den padding precision b s e t caps = Ok o.
Proof.
  intros. unfold impl_render_float_sci. cbv zeta.
  match goal with |- context [impl_render_float ?a ?b0 ?c ?d ?e0 ?f ?g ?h] =>
    destruct (render_float_ok a b0 c d e0 f g h H) as [o E] end.
  rewrite E. eexists. reflexivity.
Qed.

(** the unchecked u16 subtractions of the %g arm cannot underflow any more *)
Lemma g_no_underflow : forall num den padding fpprec b s alt caps,
  (fpprec <= 308)%N -> exists o, impl_render_shorter num den padding fpprec b s alt caps = Ok o.
Proof.
  intros num den padding fpprec b s alt caps H. unfold impl_render_shorter. cbv zeta.
  destruct ((exp10 num den <? -4) || (exp10 num den >=? Z.of_N (N.max fpprec 1))) eqn:C.
  - unfold sub16. replace (1 <=? N.max fpprec 1)%N with true by (symmetry; apply N.leb_le; lia).
    cbn [bind]. apply render_float_sci_ok. lia.
  - apply orb_false_iff in C. destruct C as [C1 C2]. apply Z.ltb_ge in C1.
    rewrite Z.geb_leb in C2. apply Z.leb_gt in C2.
    unfold sub16.
    replace (N.max 1 (Z.to_N (exp10 num den) + 1) <=? N.max fpprec 1)%N with true
      by (symmetry; apply N.leb_le; lia).
    cbn [bind]. apply render_float_ok. lia.
Qed.

Lemma g_zero_precision_example :
  impl_render_shorter 1 2 0 0 false false false false = Ok [49%N] /\
  spec_render_shorter 1 2 0 0 false false false false = [49%N].
Proof. split; vm_compute; reflexivity. Qed.
(* ------------------------------------------------------------------ format_arr: values consumed left to right *)
Section RunFacts.
  Variable star_of : value -> res N.
  Variable fc : value -> code -> N -> option N -> res (list N).

  Definition get_star (vals : list value) : res (N * list value) :=
    do vt <- take_val vals; do n <- star_of (fst vt); Ok (n, snd vt).

  Lemma get_star_inv : forall vals n rest, get_star vals = Ok (n, rest) ->
    exists v, vals = v :: rest /\ forall rest', get_star (v :: rest') = Ok (n, rest').
  Proof.
    intros [|v t] n rest H; [discriminate|]. unfold get_star in *. cbn [take_val bind fst snd] in *.
    destruct (star_of v) eqn:S; [|discriminate]. cbn [bind] in *. inversion H; subst.
    exists v. split; [reflexivity|]. intros. rewrite S. reflexivity.
  Qed.

  (** the three stages of one code, each taking a prefix of the remaining values *)
  Definition stage_w (c : code) (vals : list value) : res (N * list value) :=
    match c_width c with WStar => get_star vals | WFixed n => Ok (n, vals) end.
  Definition stage_p (c : code) (vals : list value) : res (option N * list value) :=
    match c_prec c with
    | Some WStar => do nr <- get_star vals; Ok (Some (fst nr), snd nr)
    | Some (WFixed n) => Ok (Some n, vals)
    | None => Ok (None, vals)
    end.
  Definition stage_v (c : code) (vals : list value) : res (value * list value) :=
    match c_type c with GPercent => Ok (VOpq [], vals) | _ => take_val vals end.

  Lemma step_arr_stages : forall c vals,
    step_arr star_of fc c vals =
    do wv <- stage_w c vals; do pv <- stage_p c (snd wv); do vv <- stage_v c (snd pv);
    do out <- fc (fst vv) c (fst wv) (fst pv); Ok (out, snd vv).
  Proof.
    intros c vals. unfold step_arr, stage_w, stage_p, stage_v, get_star.
    destruct (c_width c).
    - destruct vals as [|v t]; cbn [take_val bind fst snd]; [reflexivity|].
      destruct (star_of v); cbn [bind fst snd]; [|reflexivity].
      destruct (c_prec c) as [[|n']|]; try reflexivity.
      destruct t as [|v2 t2]; cbn [take_val bind fst snd]; [reflexivity|].
      destruct (star_of v2); reflexivity.
    - cbn [bind fst snd]. destruct (c_prec c) as [[|n']|]; try reflexivity.
      destruct vals as [|v2 t2]; cbn [take_val bind fst snd]; [reflexivity|].
      destruct (star_of v2); reflexivity.
  Qed.

  Lemma stage_w_inv : forall c vals w rest, stage_w c vals = Ok (w, rest) ->
    exists used, vals = used ++ rest /\ length used = (match c_width c with WStar => 1 | _ => 0 end)%nat /\
                 forall rest', stage_w c (used ++ rest') = Ok (w, rest').
  Proof.
    intros c vals w rest H. unfold stage_w in *. destruct (c_width c).
    - destruct (get_star_inv _ _ _ H) as [v [E F]]. exists [v]. repeat split; [exact E|exact F].
    - inversion H; subst. exists []. repeat split.
  Qed.

  Lemma stage_p_inv : forall c vals p rest, stage_p c vals = Ok (p, rest) ->
    exists used, vals = used ++ rest /\ length used = (match c_prec c with Some WStar => 1 | _ => 0 end)%nat /\
                 forall rest', stage_p c (used ++ rest') = Ok (p, rest').
  Proof.
    intros c vals p rest H. unfold stage_p in *. destruct (c_prec c) as [[|n]|].
    - destruct (get_star vals) as [[n r]|e] eqn:G; [|discriminate]. cbn [bind fst snd] in H. inversion H; subst.
      destruct (get_star_inv _ _ _ G) as [v [E F]]. exists [v]. repeat split; [exact E|].
      intros rest'. cbn [app]. rewrite F. reflexivity.
    - inversion H; subst. exists []. repeat split.
    - inversion H; subst. exists []. repeat split.
  Qed.

  Lemma stage_v_inv : forall c vals v rest, stage_v c vals = Ok (v, rest) ->
    exists used, vals = used ++ rest /\ length used = (match c_type c with GPercent => 0 | _ => 1 end)%nat /\
                 forall rest', stage_v c (used ++ rest') = Ok (v, rest').
  Proof.
    intros c vals v rest H. unfold stage_v in *.
    destruct (c_type c);
      try (destruct vals as [|x t]; [discriminate|]; cbn [take_val] in H; inversion H; subst;
           exists [v]; repeat split);
      inversion H; subst; exists []; repeat split.
  Qed.

  (** one code consumes exactly [need_code c] values from the FRONT, and its output does not
      depend on what follows them *)
  Lemma step_arr_consumes : forall c vals out rest,
    step_arr star_of fc c vals = Ok (out, rest) ->
    exists used, vals = used ++ rest /\ length used = need_code c /\
                 forall rest', step_arr star_of fc c (used ++ rest') = Ok (out, rest').
  Proof.
    intros c vals out rest H. rewrite step_arr_stages in H.
    destruct (stage_w c vals) as [[w r1]|e] eqn:W; [|discriminate]. cbn [bind fst snd] in H.
    destruct (stage_p c r1) as [[p r2]|e] eqn:P; [|discriminate]. cbn [bind fst snd] in H.
    destruct (stage_v c r2) as [[v r3]|e] eqn:V; [|discriminate]. cbn [bind fst snd] in H.
    destruct (fc v c w p) as [o|e] eqn:F; [|discriminate]. cbn [bind] in H. inversion H; subst.
    destruct (stage_w_inv _ _ _ _ W) as [u1 [E1 [L1 F1]]].
    destruct (stage_p_inv _ _ _ _ P) as [u2 [E2 [L2 F2]]].
    destruct (stage_v_inv _ _ _ _ V) as [u3 [E3 [L3 F3]]].
    exists (u1 ++ u2 ++ u3). subst. repeat split.
    - rewrite <- !app_assoc. reflexivity.
    - rewrite !app_length, L1, L2, L3. unfold need_code. lia.
    - intros rest'. rewrite step_arr_stages. rewrite <- !app_assoc.
      rewrite F1. cbn [bind fst snd]. rewrite F2. cbn [bind fst snd]. rewrite F3. cbn [bind fst snd].
      rewrite F. reflexivity.
  Qed.

  Lemma values_consumed : forall es vals out,
    run_arr star_of fc es vals = Ok out -> length vals = need es.
  Proof.
    induction es as [|[s|c] t IH]; intros vals out H; cbn [run_arr need] in *.
    - destruct vals; [reflexivity|discriminate].
    - destruct (run_arr star_of fc t vals) eqn:R; [|discriminate]. eapply IH. exact R.
    - destruct (step_arr star_of fc c vals) as [[o rest]|e] eqn:S; [|discriminate]. cbn [bind fst snd] in H.
      destruct (run_arr star_of fc t rest) eqn:R; [|discriminate].
      destruct (step_arr_consumes _ _ _ _ S) as [used [E [L _]]]. subst.
      rewrite app_length, L, (IH _ _ R). reflexivity.
  Qed.

  Lemma wrong_count_is_error : forall es vals,
    length vals <> need es -> exists e, run_arr star_of fc es vals = Err e.
  Proof.
    intros es vals H. destruct (run_arr star_of fc es vals) eqn:R; [|eexists; reflexivity].
    exfalso. apply H. eapply values_consumed. exact R.
  Qed.

  (** literal text *)
  Lemma run_arr_literal : forall s, run_arr star_of fc (lit_elem s) [] = Ok s.
  Proof. intros [|c t]; cbn; [reflexivity|]. rewrite app_nil_r. reflexivity. Qed.
  Lemma run_obj_literal : forall s fs, run_obj fc (lit_elem s) fs = Ok s.
  Proof. intros [|c t] fs; cbn; [reflexivity|]. rewrite app_nil_r. reflexivity. Qed.

  (** `%%` (fixed width, no `*`) takes no value *)
  Lemma percent_consumes_nothing : forall c w vals,
    c_type c = GPercent -> c_width c = WFixed w -> c_prec c <> Some WStar ->
    step_arr star_of fc c vals =
    do out <- fc (VOpq []) c w (match c_prec c with Some (WFixed n) => Some n | _ => None end); Ok (out, vals).
  Proof.
    intros c w vals T W P. unfold step_arr. rewrite T, W.
    destruct (c_prec c) as [[|n]|]; [congruence| |]; reflexivity.
  Qed.

  (** object mode *)
  Lemma obj_star_is_error : forall c fs,
    c_width c = WStar \/ c_prec c = Some WStar ->
    step_obj fc c fs = Err EStarObj.
  Proof.
    intros c fs [H|H]; unfold step_obj; rewrite H; [reflexivity|].
    destruct (c_width c); reflexivity.
  Qed.
  Lemma obj_key_required : forall c fs w,
    c_width c = WFixed w -> c_prec c <> Some WStar -> c_type c <> GPercent -> c_mkey c = [] ->
    step_obj fc c fs = Err EKeysReq.
  Proof.
    intros c fs w W P T K. unfold step_obj. rewrite W, K. cbn [bind].
    destruct (c_prec c) as [[|n]|]; [congruence| |]; cbn [bind]; destruct (c_type c); try congruence; reflexivity.
  Qed.
  Lemma obj_found : forall c fs w v,
    c_width c = WFixed w -> c_prec c <> Some WStar -> c_type c <> GPercent -> c_mkey c <> [] ->
    field_get (c_mkey c) fs = Some v ->
    step_obj fc c fs = fc v c w (match c_prec c with Some (WFixed n) => Some n | _ => None end).
  Proof.
    intros c fs w v W P T K G. unfold step_obj. rewrite W. cbn [bind].
    destruct (c_mkey c) as [|k0 kt] eqn:M; [congruence|].
    destruct (c_prec c) as [[|n]|]; [congruence| |]; cbn [bind];
      (destruct (c_type c); try congruence; unfold lookup; rewrite G; reflexivity).
  Qed.
End RunFacts.

Lemma split_dot_nodot : forall s cur, ~ In ch_dot s -> split_dot s cur = [rev cur ++ s].
Proof.
  induction s as [|c t IH]; intros cur H; cbn [split_dot].
  - rewrite app_nil_r. reflexivity.
  - destruct (c =? ch_dot)%N eqn:E; [apply N.eqb_eq in E; subst; exfalso; apply H; left; reflexivity|].
    rewrite IH by (intro X; apply H; right; exact X). cbn [rev]. rewrite <- app_assoc. reflexivity.
Qed.

Lemma obj_missing_key_is_error : forall fs k,
  field_get k fs = None -> ~ In ch_dot k -> lookup fs k = Err ENoField.
Proof.
  intros fs k G D. unfold lookup. rewrite G, split_dot_nodot by exact D. cbn [rev app get_path]. rewrite G. reflexivity.
Qed.

(** literal text is copied unchanged, whatever parser is plugged in *)
Lemma lit_span_nopct : forall s, ~ In ch_pct s -> lit_span s = (s, []).
Proof.
  induction s as [|c t IH]; intros H; cbn [lit_span]; [reflexivity|].
  destruct (c =? ch_pct)%N eqn:E; [apply N.eqb_eq in E; subst; exfalso; apply H; left; reflexivity|].
  rewrite IH by (intro X; apply H; right; exact X). reflexivity.
Qed.

Lemma literal_copied : forall pc so fc s,
  ~ In ch_pct s ->
  std_format (parse_codes pc) so fc s (TArr []) = Ok s /\
  (forall fs, std_format (parse_codes pc) so fc s (TObj fs) = Ok s).
Proof.
  intros pc so fc s H. unfold std_format, parse_codes. cbn [parse_codes_f].
  rewrite (lit_span_nopct s H). cbn [fst snd bind]. split.
  - apply run_arr_literal.
  - intros fs. apply run_obj_literal.
Qed.

Lemma percent_example :
  impl_std_format [97; 37; 37; 98]%N (TArr []) = Ok [97; 37; 98]%N /\
  spec_std_format [97; 37; 37; 98]%N (TArr []) = Ok [97; 37; 98]%N.
Proof. split; vm_compute; reflexivity. Qed.

(** the remaining float finding: 10^309 is not a binary64 number, the debug_assert fires *)
Lemma float_pow_overflow_refuted :
  impl_render_float 1 1 0 309 false false false true = Err EPanic /\
  exists o, impl_render_float 1 1 0 308 false false false true = Ok o.
Proof. split; [vm_compute; reflexivity|]. apply render_float_ok. lia. Qed.
