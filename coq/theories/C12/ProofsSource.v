(** C12 — source tie, lemmas: every function translated from format.rs equals the hand
    transliteration of C12/Model.v, for all inputs. *)
From Coq Require Import List ZArith NArith Bool Lia.
From JrV Require Import Gen.GenFormat Gen.GenFormatParse C12.Model C12.Proofs C12.ModelSource.
Import ListNotations.
Open Scope N_scope.

Lemma src_key_scan : forall s acc, gen_key_scan s acc = key_scan s acc.
Proof.
  induction s as [|c t IH]; intros acc; [reflexivity|].
  cbn [gen_key_scan key_scan]. unfold ch_rparen.
  match goal with |- context [N.eqb c ?k] => destruct (N.eqb c k) end; [reflexivity | exact (IH _)].
Qed.

Lemma src_mapping_key : forall s, gen_mapping_key s = impl_mapping_key s.
Proof.
  intros [|c t]; [reflexivity|]. unfold gen_mapping_key, impl_mapping_key, ch_lparen.
  match goal with |- context [N.eqb c ?k] => destruct (N.eqb c k) end; [apply src_key_scan | reflexivity].
Qed.

Lemma src_cflags_loop : forall s f, gen_cflags_loop s f = impl_cflags_loop s f.
Proof.
  induction s as [|c t IH]; intros f; [reflexivity|].
  cbn [gen_cflags_loop impl_cflags_loop]. unfold flag_table. cbn [assoc].
  repeat (match goal with |- context [N.eqb c ?k] => destruct (N.eqb c k) end; try exact (IH _)).
  all: reflexivity.
Qed.

Lemma src_cflags : forall s, gen_cflags s = impl_cflags s.
Proof. intros [|c t]; [reflexivity|]. unfold gen_cflags, impl_cflags. apply src_cflags_loop. Qed.

Lemma src_width_loop : forall s out, s <> [] -> gen_width_loop s out = impl_width_loop s out.
Proof.
  induction s as [|c t IH]; intros out H; [congruence|].
  cbn [gen_width_loop impl_width_loop]. destruct (digit_of c) as [d|]; [|reflexivity].
  unfold bind, chk16e, chk16. cbv beta.
  destruct (out * 10 <=? u16_max); cbv beta iota; [|reflexivity].
  destruct (out * 10 + d <=? u16_max); cbv beta iota; [|reflexivity].
  destruct t as [|c' t']; [reflexivity|]. apply IH. discriminate.
Qed.

Lemma src_field_width : forall s, gen_field_width s = impl_field_width s.
Proof.
  intros [|c t]; [reflexivity|]. unfold gen_field_width, impl_field_width, ch_star.
  match goal with |- context [N.eqb c ?k] => destruct (N.eqb c k) end; [reflexivity|].
  rewrite src_width_loop by discriminate. reflexivity.
Qed.

Lemma src_precision : forall s, gen_precision s = impl_precision s.
Proof.
  intros [|c t]; [reflexivity|]. unfold gen_precision, impl_precision, ch_dot.
  match goal with |- context [N.eqb c ?k] => destruct (N.eqb c k) end; [|reflexivity].
  rewrite src_field_width. reflexivity.
Qed.

Lemma src_lenmod : forall s, gen_lenmod s = impl_lenmod s.
Proof.
  intros [|c t]; [reflexivity|]. unfold gen_lenmod, gen_lenmod_1, impl_lenmod, lenmod_chars. cbn [memN].
  repeat match goal with |- context [N.eqb c ?k] => destruct (N.eqb c k) end; destruct t; reflexivity.
Qed.

Lemma src_convtype : forall s, gen_convtype s = impl_convtype s.
Proof.
  intros [|c t]; [reflexivity|]. unfold gen_convtype, impl_convtype, conv_table. cbn [assoc].
  repeat (match goal with |- context [N.eqb c ?k] => destruct (N.eqb c k) end; try reflexivity).
Qed.

Lemma src_parse_code : forall s, gen_parse_code s = impl_parse_code s.
Proof.
  intros [|c t]; [reflexivity|]. unfold gen_parse_code, impl_parse_code, bind.
  rewrite src_mapping_key. destruct (impl_mapping_key (c :: t)) as [r1|e]; cbv beta iota; [|reflexivity].
  rewrite src_cflags. destruct (impl_cflags (snd r1)) as [r2|e]; cbv beta iota; [|reflexivity].
  rewrite src_field_width. destruct (impl_field_width (snd r2)) as [r3|e]; cbv beta iota; [|reflexivity].
  rewrite src_precision. destruct (impl_precision (snd r3)) as [r4|e]; cbv beta iota; [|reflexivity].
  rewrite src_lenmod. destruct (impl_lenmod (snd r4)) as [r5|e]; cbv beta iota; [|reflexivity].
  rewrite src_convtype. destruct (impl_convtype r5) as [r6|e]; cbv beta iota; reflexivity.
Qed.

Lemma src_lit_span : forall s, gen_lit_span s = lit_span s.
Proof.
  induction s as [|c t IH]; [reflexivity|]. cbn [gen_lit_span lit_span]. unfold ch_pct. rewrite IH. reflexivity.
Qed.

Lemma src_parse_codes_f : forall fuel s, gen_parse_codes_f fuel s = parse_codes_f impl_parse_code fuel s.
Proof.
  induction fuel as [|f IH]; intros s; [reflexivity|].
  cbn [gen_parse_codes_f parse_codes_f]. rewrite src_lit_span. cbv zeta.
  destruct (snd (lit_span s)) as [|p after]; [reflexivity|].
  rewrite src_parse_code. destruct (impl_parse_code after) as [[c rest]|e]; [|reflexivity].
  cbn [bind fst snd]. rewrite IH. destruct (parse_codes_f impl_parse_code f rest); reflexivity.
Qed.

Lemma src_parse_codes_eq : forall s, gen_parse_codes s = impl_parse_codes s.
Proof. intros s. apply src_parse_codes_f. Qed.

Lemma src_step_arr : forall so fc c vals, gen_step_arr so fc c vals = step_arr so fc c vals.
Proof.
  intros. unfold gen_step_arr, step_arr.
  destruct (c_width c), (c_prec c) as [[|?]|], (c_type c);
    destruct vals as [|v1 [|v2 [|v3 vals]]]; cbn [bind fst snd take_val]; try reflexivity;
    try (destruct (so v1); cbn [bind fst snd take_val]; try reflexivity);
    try (destruct (so v2); cbn [bind fst snd take_val]; try reflexivity).
Qed.

Lemma src_run_arr : forall so fc es vals, gen_run_arr so fc es vals = run_arr so fc es vals.
Proof.
  induction es as [|[s|c] t IH]; intros vals; cbn [gen_run_arr run_arr].
  - destruct vals; reflexivity.
  - rewrite IH. reflexivity.
  - rewrite src_step_arr. destruct (step_arr so fc c vals) as [ov|e]; [|reflexivity].
    cbn [bind]. rewrite IH. reflexivity.
Qed.

Lemma src_step_obj : forall fc c fs, gen_step_obj fc c fs = step_obj fc c fs.
Proof.
  intros. unfold gen_step_obj, step_obj, lookup.
  destruct (c_width c), (c_prec c) as [[|?]|], (c_type c), (c_mkey c); reflexivity.
Qed.

Lemma src_run_obj : forall fc es fs, gen_run_obj fc es fs = run_obj fc es fs.
Proof.
  induction es as [|[s|c] t IH]; intros fs; cbn [gen_run_obj run_obj].
  - reflexivity.
  - rewrite IH. reflexivity.
  - rewrite src_step_obj. destruct (step_obj fc c fs) as [o|e]; [|reflexivity].
    cbn [bind]. rewrite IH. reflexivity.
Qed.

Lemma src_format_arr : forall so fc fmt vals,
  gen_format_arr so fc fmt vals = bind (impl_parse_codes fmt) (fun es => run_arr so fc es vals).
Proof.
  intros. unfold gen_format_arr. rewrite src_parse_codes_eq.
  destruct (impl_parse_codes fmt); [cbn [bind]; apply src_run_arr | reflexivity].
Qed.

Lemma src_format_obj : forall fc fmt fs,
  gen_format_obj fc fmt fs = bind (impl_parse_codes fmt) (fun es => run_obj fc es fs).
Proof.
  intros. unfold gen_format_obj. rewrite src_parse_codes_eq.
  destruct (impl_parse_codes fmt); [cbn [bind]; apply src_run_obj | reflexivity].
Qed.

Lemma src_std_format_eq : forall fmt t, src_std_format fmt t = impl_std_format fmt t.
Proof.
  intros fmt [vs|fs|v]; unfold src_std_format, impl_std_format, std_format;
    [rewrite src_format_arr | rewrite src_format_obj | rewrite src_format_arr]; reflexivity.
Qed.

(* ------------------------------------------------------------------ corollaries *)
Lemma src_parse_refines : forall s, src_parse_codes s = spec_parse_codes s.
Proof. intros s. unfold src_parse_codes. rewrite src_parse_codes_eq. apply parse_refines. Qed.

Lemma src_step_arr_consumes : forall star_of fc c vals out rest,
  gen_step_arr star_of fc c vals = Ok (out, rest) ->
  exists used, vals = used ++ rest /\ length used = need_code c /\
               forall rest', gen_step_arr star_of fc c (used ++ rest') = Ok (out, rest').
Proof.
  intros so fc c vals out rest H. rewrite src_step_arr in H.
  destruct (step_arr_consumes so fc c vals out rest H) as [used [H1 [H2 H3]]].
  exists used. split; [exact H1|]. split; [exact H2|]. intros rest'. rewrite src_step_arr. apply H3.
Qed.

Lemma src_value_count : forall star_of fc es vals,
  (forall out, gen_run_arr star_of fc es vals = Ok out -> length vals = need es) /\
  (length vals <> need es -> exists e, gen_run_arr star_of fc es vals = Err e).
Proof.
  intros. rewrite src_run_arr. split; [intros out; apply values_consumed | apply wrong_count_is_error].
Qed.

Lemma src_percent_consumes_nothing : forall star_of fc c w vals,
  c_type c = GPercent -> c_width c = WFixed w -> c_prec c <> Some WStar ->
  gen_step_arr star_of fc c vals =
  bind (fc (VOpq []) c w (match c_prec c with Some (WFixed n) => Some n | _ => None end))
       (fun out => Ok (out, vals)).
Proof. intros. rewrite src_step_arr. apply percent_consumes_nothing; assumption. Qed.
