(** C12 — property theorems only.  Each is closed by [exact] of a lemma from Proofs.v and
    followed by [Print Assumptions]; statements are pinned again in Pins.v. *)
From Coq Require Import List ZArith NArith Bool.
From JrV Require Import Gen.GenFormat C12.Model C12.Proofs.
Import ListNotations.

(** The tables read from the source are the documented ones: 15 conversion letters, 5 flags,
    3 length modifiers (any N, not only bytes). *)
Theorem C12_conv_table_ok : forall c, assoc c conv_table = spec_conv c.
Proof. exact conv_table_ok. Qed.
Print Assumptions C12_conv_table_ok.

Theorem C12_flag_table_ok : forall c, assoc c flag_table = spec_flag c.
Proof. exact flag_table_ok. Qed.
Print Assumptions C12_flag_table_ok.

Theorem C12_lenmod_table_ok : forall c, memN c lenmod_chars = is_lenmod c.
Proof. exact lenmod_table_ok. Qed.
Print Assumptions C12_lenmod_table_ok.

(** For EVERY string — including every truncation point of every code — the transliterated
    parser (index loops, u16 accumulator) returns exactly what the grammar returns: the same
    element list, the same error (truncated / unrecognised letter) — unless the u16 accumulator
    overflows (panic) or a length modifier is repeated. *)
Theorem C12_parse_refines : forall s,
  impl_parse_codes s <> Err EPanic -> known_lenmod s = false ->
  impl_parse_codes s = spec_parse_codes s.
Proof. exact parse_refines. Qed.
Print Assumptions C12_parse_refines.

Theorem C12_parse_width_overflow_refuted :
  exists s es, impl_parse_codes s = Err EPanic /\ spec_parse_codes s = Ok es.
Proof. exact parse_width_overflow_refuted. Qed.
Print Assumptions C12_parse_width_overflow_refuted.

(** ... and the accumulator overflows ONLY when the width (or precision) the grammar reads is
    above 65535: the panic is confined to that class. *)
Theorem C12_width_panic_only_if_big : forall s,
  impl_field_width s = Err EPanic ->
  exists n rest, spec_field_width s = Ok (WFixed n, rest) /\ (u16_max < n)%N \/
                 spec_field_width s = Err ETrunc /\ (u16_max < decimal (fst (span is_digit s)))%N.
Proof. exact field_width_panic_only_if_big. Qed.
Print Assumptions C12_width_panic_only_if_big.

Theorem C12_parse_lenmod_refuted :
  exists s es c, impl_parse_codes s = Ok es /\ spec_parse_codes s = Err (EUnrec c) /\ known_lenmod s = true.
Proof. exact parse_lenmod_refuted. Qed.
Print Assumptions C12_parse_lenmod_refuted.

(** Text without `%` is the output, in array and in object mode (any parser, any renderer). *)
Theorem C12_literal_copied : forall pc so fc s,
  ~ In ch_pct s ->
  std_format (parse_codes pc) so fc s (TArr []) = Ok s /\
  (forall fs, std_format (parse_codes pc) so fc s (TObj fs) = Ok s).
Proof. exact literal_copied. Qed.
Print Assumptions C12_literal_copied.

(** `%%` hands the value list on untouched. *)
Theorem C12_percent_consumes_nothing : forall star_of fc c w vals,
  c_type c = GPercent -> c_width c = WFixed w -> c_prec c <> Some WStar ->
  step_arr star_of fc c vals =
  bind (fc (VOpq []) c w (match c_prec c with Some (WFixed n) => Some n | _ => None end))
       (fun out => Ok (out, vals)).
Proof. exact percent_consumes_nothing. Qed.
Print Assumptions C12_percent_consumes_nothing.

(** One code takes exactly (star width) + (star precision) + (not %%) values from the FRONT of
    the list and its text does not depend on the values behind them. *)
Theorem C12_values_consumed_ltr : forall star_of fc c vals out rest,
  step_arr star_of fc c vals = Ok (out, rest) ->
  exists used, vals = used ++ rest /\ length used = need_code c /\
               forall rest', step_arr star_of fc c (used ++ rest') = Ok (out, rest').
Proof. exact step_arr_consumes. Qed.
Print Assumptions C12_values_consumed_ltr.

(** A successful format used every value: fewer or more values are an error. *)
Theorem C12_value_count : forall star_of fc es vals,
  (forall out, run_arr star_of fc es vals = Ok out -> length vals = need es) /\
  (length vals <> need es -> exists e, run_arr star_of fc es vals = Err e).
Proof. intros. split; [intros out; apply values_consumed | apply wrong_count_is_error]. Qed.
Print Assumptions C12_value_count.

(** The digit vector of render_integer reads back to the number, digits in range: every z
    below 2^63, radix 8, 10, 16 (induction on the loop, not an enumeration). *)
Theorem C12_int_roundtrip : forall radix z,
  (radix = 8 \/ radix = 10 \/ radix = 16)%Z -> (0 <= z < 2 ^ 63)%Z ->
  read_back radix (rev (impl_digits radix z)) = z /\
  Forall (fun d => (0 <= d < radix)%Z) (impl_digits radix z).
Proof. exact int_roundtrip. Qed.
Print Assumptions C12_int_roundtrip.

(** %d %i %u %o %x %X: the saturating-u16 padding / precision / prefix arithmetic of
    render_integer and its three callers produces std.jsonnet's render_int / render_hex text
    for every number, flag set, width and precision outside the four known classes. *)
Theorem C12_int_format_refines : forall v c w p,
  wf_value v -> is_int_conv (c_type c) = true -> known_int_class v c = false ->
  impl_format_tmp v c w p = spec_format_tmp v c w p.
Proof. exact int_format_refines. Qed.
Print Assumptions C12_int_format_refines.

Theorem C12_hex_alt_zero_refuted :
  impl_render_hex false 0 0 0 true false false false = [48%N] /\
  spec_render_hex 0 0 0 false false true false = [48%N; 120%N; 48%N].
Proof. exact render_hex_alt_zero_refuted. Qed.
Print Assumptions C12_hex_alt_zero_refuted.

Theorem C12_i64_saturation_refuted :
  impl_render_decimal false (2 ^ 63) 0 0 false false <> spec_render_int false (2 ^ 63) 0 0 false false 10 [].
Proof. exact render_saturation_refuted. Qed.
Print Assumptions C12_i64_saturation_refuted.

Theorem C12_hex_negative_fraction_refuted :
  exists v c, wf_value v /\ known_int_class v c = true /\
    impl_format_tmp v c 0 None = Ok [45; 49]%N /\ spec_format_tmp v c 0 None = Ok [45; 50]%N.
Proof. exact hex_negative_fraction_refuted. Qed.
Print Assumptions C12_hex_negative_fraction_refuted.

(** Field width: the specified padding makes the text exactly max(width, natural length) code
    points long, spaces on the side the `-` flag says; the code's padding (which counts UTF-8
    bytes, truncated to u16) is the same for ASCII text shorter than 65536 ... *)
Theorem C12_width_exact : forall left w tmp,
  lenN (spec_pad left w tmp) = N.max w (lenN tmp) /\
  exists n, spec_pad left w tmp = if left then tmp ++ repeat ch_space n else repeat ch_space n ++ tmp.
Proof. exact width_exact. Qed.
Print Assumptions C12_width_exact.

Theorem C12_pad_refines_ascii : forall left w tmp,
  Forall (fun c => (c < 128)%N) tmp -> (lenN tmp < 65536)%N ->
  impl_pad left w tmp = spec_pad left w tmp.
Proof. exact pad_refines. Qed.
Print Assumptions C12_pad_refines_ascii.

(** ... and too short by one column per extra UTF-8 byte otherwise. *)
Theorem C12_width_bytes_refuted :
  lenN (impl_pad false 5 [233%N]) = 4%N /\ lenN (spec_pad false 5 [233%N]) = 5%N.
Proof. exact width_bytes_refuted. Qed.
Print Assumptions C12_width_bytes_refuted.

(** `%.0g`: `fpprec - 1` underflows u16. *)
Theorem C12_g_underflow_refuted :
  impl_render_shorter 1 2 0 0 false false false false = Err EPanic /\
  spec_render_shorter 1 2 0 0 false false false false = [49]%N.
Proof. exact g_underflow_refuted. Qed.
Print Assumptions C12_g_underflow_refuted.

(** Object mode: `*` is an error, a code without a key is an error, a key that is not a
    field (and has no dotted path) is an error, a key that is a field formats that field. *)
Theorem C12_obj_mode_rules : forall fc c fs,
  (c_width c = WStar \/ c_prec c = Some WStar -> step_obj fc c fs = Err EStarObj) /\
  (forall w, c_width c = WFixed w -> c_prec c <> Some WStar -> c_type c <> GPercent ->
             c_mkey c = [] -> step_obj fc c fs = Err EKeysReq) /\
  (forall k, field_get k fs = None -> ~ In ch_dot k -> lookup fs k = Err ENoField) /\
  (forall w v, c_width c = WFixed w -> c_prec c <> Some WStar -> c_type c <> GPercent ->
               c_mkey c <> [] -> field_get (c_mkey c) fs = Some v ->
               step_obj fc c fs = fc v c w (match c_prec c with Some (WFixed n) => Some n | _ => None end)).
Proof.
  intros fc c fs. split; [apply obj_star_is_error|]. split; [intros w; apply obj_key_required|].
  split; [intros k; apply obj_missing_key_is_error|]. intros w v. apply obj_found.
Qed.
Print Assumptions C12_obj_mode_rules.

(* ------------------------------------------------------------------ non-vacuity *)
(** "%05.3d" satisfies the hypotheses of C12_parse_refines and parses to one code. *)
Example C12_parse_refines_nonvacuous :
  let s := [37; 48; 53; 46; 51; 100]%N in
  impl_parse_codes s <> Err EPanic /\ known_lenmod s = false /\
  spec_parse_codes s = Ok [ECode {| c_mkey := []; c_flags := set_flag FZero no_flags; c_width := WFixed 5;
                                    c_prec := Some (WFixed 3); c_type := GDecimal; c_caps := false |}].
Proof. cbv zeta. split; [vm_compute; discriminate|]. split; vm_compute; reflexivity. Qed.

(** "%*.*f" takes three values from the front and leaves the rest. *)
Example C12_values_consumed_nonvacuous :
  exists out, step_arr impl_u16_of impl_format_code
    {| c_mkey := []; c_flags := no_flags; c_width := WStar; c_prec := Some WStar; c_type := GFloat; c_caps := false |}
    [VNum 8 1 []; VNum 2 1 []; VNum 314159 100000 []; VStr [120%N]] = Ok (out, [VStr [120%N]]).
Proof. eexists. vm_compute. reflexivity. Qed.

(** "%#06x" % -255 is outside every known class; both sides give "-0x0ff". *)
Example C12_int_format_nonvacuous :
  let c := {| c_mkey := []; c_flags := set_flag FAlt (set_flag FZero no_flags); c_width := WFixed 6; c_prec := None;
              c_type := GHexadecimal; c_caps := false |} in
  let v := VNum (-255) 1 [] in
  wf_value v /\ known_int_class v c = false /\
  impl_format_tmp v c 6 None = Ok [45; 48; 120; 48; 102; 102]%N.
Proof. cbv zeta. split; [vm_compute; reflexivity|]. split; vm_compute; reflexivity. Qed.

Example C12_roundtrip_nonvacuous : impl_digits 16 255 = [15; 15]%Z /\ read_back 16 [15; 15]%Z = 255%Z.
Proof. split; vm_compute; reflexivity. Qed.

Example C12_obj_mode_nonvacuous :
  impl_std_format [37; 40; 97; 41; 100]%N (TObj [([97%N], VNum 7 1 [])]) = Ok [55%N] /\
  impl_std_format [37; 40; 98; 41; 100]%N (TObj [([97%N], VNum 7 1 [])]) = Err ENoField /\
  impl_std_format [37; 42; 100]%N (TObj [([97%N], VNum 7 1 [])]) = Err EStarObj.
Proof. repeat split; vm_compute; reflexivity. Qed.
