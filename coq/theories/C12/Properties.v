(** C12 — property theorems only.  Each is closed by [exact] of a lemma from Proofs.v and
    followed by [Print Assumptions]; statements are pinned again in Pins.v. *)
From Coq Require Import List ZArith NArith Bool.
From JrV Require Import Gen.GenFormat C12.Model C12.Proofs.
Import ListNotations.

(** The tables read from the source are the documented ones: 15 conversion letters, 5 flags,
    3 length modifiers (any N, not only bytes). *)
Theorem C12_conv_table_ok : forall c, assoc c conv_table = spec_conv c.
Proof. exact conv_table_ok. Qed.
Print Assumptions C12_conv_table_ok.

Theorem C12_flag_table_ok : forall c, assoc c flag_table = spec_flag c.
Proof. exact flag_table_ok. Qed.
Print Assumptions C12_flag_table_ok.

Theorem C12_lenmod_table_ok : forall c, memN c lenmod_chars = is_lenmod c.
Proof. exact lenmod_table_ok. Qed.
Print Assumptions C12_lenmod_table_ok.

(** For EVERY string — including every truncation point of every code — the transliterated
    parser (index loops, checked u16 accumulator, one optional length modifier) returns exactly
    what the grammar returns: the same element list, the same error (truncated / unrecognised
    letter / width above 65535).  No exclusions since the fixes 4f0a9b5 and 1bb3282. *)
Theorem C12_parse_refines : forall s, impl_parse_codes s = spec_parse_codes s.
Proof. exact parse_refines. Qed.
Print Assumptions C12_parse_refines.

(** 65535 is accepted, 65536 is the "too large" error (not a panic), `%lld` is rejected. *)
Theorem C12_width_limit_examples :
  impl_parse_codes [37; 54; 53; 53; 51; 54; 100]%N = Err ETooLarge /\
  impl_parse_codes [37; 54; 53; 53; 51; 53; 100]%N =
    Ok [ECode {| c_mkey := []; c_flags := no_flags; c_width := WFixed 65535; c_prec := None;
                 c_type := GDecimal; c_caps := false |}] /\
  impl_parse_codes [37; 108; 108; 100]%N = Err (EUnrec 108).
Proof. exact width_limit_examples. Qed.
Print Assumptions C12_width_limit_examples.

(** Text without `%` is the output, in array and in object mode (any parser, any renderer). *)
Theorem C12_literal_copied : forall pc so fc s,
  ~ In ch_pct s ->
  std_format (parse_codes pc) so fc s (TArr []) = Ok s /\
  (forall fs, std_format (parse_codes pc) so fc s (TObj fs) = Ok s).
Proof. exact literal_copied. Qed.
Print Assumptions C12_literal_copied.

(** `%%` hands the value list on untouched. *)
Theorem C12_percent_consumes_nothing : forall star_of fc c w vals,
  c_type c = GPercent -> c_width c = WFixed w -> c_prec c <> Some WStar ->
  step_arr star_of fc c vals =
  bind (fc (VOpq []) c w (match c_prec c with Some (WFixed n) => Some n | _ => None end))
       (fun out => Ok (out, vals)).
Proof. exact percent_consumes_nothing. Qed.
Print Assumptions C12_percent_consumes_nothing.

(** One code takes exactly (star width) + (star precision) + (not %%) values from the FRONT of
    the list and its text does not depend on the values behind them. *)
Theorem C12_values_consumed_ltr : forall star_of fc c vals out rest,
  step_arr star_of fc c vals = Ok (out, rest) ->
  exists used, vals = used ++ rest /\ length used = need_code c /\
               forall rest', step_arr star_of fc c (used ++ rest') = Ok (out, rest').
Proof. exact step_arr_consumes. Qed.
Print Assumptions C12_values_consumed_ltr.

(** A successful format used every value: fewer or more values are an error. *)
Theorem C12_value_count : forall star_of fc es vals,
  (forall out, run_arr star_of fc es vals = Ok out -> length vals = need es) /\
  (length vals <> need es -> exists e, run_arr star_of fc es vals = Err e).
Proof. intros. split; [intros out; apply values_consumed | apply wrong_count_is_error]. Qed.
Print Assumptions C12_value_count.

(** The digit vector of render_integer reads back to the number, digits in range: every z
    below 2^63, radix 8, 10, 16 (induction on the loop, not an enumeration). *)
Theorem C12_int_roundtrip : forall radix z,
  (radix = 8 \/ radix = 10 \/ radix = 16)%Z -> (0 <= z < 2 ^ 63)%Z ->
  read_back radix (rev (impl_digits radix z)) = z /\
  Forall (fun d => (0 <= d < radix)%Z) (impl_digits radix z).
Proof. exact int_roundtrip. Qed.
Print Assumptions C12_int_roundtrip.

(** %d %i %u %o %x %X: the saturating-u16 padding / precision / prefix arithmetic of
    render_integer and its three callers produces std.jsonnet's render_int / render_hex text
    for every number, flag set, width and precision with |floor x| < 2^63 (the one remaining
    known class: `as i64` saturates). *)
Theorem C12_int_format_refines : forall v c w p,
  wf_value v -> is_int_conv (c_type c) = true -> known_int_class v c = false ->
  impl_format_tmp v c w p = spec_format_tmp v c w p.
Proof. exact int_format_refines. Qed.
Print Assumptions C12_int_format_refines.

Theorem C12_i64_saturation_refuted :
  impl_render_decimal false (2 ^ 63) 0 0 false false <> spec_render_int false (2 ^ 63) 0 0 false false 10 [].
Proof. exact render_saturation_refuted. Qed.
Print Assumptions C12_i64_saturation_refuted.

(** %c: the negative-number guard and the saturating `as u32` agree with std.char, for every value. *)
Theorem C12_char_format_refines : forall v c w p,
  wf_value v -> c_type c = GChar -> impl_format_tmp v c w p = spec_format_tmp v c w p.
Proof. exact char_format_refines. Qed.
Print Assumptions C12_char_format_refines.

(** Field width: the specified padding makes the text exactly max(width, natural length) code
    points long, spaces on the side the `-` flag says ... *)
Theorem C12_width_exact : forall left w tmp,
  lenN (spec_pad left w tmp) = N.max w (lenN tmp) /\
  exists n, spec_pad left w tmp = if left then tmp ++ repeat ch_space n else repeat ch_space n ++ tmp.
Proof. exact width_exact. Qed.
Print Assumptions C12_width_exact.

(** ... and the code's padding (code points, clamped to u16) is that padding for ALL text
    (fix 3912a6a); a parsed or `*` width is always <= 65535. *)
Theorem C12_pad_refines : forall left w tmp,
  (w <= u16_max)%N -> impl_pad left w tmp = spec_pad left w tmp.
Proof. exact pad_refines. Qed.
Print Assumptions C12_pad_refines.

(** `%g`: the two unchecked u16 subtractions cannot underflow for any number and any precision
    (fix dc97934); with precision <= 308 the whole arm returns text. *)
Theorem C12_g_no_underflow : forall num den padding fpprec b s alt caps,
  (fpprec <= 308)%N -> exists o, impl_render_shorter num den padding fpprec b s alt caps = Ok o.
Proof. exact g_no_underflow. Qed.
Print Assumptions C12_g_no_underflow.

(** The remaining float finding: from precision 309 on `10.0f64.powi(precision)` is +inf and the
    debug_assert of render_integer fires (the model's EPanic). *)
Theorem C12_float_pow_overflow_refuted :
  impl_render_float 1 1 0 309 false false false true = Err EPanic /\
  exists o, impl_render_float 1 1 0 308 false false false true = Ok o.
Proof. exact float_pow_overflow_refuted. Qed.
Print Assumptions C12_float_pow_overflow_refuted.

(** Object mode: `*` is an error, a code without a key is an error, a key that is not a
    field (and has no dotted path) is an error, a key that is a field formats that field. *)
Theorem C12_obj_mode_rules : forall fc c fs,
  (c_width c = WStar \/ c_prec c = Some WStar -> step_obj fc c fs = Err EStarObj) /\
  (forall w, c_width c = WFixed w -> c_prec c <> Some WStar -> c_type c <> GPercent ->
             c_mkey c = [] -> step_obj fc c fs = Err EKeysReq) /\
  (forall k, field_get k fs = None -> ~ In ch_dot k -> lookup fs k = Err ENoField) /\
  (forall w v, c_width c = WFixed w -> c_prec c <> Some WStar -> c_type c <> GPercent ->
               c_mkey c <> [] -> field_get (c_mkey c) fs = Some v ->
               step_obj fc c fs = fc v c w (match c_prec c with Some (WFixed n) => Some n | _ => None end)).
Proof.
  intros fc c fs. split; [apply obj_star_is_error|]. split; [intros w; apply obj_key_required|].
  split; [intros k; apply obj_missing_key_is_error|]. intros w v. apply obj_found.
Qed.
Print Assumptions C12_obj_mode_rules.

(* ------------------------------------------------------------------ non-vacuity *)
(** "%05.3d" parses to one code on both sides. *)
Example C12_parse_refines_nonvacuous :
  let s := [37; 48; 53; 46; 51; 100]%N in
  impl_parse_codes s = spec_parse_codes s /\
  spec_parse_codes s = Ok [ECode {| c_mkey := []; c_flags := set_flag FZero no_flags; c_width := WFixed 5;
                                    c_prec := Some (WFixed 3); c_type := GDecimal; c_caps := false |}].
Proof. cbv zeta. split; vm_compute; reflexivity. Qed.

(** "%*.*f" takes three values from the front and leaves the rest. *)
Example C12_values_consumed_nonvacuous :
  exists out, step_arr impl_u16_of impl_format_code
    {| c_mkey := []; c_flags := no_flags; c_width := WStar; c_prec := Some WStar; c_type := GFloat; c_caps := false |}
    [VNum 8 1 []; VNum 2 1 []; VNum 314159 100000 []; VStr [120%N]] = Ok (out, [VStr [120%N]]).
Proof. eexists. vm_compute. reflexivity. Qed.

(** "%#06x" % -255 is outside every known class; both sides give "-0x0ff". *)
Example C12_int_format_nonvacuous :
  let c := {| c_mkey := []; c_flags := set_flag FAlt (set_flag FZero no_flags); c_width := WFixed 6; c_prec := None;
              c_type := GHexadecimal; c_caps := false |} in
  let v := VNum (-255) 1 [] in
  wf_value v /\ known_int_class v c = false /\
  impl_format_tmp v c 6 None = Ok [45; 48; 120; 48; 102; 102]%N.
Proof. cbv zeta. split; [vm_compute; reflexivity|]. split; vm_compute; reflexivity. Qed.

Example C12_roundtrip_nonvacuous : impl_digits 16 255 = [15; 15]%Z /\ read_back 16 [15; 15]%Z = 255%Z.
Proof. split; vm_compute; reflexivity. Qed.

Example C12_obj_mode_nonvacuous :
  impl_std_format [37; 40; 97; 41; 100]%N (TObj [([97%N], VNum 7 1 [])]) = Ok [55%N] /\
  impl_std_format [37; 40; 98; 41; 100]%N (TObj [([97%N], VNum 7 1 [])]) = Err ENoField /\
  impl_std_format [37; 42; 100]%N (TObj [([97%N], VNum 7 1 [])]) = Err EStarObj.
Proof. repeat split; vm_compute; reflexivity. Qed.
