(** C14 — YAML, TOML, Python, XML and INI manifestation denote the same data.

    IMPL-MODEL (transliterations of crates/jrsonnet-stdlib/src/manifest/*.rs, byte level, strings
    are UTF-8 byte lists exactly as the Rust code sees them):
      [bare_safe]            yaml.rs bare_safe (tables from Gen/GenYaml.v, control skeleton pinned by
                             the translator)
      [ystr] [ywr] [ystream] yaml.rs manifest_yaml_ex_buf + evaluator manifest.rs YamlStreamFormat
      [bare_allowed] [tesc] [tkey] [tval] [tint] [toml_manifest]   toml.rs
      [pywr] [pyvars]        python.rs
      [xml_escape_impl] [jsonml_of] [xml_write]             xml.rs
      [ini_manifest]         ini.rs
    The JSON string escaper is C05's: the writers use [escape_ref] (= the per-byte map), which
    C05_escape_impl_is_map proves equal to the index-and-flush loop for every byte list.

    SPEC:
      [re] / [lang]          regular expressions and their language (the resolver regexes of the
                             YAML 1.2 core schema, section 10.3.2, and of the YAML 1.1 type
                             repository yaml.org/type/{bool,null,int,float,timestamp,merge,value})
      [yaml_plain_ok]        s is a one-token plain scalar (YAML 1.2 production ns-plain, block-key /
                             flow-out; stated conservatively: printable non-space ASCII, no flow
                             indicators) that is not a document marker and that NO resolver regex
                             matches, i.e. every YAML 1.1 / 1.2 consumer reads it as the string s
      [toml_bare_key]        TOML v1.0 unquoted-key: non-empty, A-Za-z0-9_-
      [dq_read]              reader of a double-quoted string literal, parameterised by the dialect
                             (TOML basic string, Python 3 string literal, YAML double-quoted scalar)
      [xml_unescape]         XML 1.0 character data / attribute value with the five predefined
                             entities
      [is_jsonml]            the JSONML grammar
    Definitions only; proofs live in Proofs.v. *)
From Coq Require Import List NArith Bool Arith.
From JrV Require Import Gen.GenEscape Gen.GenYaml Gen.GenToml Gen.GenXml C05.Model.
Import ListNotations.
Open Scope N_scope.

(* ------------------------------------------------------------------ small helpers *)

Definition in_class (cls : list (N * N)) (b : N) : bool :=
  existsb (fun r => (fst r <=? b) && (b <=? snd r)) cls.
Definition all_in (cls : list (N * N)) (s : bytes) : bool := forallb (in_class cls) s.

Fixpoint beq (a b : bytes) : bool :=
  match a, b with
  | [], [] => true
  | x :: a', y :: b' => (x =? y) && beq a' b'
  | _, _ => false
  end.

Fixpoint starts_with (p s : bytes) : bool :=
  match p, s with
  | [], _ => true
  | x :: p', y :: s' => (x =? y) && starts_with p' s'
  | _ :: _, [] => false
  end.

(** char::to_ascii_uppercase / the folding of eq_ignore_ascii_case *)
Definition upper (c : N) : N := if (97 <=? c) && (c <=? 122) then c - 32 else c.
Definition lower (c : N) : N := if (65 <=? c) && (c <=? 90) then c + 32 else c.
Definition eq_ic (a b : bytes) : bool := beq (map lower a) (map lower b).

(** count_char / count_char_u of bare_safe *)
Definition count (c : N) (s : bytes) : nat := length (filter (fun v => v =? c) s).
Definition count_u (c : N) (s : bytes) : nat := length (filter (fun v => (v =? c) || (v =? upper c)) s).

Fixpoint join (sep : bytes) (items : list bytes) : bytes :=
  match items with
  | [] => []
  | [x] => x
  | x :: r => x ++ sep ++ join sep r
  end.

(** all results or none: the `?` of a loop body *)
Definition omap {A B : Type} (f : A -> option B) : list A -> option (list B) :=
  fix go (xs : list A) : option (list B) :=
    match xs with
    | [] => Some []
    | x :: r => match f x, go r with Some b, Some br => Some (b :: br) | _, _ => None end
    end.

(** JSON escaping as used by the writers below (C05_escape_impl_is_map: [escape s = Some (escape_ref s)]) *)
Definition esc (s : bytes) : bytes := escape_ref s.

(* ================================================================== YAML *)

(* ------------------------------------------------------------------ IMPL-MODEL: bare_safe *)

Definition is_reserved (k : bytes) : bool := existsb (fun w => eq_ic k w) yaml_reserved.

Definition c_date (k : bytes) : bool := all_in yaml_cls_date k && Nat.eqb (count 45 k) 2.
Definition c_int (k : bytes) : bool := all_in yaml_cls_int k && Nat.ltb (count 45 k) 2.
Definition c_bin (k : bytes) : bool :=
  all_in yaml_cls_bin k && (starts_with [48; 98] k || starts_with [45; 48; 98] k) && Nat.ltb 2 (length k).
(** `key.len() > 2 && key.starts_with("0o") && key[2..].chars().all(..)` *)
Definition c_oct (k : bytes) : bool :=
  Nat.ltb 2 (length k) && starts_with [48; 111] k && all_in yaml_cls_oct (skipn 2 k).
Definition c_float (k : bytes) : bool :=
  all_in yaml_cls_float k && Nat.ltb (count_u 101 k) 2 && Nat.ltb (count 45 k) 3 && Nat.leb (count 46 k) 1.
Definition c_hex (k : bytes) : bool :=
  all_in yaml_cls_hex k && Nat.leb 3 (length k) && Nat.ltb (count 45 k) 2
  && (starts_with [45; 48; 120] k || starts_with [48; 120] k).

(** the if / else-if chain of bare_safe: every arm but the last returns false *)
Definition bare_safe (k : bytes) : bool :=
  if negb (all_in yaml_cls_safe k) then false
  else if is_reserved k then false
  else if c_date k then false
  else if c_int k then false
  else if c_bin k then false
  else if c_oct k then false
  else if c_float k then false
  else if c_hex k then false
  else true.

(* ------------------------------------------------------------------ IMPL-MODEL: the YAML writer *)

Record yopts := mkY { y_pad : bytes; y_arrpad : bytes; y_qk : bool; y_qv : bool }.

Definition fmt_yaml_std (indent_array_in_object quote_keys : bool) : yopts :=
  mkY yaml_std_padding (if indent_array_in_object then yaml_std_arr_padding_true else yaml_std_arr_padding_false)
      quote_keys yaml_std_quote_values.
Definition fmt_yaml_cli (n : nat) : yopts :=
  mkY (rep_bytes n yaml_cli_pad_unit) (rep_bytes n yaml_cli_pad_unit) yaml_cli_quote_keys yaml_cli_quote_values.

Definition nonempty_arr (v : jval) : bool := match v with JArr (_ :: _) => true | _ => false end.
Definition nonempty_obj (v : jval) : bool := match v with JObj (_ :: _) => true | _ => false end.

(** str::split('\n') *)
Fixpoint split_nl (s : bytes) : list bytes :=
  match s with
  | [] => [[]]
  | b :: r =>
      if b =? 10 then [] :: split_nl r
      else match split_nl r with h :: t => (b :: h) :: t | [] => [[b]] end
  end.

(** str::strip_suffix('\n') *)
Definition strip_nl (s : bytes) : option bytes :=
  match rev s with
  | b :: r => if b =? 10 then Some (rev r) else None
  | [] => None
  end.

Definition block_lines (o : yopts) (cur : bytes) (s : bytes) : bytes :=
  flat_map (fun line => [10] ++ cur ++ y_pad o ++ line) (split_nl s).

(** the Val::Str arm *)
Definition ystr (o : yopts) (cur : bytes) (s : bytes) : bytes :=
  if is_nil s then [34; 34]
  else match strip_nl s with
       | Some s' => [124] ++ block_lines o cur s'
       | None =>
           if existsb (fun b => b =? 10) s then [124; 45] ++ block_lines o cur s
           else if negb (y_qv o) && bare_safe s then s
           else esc s
       end.

Definition ykey (o : yopts) (k : bytes) : bytes := if negb (y_qk o) && bare_safe k then k else esc k.

(** manifest_yaml_ex_buf: [Some] the bytes appended to [buf], [None] = `bail!` *)
Fixpoint ywr (o : yopts) (cur : bytes) (v : jval) : option bytes :=
  match v with
  | JBool true => Some [116; 114; 117; 101]
  | JBool false => Some [102; 97; 108; 115; 101]
  | JNull => Some [110; 117; 108; 108]
  | JStr s => Some (ystr o cur s)
  | JNum tok => Some tok
  | JArr xs =>
      match omap (fun x =>
                    let cur' := if nonempty_arr x || nonempty_obj x then cur ++ y_pad o else cur in
                    match ywr o cur' x with
                    | Some b => Some ([45] ++ (if nonempty_arr x then [10] ++ cur ++ y_pad o else [32]) ++ b)
                    | None => None
                    end) xs with
      | Some items => Some (if is_nil xs then [91; 93] else join ([10] ++ cur) items)
      | None => None
      end
  | JObj fs =>
      match omap (fun kv : bytes * jval =>
                    let (k, x) := kv in
                    let sep_cur :=
                      if nonempty_arr x then ([10] ++ cur ++ y_arrpad o, cur ++ y_arrpad o)
                      else if nonempty_obj x then ([10] ++ cur ++ y_pad o, cur ++ y_pad o)
                      else ([32], cur) in
                    match ywr o (snd sep_cur) x with
                    | Some b => Some (ykey o k ++ [58] ++ fst sep_cur ++ b)
                    | None => None
                    end) fs with
      | Some fields => Some (if is_nil fs then [123; 125] else join ([10] ++ cur) fields)
      | None => None
      end
  | JFun => None
  end.

Definition yaml_manifest (o : yopts) (v : jval) : option bytes := ywr o [] v.

(** YamlStreamFormat::manifest_buf over a YAML inner format *)
Definition ystream (o : yopts) (c_document_end end_newline : bool) (v : jval) : option bytes :=
  match v with
  | JArr xs =>
      match omap (fun x => match ywr o [] x with Some b => Some (yaml_doc_start ++ b) | None => None end) xs with
      | Some docs => Some (join [10] docs ++ (if c_document_end then [10] ++ yaml_doc_end else [])
                           ++ (if end_newline then [10] else []))
      | None => None
      end
  | _ => None
  end.

(* ------------------------------------------------------------------ SPEC: regular expressions *)

Inductive re :=
| Void
| Eps
| Cls (c : list (N * N))
| Cat (a b : re)
| Alt (a b : re)
| Star (a : re).

Inductive lang : re -> bytes -> Prop :=
| LEps : lang Eps []
| LCls : forall c b, in_class c b = true -> lang (Cls c) [b]
| LCat : forall a b s t, lang a s -> lang b t -> lang (Cat a b) (s ++ t)
| LAltL : forall a b s, lang a s -> lang (Alt a b) s
| LAltR : forall a b s, lang b s -> lang (Alt a b) s
| LStar0 : forall a, lang (Star a) []
| LStarS : forall a s t, lang a s -> lang (Star a) t -> lang (Star a) (s ++ t).

(** executable matcher (Brzozowski derivatives); [rmatch r s = true <-> lang r s] is proved *)
Fixpoint nullable (r : re) : bool :=
  match r with
  | Void => false
  | Eps => true
  | Cls _ => false
  | Cat a b => nullable a && nullable b
  | Alt a b => nullable a || nullable b
  | Star _ => true
  end.

Definition cat' (a b : re) : re := match a with Void => Void | _ => Cat a b end.
Definition alt' (a b : re) : re := match a, b with Void, _ => b | _, Void => a | _, _ => Alt a b end.

Fixpoint deriv (c : N) (r : re) : re :=
  match r with
  | Void => Void
  | Eps => Void
  | Cls cl => if in_class cl c then Eps else Void
  | Cat a b => if nullable a then alt' (cat' (deriv c a) b) (deriv c b) else cat' (deriv c a) b
  | Alt a b => alt' (deriv c a) (deriv c b)
  | Star a => cat' (deriv c a) (Star a)
  end.

Fixpoint rmatch (r : re) (s : bytes) : bool :=
  match s with
  | [] => nullable r
  | c :: s' => rmatch (deriv c r) s'
  end.

(** regex notation *)
Definition Ch (c : N) : re := Cls [(c, c)].
Definition Opt (r : re) : re := Alt Eps r.
Definition Plus (r : re) : re := Cat r (Star r).
Fixpoint Lit (s : bytes) : re := match s with [] => Eps | c :: r => Cat (Ch c) (Lit r) end.
Fixpoint Alts (rs : list re) : re := match rs with [] => Void | [r] => r | r :: t => Alt r (Alts t) end.
Fixpoint Seq (rs : list re) : re := match rs with [] => Eps | [r] => r | r :: t => Cat r (Seq t) end.
Definition Words (ws : list bytes) : re := Alts (map Lit ws).

Definition digit : re := Cls [(48, 57)].
Definition sign : re := Cls [(45, 45); (43, 43)].
Definition ws_cls : re := Cls [(32, 32); (9, 9)].

(* ------------------------------------------------------------------ SPEC: YAML scalar resolution *)

(** words of the bool / null / inf / nan resolvers (YAML 1.2 core schema and YAML 1.1 types),
    as byte strings *)
Definition yaml_words : list bytes :=
  [ (* 1.2 core + 1.1: null *) [110;117;108;108]; [78;117;108;108]; [78;85;76;76]; [126];
    (* true / false *) [116;114;117;101]; [84;114;117;101]; [84;82;85;69];
    [102;97;108;115;101]; [70;97;108;115;101]; [70;65;76;83;69];
    (* 1.1 bool: y Y yes Yes YES n N no No NO on On ON off Off OFF *)
    [121]; [89]; [121;101;115]; [89;101;115]; [89;69;83]; [110]; [78]; [110;111]; [78;111]; [78;79];
    [111;110]; [79;110]; [79;78]; [111;102;102]; [79;102;102]; [79;70;70];
    (* .inf .Inf .INF with optional sign; .nan .NaN .NAN *)
    [46;105;110;102]; [46;73;110;102]; [46;73;78;70];
    [45;46;105;110;102]; [45;46;73;110;102]; [45;46;73;78;70];
    [43;46;105;110;102]; [43;46;73;110;102]; [43;46;73;78;70];
    [46;110;97;110]; [46;78;97;78]; [46;78;65;78];
    (* 1.1 merge `<<` and value `=` *)
    [60;60]; [61] ].

(** YAML 1.2 core schema, section 10.3.2 *)
Definition re_int12 : re := Cat (Opt sign) (Plus digit).                          (* [-+]? [0-9]+ *)
Definition re_oct12 : re := Cat (Lit [48; 111]) (Plus (Cls [(48, 55)])).          (* 0o [0-7]+ *)
Definition re_hex12 : re := Cat (Lit [48; 120]) (Plus (Cls [(48, 57); (97, 102); (65, 70)])).  (* 0x [0-9a-fA-F]+ *)
Definition re_float12 : re :=          (* [-+]? ( \. [0-9]+ | [0-9]+ ( \. [0-9]{0,} )? ) ( [eE] [-+]? [0-9]+ )? *)
  Seq [Opt sign;
       Alt (Cat (Ch 46) (Plus digit)) (Cat (Plus digit) (Opt (Cat (Ch 46) (Star digit))));
       Opt (Seq [Cls [(101, 101); (69, 69)]; Opt sign; Plus digit])].

(** YAML 1.1 type repository *)
Definition d_ : re := Cls [(48, 57); (95, 95)].                                   (* [0-9_] *)
Definition re_bin11 : re := Seq [Opt sign; Lit [48; 98]; Plus (Cls [(48, 49); (95, 95)])].     (* [-+]?0b[0-1_]+ *)
Definition re_oct11 : re := Seq [Opt sign; Ch 48; Plus (Cls [(48, 55); (95, 95)])].            (* [-+]?0[0-7_]+ *)
Definition re_dec11 : re := Cat (Opt sign) (Alt (Ch 48) (Cat (Cls [(49, 57)]) (Star d_))).     (* [-+]?(0|[1-9][0-9_]{0,}) *)
Definition re_hex11 : re :=                                                       (* [-+]?0x[0-9a-fA-F_]+ *)
  Seq [Opt sign; Lit [48; 120]; Plus (Cls [(48, 57); (97, 102); (65, 70); (95, 95)])].
Definition sexa_tail : re := Plus (Seq [Ch 58; Opt (Cls [(48, 53)]); digit]).     (* (:[0-5]?[0-9])+ *)
Definition re_sexa_int11 : re := Seq [Opt sign; Cls [(49, 57)]; Star d_; sexa_tail].
(** [-+]?([0-9][0-9_]{0,})?\.[0-9_]{0,}([eE][-+][0-9]+)?  — the fraction class is written [0-9_] as
    every YAML 1.1 implementation (PyYAML, libyaml-based loaders, Psych) does; the type
    repository's text has the misprint [0-9.] *)
Definition re_float11 : re :=
  Seq [Opt sign; Opt (Cat digit (Star d_)); Ch 46; Star d_;
       Opt (Seq [Cls [(101, 101); (69, 69)]; sign; Plus digit])].
Definition re_sexa_float11 : re := Seq [Opt sign; digit; Star d_; sexa_tail; Ch 46; Star d_].
(** timestamp: ymd form and the long form *)
Definition re_date11 : re := Seq [digit; digit; digit; digit; Ch 45; digit; digit; Ch 45; digit; digit].
Definition re_timestamp11 : re :=
  Seq [digit; digit; digit; digit; Ch 45; digit; Opt digit; Ch 45; digit; Opt digit;
       Alt (Cls [(84, 84); (116, 116)]) (Plus ws_cls);
       digit; Opt digit; Ch 58; digit; digit; Ch 58; digit; digit;
       Opt (Cat (Ch 46) (Star digit));
       Opt (Alt (Cat (Star ws_cls) (Ch 90))
                (Seq [sign; digit; Opt digit; Opt (Seq [Ch 58; digit; digit])]))].

Definition yaml_resolvers : list re :=
  [Words yaml_words; re_int12; re_oct12; re_hex12; re_float12;
   re_bin11; re_oct11; re_dec11; re_hex11; re_sexa_int11; re_float11; re_sexa_float11;
   re_date11; re_timestamp11].

(** plain-scalar syntax (YAML 1.2 productions 126-135, one line, block-key / flow-out context),
    stated for one-token ASCII scalars *)
Definition ns_char (b : N) : bool := (33 <=? b) && (b <=? 126).
Definition mem (b : N) (l : list N) : bool := existsb (fun x => x =? b) l.
(** c-indicator: - ? : , [ ] { } # & * ! | > single-quote double-quote % @ backtick *)
Definition c_indicator (b : N) : bool :=
  mem b [45; 63; 58; 44; 91; 93; 123; 125; 35; 38; 42; 33; 124; 62; 39; 34; 37; 64; 96].
Definition flow_ind (b : N) : bool := mem b [44; 91; 93; 123; 125].
Definition plain_first (s : bytes) : bool :=
  match s with
  | [] => false
  | b :: r =>
      negb (c_indicator b)
      || (mem b [45; 63; 58] && match r with c :: _ => ns_char c && negb (flow_ind c) | [] => false end)
  end.
(** a `:` inside a plain scalar must be followed by a non-space character *)
Fixpoint colon_ok (s : bytes) : bool :=
  match s with
  | [] => true
  | b :: r => (if b =? 58 then negb (is_nil r) else true) && colon_ok r
  end.
(** `---` / `...` at the start of a line are document markers *)
Definition doc_marker (s : bytes) : bool := beq s [45; 45; 45] || beq s [46; 46; 46].
Definition plain_syntax (s : bytes) : bool :=
  plain_first s && forallb (fun b => ns_char b && negb (flow_ind b)) s && colon_ok s && negb (doc_marker s).

Definition yaml_plain_ok (s : bytes) : Prop :=
  plain_syntax s = true /\ forall r, In r yaml_resolvers -> ~ lang r s.

Definition yaml_plain_okb (s : bytes) : bool :=
  plain_syntax s && forallb (fun r => negb (rmatch r s)) yaml_resolvers.

(** block-scalar-safe class of the property's quantifier: a multi-line string that the `|` / `|-`
    literal block scalar with auto-detected indentation and clip / strip chomping denotes exactly:
    printable characters only (tab, 0x20-0x7E, >= 0xA0 lead/continuation bytes; no CR, no C0/DEL),
    the first line is non-empty and does not start with a space, no line consists of spaces / tabs only
    except as an empty line, at most one trailing newline *)
Definition bs_byte_ok (b : N) : bool := (b =? 9) || (b =? 10) || ((32 <=? b) && (b <=? 126)) || (128 <=? b).
Definition blank_line (l : bytes) : bool := forallb (fun b => (b =? 32) || (b =? 9)) l.
Definition block_safe (s : bytes) : bool :=
  forallb bs_byte_ok s
  && existsb (fun b => b =? 10) s
  && match split_nl s with
     | first :: rest =>
         negb (is_nil first) && negb (blank_line first) && negb (starts_with [32] first)
         && forallb (fun l => is_nil l || negb (blank_line l)) rest
         && match rev rest with
            | [] :: [] :: _ => false                     (* ends with "\n\n" *)
            | _ => true
            end
     | [] => false
     end.

(* ================================================================== TOML *)

(* ------------------------------------------------------------------ IMPL-MODEL *)

Definition bare_allowed (s : bytes) : bool := negb (is_nil s) && all_in toml_cls_bare s.

(** escape_string_toml_buf: JSON escaping, then `tmp.replace(C, R)` over the escaped text when the
    string contains the character C (U+007F) *)
Definition trepl (out : bytes) : bytes :=
  flat_map (fun c => if c =? toml_replaced then toml_replacement else [c]) out.
Definition tesc (s : bytes) : bytes :=
  if existsb (fun c => c =? toml_replaced) s then trepl (esc s) else esc s.
(** reference form: what one input byte turns into *)
Definition tesc1 (b : N) : bytes := trepl (esc1 b).

Definition tkey (k : bytes) : bytes := if bare_allowed k then k else tesc k.
Definition tpath (p : list bytes) : bytes := join [46] (map tkey p).

Record topts := mkT { t_pad : bytes; t_skip : bool }.
Definition fmt_toml_std (indent : bytes) : topts := mkT indent toml_std_skip_empty_sections.
Definition fmt_toml_cli (n : nat) : topts := mkT (rep_bytes n toml_cli_pad_unit) toml_cli_skip_empty_sections.

Definition is_obj (v : jval) : bool := match v with JObj _ => true | _ => false end.
Definition is_section (v : jval) : bool :=
  match v with
  | JArr xs => negb (is_nil xs) && forallb is_obj xs
  | JObj _ => true
  | _ => false
  end.

(** manifest_value; the recursive calls are always `inline = true, cur_padding = ""` *)
Fixpoint tval (o : topts) (inline : bool) (cur : bytes) (v : jval) : option bytes :=
  match v with
  | JBool true => Some [116; 114; 117; 101]
  | JBool false => Some [102; 97; 108; 115; 101]
  | JStr s => Some (tesc s)
  | JNum tok => Some tok
  | JArr xs =>
      match omap (tval o true []) xs with
      | Some items =>
          Some ([91]
                ++ join [44] (map (fun b => (if inline then [32] else [10] ++ cur ++ t_pad o) ++ b) items)
                ++ (if is_nil xs then [] else if inline then [32] else [10] ++ cur)
                ++ [93])
      | None => None
      end
  | JObj fs =>
      match omap (fun kv : bytes * jval =>
                    let (k, x) := kv in
                    match tval o true [] x with
                    | Some b => Some ([32] ++ tkey k ++ [32; 61; 32] ++ b)
                    | None => None
                    end) fs with
      | Some fields => Some ([123] ++ join [44] fields ++ (if is_nil fs then [] else [32]) ++ [125])
      | None => None
      end
  | JNull => None
  | JFun => None
  end.

(** what the two loops of manifest_table_internal leave in the buffer: plain `key = value` lines
    joined by "\n", section blocks joined by "\n\n", "\n\n" between the two groups *)
Definition assemble (parts : list (bool * bytes)) : bytes :=
  let plain := map snd (filter (fun p => negb (fst p)) parts) in
  let secs := map snd (filter (fun p => fst p) parts) in
  join [10] plain ++ (if negb (is_nil plain) && negb (is_nil secs) then [10; 10] else []) ++ join [10; 10] secs.

(** manifest_table_internal on the object [v] (with manifest_table / manifest_table_array inlined) *)
Fixpoint tint (o : topts) (path : list bytes) (cur : bytes) (v : jval) {struct v} : option bytes :=
  match v with
  | JObj fs =>
      match omap (fun kv : bytes * jval =>
                    let (k, x) := kv in
                    let plain :=
                      match tval o false cur x with
                      | Some b => Some (false, cur ++ tkey k ++ [32; 61; 32] ++ b)
                      | None => None
                      end in
                    let p := path ++ [k] in
                    match x with
                    | JObj cfs =>
                        (* manifest_table *)
                        if t_skip o && negb (is_nil cfs) && forallb (fun kv => is_section (snd kv)) cfs
                        then match tint o p cur x with Some b => Some (true, b) | None => None end
                        else
                          let hdr := cur ++ [91] ++ tpath p ++ [93] in
                          if is_nil cfs then Some (true, hdr)
                          else match tint o p (cur ++ t_pad o) x with
                               | Some b => Some (true, hdr ++ [10] ++ b)
                               | None => None
                               end
                    | JArr els =>
                        if is_section x then
                          (* manifest_table_array *)
                          let fp := cur ++ [91; 91] ++ tpath p ++ [93; 93] in
                          match omap (fun e =>
                                        match e with
                                        | JObj [] => Some fp
                                        | JObj _ =>
                                            match tint o p (cur ++ t_pad o) e with
                                            | Some b => Some (fp ++ [10] ++ b)
                                            | None => None
                                            end
                                        | _ => None
                                        end) els with
                          | Some blocks => Some (true, join [10; 10] blocks)
                          | None => None
                          end
                        else plain
                    | _ => plain
                    end) fs with
      | Some parts => Some (assemble parts)
      | None => None
      end
  | _ => None
  end.

(** TomlFormat::manifest_buf: "toml body should be object" *)
Definition toml_manifest (o : topts) (v : jval) : option bytes :=
  match v with JObj _ => tint o [] [] v | _ => None end.

(* ------------------------------------------------------------------ SPEC *)

(** TOML v1.0: unquoted-key = 1*( ALPHA / DIGIT / %x2D / %x5F ) *)
Definition toml_key_char (b : N) : bool :=
  ((65 <=? b) && (b <=? 90)) || ((97 <=? b) && (b <=? 122)) || ((48 <=? b) && (b <=? 57)) || (b =? 45) || (b =? 95).
Definition toml_bare_key (s : bytes) : Prop := s <> [] /\ forallb toml_key_char s = true.

(** values that TOML cannot hold *)
Fixpoint has_null (v : jval) : bool :=
  match v with
  | JNull => true
  | JArr xs => existsb has_null xs
  | JObj fs => existsb (fun kv => has_null (snd kv)) fs
  | _ => false
  end.

(* ================================================================== double-quoted string dialects (SPEC) *)

Record dialect := mkD {
  d_raw : N -> bool;             (* bytes that may appear unescaped between the quotes *)
  d_simple : N -> option N;      (* `\c` escapes: the code point < 128 they denote *)
  d_u4 : bool                    (* `\uXXXX` for a non-surrogate code point *)
}.

(** content after the opening quote up to and including the closing quote: decoded UTF-8 bytes
    and the rest of the input.  Only the escapes listed by the dialect are understood: the reader
    accepts a subset of each language's literals and, where it accepts, denotes what the language does. *)
Fixpoint dq_str (d : dialect) (bs : bytes) : option (bytes * bytes) :=
  match bs with
  | [] => None
  | b :: r =>
      if b =? 34 then Some ([], r)
      else if b =? 92 then
        match r with
        | [] => None
        | e :: r1 =>
            if (e =? 117) && d_u4 d then
              match r1 with
              | h1 :: h2 :: h3 :: h4 :: r2 =>
                  match hex4 h1 h2 h3 h4 with
                  | Some cp => if is_high cp || is_low cp then None else prepend (utf8_enc cp) (dq_str d r2)
                  | None => None
                  end
              | _ => None
              end
            else match d_simple d e with
                 | Some c => prepend [c] (dq_str d r1)
                 | None => None
                 end
        end
      else if d_raw d b then prepend [b] (dq_str d r)
      else None
  end.

Definition dq_read (d : dialect) (bs : bytes) : option bytes :=
  match bs with
  | q :: r => if q =? 34 then match dq_str d r with Some (s, []) => Some s | _ => None end else None
  | [] => None
  end.

Definition assoc (l : list (N * N)) (e : N) : option N :=
  match find (fun p => fst p =? e) l with Some p => Some (snd p) | None => None end.

(** TOML v1.0 basic string: basic-unescaped excludes U+0000-0008, U+000A-001F, U+007F, the quote
    and the backslash; escapes: backslash + b t n f r quote backslash uXXXX (no escaped slash) *)
Definition toml_dialect : dialect :=
  mkD (fun b => ((b =? 9) || (32 <=? b)) && negb (b =? 127) && negb (b =? 34) && negb (b =? 92))
      (assoc [(98, 8); (116, 9); (110, 10); (102, 12); (114, 13); (34, 34); (92, 92)])
      true.

(** Python 3 string literal in double quotes: any source character except newline / CR / NUL,
    quote and backslash; escapes: backslash + backslash apostrophe quote a b f n r t v uXXXX *)
Definition python_dialect : dialect :=
  mkD (fun b => negb (b =? 10) && negb (b =? 13) && negb (b =? 0) && negb (b =? 34) && negb (b =? 92))
      (assoc [(92, 92); (39, 39); (34, 34); (97, 7); (98, 8); (102, 12); (110, 10); (114, 13); (116, 9); (118, 11)])
      true.

(** YAML 1.2 double-quoted scalar on one line: nb-json (tab, >= 0x20) except quote and
    backslash; escapes: backslash + 0 a b t n v f r e quote slash backslash uXXXX *)
Definition yaml_dialect : dialect :=
  mkD (fun b => ((b =? 9) || (32 <=? b)) && negb (b =? 34) && negb (b =? 92))
      (assoc [(48, 0); (97, 7); (98, 8); (116, 9); (110, 10); (118, 11); (102, 12); (114, 13); (101, 27);
              (34, 34); (47, 47); (92, 92)])
      true.

(** decidable condition on one ESCAPE-table entry: what the JSON escaper writes for byte [b]
    is, in dialect [d], a spelling of exactly [b] *)
Definition dq_seq_ok (d : dialect) (sq : bytes) (b : N) : bool :=
  match sq with
  | [c] => (c =? b) && d_raw d b && negb (b =? 34) && negb (b =? 92)
  | [bs; e] =>
      (bs =? 92) && negb ((e =? 117) && d_u4 d)
      && match d_simple d e with Some c => c =? b | None => false end
  | [bs; u; h1; h2; h3; h4] =>
      (bs =? 92) && (u =? 117) && d_u4 d
      && match hex4 h1 h2 h3 h4 with Some cp => (cp =? b) && (cp <? 128) | None => false end
  | _ => false
  end.

Definition dq_entry_ok (d : dialect) (f : N -> bytes) (bad : N -> bool) (b : N) : bool := bad b || dq_seq_ok d (f b) b.
Definition dq_table_ok (d : dialect) (f : N -> bytes) (bad : N -> bool) : bool :=
  forallb (dq_entry_ok d f bad) (map N.of_nat (seq 0 256)).

(** the byte the TOML escaper replaces after JSON escaping *)
Definition toml_bad (b : N) : bool := b =? toml_replaced.
Definition no_bad (_ : N) : bool := false.

(* ================================================================== Python *)

Fixpoint pywr (v : jval) : option bytes :=
  match v with
  | JBool true => Some [84; 114; 117; 101]
  | JBool false => Some [70; 97; 108; 115; 101]
  | JNull => Some [78; 111; 110; 101]
  | JStr s => Some (esc s)
  | JNum tok => Some tok
  | JArr xs =>
      match omap pywr xs with
      | Some items => Some ([91] ++ join [44; 32] items ++ [93])
      | None => None
      end
  | JObj fs =>
      match omap (fun kv : bytes * jval =>
                    let (k, x) := kv in
                    match pywr x with Some b => Some (esc k ++ [58; 32] ++ b) | None => None end) fs with
      | Some fields => Some ([123] ++ join [44; 32] fields ++ [125])
      | None => None
      end
  | JFun => None
  end.

(** PythonVarsFormat: "Yep, no escaping" of the variable names *)
Definition pyvars (v : jval) : option bytes :=
  match v with
  | JObj fs =>
      match omap (fun kv : bytes * jval =>
                    let (k, x) := kv in
                    match pywr x with Some b => Some (k ++ [32; 61; 32] ++ b ++ [10]) | None => None end) fs with
      | Some lines => Some (concat lines)
      | None => None
      end
  | _ => None
  end.

(* ================================================================== XML *)

(* ------------------------------------------------------------------ IMPL-MODEL *)

Definition xml_entity (b : N) : option bytes :=
  if mem b xml_searched
  then match find (fun p => fst p =? b) xml_entities with Some p => Some (snd p) | None => None end
  else None.

(** the `while let Some(position)` loop: [plain] is the not yet copied prefix of `remaining`,
    [found] the flag; `unreachable!()` = [None] *)
Fixpoint xml_loop (str rest plain out : bytes) (found : bool) : option bytes :=
  match rest with
  | [] => if found then Some (out ++ plain) else Some (out ++ str)
  | b :: r =>
      if mem b xml_searched then
        match xml_entity b with
        | Some e => xml_loop str r [] (out ++ plain ++ e) true
        | None => None
        end
      else xml_loop str r (plain ++ [b]) out found
  end.

Definition xml_escape_impl (s : bytes) : option bytes := if is_nil s then Some [] else xml_loop s s [] [] false.

(** reference form: a per-byte map *)
Definition xml_esc1 (b : N) : bytes := match xml_entity b with Some e => e | None => [b] end.
Definition xml_escape (s : bytes) : bytes := flat_map xml_esc1 s.

Inductive jsonml :=
| MTag (tag : bytes) (attrs : list (bytes * jval)) (children : list jsonml)
| MStr (s : bytes).

(** JSONMLValue::from_untyped *)
Fixpoint jsonml_of (v : jval) : option jsonml :=
  match v with
  | JStr s => Some (MStr s)
  | JArr (JStr tag :: rest) =>
      match rest with
      | JObj fs :: kids =>
          match omap jsonml_of kids with Some ch => Some (MTag tag fs ch) | None => None end
      | _ =>
          match omap jsonml_of rest with Some ch => Some (MTag tag [] ch) | None => None end
      end
  | _ => None
  end.

Definition attr_text (x : jval) : option bytes :=
  match x with JStr s => Some s | _ => to_string_format x end.

Fixpoint xml_wr (force_closing : bool) (m : jsonml) : option bytes :=
  match m with
  | MStr s => Some (xml_escape s)
  | MTag tag attrs kids =>
      match omap (fun kv : bytes * jval =>
                    let (k, x) := kv in
                    match attr_text x with
                    | Some t => Some ([32] ++ k ++ [61; 34] ++ xml_escape t ++ [34])
                    | None => None
                    end) attrs,
            omap (xml_wr force_closing) kids with
      | Some ats, Some ch =>
          Some ([60] ++ tag ++ concat ats
                ++ (if is_nil kids && negb force_closing then [47] else []) ++ [62]
                ++ concat ch
                ++ (if negb (is_nil kids) || force_closing then [60; 47] ++ tag ++ [62] else []))
      | _, _ => None
      end
  end.

Definition xml_manifest (force_closing : bool) (v : jval) : option bytes :=
  match jsonml_of v with Some m => xml_wr force_closing m | None => None end.

(* ------------------------------------------------------------------ SPEC *)

(** XML 1.0 character data / attribute value: raw bytes other than `<` and `&`, and the five
    predefined entity references; [None] for a raw `<`, or an `&` that starts none of the five *)
Definition named_entities : list (bytes * N) :=
  [([108; 116; 59], 60); ([103; 116; 59], 62); ([97; 109; 112; 59], 38);
   ([113; 117; 111; 116; 59], 34); ([97; 112; 111; 115; 59], 39)].

Definition ocons (c : N) (r : option bytes) : option bytes := match r with Some t => Some (c :: t) | None => None end.

Fixpoint xml_unescape (s : bytes) : option bytes :=
  match s with
  | [] => Some []
  | b :: r =>
      if b =? 60 then None
      else if b =? 38 then
        match r with
        | c1 :: c2 :: c3 :: r3 =>
            if beq [c1; c2; c3] [108; 116; 59] then ocons 60 (xml_unescape r3)
            else if beq [c1; c2; c3] [103; 116; 59] then ocons 62 (xml_unescape r3)
            else match r3 with
                 | c4 :: r4 =>
                     if beq [c1; c2; c3; c4] [97; 109; 112; 59] then ocons 38 (xml_unescape r4)
                     else match r4 with
                          | c5 :: r5 =>
                              if beq [c1; c2; c3; c4; c5] [113; 117; 111; 116; 59] then ocons 34 (xml_unescape r5)
                              else if beq [c1; c2; c3; c4; c5] [97; 112; 111; 115; 59] then ocons 39 (xml_unescape r5)
                              else None
                          | [] => None
                          end
                 | [] => None
                 end
        | _ => None
        end
      else ocons b (xml_unescape r)
  end.

(** decidable condition on one byte: what the escaper writes for it reads back as that byte,
    and contains no raw `<`, `>`, quote or apostrophe *)
Definition xml_seq_ok (e : bytes) (b : N) : bool :=
  existsb (fun p => beq e (38 :: fst p) && (snd p =? b)) named_entities.
Definition xml_entry_ok (b : N) : bool :=
  match xml_entity b with
  | Some e => xml_seq_ok e b
  | None => negb (mem b xml_searched) && negb (mem b [60; 38; 62; 34; 39])
  end.
Definition xml_table_ok : bool :=
  forallb xml_entry_ok (map N.of_nat (seq 0 256)) && forallb (fun b => b <? 256) xml_searched.

(** the JSONML grammar: element = [tag-name, attributes?, element-list] | string *)
Fixpoint is_jsonml (v : jval) : bool :=
  match v with
  | JStr _ => true
  | JArr (JStr _ :: JObj _ :: kids) => forallb is_jsonml kids
  | JArr (JStr _ :: kids) => forallb is_jsonml kids
  | _ => false
  end.

(* ================================================================== INI *)

Definition ini_text (x : jval) : option bytes := to_string_format x.

Definition ini_field (k : bytes) (x : jval) : option bytes :=
  match x with
  | JArr els =>
      match omap (fun e => match ini_text e with Some t => Some (k ++ [32; 61; 32] ++ t) | None => None end) els with
      | Some lines => Some (join [10] lines)
      | None => None
      end
  | _ => match ini_text x with Some t => Some (k ++ [32; 61; 32] ++ t) | None => None end
  end.

(** manifest_ini_body appending to [out] *)
Fixpoint ini_body (out : bytes) (first : bool) (fs : list (bytes * jval)) : option bytes :=
  match fs with
  | [] => Some out
  | (k, x) :: r =>
      let out1 := if negb first || negb (is_nil out) then out ++ [10] else out in
      match ini_field k x with
      | Some b => ini_body (out1 ++ b) false r
      | None => None
      end
  end.

Fixpoint ini_sections (out : bytes) (first : bool) (ss : list (bytes * jval)) : option bytes :=
  match ss with
  | [] => Some out
  | (name, JObj body) :: r =>
      let out1 := if negb first || negb (is_nil out) then out ++ [10] else out in
      match ini_body (out1 ++ [91] ++ name ++ [93]) true body with
      | Some out2 => ini_sections out2 false r
      | None => None
      end
  | _ => None
  end.

Definition lookup (k : bytes) (fs : list (bytes * jval)) : option jval :=
  match find (fun kv => beq (fst kv) k) fs with Some kv => Some (snd kv) | None => None end.

Definition k_main : bytes := [109; 97; 105; 110].
Definition k_sections : bytes := [115; 101; 99; 116; 105; 111; 110; 115].

(** IniObj::from_untyped + manifest_ini_obj; the section map is a BTreeMap: the caller passes the
    sections in ascending name order *)
Definition ini_manifest (final_newline : bool) (v : jval) : option bytes :=
  match v with
  | JObj fs =>
      match lookup k_sections fs with
      | Some (JObj ss) =>
          let main_out :=
            match lookup k_main fs with
            | None => Some []
            | Some (JObj body) => ini_body [] true body
            | Some _ => None
            end in
          match main_out with
          | Some out =>
              match ini_sections out true ss with
              | Some out2 => Some (out2 ++ (if final_newline then [10] else []))
              | None => None
              end
          | None => None
          end
      | _ => None
      end
  | _ => None
  end.

(* ================================================================== correspondence entry points *)

Definition obytes (o : option bytes) : option bytes := o.

(** every YAML path for one value: std (4 option combinations), cli(2) *)
Definition yaml_paths (v : jval) : list (option bytes) :=
  [yaml_manifest (fmt_yaml_std false false) v; yaml_manifest (fmt_yaml_std false true) v;
   yaml_manifest (fmt_yaml_std true false) v; yaml_manifest (fmt_yaml_std true true) v;
   yaml_manifest (fmt_yaml_cli 2) v].

Definition toml_paths (v : jval) (indent : bytes) : list (option bytes) :=
  [toml_manifest (fmt_toml_std toml_default_indent) v; toml_manifest (fmt_toml_std indent) v;
   toml_manifest (fmt_toml_cli 2) v].

Definition misc_paths (v : jval) : list (option bytes) :=
  [pywr v; pyvars v; xml_manifest xml_std_force_closing v; xml_manifest xml_cli_force_closing v;
   ini_manifest true v; ini_manifest false v].
