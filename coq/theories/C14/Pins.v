(** C14 — pins: every property theorem re-stated (a weakened statement does not compile), a few
    definitions pinned by computation, and non-vacuity examples. *)
From Coq Require Import List NArith Bool.
From JrV Require Import Gen.GenEscape Gen.GenYaml Gen.GenToml Gen.GenXml C05.Model C14.Model C14.Proofs C14.Properties.
Import ListNotations.
Open Scope N_scope.

Check C14_rmatch_is_lang :
  forall s r, rmatch r s = true <-> lang r s.

Check C14_yaml_plain_ok_decided :
  forall s, yaml_plain_okb s = true <-> yaml_plain_ok s.

Check C14_yaml_bare_sound :
  forall s, bare_safe s = true -> yaml_plain_ok s.

Check C14_yaml_quoted_ok :
  forall bs, Forall (fun b => b < 256) bs ->
  exists out, escape bs = Some out /\ dq_read yaml_dialect out = Some bs.

Check C14_toml_bare_sound :
  forall s, bare_allowed s = true -> toml_bare_key s.

Check C14_toml_bare_complete :
  forall s, toml_bare_key s -> bare_allowed s = true.

Check C14_toml_quoted_ok :
  forall bs, Forall (fun b => b < 256) bs -> dq_read toml_dialect (tesc bs) = Some bs.

Check C14_python_literal :
  forall bs, Forall (fun b => b < 256) bs ->
  exists out, escape bs = Some out /\ dq_read python_dialect out = Some bs.

Check C14_xml_escape_impl_is_map :
  forall s, xml_escape_impl s = Some (xml_escape s).

Check C14_xml_escape_roundtrip :
  forall s, xml_unescape (xml_escape s) = Some s /\ forallb xml_clean (xml_escape s) = true.

Check C14_yaml_rejects_exactly_functions :
  forall o v cur, ywr o cur v = None <-> has_fun v = true.

Check C14_python_rejects_exactly_functions :
  forall v, pywr v = None <-> has_fun v = true.

Check C14_toml_value_rejects_exactly_null_and_functions :
  forall o v inline cur, tval o inline cur v = None <-> has_fun v || has_null v = true.

Check C14_toml_top_must_be_object :
  forall o v, is_obj v = false -> toml_manifest o v = None.

Check C14_xml_shape_is_jsonml :
  forall v, jsonml_of v = None <-> is_jsonml v = false.

(* definitions pinned by computation; also the non-vacuity witnesses of the theorems above *)
(* "key" "a-b" "v1.2.3" "-x" are emitted bare and are plain strings *)
Check eq_refl : map bare_safe [[107;101;121]; [97;45;98]; [118;49;46;50;46;51]; [45;120]] = [true; true; true; true].
Check eq_refl : map yaml_plain_okb [[107;101;121]; [97;45;98]; [118;49;46;50;46;51]; [45;120]] = [true; true; true; true].
(* yes No ON null ~ .inf 1_000 0x1F 1e3 2001-12-14 1:30 << "" - --- are not *)
Check eq_refl : map bare_safe [[121;101;115]; [78;111]; [79;78]; [110;117;108;108]; [126]; [46;105;110;102]; [49;95;48;48;48];
                               [48;120;49;70]; [49;101;51]; [50;48;48;49;45;49;50;45;49;52]; [49;58;51;48]; [60;60]; []; [45]; [45;45;45]]
                 = [false; false; false; false; false; false; false; false; false; false; false; false; false; false; false].
Check eq_refl : map yaml_plain_okb [[121;101;115]; [78;111]; [49;95;48;48;48]; [48;120;49;70]; [49;101;51]; [50;48;48;49;45;49;50;45;49;52];
                                    [49;58;51;48]; [60;60]; [48;111;55]; [46;46;46]; [48;98;49]; [49;57;48;58;50;48;58;51;48]; [46;53]]
                 = [false; false; false; false; false; false; false; false; false; false; false; false; false].
(* the former findings, on the model: 0o7 and ... quoted, 0o8 / 0o / -0o7 are not octal and stay bare; empty TOML key quoted; DEL escaped *)
Check eq_refl : map bare_safe [[48;111;55]; [48;111;49;55]; [46;46;46]; [48;111;56]; [48;111]; [45;48;111;55]] = [false; false; false; true; true; true].
Check eq_refl : tkey [] = [34;34].
Check eq_refl : tesc [97;127] = [34;97;92;117;48;48;55;102;34].
Check eq_refl : dq_read toml_dialect (tesc [97;127]) = Some [97;127].
Check eq_refl : dq_read toml_dialect (esc [97;127]) = None.
Check eq_refl : dq_read toml_dialect (tesc [97;34;10;1;195;169]) = Some [97;34;10;1;195;169].
Check eq_refl : dq_read python_dialect (esc [97;127;0;92]) = Some [97;127;0;92].
Check eq_refl : xml_escape_impl [97;60;38;62;34;39;98] = Some [97;38;108;116;59;38;97;109;112;59;38;103;116;59;38;113;117;111;116;59;38;97;112;111;115;59;98].
Check eq_refl : xml_unescape [38;108;116;59;38;120] = None.
(* writers *)
Check eq_refl : yaml_manifest (fmt_yaml_std false false) (JObj [([97], JArr [JNum [49]; JStr [120;10;121]]); ([98], JObj [])])
                = Some [97;58;10;45;32;49;10;45;32;124;45;10;32;32;120;10;32;32;121;10;98;58;32;123;125].
Check eq_refl : toml_manifest (fmt_toml_std [32;32]) (JObj [([97], JNum [49]); ([98], JObj [([99], JArr [])])])
                = Some [97;32;61;32;49;10;10;91;98;93;10;32;32;99;32;61;32;91;93].
Check eq_refl : toml_manifest (fmt_toml_std [32;32]) (JObj [([97], JNull)]) = None.
Check eq_refl : pywr (JArr [JBool true; JNull; JStr [97]]) = Some [91;84;114;117;101;44;32;78;111;110;101;44;32;34;97;34;93].
Check eq_refl : xml_manifest true (JArr [JStr [97]; JObj [([120], JStr [60])]; JStr [38]; JArr [JStr [98]]])
                = Some [60;97;32;120;61;34;38;108;116;59;34;62;38;97;109;112;59;60;98;62;60;47;98;62;60;47;97;62].
Check eq_refl : xml_manifest true (JArr [JStr [97]; JNum [49]]) = None.
Check eq_refl : ini_manifest true (JObj [([109;97;105;110], JObj [([97], JNum [49])]); ([115;101;99;116;105;111;110;115], JObj [([115], JObj [([107], JArr [JStr [120]; JStr [121]])])])])
                = Some [97;32;61;32;49;10;91;115;93;10;107;32;61;32;120;10;107;32;61;32;121;10].
