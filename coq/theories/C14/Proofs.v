(** C14 — lemmas.  Part 1: regular expressions (matcher = language, static analyses).
    Part 2: bare_safe is sound.  Part 3: TOML keys, double-quoted dialects.  Part 4: XML.
    Part 5: domain rejections. *)
From Coq Require Import List NArith Bool Arith Lia.
From JrV Require Import Gen.GenEscape Gen.GenYaml Gen.GenToml Gen.GenXml C05.Model C05.Proofs C14.Model.
Import ListNotations.
Open Scope N_scope.

(* ================================================================== Part 1: regular expressions *)

Lemma lang_cat_inv : forall a b s, lang (Cat a b) s -> exists s1 s2, s = s1 ++ s2 /\ lang a s1 /\ lang b s2.
Proof. intros a b s H. inversion H; subst. eauto. Qed.
Lemma lang_alt_inv : forall a b s, lang (Alt a b) s -> lang a s \/ lang b s.
Proof. intros a b s H. inversion H; subst; auto. Qed.
Lemma lang_cls_inv : forall c s, lang (Cls c) s -> exists b, s = [b] /\ in_class c b = true.
Proof. intros c s H. inversion H; subst. eauto. Qed.
Lemma lang_eps_inv : forall s, lang Eps s -> s = [].
Proof. intros s H. inversion H. reflexivity. Qed.
Lemma lang_void : forall s, ~ lang Void s.
Proof. intros s H. inversion H. Qed.

Lemma nullable_lang : forall r, nullable r = true <-> lang r [].
Proof.
  induction r; cbn [nullable]; split; intro H; try discriminate; try (now constructor).
  - exfalso. eapply lang_void; eauto.
  - apply lang_cls_inv in H. destruct H as (b & E & _). discriminate.
  - apply andb_true_iff in H. destruct H as [H1 H2]. change (@nil N) with (@nil N ++ []).
    constructor; [apply IHr1 | apply IHr2]; assumption.
  - apply lang_cat_inv in H. destruct H as (s1 & s2 & E & L1 & L2).
    symmetry in E. apply app_eq_nil in E. destruct E; subst.
    apply andb_true_iff. split; [apply IHr1 | apply IHr2]; assumption.
  - apply orb_true_iff in H. destruct H; [apply LAltL, IHr1 | apply LAltR, IHr2]; assumption.
  - apply orb_true_iff. apply lang_alt_inv in H. destruct H; [left; apply IHr1 | right; apply IHr2]; assumption.
Qed.

Lemma cat'_lang : forall a b s, lang (cat' a b) s <-> lang (Cat a b) s.
Proof.
  intros a b s. destruct a; cbn [cat']; try tauto.
  split; intro H; [exfalso; eapply lang_void; eauto|].
  apply lang_cat_inv in H. destruct H as (s1 & s2 & _ & L & _). exfalso. eapply lang_void; eauto.
Qed.

Lemma alt'_lang : forall a b s, lang (alt' a b) s <-> lang (Alt a b) s.
Proof.
  intros a b s.
  assert (VL : forall x, lang x s <-> lang (Alt Void x) s).
  { intro x. split; intro H; [now apply LAltR|]. apply lang_alt_inv in H. destruct H; [exfalso; eapply lang_void; eauto | assumption]. }
  assert (VR : forall x, lang x s <-> lang (Alt x Void) s).
  { intro x. split; intro H; [now apply LAltL|]. apply lang_alt_inv in H. destruct H; [assumption | exfalso; eapply lang_void; eauto]. }
  unfold alt'. destruct a; try apply VL; destruct b; try apply VR; tauto.
Qed.

Lemma star_cons : forall a c s, lang (Star a) (c :: s) ->
  exists s1 s2, s = s1 ++ s2 /\ lang a (c :: s1) /\ lang (Star a) s2.
Proof.
  intros a c s H. remember (Star a) as r eqn:Er. remember (c :: s) as w eqn:Ew.
  revert c s Er Ew. induction H; intros c0 s0 Er Ew; try discriminate.
  inversion Er; subst a0. destruct s as [|x s'].
  - cbn [app] in Ew. apply IHlang2; [reflexivity | assumption].
  - cbn [app] in Ew. inversion Ew; subst. exists s', t. auto.
Qed.

Lemma deriv_lang : forall r c s, lang (deriv c r) s <-> lang r (c :: s).
Proof.
  induction r; intros c0 s; cbn [deriv].
  - split; intro H; exfalso; eapply lang_void; eauto.
  - split; intro H; [exfalso; eapply lang_void; eauto | apply lang_eps_inv in H; discriminate].
  - destruct (in_class c c0) eqn:E.
    + split; intro H.
      * apply lang_eps_inv in H. subst. now constructor.
      * apply lang_cls_inv in H. destruct H as (b & Eb & _). inversion Eb; subst. constructor.
    + split; intro H; [exfalso; eapply lang_void; eauto|].
      apply lang_cls_inv in H. destruct H as (b & Eb & Hb). inversion Eb; subst. congruence.
  - assert (Hc : lang (Cat (deriv c0 r1) r2) s <-> exists s1 s2, s = s1 ++ s2 /\ lang r1 (c0 :: s1) /\ lang r2 s2).
    { split.
      - intro H. apply lang_cat_inv in H. destruct H as (s1 & s2 & E & L1 & L2).
        exists s1, s2. split; [assumption|]. split; [apply IHr1|]; assumption.
      - intros (s1 & s2 & -> & H1 & H2). constructor; [apply IHr1|]; assumption. }
    assert (Hfull : lang (Cat r1 r2) (c0 :: s) <->
                    (exists s1 s2, s = s1 ++ s2 /\ lang r1 (c0 :: s1) /\ lang r2 s2) \/ (lang r1 [] /\ lang r2 (c0 :: s))).
    { split.
      - intro H. apply lang_cat_inv in H. destruct H as (s1 & s2 & E & L1 & L2). destruct s1 as [|x s1].
        + cbn [app] in E. subst s2. right. auto.
        + cbn [app] in E. inversion E; subst. left. eauto.
      - intros [(s1 & s2 & -> & H1 & H2) | [H1 H2]].
        + change (c0 :: s1 ++ s2) with ((c0 :: s1) ++ s2). now constructor.
        + change (c0 :: s) with ([] ++ c0 :: s). now constructor. }
    rewrite Hfull. destruct (nullable r1) eqn:En.
    + rewrite alt'_lang. split; intro H.
      * apply lang_alt_inv in H. destruct H as [H|H].
        -- left. apply Hc. apply cat'_lang. assumption.
        -- right. split; [apply nullable_lang; assumption | apply IHr2; assumption].
      * destruct H as [H | [H1 H2]].
        -- apply LAltL. apply cat'_lang. apply Hc. assumption.
        -- apply LAltR. apply IHr2. assumption.
    + rewrite cat'_lang, Hc. split; [auto|]. intros [H | [H1 _]]; [assumption|].
      apply nullable_lang in H1. congruence.
  - rewrite alt'_lang. split; intro H; apply lang_alt_inv in H; destruct H as [H|H].
    + apply LAltL, IHr1. assumption.
    + apply LAltR, IHr2. assumption.
    + apply LAltL, IHr1. assumption.
    + apply LAltR, IHr2. assumption.
  - rewrite cat'_lang. split; intro H.
    + apply lang_cat_inv in H. destruct H as (s1 & s2 & -> & L1 & L2). apply IHr in L1.
      change (c0 :: s1 ++ s2) with ((c0 :: s1) ++ s2). now constructor.
    + apply star_cons in H. destruct H as (s1 & s2 & -> & H1 & H2). constructor; [apply IHr|]; assumption.
Qed.

Lemma rmatch_lang : forall s r, rmatch r s = true <-> lang r s.
Proof.
  induction s as [|c s IH]; intro r; cbn [rmatch].
  - apply nullable_lang.
  - rewrite IH. apply deriv_lang.
Qed.

(* ------------------------------------------------------------------ static analyses of a regex *)

Fixpoint alph (r : re) : list (N * N) :=
  match r with
  | Void | Eps => []
  | Cls c => c
  | Cat a b | Alt a b => alph a ++ alph b
  | Star a => alph a
  end.

Lemma in_class_app : forall a b x, in_class (a ++ b) x = in_class a x || in_class b x.
Proof. intros. unfold in_class. apply existsb_app. Qed.

Lemma all_in_app : forall c s t, all_in c (s ++ t) = all_in c s && all_in c t.
Proof. intros. unfold all_in. apply forallb_app. Qed.

Lemma all_in_weaken : forall c d s, (forall x, in_class c x = true -> in_class d x = true) ->
  all_in c s = true -> all_in d s = true.
Proof.
  intros c d s H. unfold all_in. rewrite !forallb_forall. intros K x Hx. apply H, K, Hx.
Qed.

Lemma lang_alph : forall r s, lang r s -> all_in (alph r) s = true.
Proof.
  induction 1; cbn [alph]; try reflexivity.
  - cbn. now rewrite H.
  - rewrite all_in_app. apply andb_true_iff. split.
    + eapply all_in_weaken; [|eassumption]. intros x Hx. rewrite in_class_app, Hx. reflexivity.
    + eapply all_in_weaken; [|eassumption]. intros x Hx. rewrite in_class_app, Hx. apply orb_true_r.
  - eapply all_in_weaken; [|eassumption]. intros x Hx. rewrite in_class_app, Hx. reflexivity.
  - eapply all_in_weaken; [|eassumption]. intros x Hx. rewrite in_class_app, Hx. apply orb_true_r.
  - rewrite all_in_app. cbn [alph] in IHlang2. now rewrite IHlang1, IHlang2.
Qed.

(** how many bytes of class [q] a word of the language can contain at most ([None] = unbounded) *)
Definition overlap (c q : list (N * N)) : bool :=
  existsb (fun r1 => existsb (fun r2 => N.max (fst r1) (fst r2) <=? N.min (snd r1) (snd r2)) q) c.

Lemma overlap_in : forall c q x, in_class c x = true -> in_class q x = true -> overlap c q = true.
Proof.
  intros c q x H1 H2. unfold in_class in *. apply existsb_exists in H1. destruct H1 as (r1 & I1 & A1).
  apply existsb_exists in H2. destruct H2 as (r2 & I2 & A2).
  unfold overlap. apply existsb_exists. exists r1. split; [assumption|].
  apply existsb_exists. exists r2. split; [assumption|]. b2p. apply N.leb_le. lia.
Qed.

Definition oplus (a b : option nat) : option nat :=
  match a, b with Some x, Some y => Some (x + y)%nat | _, _ => None end.
Definition omax (a b : option nat) : option nat :=
  match a, b with Some x, Some y => Some (Nat.max x y) | _, _ => None end.

Fixpoint maxc (q : list (N * N)) (r : re) : option nat :=
  match r with
  | Void | Eps => Some O
  | Cls c => if overlap c q then Some 1%nat else Some O
  | Cat a b => oplus (maxc q a) (maxc q b)
  | Alt a b => omax (maxc q a) (maxc q b)
  | Star a => match maxc q a with Some O => Some O | _ => None end
  end.

Definition cnt (q : list (N * N)) (s : bytes) : nat := length (filter (in_class q) s).

Lemma cnt_app : forall q s t, cnt q (s ++ t) = (cnt q s + cnt q t)%nat.
Proof. intros. unfold cnt. rewrite filter_app, app_length. reflexivity. Qed.

Lemma lang_maxc : forall q r s, lang r s -> forall n, maxc q r = Some n -> (cnt q s <= n)%nat.
Proof.
  intros q r s H. induction H; intros n Hn; cbn [maxc] in Hn.
  - cbn. lia.
  - unfold cnt. cbn [filter]. destruct (in_class q b) eqn:E.
    + rewrite (overlap_in _ _ _ H E) in Hn. inversion Hn. cbn. lia.
    + cbn. lia.
  - destruct (maxc q a) as [x|]; [|discriminate]. destruct (maxc q b) as [y|]; [|discriminate].
    inversion Hn; subst. rewrite cnt_app. specialize (IHlang1 _ eq_refl). specialize (IHlang2 _ eq_refl). lia.
  - destruct (maxc q a) as [x|]; [|discriminate]. destruct (maxc q b) as [y|]; [|discriminate].
    inversion Hn; subst. specialize (IHlang _ eq_refl). lia.
  - destruct (maxc q a) as [x|]; [|discriminate]. destruct (maxc q b) as [y|]; [|discriminate].
    inversion Hn; subst. specialize (IHlang _ eq_refl). lia.
  - cbn. lia.
  - destruct (maxc q a) as [[|x]|] eqn:E; try discriminate. inversion Hn; subst.
    rewrite cnt_app. specialize (IHlang1 _ eq_refl).
    assert (K : maxc q (Star a) = Some O) by (cbn [maxc]; rewrite E; reflexivity).
    specialize (IHlang2 _ K). lia.
Qed.

Fixpoint minlen (r : re) : nat :=
  match r with
  | Void | Eps => O
  | Cls _ => 1%nat
  | Cat a b => (minlen a + minlen b)%nat
  | Alt a b => Nat.min (minlen a) (minlen b)
  | Star _ => O
  end.

Lemma lang_minlen : forall r s, lang r s -> (minlen r <= length s)%nat.
Proof.
  induction 1; cbn [minlen length]; try rewrite app_length; try lia.
Qed.

(** every word of the language contains the byte [c] *)
Fixpoint musthave (c : N) (r : re) : bool :=
  match r with
  | Void => true
  | Eps => false
  | Cls cl => match cl with [(lo, hi)] => (lo =? c) && (hi =? c) | _ => false end
  | Cat a b => musthave c a || musthave c b
  | Alt a b => musthave c a && musthave c b
  | Star _ => false
  end.

Lemma lang_musthave : forall c r s, lang r s -> musthave c r = true -> In c s.
Proof.
  intros c r s H. induction H; cbn [musthave]; intro M; try discriminate.
  - destruct c0 as [|[lo hi] [|? ?]]; try discriminate. b2p. subst.
    unfold in_class in H. cbn in H. rewrite orb_false_r in H. b2p. left. lia.
  - apply in_or_app. apply orb_true_iff in M. destruct M; [left | right]; auto.
  - apply andb_true_iff in M. destruct M. auto.
  - apply andb_true_iff in M. destruct M. auto.
Qed.

Lemma in_class_single : forall c b, in_class [(c, c)] b = true -> b = c.
Proof. intros c b H. unfold in_class in H. cbn in H. rewrite orb_false_r in H. b2p. lia. Qed.

Lemma lang_lit : forall p s, lang (Lit p) s -> s = p.
Proof.
  induction p as [|c p IH]; intros s H; cbn [Lit] in H.
  - apply lang_eps_inv in H. assumption.
  - apply lang_cat_inv in H. destruct H as (s1 & s2 & -> & L1 & L2).
    apply lang_cls_inv in L1. destruct L1 as (b & -> & Hb). apply in_class_single in Hb. subst.
    cbn. f_equal. apply IH. assumption.
Qed.

Lemma lang_alts : forall rs s, lang (Alts rs) s -> exists r, In r rs /\ lang r s.
Proof.
  induction rs as [|r rs IH]; intros s H.
  - exfalso. eapply lang_void; eauto.
  - destruct rs as [|r' rs].
    + exists r. split; [left; reflexivity | assumption].
    + change (Alts (r :: r' :: rs)) with (Alt r (Alts (r' :: rs))) in H. apply lang_alt_inv in H. destruct H as [H|H].
      * exists r. split; [left; reflexivity | assumption].
      * destruct (IH _ H) as (x & I & L). exists x. split; [right; assumption | assumption].
Qed.

Lemma lang_words : forall ws s, lang (Words ws) s -> In s ws.
Proof.
  intros ws s H. unfold Words in H. apply lang_alts in H. destruct H as (r & I & L).
  apply in_map_iff in I. destruct I as (w & <- & I). apply lang_lit in L. subst. assumption.
Qed.

Lemma starts_with_app : forall p t, starts_with p (p ++ t) = true.
Proof. induction p; intro t; cbn; [reflexivity|]. rewrite N.eqb_refl. apply IHp. Qed.

(** `[-+]? LITERAL rest`: without a `+` the word starts with the literal or with `-` literal *)
Lemma signed_prefix : forall p x s, lang (Cat (Opt sign) (Cat (Lit p) x)) s -> ~ In 43 s ->
  starts_with p s || starts_with (45 :: p) s = true.
Proof.
  intros p x s H Hp. apply lang_cat_inv in H. destruct H as (s1 & s2 & -> & L1 & L2).
  apply lang_cat_inv in L2. destruct L2 as (s3 & s4 & -> & L3 & L4). apply lang_lit in L3. subst s3.
  apply lang_alt_inv in L1. destruct L1 as [L1|L1].
  - apply lang_eps_inv in L1. subst. cbn [app]. rewrite starts_with_app. reflexivity.
  - apply lang_cls_inv in L1. destruct L1 as (b & -> & Hb). unfold in_class in Hb. cbn in Hb. rewrite orb_false_r in Hb.
    apply orb_true_iff in Hb. destruct Hb as [E|E]; b2p.
    + assert (b = 45) by lia. subst. cbn [app starts_with]. rewrite N.eqb_refl, starts_with_app. apply orb_true_r.
    + assert (b = 43) by lia. subst. exfalso. apply Hp. left. reflexivity.
Qed.

Lemma lit_prefix : forall p x s, lang (Cat (Lit p) x) s -> starts_with p s = true.
Proof.
  intros p x s H. apply lang_cat_inv in H. destruct H as (s1 & s2 & -> & L1 & L2).
  apply lang_lit in L1. subst. apply starts_with_app.
Qed.

(* ================================================================== Part 2: bare_safe is sound *)

Definition byte_range : list N := map N.of_nat (seq 0 256).

Lemma in_byte_range : forall x, x < 256 -> In x byte_range.
Proof.
  intros x H. unfold byte_range. replace x with (N.of_nat (N.to_nat x)) by apply N2Nat.id.
  apply in_map. apply in_seq. lia.
Qed.

Global Opaque byte_range.

Definition cls_bounded (c : list (N * N)) : bool := forallb (fun r => snd r <? 256) c.

Lemma cls_bounded_lt : forall c x, cls_bounded c = true -> in_class c x = true -> x < 256.
Proof.
  intros c x B H. unfold in_class in H. apply existsb_exists in H. destruct H as (r & I & A).
  unfold cls_bounded in B. rewrite forallb_forall in B. specialize (B _ I). b2p. lia.
Qed.

(** pointwise facts about a bounded class, decided over the 256 bytes *)
Lemma pointwise : forall (c : list (N * N)) (P : N -> bool),
  cls_bounded c = true -> forallb (fun x => negb (in_class c x) || P x) byte_range = true ->
  forall x, in_class c x = true -> P x = true.
Proof.
  intros c P B H x Hx. rewrite forallb_forall in H.
  specialize (H x (in_byte_range x (cls_bounded_lt _ _ B Hx))). rewrite Hx in H. exact H.
Qed.

Lemma safe_bounded : cls_bounded yaml_cls_safe = true.
Proof. vm_compute. reflexivity. Qed.

Lemma all_in_forall : forall c s, all_in c s = true <-> forall x, In x s -> in_class c x = true.
Proof. intros. unfold all_in. apply forallb_forall. Qed.

(** words in L(r) made of safe bytes lie in class [d] when (alph r /\ safe) is included in d *)
Definition sub_under_safe (r : re) (d : list (N * N)) : bool :=
  forallb (fun x => negb (in_class yaml_cls_safe x) || (negb (in_class (alph r) x) || in_class d x)) byte_range.

Lemma lang_all_in : forall r d s, sub_under_safe r d = true -> lang r s -> all_in yaml_cls_safe s = true ->
  all_in d s = true.
Proof.
  intros r d s S L A. apply lang_alph in L. apply all_in_forall. intros x Hx.
  rewrite all_in_forall in L, A. specialize (L x Hx). specialize (A x Hx).
  unfold sub_under_safe in S.
  pose proof (pointwise yaml_cls_safe (fun x => negb (in_class (alph r) x) || in_class d x) safe_bounded S x A) as K.
  cbv beta in K. rewrite L in K. exact K.
Qed.

Lemma count_cnt : forall c s, count c s = cnt [(c, c)] s.
Proof.
  intros c s. unfold count, cnt. f_equal. apply filter_ext. intro v.
  unfold in_class. cbn. rewrite orb_false_r.
  destruct (N.eqb_spec v c); [subst; rewrite N.leb_refl; reflexivity|].
  symmetry. apply andb_false_iff. destruct (N.leb_spec c v); [right; apply N.leb_gt; lia | left; reflexivity].
Qed.

Lemma count_u_e : forall s, count_u 101 s = cnt [(101, 101); (69, 69)] s.
Proof.
  intro s. unfold count_u, cnt. f_equal. apply filter_ext. intro v.
  change (upper 101) with 69. unfold in_class. cbn. rewrite orb_false_r.
  f_equal.
  - destruct (N.eqb_spec v 101); [subst; reflexivity|].
    symmetry. apply andb_false_iff. destruct (N.leb_spec 101 v); [right; apply N.leb_gt; lia | left; reflexivity].
  - destruct (N.eqb_spec v 69); [subst; reflexivity|].
    symmetry. apply andb_false_iff. destruct (N.leb_spec 69 v); [right; apply N.leb_gt; lia | left; reflexivity].
Qed.

Record bare_facts (s : bytes) : Prop := mkBF {
  bf_safe : all_in yaml_cls_safe s = true;
  bf_res : is_reserved s = false;
  bf_date : c_date s = false;
  bf_int : c_int s = false;
  bf_bin : c_bin s = false;
  bf_oct : c_oct s = false;
  bf_float : c_float s = false;
  bf_hex : c_hex s = false }.

Lemma bare_safe_inv : forall s, bare_safe s = true -> bare_facts s.
Proof.
  intros s H. unfold bare_safe in H.
  destruct (all_in yaml_cls_safe s) eqn:E1; [|discriminate]. cbn [negb] in H.
  destruct (is_reserved s) eqn:E2; [discriminate|].
  destruct (c_date s) eqn:E3; [discriminate|].
  destruct (c_int s) eqn:E4; [discriminate|].
  destruct (c_bin s) eqn:E5; [discriminate|].
  destruct (c_oct s) eqn:E5o; [discriminate|].
  destruct (c_float s) eqn:E6; [discriminate|].
  destruct (c_hex s) eqn:E7; [discriminate|].
  constructor; assumption.
Qed.

Lemma safe_no : forall c s, in_class yaml_cls_safe c = false -> all_in yaml_cls_safe s = true -> ~ In c s.
Proof. intros c s F A I. rewrite all_in_forall in A. specialize (A c I). congruence. Qed.

(** kill lemmas: a resolver regex with the stated (computed) shape cannot match a bare_safe string *)
Lemma kill_char : forall r c s, musthave c r = true -> in_class yaml_cls_safe c = false ->
  bare_facts s -> ~ lang r s.
Proof. intros r c s M F B L. eapply safe_no; [exact F | apply B | eapply lang_musthave; eassumption]. Qed.

Lemma kill_int : forall r n s, sub_under_safe r yaml_cls_int = true -> maxc [(45, 45)] r = Some n -> (n < 2)%nat ->
  bare_facts s -> ~ lang r s.
Proof.
  intros r n s S M Hn B L. pose proof (bf_int s B) as K. unfold c_int in K.
  rewrite (lang_all_in r _ s S L (bf_safe s B)) in K. cbn [andb] in K.
  apply Nat.ltb_ge in K. rewrite count_cnt in K. pose proof (lang_maxc _ _ _ L _ M). lia.
Qed.

Lemma kill_date : forall r s, sub_under_safe r yaml_cls_date = true -> sub_under_safe r yaml_cls_int = true ->
  maxc [(45, 45)] r = Some 2%nat -> bare_facts s -> ~ lang r s.
Proof.
  intros r s S1 S2 M B L. pose proof (bf_int s B) as K. pose proof (bf_date s B) as D. unfold c_int in K. unfold c_date in D.
  rewrite (lang_all_in r _ s S2 L (bf_safe s B)) in K. rewrite (lang_all_in r _ s S1 L (bf_safe s B)) in D.
  cbn [andb] in K, D. apply Nat.ltb_ge in K. apply Nat.eqb_neq in D. rewrite count_cnt in K, D.
  pose proof (lang_maxc _ _ _ L _ M). lia.
Qed.

Lemma kill_float : forall r a b c s, sub_under_safe r yaml_cls_float = true ->
  maxc [(101, 101); (69, 69)] r = Some a -> (a < 2)%nat ->
  maxc [(45, 45)] r = Some b -> (b < 3)%nat ->
  maxc [(46, 46)] r = Some c -> (c <= 1)%nat ->
  bare_facts s -> ~ lang r s.
Proof.
  intros r a b c s S Ma Ha Mb Hb Mc Hc B L. pose proof (bf_float s B) as K. unfold c_float in K.
  rewrite (lang_all_in r _ s S L (bf_safe s B)) in K. cbn [andb] in K.
  rewrite count_u_e, !count_cnt in K.
  pose proof (lang_maxc _ _ _ L _ Ma). pose proof (lang_maxc _ _ _ L _ Mb). pose proof (lang_maxc _ _ _ L _ Mc).
  assert (E1 : Nat.ltb (cnt [(101, 101); (69, 69)] s) 2 = true) by (apply Nat.ltb_lt; lia).
  assert (E2 : Nat.ltb (cnt [(45, 45)] s) 3 = true) by (apply Nat.ltb_lt; lia).
  assert (E3 : Nat.leb (cnt [(46, 46)] s) 1 = true) by (apply Nat.leb_le; lia).
  rewrite E1, E2, E3 in K. discriminate.
Qed.

Lemma plus_not_safe : in_class yaml_cls_safe 43 = false.
Proof. vm_compute. reflexivity. Qed.

Lemma kill_bin : forall x s, let r := Cat (Opt sign) (Cat (Lit [48; 98]) x) in
  sub_under_safe r yaml_cls_bin = true -> (2 < minlen r)%nat -> bare_facts s -> ~ lang r s.
Proof.
  intros x s r S Hm B L. pose proof (bf_bin s B) as K. unfold c_bin in K.
  rewrite (lang_all_in r _ s S L (bf_safe s B)) in K.
  rewrite (signed_prefix _ _ _ L (safe_no _ _ plus_not_safe (bf_safe s B))) in K. cbn [andb] in K.
  apply Nat.ltb_ge in K. pose proof (lang_minlen _ _ L). lia.
Qed.

Lemma kill_hex_signed : forall x n s, let r := Cat (Opt sign) (Cat (Lit [48; 120]) x) in
  sub_under_safe r yaml_cls_hex = true -> (3 <= minlen r)%nat -> maxc [(45, 45)] r = Some n -> (n < 2)%nat ->
  bare_facts s -> ~ lang r s.
Proof.
  intros x n s r S Hm M Hn B L. pose proof (bf_hex s B) as K. unfold c_hex in K.
  rewrite (lang_all_in r _ s S L (bf_safe s B)) in K.
  pose proof (signed_prefix _ _ _ L (safe_no _ _ plus_not_safe (bf_safe s B))) as P. rewrite orb_comm in P.
  rewrite P in K. rewrite andb_true_r in K. cbn [andb] in K.
  pose proof (lang_minlen _ _ L). pose proof (lang_maxc _ _ _ L _ M). rewrite count_cnt in K.
  assert (E1 : Nat.leb 3 (length s) = true) by (apply Nat.leb_le; lia).
  assert (E2 : Nat.ltb (cnt [(45, 45)] s) 2 = true) by (apply Nat.ltb_lt; lia).
  rewrite E1, E2 in K. discriminate.
Qed.

Lemma kill_hex_plain : forall x n s, let r := Cat (Lit [48; 120]) x in
  sub_under_safe r yaml_cls_hex = true -> (3 <= minlen r)%nat -> maxc [(45, 45)] r = Some n -> (n < 2)%nat ->
  bare_facts s -> ~ lang r s.
Proof.
  intros x n s r S Hm M Hn B L. pose proof (bf_hex s B) as K. unfold c_hex in K.
  rewrite (lang_all_in r _ s S L (bf_safe s B)) in K.
  rewrite (lit_prefix _ _ _ L) in K. rewrite orb_true_r, andb_true_r in K. cbn [andb] in K.
  pose proof (lang_minlen _ _ L). pose proof (lang_maxc _ _ _ L _ M). rewrite count_cnt in K.
  assert (E1 : Nat.leb 3 (length s) = true) by (apply Nat.leb_le; lia).
  assert (E2 : Nat.ltb (cnt [(45, 45)] s) 2 = true) by (apply Nat.ltb_lt; lia).
  rewrite E1, E2 in K. discriminate.
Qed.

Lemma lang_plus_cls : forall c s, lang (Plus (Cls c)) s -> all_in c s = true /\ (1 <= length s)%nat.
Proof.
  intros c s L. split.
  - apply lang_alph in L. cbn [Plus alph] in L. eapply all_in_weaken; [|exact L].
    intros x Hx. rewrite in_class_app in Hx. apply orb_true_iff in Hx. destruct Hx; assumption.
  - apply lang_minlen in L. cbn [Plus minlen] in L. lia.
Qed.

Lemma oct_cls_sub : forall x, in_class [(48, 55)] x = true -> in_class yaml_cls_oct x = true.
Proof. apply pointwise; vm_compute; reflexivity. Qed.

(** YAML 1.2 octal `0o[0-7]+`: caught by the octal arm *)
Lemma kill_oct : forall s, bare_facts s -> ~ lang re_oct12 s.
Proof.
  intros s B L. unfold re_oct12 in L. apply lang_cat_inv in L. destruct L as (s1 & s2 & -> & L1 & L2).
  apply lang_lit in L1. subst s1. apply lang_plus_cls in L2. destruct L2 as [A Hl].
  pose proof (bf_oct _ B) as K. unfold c_oct in K. cbn [app skipn starts_with length] in K.
  rewrite !N.eqb_refl in K. cbn [andb] in K.
  rewrite (all_in_weaken _ _ _ oct_cls_sub A) in K. rewrite !andb_true_r in K. apply Nat.ltb_ge in K. lia.
Qed.

(** every resolver word either contains a byte outside the safe class or is on the RESERVED list *)
Definition word_handled (w : bytes) : bool := negb (all_in yaml_cls_safe w) || is_reserved w.

Lemma words_handled : forallb word_handled yaml_words = true.
Proof. vm_compute. reflexivity. Qed.

Lemma kill_words : forall s, bare_facts s -> ~ lang (Words yaml_words) s.
Proof.
  intros s B L. apply lang_words in L. pose proof words_handled as H. rewrite forallb_forall in H.
  specialize (H s L). unfold word_handled in H. rewrite (bf_safe s B), (bf_res s B) in H. discriminate.
Qed.

Ltac side := vm_compute; first [reflexivity | lia].

Lemma bare_no_resolver : forall s, bare_facts s ->
  forall r, In r yaml_resolvers -> ~ lang r s.
Proof.
  intros s B r I. unfold yaml_resolvers in I. cbn [In] in I.
  destruct I as [<-|[<-|[<-|[<-|[<-|[<-|[<-|[<-|[<-|[<-|[<-|[<-|[<-|[<-|[]]]]]]]]]]]]]]].
  - apply kill_words. assumption.
  - eapply (kill_int re_int12 1); [side | side | lia | assumption].
  - apply kill_oct. assumption.
  - eapply (kill_hex_plain _ 0); [side | side | side | lia | assumption].
  - eapply (kill_float re_float12 1 2 1); [side | side | lia | side | lia | side | lia | assumption].
  - unfold re_bin11. cbn [Seq]. eapply kill_bin; [side | side | assumption].
  - eapply (kill_int re_oct11 1); [side | side | lia | assumption].
  - eapply (kill_int re_dec11 1); [side | side | lia | assumption].
  - unfold re_hex11. cbn [Seq]. eapply (kill_hex_signed _ 1); [side | side | side | lia | assumption].
  - eapply (kill_char re_sexa_int11 58); [side | side | assumption].
  - eapply (kill_float re_float11 1 2 1); [side | side | lia | side | lia | side | lia | assumption].
  - eapply (kill_char re_sexa_float11 58); [side | side | assumption].
  - eapply kill_date; [side | side | side | assumption].
  - eapply (kill_char re_timestamp11 58); [side | side | assumption].
Qed.

(** plain-scalar syntax *)
Definition safe_byte_facts (x : N) : bool :=
  ns_char x && negb (flow_ind x) && (negb (c_indicator x) || (x =? 45)) && negb (x =? 58).

Lemma safe_bytes : forall x, in_class yaml_cls_safe x = true -> safe_byte_facts x = true.
Proof. apply pointwise; [exact safe_bounded | vm_compute; reflexivity]. Qed.

Lemma colon_ok_no_colon : forall s, ~ In 58 s -> colon_ok s = true.
Proof.
  induction s as [|b s IH]; intro H; [reflexivity|]. cbn [colon_ok].
  destruct (N.eqb_spec b 58); [subst; exfalso; apply H; left; reflexivity|].
  cbn [andb]. apply IH. intro K. apply H. right. assumption.
Qed.

Lemma beq_eq : forall a b, beq a b = true <-> a = b.
Proof.
  induction a as [|x a IH]; destruct b as [|y b]; cbn [beq]; split; intro H; try discriminate; try reflexivity.
  - b2p. f_equal; [assumption | apply IH; assumption].
  - inversion H; subst. rewrite N.eqb_refl. apply IH. reflexivity.
Qed.

Lemma reserved_words : is_reserved [] = true /\ is_reserved [45] = true /\ is_reserved [45; 45; 45] = true
                       /\ is_reserved [46; 46; 46] = true.
Proof. vm_compute. auto. Qed.

Lemma safe_parts : forall x, in_class yaml_cls_safe x = true ->
  ns_char x = true /\ flow_ind x = false /\ (c_indicator x = false \/ x = 45) /\ x <> 58.
Proof.
  intros x H. apply safe_bytes in H. unfold safe_byte_facts in H.
  apply andb_true_iff in H. destruct H as [H H4]. apply andb_true_iff in H. destruct H as [H H3].
  apply andb_true_iff in H. destruct H as [H1 H2].
  apply negb_true_iff in H2. apply negb_true_iff in H4. apply N.eqb_neq in H4.
  repeat split; try assumption.
  apply orb_true_iff in H3. destruct H3 as [H3|H3]; [left; apply negb_true_iff; assumption | right; apply N.eqb_eq; assumption].
Qed.

Lemma bare_plain_syntax : forall s, bare_facts s -> plain_syntax s = true.
Proof.
  intros s B. destruct reserved_words as (R0 & R1 & R3 & R4).
  assert (D : beq s [46; 46; 46] = false).
  { destruct (beq s [46; 46; 46]) eqn:E; [|reflexivity]. apply beq_eq in E. subst. rewrite (bf_res _ B) in R4. discriminate. }
  pose proof (bf_safe s B) as A. rewrite all_in_forall in A.
  assert (F : forall x, In x s -> ns_char x = true /\ flow_ind x = false /\ (c_indicator x = false \/ x = 45) /\ x <> 58)
    by (intros x Hx; apply safe_parts, A, Hx).
  unfold plain_syntax. repeat (apply andb_true_iff; split).
  - destruct s as [|b r]; [rewrite (bf_res _ B) in R0; discriminate|].
    cbn [plain_first]. destruct (F b (or_introl eq_refl)) as (_ & _ & [Hi|Hi] & _).
    + rewrite Hi. reflexivity.
    + subst b. destruct r as [|c r']; [rewrite (bf_res _ B) in R1; discriminate|].
      destruct (F c (or_intror (or_introl eq_refl))) as (Hn & Hf & _ & _).
      rewrite Hn, Hf. apply orb_true_iff. right. reflexivity.
  - apply forallb_forall. intros x Hx. destruct (F x Hx) as (Hn & Hf & _ & _). rewrite Hn, Hf. reflexivity.
  - apply colon_ok_no_colon. intro K. destruct (F _ K) as (_ & _ & _ & Hc). apply Hc. reflexivity.
  - unfold doc_marker. rewrite D, orb_false_r. apply negb_true_iff.
    destruct (beq s [45; 45; 45]) eqn:E; [|reflexivity]. apply beq_eq in E. subst.
    rewrite (bf_res _ B) in R3. discriminate.
Qed.

Lemma p_yaml_bare_sound : forall s, bare_safe s = true -> yaml_plain_ok s.
Proof.
  intros s H. apply bare_safe_inv in H.
  split; [apply bare_plain_syntax; assumption | apply bare_no_resolver; assumption].
Qed.

Lemma p_yaml_plain_okb : forall s, yaml_plain_okb s = true <-> yaml_plain_ok s.
Proof.
  intro s. unfold yaml_plain_okb, yaml_plain_ok. rewrite andb_true_iff, forallb_forall. split.
  - intros [P F]. split; [assumption|]. intros r I L. specialize (F r I). apply rmatch_lang in L. rewrite L in F. discriminate.
  - intros [P F]. split; [assumption|]. intros r I. apply negb_true_iff.
    destruct (rmatch r s) eqn:E; [|reflexivity]. exfalso. apply (F r I). apply rmatch_lang. assumption.
Qed.

(* ================================================================== Part 3: TOML keys, quoted strings *)

Lemma toml_bounded : cls_bounded toml_cls_bare = true.
Proof. vm_compute. reflexivity. Qed.

Lemma p_toml_bare_sound : forall s, bare_allowed s = true -> toml_bare_key s.
Proof.
  intros s H. unfold bare_allowed in H. apply andb_true_iff in H. destruct H as [Hn H].
  split; [intro E; subst; discriminate|]. rewrite all_in_forall in H.
  apply forallb_forall. intros x Hx. specialize (H x Hx).
  apply (pointwise toml_cls_bare toml_key_char toml_bounded); [vm_compute; reflexivity | exact H].
Qed.

(** the accepted keys are exactly the TOML bare keys *)
Lemma p_toml_bare_complete : forall s, toml_bare_key s -> bare_allowed s = true.
Proof.
  intros s [Hn H]. unfold bare_allowed. apply andb_true_iff. split; [destruct s; [congruence | reflexivity]|].
  apply all_in_forall. intros x Hx. rewrite forallb_forall in H. specialize (H x Hx).
  unfold toml_key_char in H.
  assert (B : x < 256) by (b2p; lia).
  assert (T : forallb (fun x => negb (toml_key_char x) || in_class toml_cls_bare x) byte_range = true) by (vm_compute; reflexivity).
  rewrite forallb_forall in T. specialize (T x (in_byte_range x B)). unfold toml_key_char in T. rewrite H in T. exact T.
Qed.

(* ------------------------------------------------------------------ double-quoted dialects *)

Lemma dq_seq_read : forall d sq b r, dq_seq_ok d sq b = true -> dq_str d (sq ++ r) = prepend [b] (dq_str d r).
Proof.
  intros d sq b r H. unfold dq_seq_ok in H.
  destruct sq as [|c0 [|c1 [|c2 [|c3 [|c4 [|c5 [|c6 sq]]]]]]]; try discriminate.
  - (* raw *)
    apply andb_true_iff in H. destruct H as [H H4]. apply andb_true_iff in H. destruct H as [H H3].
    apply andb_true_iff in H. destruct H as [H1 H2]. apply N.eqb_eq in H1. subst c0.
    apply negb_true_iff in H3, H4. cbn [app dq_str]. rewrite H3, H4, H2. reflexivity.
  - (* two bytes *)
    apply andb_true_iff in H. destruct H as [H H3]. apply andb_true_iff in H. destruct H as [H1 H2].
    apply N.eqb_eq in H1. subst c0. apply negb_true_iff in H2.
    destruct (d_simple d c1) as [c|] eqn:Es; [|discriminate]. apply N.eqb_eq in H3. subst c.
    cbn [app dq_str]. change (92 =? 34) with false. change (92 =? 92) with true. cbv iota.
    rewrite H2, Es. reflexivity.
  - (* \u hex4 *)
    apply andb_true_iff in H. destruct H as [H H3]. apply andb_true_iff in H. destruct H as [H H4].
    apply andb_true_iff in H. destruct H as [H1 H2].
    apply N.eqb_eq in H1. apply N.eqb_eq in H2. subst c0 c1.
    destruct (hex4 c2 c3 c4 c5) as [cp|] eqn:Eh; [|discriminate].
    apply andb_true_iff in H3. destruct H3 as [H3 H5]. apply N.eqb_eq in H3. apply N.ltb_lt in H5. subst cp.
    cbn [app dq_str]. change (92 =? 34) with false. change (92 =? 92) with true.
    change (117 =? 117) with true. rewrite H4. cbn [andb]. cbv iota. rewrite Eh.
    assert (Hh : is_high b = false).
    { unfold is_high. apply andb_false_iff. left. apply N.leb_gt. lia. }
    assert (Hl : is_low b = false).
    { unfold is_low. apply andb_false_iff. left. apply N.leb_gt. lia. }
    rewrite Hh, Hl. cbn [orb]. unfold utf8_enc. apply N.ltb_lt in H5. rewrite H5. reflexivity.
Qed.

Lemma dq_str_mapped : forall d f bad, dq_table_ok d f bad = true ->
  forall bs rest, Forall (fun b => b < 256 /\ bad b = false) bs ->
    dq_str d (flat_map f bs ++ 34 :: rest) = Some (bs, rest).
Proof.
  intros d f bad T. induction bs as [|b bs IH]; intros rest F.
  - cbn. reflexivity.
  - inversion F as [|? ? [Hb Hbad] F']; subst. cbn [flat_map]. rewrite <- app_assoc.
    unfold dq_table_ok in T. rewrite forallb_forall in T. specialize (T b (in_byte_range b Hb)).
    unfold dq_entry_ok in T. rewrite Hbad in T. cbn [orb] in T.
    rewrite (dq_seq_read _ _ _ _ T), (IH rest F'). reflexivity.
Qed.

Lemma dq_read_escape : forall d bad, dq_table_ok d esc1 bad = true ->
  forall bs, Forall (fun b => b < 256 /\ bad b = false) bs ->
    exists out, escape bs = Some out /\ dq_read d out = Some bs.
Proof.
  intros d bad T bs F. exists (escape_ref bs). split; [apply escape_is_ref|].
  unfold dq_read, escape_ref. change (34 =? 34) with true. cbv iota.
  rewrite (dq_str_mapped d esc1 bad T bs [] F). reflexivity.
Qed.

Lemma toml_table_json : dq_table_ok toml_dialect esc1 toml_bad = true.
Proof. vm_compute. reflexivity. Qed.
Lemma toml_table : dq_table_ok toml_dialect tesc1 no_bad = true.
Proof. vm_compute. reflexivity. Qed.
Lemma python_table : dq_table_ok python_dialect esc1 no_bad = true.
Proof. vm_compute. reflexivity. Qed.
Lemma yaml_table : dq_table_ok yaml_dialect esc1 no_bad = true.
Proof. vm_compute. reflexivity. Qed.

Lemma trepl_app : forall a b, trepl (a ++ b) = trepl a ++ trepl b.
Proof. intros. unfold trepl. apply flat_map_app. Qed.

Lemma trepl_flat : forall bs, trepl (flat_map esc1 bs) = flat_map tesc1 bs.
Proof.
  induction bs as [|b bs IH]; [reflexivity|]. cbn [flat_map]. rewrite trepl_app, IH. reflexivity.
Qed.

Lemma quote_not_replaced : (34 =? toml_replaced) = false.
Proof. vm_compute. reflexivity. Qed.

(** the TOML escaper (JSON escaping + replacement) writes a TOML basic string for the same bytes *)
Lemma p_toml_quoted_ok : forall bs, Forall (fun b => b < 256) bs -> dq_read toml_dialect (tesc bs) = Some bs.
Proof.
  intros bs F. unfold tesc, esc. destruct (existsb (fun c => c =? toml_replaced) bs) eqn:E.
  - unfold escape_ref. change (34 :: flat_map esc1 bs ++ [34]) with ([34] ++ flat_map esc1 bs ++ [34]).
    rewrite !trepl_app, trepl_flat. unfold trepl at 1 2. cbn [flat_map]. rewrite quote_not_replaced. cbn [app].
    unfold dq_read. change (34 =? 34) with true. cbv iota.
    rewrite (dq_str_mapped toml_dialect tesc1 no_bad toml_table bs []); [reflexivity|].
    eapply Forall_impl; [|exact F]. intros b H. split; [assumption | reflexivity].
  - unfold dq_read, escape_ref. change (34 =? 34) with true. cbv iota.
    rewrite (dq_str_mapped toml_dialect esc1 toml_bad toml_table_json bs []); [reflexivity|].
    rewrite Forall_forall in *. intros b Hb. split; [apply F; assumption|].
    unfold toml_bad. destruct (b =? toml_replaced) eqn:Eb; [|reflexivity].
    assert (existsb (fun c => c =? toml_replaced) bs = true) by (apply existsb_exists; eauto). congruence.
Qed.

Lemma p_python_literal : forall bs, Forall (fun b => b < 256) bs ->
  exists out, escape bs = Some out /\ dq_read python_dialect out = Some bs.
Proof.
  intros bs F. apply (dq_read_escape _ _ python_table). eapply Forall_impl; [|exact F].
  intros b H. split; [assumption | reflexivity].
Qed.

Lemma p_yaml_quoted_ok : forall bs, Forall (fun b => b < 256) bs ->
  exists out, escape bs = Some out /\ dq_read yaml_dialect out = Some bs.
Proof.
  intros bs F. apply (dq_read_escape _ _ yaml_table). eapply Forall_impl; [|exact F].
  intros b H. split; [assumption | reflexivity].
Qed.

(* ================================================================== Part 4: XML *)

Lemma xml_table : xml_table_ok = true.
Proof. vm_compute. reflexivity. Qed.

Lemma xml_entry : forall b, xml_entry_ok b = true.
Proof.
  intro b. pose proof xml_table as T. unfold xml_table_ok in T. apply andb_true_iff in T. destruct T as [T1 T2].
  destruct (N.ltb_spec b 256) as [Hlt|Hge].
  - rewrite forallb_forall in T1. apply T1. apply (in_byte_range b Hlt).
  - assert (M : mem b xml_searched = false).
    { unfold mem. destruct (existsb (fun x => x =? b) xml_searched) eqn:E; [|reflexivity].
      apply existsb_exists in E. destruct E as (x & I & Ex). rewrite forallb_forall in T2. specialize (T2 x I). b2p. lia. }
    unfold xml_entry_ok, xml_entity. rewrite M. cbn [negb andb].
    apply negb_true_iff. unfold mem. cbn [existsb].
    repeat match goal with |- (?x =? b) || _ = false => replace (x =? b) with false by (symmetry; apply N.eqb_neq; lia); cbn [orb] end.
    reflexivity.
Qed.

Lemma xml_searched_entity : forall b, mem b xml_searched = true -> exists e, xml_entity b = Some e.
Proof.
  intros b M. pose proof (xml_entry b) as E. unfold xml_entry_ok in E.
  destruct (xml_entity b) as [e|]; [eauto|]. rewrite M in E. discriminate.
Qed.

Lemma xml_not_searched : forall b, mem b xml_searched = false -> xml_entity b = None.
Proof. intros b M. unfold xml_entity. rewrite M. reflexivity. Qed.

Lemma xml_escape_app : forall a b, xml_escape (a ++ b) = xml_escape a ++ xml_escape b.
Proof. intros. unfold xml_escape. apply flat_map_app. Qed.

Lemma xml_loop_spec : forall rest str plain out found,
  (found = false -> out = [] /\ str = plain ++ rest) -> xml_escape plain = plain ->
  xml_loop str rest plain out found = Some (out ++ plain ++ xml_escape rest).
Proof.
  induction rest as [|b r IH]; intros str plain out found Inv Hp; cbn [xml_loop].
  - cbn [xml_escape flat_map]. rewrite !app_nil_r. destruct found; [reflexivity|].
    destruct (Inv eq_refl) as [-> ->]. rewrite app_nil_r. reflexivity.
  - destruct (mem b xml_searched) eqn:M.
    + destruct (xml_searched_entity b M) as (e & E). rewrite E.
      rewrite IH; [|discriminate | reflexivity].
      unfold xml_escape at 2. cbn [flat_map]. unfold xml_esc1. rewrite E. cbn [app]. rewrite <- !app_assoc. reflexivity.
    + rewrite IH.
      * unfold xml_escape at 2. cbn [flat_map]. unfold xml_esc1. rewrite (xml_not_searched b M).
        rewrite <- !app_assoc. reflexivity.
      * intro F. destruct (Inv F) as [-> ->]. split; [reflexivity|]. rewrite <- app_assoc. reflexivity.
      * rewrite xml_escape_app, Hp. unfold xml_escape. cbn [flat_map]. unfold xml_esc1. rewrite (xml_not_searched b M). reflexivity.
Qed.

Lemma p_xml_impl_is_map : forall s, xml_escape_impl s = Some (xml_escape s).
Proof.
  intro s. unfold xml_escape_impl. destruct s as [|b r]; [reflexivity|]. cbn [is_nil].
  rewrite xml_loop_spec; [reflexivity | intros _; split; reflexivity | reflexivity].
Qed.

Lemma xml_seq_read : forall e b rest, xml_seq_ok e b = true -> xml_unescape (e ++ rest) = ocons b (xml_unescape rest).
Proof.
  intros e b rest H. unfold xml_seq_ok in H. apply existsb_exists in H. destruct H as (p & I & H).
  apply andb_true_iff in H. destruct H as [H1 H2]. apply beq_eq in H1. apply N.eqb_eq in H2. subst e b.
  unfold named_entities in I. cbn [In] in I.
  destruct I as [<-|[<-|[<-|[<-|[<-|[]]]]]]; reflexivity.
Qed.

Lemma xml_raw_read : forall b rest, b <> 60 -> b <> 38 -> xml_unescape (b :: rest) = ocons b (xml_unescape rest).
Proof.
  intros b rest H1 H2. cbn [xml_unescape]. apply N.eqb_neq in H1, H2. rewrite H1, H2. reflexivity.
Qed.

Lemma mem_false_neq : forall b x l, mem b l = false -> In x l -> b <> x.
Proof.
  intros b x l M I E. subst. unfold mem in M. assert (existsb (fun y => y =? x) l = true).
  { apply existsb_exists. exists x. split; [assumption | apply N.eqb_refl]. } congruence.
Qed.

Lemma xml_esc1_read : forall b rest, xml_unescape (xml_esc1 b ++ rest) = ocons b (xml_unescape rest).
Proof.
  intros b rest. pose proof (xml_entry b) as E. unfold xml_entry_ok in E. unfold xml_esc1.
  destruct (xml_entity b) as [e|].
  - apply xml_seq_read. assumption.
  - apply andb_true_iff in E. destruct E as [_ E]. apply negb_true_iff in E. cbn [app].
    apply xml_raw_read; eapply mem_false_neq; try exact E; cbn; auto.
Qed.

Lemma p_xml_roundtrip : forall s, xml_unescape (xml_escape s) = Some s.
Proof.
  induction s as [|b s IH]; [reflexivity|]. unfold xml_escape in *. cbn [flat_map].
  rewrite xml_esc1_read, IH. reflexivity.
Qed.

(** the output contains no raw `<`, `>`, quote or apostrophe *)
Definition xml_clean (c : N) : bool := negb (mem c [60; 62; 34; 39]).

Lemma xml_esc1_clean : forall b, forallb xml_clean (xml_esc1 b) = true.
Proof.
  intro b. pose proof (xml_entry b) as E. unfold xml_entry_ok in E. unfold xml_esc1.
  destruct (xml_entity b) as [e|].
  - unfold xml_seq_ok in E. apply existsb_exists in E. destruct E as (p & I & H).
    apply andb_true_iff in H. destruct H as [H1 _]. apply beq_eq in H1. subst e.
    unfold named_entities in I. cbn [In] in I.
    destruct I as [<-|[<-|[<-|[<-|[<-|[]]]]]]; reflexivity.
  - apply andb_true_iff in E. destruct E as [_ E]. apply negb_true_iff in E. cbn [forallb]. rewrite andb_true_r.
    unfold xml_clean. apply negb_true_iff. unfold mem in *. cbn [existsb] in *.
    repeat (apply orb_false_iff in E; destruct E as [? E]).
    repeat (apply orb_false_iff; split); try assumption; reflexivity.
Qed.

Lemma p_xml_clean : forall s, forallb xml_clean (xml_escape s) = true.
Proof.
  induction s as [|b s IH]; [reflexivity|]. unfold xml_escape in *. cbn [flat_map].
  rewrite forallb_app, xml_esc1_clean, IH. reflexivity.
Qed.

(* ================================================================== Part 5: domain rejections *)

Lemma omap_cons : forall (A B : Type) (f : A -> option B) x xs,
  omap f (x :: xs) = match f x, omap f xs with Some b, Some br => Some (b :: br) | _, _ => None end.
Proof. reflexivity. Qed.

Lemma omap_none : forall (A B : Type) (f : A -> option B) xs,
  omap f xs = None <-> exists x, In x xs /\ f x = None.
Proof.
  intros A B f. induction xs as [|x xs IH].
  - split; [discriminate | intros (x & [] & _)].
  - rewrite omap_cons. destruct (f x) eqn:E.
    + destruct (omap f xs) eqn:E2.
      * split; [discriminate|]. intros (y & [->|I] & Hy); [congruence|].
        exfalso. destruct IH as [_ IH]. assert (Z : @Some (list B) l = None) by (apply IH; eauto). discriminate.
      * split; [|reflexivity]. intros _. destruct IH as [IH _]. destruct (IH eq_refl) as (y & I & Hy).
        exists y. split; [right|]; assumption.
    + split; [|reflexivity]. intros _. exists x. split; [left; reflexivity | assumption].
Qed.

Lemma existsb_in : forall (A : Type) (p : A -> bool) l, existsb p l = true <-> exists x, In x l /\ p x = true.
Proof. intros. apply existsb_exists. Qed.

Ltac omap_contra E xs :=
  match type of E with omap ?f _ = _ => assert (Q : omap f xs = None) end.

(** YAML: rejected exactly when the value contains a function *)
Lemma p_yaml_rejects : forall o v cur, ywr o cur v = None <-> has_fun v = true.
Proof.
  intros o. induction v using jval_ind2; intro cur; cbn [ywr has_fun].
  - split; discriminate.
  - destruct b; split; discriminate.
  - split; discriminate.
  - split; discriminate.
  - rewrite Forall_forall in H.
    match goal with |- match ?M with _ => _ end = None <-> _ => destruct M eqn:E end.
    + split; [discriminate|]. intro K. exfalso. apply existsb_exists in K. destruct K as (x & I & Hx).
      omap_contra E xs.
      { apply omap_none. exists x. split; [assumption|]. cbv beta.
        match goal with |- match ywr o ?c x with _ => _ end = None => rewrite (proj2 (H x I c) Hx) end. reflexivity. }
      congruence.
    + split; [|reflexivity]. intros _. apply omap_none in E. destruct E as (x & I & Hx). cbv beta in Hx.
      apply existsb_exists. exists x. split; [assumption|].
      match type of Hx with match ywr o ?c x with _ => _ end = None =>
        destruct (ywr o c x) eqn:E2; [discriminate|]; exact (proj1 (H x I c) E2) end.
  - rewrite Forall_forall in H.
    match goal with |- match ?M with _ => _ end = None <-> _ => destruct M eqn:E end.
    + split; [discriminate|]. intro K. exfalso. apply existsb_exists in K. destruct K as ([k x] & I & Hx). cbn [snd] in Hx.
      omap_contra E fs.
      { apply omap_none. exists (k, x). split; [assumption|]. cbv beta iota.
        pose proof (H (k, x) I) as Hk. cbn [snd] in Hk.
        match goal with |- match ywr o ?c x with _ => _ end = None => rewrite (proj2 (Hk c) Hx) end. reflexivity. }
      congruence.
    + split; [|reflexivity]. intros _. apply omap_none in E. destruct E as ([k x] & I & Hx). cbv beta iota in Hx.
      apply existsb_exists. exists (k, x). split; [assumption|]. cbn [snd].
      pose proof (H (k, x) I) as Hk. cbn [snd] in Hk.
      match type of Hx with match ywr o ?c x with _ => _ end = None =>
        destruct (ywr o c x) eqn:E2; [discriminate|]; exact (proj1 (Hk c) E2) end.
  - split; reflexivity.
Qed.

(** Python: rejected exactly when the value contains a function *)
Lemma p_python_rejects : forall v, pywr v = None <-> has_fun v = true.
Proof.
  induction v using jval_ind2; cbn [pywr has_fun].
  - split; discriminate.
  - destruct b; split; discriminate.
  - split; discriminate.
  - split; discriminate.
  - rewrite Forall_forall in H. destruct (omap pywr xs) eqn:E.
    + split; [discriminate|]. intro K. exfalso. apply existsb_exists in K. destruct K as (x & I & Hx).
      assert (Q : omap pywr xs = None) by (apply omap_none; exists x; split; [assumption | apply H; assumption]).
      congruence.
    + split; [|reflexivity]. intros _. apply omap_none in E. destruct E as (x & I & Hx).
      apply existsb_exists. exists x. split; [assumption | apply H; assumption].
  - rewrite Forall_forall in H.
    match goal with |- match ?M with _ => _ end = None <-> _ => destruct M eqn:E end.
    + split; [discriminate|]. intro K. exfalso. apply existsb_exists in K. destruct K as ([k x] & I & Hx). cbn [snd] in Hx.
      omap_contra E fs.
      { apply omap_none. exists (k, x). split; [assumption|]. cbv beta iota.
        pose proof (H (k, x) I) as Hk. cbn [snd] in Hk. rewrite (proj2 Hk Hx). reflexivity. }
      congruence.
    + split; [|reflexivity]. intros _. apply omap_none in E. destruct E as ([k x] & I & Hx). cbv beta iota in Hx.
      apply existsb_exists. exists (k, x). split; [assumption|]. cbn [snd].
      pose proof (H (k, x) I) as Hk. cbn [snd] in Hk. destruct (pywr x) eqn:E2; [discriminate|]. exact (proj1 Hk eq_refl).
  - split; reflexivity.
Qed.

Definition bad_toml (v : jval) : bool := has_fun v || has_null v.

Lemma bad_toml_arr : forall xs, bad_toml (JArr xs) = existsb bad_toml xs.
Proof.
  intro xs. unfold bad_toml. cbn [has_fun has_null]. induction xs as [|x xs IH]; [reflexivity|].
  cbn [existsb]. rewrite <- IH. destruct (has_fun x), (has_null x), (existsb has_fun xs), (existsb has_null xs); reflexivity.
Qed.

Lemma bad_toml_obj : forall fs, bad_toml (JObj fs) = existsb (fun kv => bad_toml (snd kv)) fs.
Proof.
  intro fs. unfold bad_toml. cbn [has_fun has_null]. induction fs as [|[k x] fs IH]; [reflexivity|].
  cbn [existsb snd]. rewrite <- IH.
  destruct (has_fun x), (has_null x), (existsb (fun kv => has_fun (snd kv)) fs), (existsb (fun kv => has_null (snd kv)) fs); reflexivity.
Qed.

(** TOML values: rejected exactly when the value contains null or a function *)
Lemma p_toml_value_rejects : forall o v inline cur, tval o inline cur v = None <-> bad_toml v = true.
Proof.
  intros o. induction v using jval_ind2; intros inline cur.
  - split; reflexivity.
  - destruct b; split; discriminate.
  - split; discriminate.
  - split; discriminate.
  - rewrite bad_toml_arr. cbn [tval]. rewrite Forall_forall in H. destruct (omap (tval o true []) xs) eqn:E.
    + split; [discriminate|]. intro K. exfalso. apply existsb_exists in K. destruct K as (x & I & Hx).
      assert (Q : omap (tval o true []) xs = None) by (apply omap_none; exists x; split; [assumption | apply H; assumption]).
      congruence.
    + split; [|reflexivity]. intros _. apply omap_none in E. destruct E as (x & I & Hx).
      apply existsb_exists. exists x. split; [assumption | eapply H; eassumption].
  - rewrite bad_toml_obj. cbn [tval]. rewrite Forall_forall in H.
    match goal with |- match ?M with _ => _ end = None <-> _ => destruct M eqn:E end.
    + split; [discriminate|]. intro K. exfalso. apply existsb_exists in K. destruct K as ([k x] & I & Hx). cbn [snd] in Hx.
      omap_contra E fs.
      { apply omap_none. exists (k, x). split; [assumption|]. cbv beta iota.
        pose proof (H (k, x) I) as Hk. cbn [snd] in Hk. rewrite (proj2 (Hk true []) Hx). reflexivity. }
      congruence.
    + split; [|reflexivity]. intros _. apply omap_none in E. destruct E as ([k x] & I & Hx). cbv beta iota in Hx.
      apply existsb_exists. exists (k, x). split; [assumption|]. cbn [snd].
      pose proof (H (k, x) I) as Hk. cbn [snd] in Hk. destruct (tval o true [] x) eqn:E2; [discriminate|]. apply (Hk true []). exact E2.
  - split; reflexivity.
Qed.

(** TOML documents: anything but an object at the top is rejected *)
Lemma p_toml_top_rejects : forall o v, is_obj v = false -> toml_manifest o v = None.
Proof. intros o v H. destruct v; try reflexivity. discriminate. Qed.

(** XML: a value is accepted by the shape check exactly when it is JSONML *)
Lemma p_jsonml_shape : forall v, jsonml_of v = None <-> is_jsonml v = false.
Proof.
  assert (KIDS : forall kids, Forall (fun v => jsonml_of v = None <-> is_jsonml v = false) kids ->
                 (omap jsonml_of kids = None <-> forallb is_jsonml kids = false)).
  { intros kids F. rewrite Forall_forall in F. split; intro K.
    - apply omap_none in K. destruct K as (x & I & Hx). apply F in Hx; [|assumption].
      destruct (forallb is_jsonml kids) eqn:E; [|reflexivity]. rewrite forallb_forall in E. rewrite (E x I) in Hx. discriminate.
    - apply omap_none. destruct (forallb is_jsonml kids) eqn:E; [discriminate|].
      assert (Q : exists x, In x kids /\ is_jsonml x = false).
      { clear -E. induction kids as [|y kids IH]; [discriminate|]. cbn [forallb] in E. apply andb_false_iff in E.
        destruct E as [E|E]; [exists y; split; [left; reflexivity | assumption]|].
        destruct (IH E) as (x & I & Hx). exists x. split; [right|]; assumption. }
      destruct Q as (x & I & Hx). exists x. split; [assumption|]. apply F; assumption. }
  induction v using jval_ind2; cbn [jsonml_of is_jsonml]; try (split; [reflexivity | reflexivity]); try (split; discriminate).
  destruct xs as [|x0 rest]; [split; reflexivity|].
  inversion H as [|? ? _ Hrest]; subst.
  destruct x0; try (split; reflexivity).
  destruct rest as [|x1 kids].
  - cbn [omap forallb]. split; discriminate.
  - assert (Hk : omap jsonml_of kids = None <-> forallb is_jsonml kids = false) by (apply KIDS; inversion Hrest; assumption).
    assert (Hr : omap jsonml_of (x1 :: kids) = None <-> forallb is_jsonml (x1 :: kids) = false) by (apply KIDS; assumption).
    destruct x1; try (destruct (omap jsonml_of (_ :: kids)) eqn:E; [split; [discriminate | intro K; apply Hr in K; discriminate] | split; [intros _; apply Hr; reflexivity | reflexivity]]).
    destruct (omap jsonml_of kids) eqn:E; [split; [discriminate | intro K; apply Hk in K; discriminate] | split; [intros _; apply Hk; reflexivity | reflexivity]].
Qed.
