(** C14 — property theorems only.  Each is closed by [exact] of a lemma from Proofs.v and
    followed by [Print Assumptions]; statements are pinned again in Pins.v. *)
From Coq Require Import List NArith Bool.
From JrV Require Import Gen.GenEscape Gen.GenYaml Gen.GenToml Gen.GenXml C05.Model C14.Model C14.Proofs.
Import ListNotations.
Open Scope N_scope.

(** The executable regex matcher used by the correspondence decides exactly the language of
    the SPEC relation, for every regex and every byte string. *)
Theorem C14_rmatch_is_lang : forall s r, rmatch r s = true <-> lang r s.
Proof. exact rmatch_lang. Qed.
Print Assumptions C14_rmatch_is_lang.

Theorem C14_yaml_plain_ok_decided : forall s, yaml_plain_okb s = true <-> yaml_plain_ok s.
Proof. exact p_yaml_plain_okb. Qed.
Print Assumptions C14_yaml_plain_ok_decided.

(** bare_safe is sound for EVERY byte string: what it lets through unquoted is a plain scalar that
    is not a document marker and that no YAML 1.2 core-schema and no YAML 1.1 resolver (bool, null,
    int incl. binary/octal/hex/sexagesimal, float, timestamp, merge, value) reads as a non-string.
    (Until /repo 84b9e77 and 5a5f603 this was refuted at `0o7` and `...`.) *)
Theorem C14_yaml_bare_sound : forall s, bare_safe s = true -> yaml_plain_ok s.
Proof. exact p_yaml_bare_sound. Qed.
Print Assumptions C14_yaml_bare_sound.

(** A JSON-escaped key or string is a YAML double-quoted scalar for the same bytes. *)
Theorem C14_yaml_quoted_ok : forall bs, Forall (fun b => b < 256) bs ->
  exists out, escape bs = Some out /\ dq_read yaml_dialect out = Some bs.
Proof. exact p_yaml_quoted_ok. Qed.
Print Assumptions C14_yaml_quoted_ok.

(** TOML keys: bare_allowed accepts exactly the TOML unquoted keys (the empty key is quoted since
    /repo 77d920f). *)
Theorem C14_toml_bare_sound : forall s, bare_allowed s = true -> toml_bare_key s.
Proof. exact p_toml_bare_sound. Qed.
Print Assumptions C14_toml_bare_sound.

Theorem C14_toml_bare_complete : forall s, toml_bare_key s -> bare_allowed s = true.
Proof. exact p_toml_bare_complete. Qed.
Print Assumptions C14_toml_bare_complete.

(** What escape_string_toml_buf writes (JSON escaping, then U+007F replaced by its \u escape; the
    replaced character and the replacement are read from the source) is a TOML basic string for the
    same bytes, for EVERY byte string (table conditions re-decided over all 256 ESCAPE entries). *)
Theorem C14_toml_quoted_ok : forall bs, Forall (fun b => b < 256) bs -> dq_read toml_dialect (tesc bs) = Some bs.
Proof. exact p_toml_quoted_ok. Qed.
Print Assumptions C14_toml_quoted_ok.

(** JSON escaping of s is a Python 3 string literal for s. *)
Theorem C14_python_literal : forall bs, Forall (fun b => b < 256) bs ->
  exists out, escape bs = Some out /\ dq_read python_dialect out = Some bs.
Proof. exact p_python_literal. Qed.
Print Assumptions C14_python_literal.

(** XML: the search-and-flush loop is a per-byte map; unescaping gives the input back; the output
    contains no raw `<`, `>`, quote or apostrophe (and every `&` starts one of the five entities,
    because [xml_unescape] succeeds). *)
Theorem C14_xml_escape_impl_is_map : forall s, xml_escape_impl s = Some (xml_escape s).
Proof. exact p_xml_impl_is_map. Qed.
Print Assumptions C14_xml_escape_impl_is_map.

Theorem C14_xml_escape_roundtrip :
  forall s, xml_unescape (xml_escape s) = Some s /\ forallb xml_clean (xml_escape s) = true.
Proof. intro s. split; [apply p_xml_roundtrip | apply p_xml_clean]. Qed.
Print Assumptions C14_xml_escape_roundtrip.

(** Domain rejections. *)
Theorem C14_yaml_rejects_exactly_functions : forall o v cur, ywr o cur v = None <-> has_fun v = true.
Proof. exact p_yaml_rejects. Qed.
Print Assumptions C14_yaml_rejects_exactly_functions.

Theorem C14_python_rejects_exactly_functions : forall v, pywr v = None <-> has_fun v = true.
Proof. exact p_python_rejects. Qed.
Print Assumptions C14_python_rejects_exactly_functions.

Theorem C14_toml_value_rejects_exactly_null_and_functions :
  forall o v inline cur, tval o inline cur v = None <-> has_fun v || has_null v = true.
Proof. exact p_toml_value_rejects. Qed.
Print Assumptions C14_toml_value_rejects_exactly_null_and_functions.

Theorem C14_toml_top_must_be_object : forall o v, is_obj v = false -> toml_manifest o v = None.
Proof. exact p_toml_top_rejects. Qed.
Print Assumptions C14_toml_top_must_be_object.

Theorem C14_xml_shape_is_jsonml : forall v, jsonml_of v = None <-> is_jsonml v = false.
Proof. exact p_jsonml_shape. Qed.
Print Assumptions C14_xml_shape_is_jsonml.
