From Coq Require Import List Arith Bool.
From JrV Require Import C03.Model C03.Proofs C03.Properties.
Import ListNotations.
Check C03_cell_at_most_once : forall fuel (b : bodies) n cs st' log',
    force_all fuel b cs (repeat Waiting n) [] = (st', log') -> NoDup log'.
Check C03_force_invariant : forall fuel b c st log o st' log',
    Inv st log -> force fuel b c st log = (o, st', log') ->
    Inv st' log' /\ stable st st' /\ extends log log'.
Check C03_finished_forever : forall fuel b c st log o st' log',
    Inv st log -> force fuel b c st log = (o, st', log') ->
    forall x s, nth_error st x = Some s -> finished s = true -> nth_error st' x = Some s.
Check C03_no_rerun : forall fuel b c st log,
    (exists s, nth_error st c = Some s /\ finished s = true) ->
    exists o, force (S fuel) b c st log = (o, st, log) /\ (o = OK \/ o = ERR).
Check C03_reentrant_is_infinite_recursion : forall fuel b c st log,
    nth_error st c = Some Pending -> force (S fuel) b c st log = (INFREC, st, log).
Check eq_refl : force 5 (fun c => ([c], true)) 0 [Waiting] [] = (INFREC, [Errored], [0]).
Check eq_refl : force_all 9 (fun c => match c with 0 => ([1; 1], true) | _ => ([], true) end) [0; 0; 1]
                  [Waiting; Waiting] [] = ([Computed; Computed], [1; 0]).
Check C03_sem_log_fuel_independent :
  forall n m e, n <= m ->
    fst (JrV.Sem.Interp.run n e) <> JrV.Sem.Interp.OErr JrV.Sem.Interp.KFuel ->
    snd (JrV.Sem.Interp.run m e) = snd (JrV.Sem.Interp.run n e).
