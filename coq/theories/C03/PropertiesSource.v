(** C03 - the four code sites of the memo protocol, translated from the source text (Gen/GenMemo.v by
    translator/gens/memo.py, regenerated on every run), ARE the model cell; the cell theorems of
    Properties.v therefore hold for each site.  Definitions: ModelSource.v; lemmas: ProofsSource.v. *)
From Coq Require Import List Arith Bool.
From JrV Require Import C03.Model C03.Proofs Gen.GenMemo C03.ModelSource C03.ProofsSource.
Import ListNotations.

(** Thunk / MemoizedClosureThunk::get (val.rs): the translated step functions are the model cell's for every state and every closure
    result, hence a call of the site IS [Model.force] on the store *)
Theorem C03_site_is_model_cell_thunk :
    (forall s, gen_thunk_enter s = cell_enter s) /\
    (forall s ok, gen_thunk_leave s ok = cell_leave s ok) /\
    (forall g fuel b c st log, site_call site_thunk g fuel b c st log = force fuel b c st log).
Proof. exact (conj (proj1 thunk_ok) (conj (proj2 thunk_ok) (ungated_call_is_force site_thunk thunk_ok thunk_gate))). Qed.
Print Assumptions C03_site_is_model_cell_thunk.

(** Thunk / MemoizedClosureThunk::get (val.rs): over every history of (nested, re-entrant) calls, no closure starts twice *)
Theorem C03_site_at_most_once_thunk :
    forall fuel (b : bodies) n cs st' log',
    site_call_all site_thunk fuel b cs (repeat Waiting n) [] = (st', log') -> NoDup log'.
Proof. exact (site_at_most_once site_thunk thunk_ok). Qed.
Print Assumptions C03_site_at_most_once_thunk.

(** Thunk / MemoizedClosureThunk::get (val.rs): finished cells are never changed by any call, and a call on a finished cell answers from
    the stored result without running anything *)
Theorem C03_site_finished_forever_thunk :
    (forall g fuel b c st log o st' log',
      Inv st log -> site_call site_thunk g fuel b c st log = (o, st', log') ->
      forall x s, nth_error st x = Some s -> finished s = true -> nth_error st' x = Some s) /\
    (forall fuel b c st log,
      (exists s, nth_error st c = Some s /\ finished s = true) ->
      exists o, site_call site_thunk true (S fuel) b c st log = (o, st, log) /\ (o = OK \/ o = ERR)).
Proof. exact (conj (site_finished_forever site_thunk thunk_ok) (site_no_rerun site_thunk thunk_ok)). Qed.
Print Assumptions C03_site_finished_forever_thunk.

(** Thunk / MemoizedClosureThunk::get (val.rs): a call on a cell whose closure is running is infinite recursion, state untouched *)
Theorem C03_site_reentrant_is_infinite_recursion_thunk :
    forall fuel b c st log,
    nth_error st c = Some Pending -> site_call site_thunk true (S fuel) b c st log = (INFREC, st, log).
Proof. exact (site_reentrant site_thunk thunk_ok). Qed.
Print Assumptions C03_site_reentrant_is_infinite_recursion_thunk.

(** ExprArray::get (arr/spec.rs): the translated step functions are the model cell's for every state and every closure
    result, hence a call of the site IS [Model.force] on the store *)
Theorem C03_site_is_model_cell_exprarr :
    (forall s, gen_exprarr_enter s = cell_enter s) /\
    (forall s ok, gen_exprarr_leave s ok = cell_leave s ok) /\
    (forall g fuel b c st log, site_call site_exprarr g fuel b c st log = force fuel b c st log).
Proof. exact (conj (proj1 exprarr_ok) (conj (proj2 exprarr_ok) (ungated_call_is_force site_exprarr exprarr_ok exprarr_gate))). Qed.
Print Assumptions C03_site_is_model_cell_exprarr.

(** ExprArray::get (arr/spec.rs): over every history of (nested, re-entrant) calls, no closure starts twice *)
Theorem C03_site_at_most_once_exprarr :
    forall fuel (b : bodies) n cs st' log',
    site_call_all site_exprarr fuel b cs (repeat Waiting n) [] = (st', log') -> NoDup log'.
Proof. exact (site_at_most_once site_exprarr exprarr_ok). Qed.
Print Assumptions C03_site_at_most_once_exprarr.

(** ExprArray::get (arr/spec.rs): finished cells are never changed by any call, and a call on a finished cell answers from
    the stored result without running anything *)
Theorem C03_site_finished_forever_exprarr :
    (forall g fuel b c st log o st' log',
      Inv st log -> site_call site_exprarr g fuel b c st log = (o, st', log') ->
      forall x s, nth_error st x = Some s -> finished s = true -> nth_error st' x = Some s) /\
    (forall fuel b c st log,
      (exists s, nth_error st c = Some s /\ finished s = true) ->
      exists o, site_call site_exprarr true (S fuel) b c st log = (o, st, log) /\ (o = OK \/ o = ERR)).
Proof. exact (conj (site_finished_forever site_exprarr exprarr_ok) (site_no_rerun site_exprarr exprarr_ok)). Qed.
Print Assumptions C03_site_finished_forever_exprarr.

(** ExprArray::get (arr/spec.rs): a call on a cell whose closure is running is infinite recursion, state untouched *)
Theorem C03_site_reentrant_is_infinite_recursion_exprarr :
    forall fuel b c st log,
    nth_error st c = Some Pending -> site_call site_exprarr true (S fuel) b c st log = (INFREC, st, log).
Proof. exact (site_reentrant site_exprarr exprarr_ok). Qed.
Print Assumptions C03_site_reentrant_is_infinite_recursion_exprarr.

(** ExprArray::get_lazy (arr/spec.rs): the handle made in store st0 (finished thunk for Computed / Errored, deferred
    call of get otherwise), forced in any later store st in which the cells finished in st0 are unchanged,
    answers exactly like the model cell forced at that later moment *)
Theorem C03_site_lazy_is_get_exprarr :
    forall fuel b c st0 st log,
    (forall s, nth_error st0 c = Some s -> finished s = true -> nth_error st c = Some s) ->
    (nth_error st0 c = None -> nth_error st c = None) ->
    site_lazy_force site_exprarr gen_exprarr_lazy (S fuel) b c st0 st log = force (S fuel) b c st log.
Proof. exact (site_lazy_is_force site_exprarr gen_exprarr_lazy exprarr_ok exprarr_lazy_ok). Qed.
Print Assumptions C03_site_lazy_is_get_exprarr.

(** MappedArray::get (arr/spec.rs): the translated step functions are the model cell's for every state and every closure
    result, hence a call of the site IS [Model.force] on the store *)
Theorem C03_site_is_model_cell_mapped :
    (forall s, gen_mapped_enter s = cell_enter s) /\
    (forall s ok, gen_mapped_leave s ok = cell_leave s ok) /\
    (forall g fuel b c st log, site_call site_mapped g fuel b c st log = force fuel b c st log).
Proof. exact (conj (proj1 mapped_ok) (conj (proj2 mapped_ok) (ungated_call_is_force site_mapped mapped_ok mapped_gate))). Qed.
Print Assumptions C03_site_is_model_cell_mapped.

(** MappedArray::get (arr/spec.rs): over every history of (nested, re-entrant) calls, no closure starts twice *)
Theorem C03_site_at_most_once_mapped :
    forall fuel (b : bodies) n cs st' log',
    site_call_all site_mapped fuel b cs (repeat Waiting n) [] = (st', log') -> NoDup log'.
Proof. exact (site_at_most_once site_mapped mapped_ok). Qed.
Print Assumptions C03_site_at_most_once_mapped.

(** MappedArray::get (arr/spec.rs): finished cells are never changed by any call, and a call on a finished cell answers from
    the stored result without running anything *)
Theorem C03_site_finished_forever_mapped :
    (forall g fuel b c st log o st' log',
      Inv st log -> site_call site_mapped g fuel b c st log = (o, st', log') ->
      forall x s, nth_error st x = Some s -> finished s = true -> nth_error st' x = Some s) /\
    (forall fuel b c st log,
      (exists s, nth_error st c = Some s /\ finished s = true) ->
      exists o, site_call site_mapped true (S fuel) b c st log = (o, st, log) /\ (o = OK \/ o = ERR)).
Proof. exact (conj (site_finished_forever site_mapped mapped_ok) (site_no_rerun site_mapped mapped_ok)). Qed.
Print Assumptions C03_site_finished_forever_mapped.

(** MappedArray::get (arr/spec.rs): a call on a cell whose closure is running is infinite recursion, state untouched *)
Theorem C03_site_reentrant_is_infinite_recursion_mapped :
    forall fuel b c st log,
    nth_error st c = Some Pending -> site_call site_mapped true (S fuel) b c st log = (INFREC, st, log).
Proof. exact (site_reentrant site_mapped mapped_ok). Qed.
Print Assumptions C03_site_reentrant_is_infinite_recursion_mapped.

(** MappedArray::get_lazy (arr/spec.rs): the handle made in store st0 (finished thunk for Computed / Errored, deferred
    call of get otherwise), forced in any later store st in which the cells finished in st0 are unchanged,
    answers exactly like the model cell forced at that later moment *)
Theorem C03_site_lazy_is_get_mapped :
    forall fuel b c st0 st log,
    (forall s, nth_error st0 c = Some s -> finished s = true -> nth_error st c = Some s) ->
    (nth_error st0 c = None -> nth_error st c = None) ->
    site_lazy_force site_mapped gen_mapped_lazy (S fuel) b c st0 st log = force (S fuel) b c st log.
Proof. exact (site_lazy_is_force site_mapped gen_mapped_lazy mapped_ok mapped_lazy_ok). Qed.
Print Assumptions C03_site_lazy_is_get_mapped.

(** ObjValue::get_idx, the object field cache (obj/mod.rs): the translated step functions are the model cell's for every state and every closure
    result, hence a call of the site whose gate (`self.run_assertions()?`) passes IS [Model.force] on the store; when the gate
    fails the call returns the error and touches nothing (the deviation of this site from the bare cell) *)
Theorem C03_site_is_model_cell_obj :
    (forall s, gen_obj_enter s = cell_enter s) /\
    (forall s ok, gen_obj_leave s ok = cell_leave s ok) /\
    (forall g fuel b c st log,
      site_call site_obj g fuel b c st log = if g then force fuel b c st log else (ERR, st, log)).
Proof. exact (conj (proj1 obj_ok) (conj (proj2 obj_ok) (gated_call_is_force site_obj obj_ok obj_gate))). Qed.
Print Assumptions C03_site_is_model_cell_obj.

(** ObjValue::get_idx, the object field cache (obj/mod.rs): over every history of (nested, re-entrant) calls and gate outcomes, no closure starts twice *)
Theorem C03_site_at_most_once_obj :
    forall fuel (b : bodies) n cs st' log',
    site_call_all site_obj fuel b cs (repeat Waiting n) [] = (st', log') -> NoDup log'.
Proof. exact (site_at_most_once site_obj obj_ok). Qed.
Print Assumptions C03_site_at_most_once_obj.

(** ObjValue::get_idx, the object field cache (obj/mod.rs): finished cells are never changed by any call, and a call on a finished cell answers from
    the stored result without running anything *)
Theorem C03_site_finished_forever_obj :
    (forall g fuel b c st log o st' log',
      Inv st log -> site_call site_obj g fuel b c st log = (o, st', log') ->
      forall x s, nth_error st x = Some s -> finished s = true -> nth_error st' x = Some s) /\
    (forall fuel b c st log,
      (exists s, nth_error st c = Some s /\ finished s = true) ->
      exists o, site_call site_obj true (S fuel) b c st log = (o, st, log) /\ (o = OK \/ o = ERR)).
Proof. exact (conj (site_finished_forever site_obj obj_ok) (site_no_rerun site_obj obj_ok)). Qed.
Print Assumptions C03_site_finished_forever_obj.

(** ObjValue::get_idx, the object field cache (obj/mod.rs): a call on a cell whose closure is running is infinite recursion, state untouched *)
Theorem C03_site_reentrant_is_infinite_recursion_obj :
    forall fuel b c st log,
    nth_error st c = Some Pending -> site_call site_obj true (S fuel) b c st log = (INFREC, st, log).
Proof. exact (site_reentrant site_obj obj_ok). Qed.
Print Assumptions C03_site_reentrant_is_infinite_recursion_obj.

(** the object site when its assertions fail: error, no cell touched, no closure started *)
Theorem C03_site_obj_gate_failed_touches_nothing :
    forall fuel b c st log, site_call site_obj false fuel b c st log = (ERR, st, log).
Proof. exact (fun fuel b c st log => site_gate_failed site_obj fuel b c st log obj_gate). Qed.
Print Assumptions C03_site_obj_gate_failed_touches_nothing.

