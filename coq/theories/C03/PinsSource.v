From Coq Require Import List Arith Bool.
From JrV Require Import C03.Model C03.Proofs Gen.GenMemo C03.ModelSource C03.ProofsSource C03.PropertiesSource.
Import ListNotations.
Check C03_site_is_model_cell_thunk :
    (forall s, gen_thunk_enter s = cell_enter s) /\
    (forall s ok, gen_thunk_leave s ok = cell_leave s ok) /\
    (forall g fuel b c st log, site_call site_thunk g fuel b c st log = force fuel b c st log).
Check C03_site_at_most_once_thunk :
    forall fuel (b : bodies) n cs st' log',
    site_call_all site_thunk fuel b cs (repeat Waiting n) [] = (st', log') -> NoDup log'.
Check C03_site_finished_forever_thunk :
    (forall g fuel b c st log o st' log',
      Inv st log -> site_call site_thunk g fuel b c st log = (o, st', log') ->
      forall x s, nth_error st x = Some s -> finished s = true -> nth_error st' x = Some s) /\
    (forall fuel b c st log,
      (exists s, nth_error st c = Some s /\ finished s = true) ->
      exists o, site_call site_thunk true (S fuel) b c st log = (o, st, log) /\ (o = OK \/ o = ERR)).
Check C03_site_reentrant_is_infinite_recursion_thunk :
    forall fuel b c st log,
    nth_error st c = Some Pending -> site_call site_thunk true (S fuel) b c st log = (INFREC, st, log).
Check C03_site_is_model_cell_exprarr :
    (forall s, gen_exprarr_enter s = cell_enter s) /\
    (forall s ok, gen_exprarr_leave s ok = cell_leave s ok) /\
    (forall g fuel b c st log, site_call site_exprarr g fuel b c st log = force fuel b c st log).
Check C03_site_at_most_once_exprarr :
    forall fuel (b : bodies) n cs st' log',
    site_call_all site_exprarr fuel b cs (repeat Waiting n) [] = (st', log') -> NoDup log'.
Check C03_site_finished_forever_exprarr :
    (forall g fuel b c st log o st' log',
      Inv st log -> site_call site_exprarr g fuel b c st log = (o, st', log') ->
      forall x s, nth_error st x = Some s -> finished s = true -> nth_error st' x = Some s) /\
    (forall fuel b c st log,
      (exists s, nth_error st c = Some s /\ finished s = true) ->
      exists o, site_call site_exprarr true (S fuel) b c st log = (o, st, log) /\ (o = OK \/ o = ERR)).
Check C03_site_reentrant_is_infinite_recursion_exprarr :
    forall fuel b c st log,
    nth_error st c = Some Pending -> site_call site_exprarr true (S fuel) b c st log = (INFREC, st, log).
Check C03_site_lazy_is_get_exprarr :
    forall fuel b c st0 st log,
    (forall s, nth_error st0 c = Some s -> finished s = true -> nth_error st c = Some s) ->
    (nth_error st0 c = None -> nth_error st c = None) ->
    site_lazy_force site_exprarr gen_exprarr_lazy (S fuel) b c st0 st log = force (S fuel) b c st log.
Check C03_site_is_model_cell_mapped :
    (forall s, gen_mapped_enter s = cell_enter s) /\
    (forall s ok, gen_mapped_leave s ok = cell_leave s ok) /\
    (forall g fuel b c st log, site_call site_mapped g fuel b c st log = force fuel b c st log).
Check C03_site_at_most_once_mapped :
    forall fuel (b : bodies) n cs st' log',
    site_call_all site_mapped fuel b cs (repeat Waiting n) [] = (st', log') -> NoDup log'.
Check C03_site_finished_forever_mapped :
    (forall g fuel b c st log o st' log',
      Inv st log -> site_call site_mapped g fuel b c st log = (o, st', log') ->
      forall x s, nth_error st x = Some s -> finished s = true -> nth_error st' x = Some s) /\
    (forall fuel b c st log,
      (exists s, nth_error st c = Some s /\ finished s = true) ->
      exists o, site_call site_mapped true (S fuel) b c st log = (o, st, log) /\ (o = OK \/ o = ERR)).
Check C03_site_reentrant_is_infinite_recursion_mapped :
    forall fuel b c st log,
    nth_error st c = Some Pending -> site_call site_mapped true (S fuel) b c st log = (INFREC, st, log).
Check C03_site_lazy_is_get_mapped :
    forall fuel b c st0 st log,
    (forall s, nth_error st0 c = Some s -> finished s = true -> nth_error st c = Some s) ->
    (nth_error st0 c = None -> nth_error st c = None) ->
    site_lazy_force site_mapped gen_mapped_lazy (S fuel) b c st0 st log = force (S fuel) b c st log.
Check C03_site_is_model_cell_obj :
    (forall s, gen_obj_enter s = cell_enter s) /\
    (forall s ok, gen_obj_leave s ok = cell_leave s ok) /\
    (forall g fuel b c st log,
      site_call site_obj g fuel b c st log = if g then force fuel b c st log else (ERR, st, log)).
Check C03_site_at_most_once_obj :
    forall fuel (b : bodies) n cs st' log',
    site_call_all site_obj fuel b cs (repeat Waiting n) [] = (st', log') -> NoDup log'.
Check C03_site_finished_forever_obj :
    (forall g fuel b c st log o st' log',
      Inv st log -> site_call site_obj g fuel b c st log = (o, st', log') ->
      forall x s, nth_error st x = Some s -> finished s = true -> nth_error st' x = Some s) /\
    (forall fuel b c st log,
      (exists s, nth_error st c = Some s /\ finished s = true) ->
      exists o, site_call site_obj true (S fuel) b c st log = (o, st, log) /\ (o = OK \/ o = ERR)).
Check C03_site_reentrant_is_infinite_recursion_obj :
    forall fuel b c st log,
    nth_error st c = Some Pending -> site_call site_obj true (S fuel) b c st log = (INFREC, st, log).
Check C03_site_obj_gate_failed_touches_nothing :
    forall fuel b c st log, site_call site_obj false fuel b c st log = (ERR, st, log).
(* definitions pinned: the interpreter of a translated site on concrete histories *)
Check eq_refl : site_force site_thunk 5 (fun c => ([c], true)) 0 [Waiting] [] = (INFREC, [Errored], [0]).
Check eq_refl : site_call_all site_exprarr 9 (fun c => match c with 0 => ([1; 1], true) | _ => ([], true) end)
                  [(0, true); (0, false); (1, true)] [Waiting; Waiting] [] = ([Computed; Computed], [1; 0]).
Check eq_refl : site_call_all site_obj 9 (fun c => ([], false)) [(0, false); (0, true); (0, true)] [Waiting] []
                = ([Errored], [0]).
Check eq_refl : site_call site_obj false 9 (fun c => ([], true)) 0 [Waiting] [] = (ERR, [Waiting], []).
Check eq_refl : site_lazy_force site_mapped gen_mapped_lazy 3 (fun c => ([], true)) 0 [Errored] [Errored] []
                = (ERR, [Errored], []).
Check eq_refl : (cell_enter GWaiting, cell_enter GPending, cell_enter GComputed, cell_enter GErrored)
                = ((EProceed, GPending), (EInfRec, GPending), (EValue, GComputed), (EStoredErr, GErrored)).
Check eq_refl : (cell_leave GPending true, cell_leave GPending false) = ((ROk, GComputed), (RErr, GErrored)).
Check eq_refl : (gen_thunk_gate, gen_exprarr_gate, gen_mapped_gate, gen_obj_gate) = (false, false, false, true).
