(** statements of PropertiesSem.v re-stated, and the definitions they speak about pinned *)
From Coq Require Import List ZArith NArith Bool.
From JrV Require Import Sem.Syntax Sem.Interp Sem.Store Sem.Needed Sem.NeededLocals C03.PropertiesSem.
Import ListNotations.

Check C03_sem_every_function_extends_store :
  forall A (m : M A), sem_fn A m -> forall s, ext s (snd (m s)).
Check C03_sem_store_extension : forall s s', sem_reach s s' -> ext s s'.
Check C03_sem_cells_never_decrease :
  forall s s', sem_reach s s' -> length (cells s) <= length (cells s').
Check C03_sem_done_forever :
  forall s s' loc v, sem_reach s s' ->
    nth_error (cells s) loc = Some (CDone v) -> nth_error (cells s') loc = Some (CDone v).
Check C03_sem_failed_forever :
  forall s s' loc k, sem_reach s s' ->
    nth_error (cells s) loc = Some (CFail k) -> nth_error (cells s') loc = Some (CFail k).
Check C03_sem_log_append_only :
  forall s s', sem_reach s s' -> exists newer, log s' = newer ++ log s.
Check C03_sem_caches_grow :
  forall s s', sem_reach s s' ->
    (exists newer, fcache s' = newer ++ fcache s) /\ (exists newer, lcache s' = newer ++ lcache s) /\
    next_oid s <= next_oid s'.
Check C03_sem_cell_protocol :
  forall s s' loc c, sem_reach s s' -> nth_error (cells s) loc = Some c ->
    exists c', nth_error (cells s') loc = Some c' /\ cell_le c c' /\
               cell_rank c <= cell_rank c' /\ (cell_rank c = cell_rank c' -> c' = c).
Check C03_sem_pending_untouched :
  forall s s' loc, sem_reach s s' ->
    nth_error (cells s) loc = Some CPend -> nth_error (cells s') loc = Some CPend.
Check C03_sem_force_stores_result :
  forall n loc s r s', force n loc s = (r, s') ->
    match r with
    | Ok v => nth_error (cells s') loc = Some (CDone v)
    | Err KFuel => True
    | Err k => nth_error (cells s') loc = Some (CFail k) \/
               (k = KInfRec /\ nth_error (cells s) loc = Some CPend /\ s' = s) \/
               (k = KType /\ nth_error (cells s) loc = None /\ s' = s)
    end.
Check C03_sem_force_done_is_pure :
  forall n loc v s, nth_error (cells s) loc = Some (CDone v) -> force (S n) loc s = (Ok v, s).
Check C03_sem_force_failed_is_pure :
  forall n loc k s, nth_error (cells s) loc = Some (CFail k) -> force (S n) loc s = (Err k, s).
Check C03_sem_shared_never_reruns :
  forall s s' loc v n, sem_reach s s' -> nth_error (cells s) loc = Some (CDone v) ->
    force (S n) loc s' = (Ok v, s').
Check C03_sem_unforced_thunk_irrelevant :
  forall (D : nat -> Prop) A (m : M A), sem_fn A m ->
  forall s1 s2 r s1',
    sim D s1 s2 -> m s1 = (r, s1') -> unstarted D s1' ->
    exists s2', m s2 = (r, s2') /\ sim D s1' s2'.
Check C03_sem_unused_local_never_runs :
  forall n ev oc x e e' body s r s',
    eval (S n) ev oc (ELocal [(x, e)] body) s = (r, s') ->
    (exists c, nth_error (cells s') (length (cells s)) = Some c /\ is_wait c = true) ->
    exists s2', eval (S n) ev oc (ELocal [(x, e')] body) s = (r, s2') /\ log s2' = log s' /\
                sim (eq (length (cells s))) s' s2'.
Check C03_sem_unused_local_never_runs_program :
  forall fuel x e e' body,
    (exists c, nth_error (cells (snd (run_state fuel (ELocal [(x, e)] body)))) 0 = Some c /\ is_wait c = true) ->
    run fuel (ELocal [(x, e')] body) = run fuel (ELocal [(x, e)] body).
Check C03_sem_unused_locals_never_run :
  forall (keep : nat -> bool) n ev oc bs bs' body s r s',
    map fst bs' = map fst bs ->
    (forall i, keep i = true -> nth_error bs' i = nth_error bs i) ->
    eval (S n) ev oc (ELocal bs body) s = (r, s') ->
    (forall i, i < length bs -> keep i = false ->
               exists c, nth_error (cells s') (length (cells s) + i) = Some c /\ is_wait c = true) ->
    exists s2', eval (S n) ev oc (ELocal bs' body) s = (r, s2') /\ log s2' = log s'.
Check C03_sem_unread_elements_never_run :
  forall (keep : nat -> bool) n ev oc es es' A (k : value -> M A) s r s',
    (forall v, sem_fn A (k v)) ->
    length es' = length es ->
    (forall i, keep i = true -> nth_error es' i = nth_error es i) ->
    (v <- eval (S n) ev oc (EArr es) ;; k v) s = (r, s') ->
    (forall i, i < length es -> keep i = false ->
               exists c, nth_error (cells s') (length (cells s) + i) = Some c /\ is_wait c = true) ->
    exists s2', (v <- eval (S n) ev oc (EArr es') ;; k v) s = (r, s2') /\ log s2' = log s'.

(** the vocabulary *)
Check eq_refl : cell_le = fun c c' => c' = c \/ (is_wait c = true /\ is_wait c' = false).
Check eq_refl : map is_wait [CWait [] no_octx ENull; CFieldWait 0 [] [] 0; CPend; CDone VNull; CFail KType]
                = [true; true; false; false; false].
Check eq_refl : map cell_rank [CWait [] no_octx ENull; CFieldWait 0 [] [] 0; CPend; CDone VNull; CFail KType]
                = [0; 0; 1; 2; 2].
Check ext_cells : forall s s', ext s s' -> forall loc c, nth_error (cells s) loc = Some c ->
                    exists c', nth_error (cells s') loc = Some c' /\ cell_le c c'.
Check ext_log : forall s s', ext s s' -> exists pre, log s' = pre ++ log s.
Check ext_fcache : forall s s', ext s s' -> exists pre, fcache s' = pre ++ fcache s.
Check ext_lcache : forall s s', ext s s' -> exists pre, lcache s' = pre ++ lcache s.
Check ext_oid : forall s s', ext s s' -> next_oid s <= next_oid s'.
Check sf_eval : forall n ev oc e, sem_fn _ (eval n ev oc e).
Check sf_force : forall n loc, sem_fn _ (force n loc).
Check sf_comp : forall n ev oc sp, sem_fn _ (comp n ev oc sp).
Check sf_getfield : forall n oid ls nm up, sem_fn _ (getfield n oid ls nm up).
Check sf_field_raw : forall n oid ls nm up, sem_fn _ (field_raw n oid ls nm up).
Check sf_member_env : forall n oid ls i, sem_fn _ (member_env n oid ls i).
Check sf_run_asserts : forall n oid ls, sem_fn _ (run_asserts n oid ls).
Check sf_assert_layer : forall n oid ls i, sem_fn _ (assert_layer n oid ls i).
Check sf_binop_val : forall n o a b, sem_fn _ (binop_val n o a b).
Check sf_equals : forall n a b, sem_fn _ (equals n a b).
Check sf_compare_val : forall n a b, sem_fn _ (compare_val n a b).
Check sf_manifest : forall n v, sem_fn _ (manifest n v).
Check sf_ret : forall A (a : A), sem_fn _ (ret a).
Check sf_fail : forall A k, sem_fn A (fail k).
Check sf_bind : forall A B (m : M A) (f : A -> M B), sem_fn A m -> (forall a, sem_fn B (f a)) -> sem_fn B (bind m f).
Check sr_refl : forall s, sem_reach s s.
Check sr_step : forall s s' s'', (exists (A : Type) (m : M A), sem_fn A m /\ s' = snd (m s)) ->
                  sem_reach s' s'' -> sem_reach s s''.
Check sim_cells : forall D s1 s2, sim D s1 s2 -> forall loc,
    nth_error (cells s1) loc = nth_error (cells s2) loc \/
    (D loc /\ exists c1 c2, nth_error (cells s1) loc = Some c1 /\ nth_error (cells s2) loc = Some c2 /\
                            is_wait c1 = true /\ is_wait c2 = true).
Check sim_log : forall D s1 s2, sim D s1 s2 -> log s1 = log s2.
Check eq_refl : unstarted = fun D s => forall loc c, D loc -> nth_error (cells s) loc = Some c -> is_wait c = true.
Check eq_refl : run_state = fun fuel e => (v <- eval fuel [] no_octx e ;; manifest fuel v) empty_store.
