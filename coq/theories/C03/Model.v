(** C03 kernel: the four-state memo cell shared by MemoizedClosureThunk (val.rs),
    ExprArray / MappedArray element caches (arr/spec.rs) and the object field cache
    (obj/mod.rs): Waiting -> Pending -> Computed | Errored, with re-entrant forcing.

    A cell's closure is an arbitrary script: the cells it forces, in order, and whether it
    finally succeeds.  [log] records every closure start.  SPEC: no closure starts twice,
    finished cells never change, forcing a cell during its own run is infinite recursion. *)
From Coq Require Import List Arith Bool.
Import ListNotations.

Inductive cst := Waiting | Pending | Computed | Errored.
Definition state := list cst.
Definition bodies := nat -> list nat * bool.
Inductive out := OK | ERR | INFREC | FUEL.

Fixpoint set_nth {A} (l : list A) (i : nat) (x : A) : list A :=
  match l, i with
  | [], _ => []
  | _ :: t, O => x :: t
  | h :: t, S j => h :: set_nth t j x
  end.

Fixpoint force (fuel : nat) (b : bodies) (c : nat) (st : state) (log : list nat)
  : out * state * list nat :=
  match fuel with
  | O => (FUEL, st, log)
  | S f =>
      match nth_error st c with
      | None => (ERR, st, log)
      | Some Computed => (OK, st, log)
      | Some Errored => (ERR, st, log)
      | Some Pending => (INFREC, st, log)
      | Some Waiting =>
          let run :=
            (fix rs (s : list nat) (st : state) (log : list nat) : out * state * list nat :=
               match s with
               | [] => (OK, st, log)
               | x :: t => match force f b x st log with
                           | (OK, st', log') => rs t st' log'
                           | r => r
                           end
               end) in
          match run (fst (b c)) (set_nth st c Pending) (c :: log) with
          | (OK, st2, log2) =>
              if snd (b c) then (OK, set_nth st2 c Computed, log2)
              else (ERR, set_nth st2 c Errored, log2)
          | (FUEL, st2, log2) => (FUEL, st2, log2)
          | (o, st2, log2) => (o, set_nth st2 c Errored, log2)
          end
      end
  end.

(** a history of top-level forces *)
Fixpoint force_all (fuel : nat) (b : bodies) (cs : list nat) (st : state) (log : list nat)
  : state * list nat :=
  match cs with
  | [] => (st, log)
  | c :: t => match force fuel b c st log with (_, st', log') => force_all fuel b t st' log' end
  end.

Definition started (s : cst) : bool := match s with Waiting => false | _ => true end.
Definition finished (s : cst) : bool := match s with Computed | Errored => true | _ => false end.
