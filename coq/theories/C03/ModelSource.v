(** C03, source tie: the memo protocol of each of the four sites, as translated from the
    source text into Gen/GenMemo.v (step functions [gen_<site>_enter], [gen_<site>_leave],
    [gen_<site>_gate], [gen_<site>_lazy]), interpreted over the same store of cells, the same
    closure scripts and the same log as the hand-written model cell [Model.force].

    Definitions only.  [site_force P] is the generic interpreter of a translated site:
      - the state found on entry is looked up, [s_enter] says what is answered (stored value,
        stored error, InfiniteRecursionDetected - all without running the closure and without
        a write) or that the closure runs, and in which state the cell is put first;
      - the closure is an arbitrary script of further (nested, possibly re-entrant) calls of
        the same site on the same store, followed by its own success flag (Model.bodies);
      - when the closure has finished, [s_leave] (given the state the cell is in at that
        moment and the closure's outcome) says what the call returns and what is written.
    [site_call] adds the gate of the object site: `self.run_assertions()?` runs to completion
    before the cell is inspected; when it fails the call returns the error and the cell is not
    touched.  (The assertions' own field reads are complete calls that happen before; in a
    history they are earlier entries.  A nested call whose gate fails is a closure script that
    ends there with failure, which [bodies] - quantified over in every theorem - contains.) *)
From Coq Require Import List Arith Bool.
From JrV Require Import C03.Model Gen.GenMemo.
Import ListNotations.

Definition st_of (g : gstate) : cst :=
  match g with GWaiting => Waiting | GPending => Pending | GComputed => Computed | GErrored => Errored end.
Definition g_of (s : cst) : gstate :=
  match s with Waiting => GWaiting | Pending => GPending | Computed => GComputed | Errored => GErrored end.

Record site := {
  s_enter : gstate -> gentry * gstate;
  s_leave : gstate -> bool -> gret * gstate;
  s_gate : bool
}.

(** what the caller sees after the closure finished: [o] is the outcome of the closure's
    script (an error of a nested call propagates as it is), [ok] the closure's result *)
Definition ret_out (r : gret) (o : out) : out :=
  match r with
  | ROk => OK
  | RErr => match o with OK => ERR | _ => o end
  end.

Fixpoint site_force (P : site) (fuel : nat) (b : bodies) (c : nat) (st : state) (log : list nat)
  : out * state * list nat :=
  match fuel with
  | O => (FUEL, st, log)
  | S f =>
      match nth_error st c with
      | None => (ERR, st, log)
      | Some s =>
          match s_enter P (g_of s) with
          | (EValue, _) => (OK, st, log)
          | (EStoredErr, _) => (ERR, st, log)
          | (EInfRec, _) => (INFREC, st, log)
          | (EProceed, s1) =>
              let run :=
                (fix rs (sc : list nat) (st : state) (log : list nat) : out * state * list nat :=
                   match sc with
                   | [] => (OK, st, log)
                   | x :: t => match site_force P f b x st log with
                               | (OK, st', log') => rs t st' log'
                               | r => r
                               end
                   end) in
              match run (fst (b c)) (set_nth st c (st_of s1)) (c :: log) with
              | (FUEL, st2, log2) => (FUEL, st2, log2)
              | (o, st2, log2) =>
                  let ok := match o with OK => snd (b c) | _ => false end in
                  let now := match nth_error st2 c with Some x => g_of x | None => GWaiting end in
                  match s_leave P now ok with
                  | (r, s2) => (ret_out r o, set_nth st2 c (st_of s2), log2)
                  end
              end
          end
      end
  end.

(** one call of the site's entry point; [gate_ok] = outcome of the fallible step in front *)
Definition site_call (P : site) (gate_ok : bool) (fuel : nat) (b : bodies) (c : nat) (st : state)
  (log : list nat) : out * state * list nat :=
  if s_gate P && negb gate_ok then (ERR, st, log) else site_force P fuel b c st log.

(** a history of top-level calls, each with the outcome of its gate *)
Fixpoint site_call_all (P : site) (fuel : nat) (b : bodies) (cs : list (nat * bool)) (st : state)
  (log : list nat) : state * list nat :=
  match cs with
  | [] => (st, log)
  | (c, g) :: t => match site_call P g fuel b c st log with
                   | (_, st', log') => site_call_all P fuel b t st' log'
                   end
  end.

(** get_lazy: the handle is made while the cell is in state [st0 c]; it is forced later, in
    store [st].  A finished handle answers without touching anything, a deferred one is a call
    of the site's get. *)
Definition site_lazy_force (P : site) (lazy : gstate -> glazy) (fuel : nat) (b : bodies) (c : nat)
  (st0 st : state) (log : list nat) : out * state * list nat :=
  match nth_error st0 c with
  | None => (ERR, st, log)
  | Some s0 =>
      match lazy (g_of s0) with
      | LEvaluated => (OK, st, log)
      | LErrored => (ERR, st, log)
      | LDeferred => site_force P fuel b c st log
      end
  end.

(** the four translated sites *)
Definition site_thunk : site :=
  {| s_enter := gen_thunk_enter; s_leave := gen_thunk_leave; s_gate := gen_thunk_gate |}.
Definition site_exprarr : site :=
  {| s_enter := gen_exprarr_enter; s_leave := gen_exprarr_leave; s_gate := gen_exprarr_gate |}.
Definition site_mapped : site :=
  {| s_enter := gen_mapped_enter; s_leave := gen_mapped_leave; s_gate := gen_mapped_gate |}.
Definition site_obj : site :=
  {| s_enter := gen_obj_enter; s_leave := gen_obj_leave; s_gate := gen_obj_gate |}.

(** the model cell's own step functions, read off [Model.force] (used by the proofs, and by the
    check to say WHICH step of WHICH site deviates when an obligation breaks) *)
Definition cell_enter (s : gstate) : gentry * gstate :=
  match s with
  | GWaiting => (EProceed, GPending)
  | GPending => (EInfRec, GPending)
  | GComputed => (EValue, GComputed)
  | GErrored => (EStoredErr, GErrored)
  end.
Definition cell_leave (s : gstate) (ok : bool) : gret * gstate :=
  if ok then (ROk, GComputed) else (RErr, GErrored).
Definition cell_lazy (s : gstate) : glazy :=
  match s with GComputed => LEvaluated | GErrored => LErrored | _ => LDeferred end.

(** the calls of a history that get past the gate *)
Definition passing (P : site) (cs : list (nat * bool)) : list nat :=
  map fst (filter (fun x => negb (s_gate P) || snd x) cs).
