From Coq Require Import List Arith Bool Lia.
From JrV Require Import C03.Model.
Import ListNotations.

Lemma set_nth_length {A} (l : list A) i x : length (set_nth l i x) = length l.
Proof. revert i; induction l as [|h t IH]; intros [|i]; cbn; auto. Qed.

Lemma nth_set_nth {A} (l : list A) : forall i j x,
  nth_error (set_nth l i x) j =
  if Nat.eqb i j then (match nth_error l j with Some _ => Some x | None => None end)
  else nth_error l j.
Proof.
  induction l as [|h t IH]; intros i j x.
  - cbn. destruct j; destruct (Nat.eqb i _); reflexivity.
  - destruct i as [|i], j as [|j]; cbn [set_nth nth_error Nat.eqb]; try reflexivity. apply IH.
Qed.

(** invariant: the log lists exactly the started cells, without repetition *)
Definition Inv (st : state) (log : list nat) : Prop :=
  NoDup log /\ forall c, In c log <-> exists s, nth_error st c = Some s /\ started s = true.

Definition stable (st st' : state) : Prop :=
  length st' = length st /\
  (forall c s, nth_error st c = Some s -> finished s = true -> nth_error st' c = Some s) /\
  (forall c, nth_error st c = Some Pending -> nth_error st' c = Some Pending).

Lemma stable_refl st : stable st st.
Proof. repeat split; eauto. Qed.

Lemma stable_trans a b c : stable a b -> stable b c -> stable a c.
Proof.
  intros (L1 & F1 & S1) (L2 & F2 & S2). split; [congruence|]. split.
  - intros x s H Hf. apply F2; auto.
  - intros x H. auto.
Qed.

(** overwriting a Waiting cell disturbs nothing that is finished or running *)
Lemma stable_set_waiting st c s' : nth_error st c = Some Waiting -> stable st (set_nth st c s').
Proof.
  intros Hc. split; [apply set_nth_length|]. split.
  - intros x sx Hx Hfx. rewrite nth_set_nth. destruct (Nat.eqb_spec c x) as [->|]; [|exact Hx].
    rewrite Hc in Hx. injection Hx as <-. discriminate.
  - intros x Hx. rewrite nth_set_nth. destruct (Nat.eqb_spec c x) as [->|]; [|exact Hx].
    rewrite Hc in Hx. discriminate.
Qed.

Definition extends (log log' : list nat) : Prop := exists pre, log' = pre ++ log.
Lemma extends_refl l : extends l l. Proof. exists []. reflexivity. Qed.
Lemma extends_trans a b c : extends a b -> extends b c -> extends a c.
Proof. intros [p ->] [q ->]. exists (q ++ p). rewrite app_assoc. reflexivity. Qed.

Lemma inv_start st log c :
  Inv st log -> nth_error st c = Some Waiting -> Inv (set_nth st c Pending) (c :: log).
Proof.
  intros [Hnd Hin] Hc. split.
  - constructor; [|exact Hnd]. intros H. apply Hin in H. destruct H as (s & Hs & Hst).
    rewrite Hc in Hs. injection Hs as <-. discriminate.
  - intros x. rewrite nth_set_nth. cbn [In]. destruct (Nat.eqb_spec c x) as [->|Hne].
    + rewrite Hc. split; [eauto|auto].
    + rewrite Hin. split; [intros [E|H]; [congruence|exact H]|auto].
Qed.

Lemma inv_finish st log c s s' :
  Inv st log -> nth_error st c = Some s -> started s = true -> started s' = true ->
  Inv (set_nth st c s') log.
Proof.
  intros [Hnd Hin] Hc Hs Hs'. split; [exact Hnd|]. intros x. rewrite nth_set_nth, Hin.
  destruct (Nat.eqb_spec c x) as [->|Hne]; [|reflexivity]. rewrite Hc. split; eauto.
Qed.

Theorem force_inv fuel b : forall c st log o st' log',
  Inv st log -> force fuel b c st log = (o, st', log') ->
  Inv st' log' /\ stable st st' /\ extends log log'.
Proof.
  induction fuel as [|f IH]; intros c st log o st' log' HI H.
  - cbn in H. injection H as <- <- <-. auto using stable_refl, extends_refl.
  - cbn [force] in H. destruct (nth_error st c) as [[| | |]|] eqn:Hc;
      try (injection H as <- <- <-; auto using stable_refl, extends_refl).
    set (rs := fix rs (s : list nat) (st : state) (log : list nat) : out * state * list nat :=
               match s with
               | [] => (OK, st, log)
               | x :: t => match force f b x st log with
                           | (OK, st', log') => rs t st' log'
                           | r => r
                           end
               end) in *.
    assert (Hrs : forall s st1 log1 o2 st2 log2,
               Inv st1 log1 -> rs s st1 log1 = (o2, st2, log2) ->
               Inv st2 log2 /\ stable st1 st2 /\ extends log1 log2).
    { induction s as [|x t IHs]; intros st1 log1 o2 st2 log2 HI1 Hr.
      - cbn in Hr. injection Hr as <- <- <-. auto using stable_refl, extends_refl.
      - cbn [rs] in Hr. fold rs in Hr. destruct (force f b x st1 log1) as [[o1 sta] loga] eqn:Hf.
        destruct (IH _ _ _ _ _ _ HI1 Hf) as (HIa & Hsa & Hea).
        destruct o1; try (injection Hr as <- <- <-; auto).
        destruct (IHs _ _ _ _ _ HIa Hr) as (HIb & Hsb & Heb).
        split; [exact HIb|]. split; [eapply stable_trans; eauto|eapply extends_trans; eauto]. }
    pose proof (inv_start st log c HI Hc) as HI1.
    destruct (rs (fst (b c)) (set_nth st c Pending) (c :: log)) as [[o2 st2] log2] eqn:Hr.
    destruct (Hrs _ _ _ _ _ _ HI1 Hr) as (HI2 & Hs2 & He2).
    assert (Hc2 : nth_error st2 c = Some Pending).
    { destruct Hs2 as (_ & _ & Hp). apply Hp. rewrite nth_set_nth, Nat.eqb_refl, Hc. reflexivity. }
    assert (Hext : extends log log2).
    { eapply extends_trans; [|exact He2]. exists [c]. reflexivity. }
    assert (Hbase : stable st st2).
    { eapply stable_trans; [apply (stable_set_waiting st c Pending Hc)|exact Hs2]. }
    assert (Hfin : forall s', started s' = true ->
              Inv (set_nth st2 c s') log2 /\ stable st (set_nth st2 c s') /\ extends log log2).
    { intros s' Hs'. split; [eapply inv_finish; eauto|]. split; [|exact Hext].
      destruct Hbase as (L & F & P). split; [rewrite set_nth_length; exact L|]. split.
      - intros x sx Hx Hfx. rewrite nth_set_nth. destruct (Nat.eqb_spec c x) as [<-|]; [|auto].
        rewrite Hc in Hx. injection Hx as <-. discriminate.
      - intros x Hx. rewrite nth_set_nth. destruct (Nat.eqb_spec c x) as [<-|]; [|auto].
        rewrite Hc in Hx. discriminate. }
    destruct o2.
    + destruct (snd (b c)); injection H as <- <- <-; apply Hfin; reflexivity.
    + injection H as <- <- <-. apply Hfin. reflexivity.
    + injection H as <- <- <-. apply Hfin. reflexivity.
    + injection H as <- <- <-. split; [exact HI2|]. split; [exact Hbase|exact Hext].
Qed.

Lemma inv_init n : Inv (repeat Waiting n) [].
Proof.
  split; [constructor|]. intros c. split; [intros []|].
  intros (s & Hs & Hst). apply nth_error_In, repeat_spec in Hs. subst. discriminate.
Qed.

Theorem force_all_inv fuel b : forall cs st log st' log',
  Inv st log -> force_all fuel b cs st log = (st', log') ->
  Inv st' log' /\ stable st st' /\ extends log log'.
Proof.
  induction cs as [|c t IH]; intros st log st' log' HI H.
  - cbn in H. injection H as <- <-. auto using stable_refl, extends_refl.
  - cbn [force_all] in H. destruct (force fuel b c st log) as [[o sta] loga] eqn:Hf.
    destruct (force_inv _ _ _ _ _ _ _ _ HI Hf) as (HIa & Hsa & Hea).
    destruct (IH _ _ _ _ HIa H) as (HIb & Hsb & Heb).
    split; [exact HIb|]. split; [eapply stable_trans; eauto|eapply extends_trans; eauto].
Qed.

(** Every closure is started at most once, over every history of (nested) forces, whatever
    the closures do. *)
Theorem at_most_once fuel b n cs st' log' :
  force_all fuel b cs (repeat Waiting n) [] = (st', log') -> NoDup log'.
Proof.
  intros H. destruct (force_all_inv fuel b cs _ _ _ _ (inv_init n) H) as ((Hnd & _) & _). exact Hnd.
Qed.

(** a finished cell answers from the stored result forever and its closure is not run again *)
Theorem finished_forever fuel b c st log o st' log' :
  Inv st log -> force fuel b c st log = (o, st', log') ->
  forall x s, nth_error st x = Some s -> finished s = true -> nth_error st' x = Some s.
Proof.
  intros HI H. destruct (force_inv _ _ _ _ _ _ _ _ HI H) as (_ & (_ & F & _) & _). exact F.
Qed.

Theorem forced_again_no_rerun fuel b c st log :
  (exists s, nth_error st c = Some s /\ finished s = true) ->
  exists o, force (S fuel) b c st log = (o, st, log) /\ (o = OK \/ o = ERR).
Proof.
  intros (s & Hs & Hf). cbn [force]. rewrite Hs. destruct s; try discriminate; eauto.
Qed.

(** forcing a cell while it is running is reported as infinite recursion, state untouched *)
Theorem reentrant_is_infrec fuel b c st log :
  nth_error st c = Some Pending -> force (S fuel) b c st log = (INFREC, st, log).
Proof. intros H. cbn [force]. rewrite H. reflexivity. Qed.

(** non-vacuity: cell 0 forces 1 and 2, cell 1 forces 2 and itself-free, cell 2 fails;
    forcing 0, 1, 2, 0 starts each closure once *)
Example cells_example :
  let b := fun c => match c with 0 => ([1; 2; 1], true) | 1 => ([2], true) | _ => ([], false) end in
  force_all 10 b [0; 1; 2; 0] (repeat Waiting 3) [] = ([Errored; Errored; Errored], [2; 1; 0]).
Proof. reflexivity. Qed.
