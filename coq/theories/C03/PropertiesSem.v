(** C03 — property theorems on the whole reference interpreter Sem (the call-by-need SPEC):
    store extension, the cell protocol, "nothing shared runs twice" and "nothing unneeded runs"
    for ALL programs, fuels and stores.  [sem_fn] = the twelve functions of Sem/Interp.v at any
    fuel and arguments and their sequential compositions; [sem_reach s s'] = s' is the store after
    any history of such calls started in s.  Lemmas: Sem/Store.v, Sem/Needed.v; non-vacuity
    examples: C03/ProofsSem.v. *)
From Coq Require Import List ZArith NArith Bool.
From JrV Require Import Sem.Syntax Sem.Interp Sem.Store Sem.Needed Sem.NeededLocals.
Import ListNotations.

(** 1. store extension *)
Theorem C03_sem_every_function_extends_store :
  forall A (m : M A), sem_fn A m -> forall s, ext s (snd (m s)).
Proof. exact sem_fn_ext. Qed.
Print Assumptions C03_sem_every_function_extends_store.

Theorem C03_sem_store_extension : forall s s', sem_reach s s' -> ext s s'.
Proof. exact sem_reach_ext. Qed.
Print Assumptions C03_sem_store_extension.

Theorem C03_sem_cells_never_decrease :
  forall s s', sem_reach s s' -> length (cells s) <= length (cells s').
Proof. exact cells_never_decrease. Qed.
Print Assumptions C03_sem_cells_never_decrease.

Theorem C03_sem_done_forever :
  forall s s' loc v, sem_reach s s' ->
    nth_error (cells s) loc = Some (CDone v) -> nth_error (cells s') loc = Some (CDone v).
Proof. exact done_forever. Qed.
Print Assumptions C03_sem_done_forever.

Theorem C03_sem_failed_forever :
  forall s s' loc k, sem_reach s s' ->
    nth_error (cells s) loc = Some (CFail k) -> nth_error (cells s') loc = Some (CFail k).
Proof. exact failed_forever. Qed.
Print Assumptions C03_sem_failed_forever.

(** the log is stored most recent first: the old log is a suffix of the new one *)
Theorem C03_sem_log_append_only :
  forall s s', sem_reach s s' -> exists newer, log s' = newer ++ log s.
Proof. exact log_append_only. Qed.
Print Assumptions C03_sem_log_append_only.

Theorem C03_sem_caches_grow :
  forall s s', sem_reach s s' ->
    (exists newer, fcache s' = newer ++ fcache s) /\ (exists newer, lcache s' = newer ++ lcache s) /\
    next_oid s <= next_oid s'.
Proof. exact caches_grow. Qed.
Print Assumptions C03_sem_caches_grow.

(** 2. the cell protocol Waiting (rank 0) -> Pending (1) -> Done/Failed (2), never back *)
Theorem C03_sem_cell_protocol :
  forall s s' loc c, sem_reach s s' -> nth_error (cells s) loc = Some c ->
    exists c', nth_error (cells s') loc = Some c' /\ cell_le c c' /\
               cell_rank c <= cell_rank c' /\ (cell_rank c = cell_rank c' -> c' = c).
Proof. exact cell_protocol. Qed.
Print Assumptions C03_sem_cell_protocol.

(** a cell that is running when a call starts is running when the call returns (only its own
    [force] finishes it) *)
Theorem C03_sem_pending_untouched :
  forall s s' loc, sem_reach s s' ->
    nth_error (cells s) loc = Some CPend -> nth_error (cells s') loc = Some CPend.
Proof. exact pending_untouched. Qed.
Print Assumptions C03_sem_pending_untouched.

(** Pending -> Done v / Failed k: a force that ran to completion leaves its answer in the cell *)
Theorem C03_sem_force_stores_result :
  forall n loc s r s', force n loc s = (r, s') ->
    match r with
    | Ok v => nth_error (cells s') loc = Some (CDone v)
    | Err KFuel => True
    | Err k => nth_error (cells s') loc = Some (CFail k) \/
               (k = KInfRec /\ nth_error (cells s) loc = Some CPend /\ s' = s) \/
               (k = KType /\ nth_error (cells s) loc = None /\ s' = s)
    end.
Proof. exact force_stores_result. Qed.
Print Assumptions C03_sem_force_stores_result.

Theorem C03_sem_force_done_is_pure :
  forall n loc v s, nth_error (cells s) loc = Some (CDone v) -> force (S n) loc s = (Ok v, s).
Proof. exact force_done_is_pure. Qed.
Print Assumptions C03_sem_force_done_is_pure.

Theorem C03_sem_force_failed_is_pure :
  forall n loc k s, nth_error (cells s) loc = Some (CFail k) -> force (S n) loc s = (Err k, s).
Proof. exact force_failed_is_pure. Qed.
Print Assumptions C03_sem_force_failed_is_pure.

(** nothing shared runs twice: once a thunk's cell is Done, after any further history forcing it
    returns the same value and leaves the store - the log included - as it is *)
Theorem C03_sem_shared_never_reruns :
  forall s s' loc v n, sem_reach s s' -> nth_error (cells s) loc = Some (CDone v) ->
    force (S n) loc s' = (Ok v, s').
Proof. exact shared_never_reruns. Qed.
Print Assumptions C03_sem_shared_never_reruns.

(** 3. nothing unneeded runs: what a thunk that is never started contains has no influence on the
    result, the log or the rest of the final store, for every function of the interpreter *)
Theorem C03_sem_unforced_thunk_irrelevant :
  forall (D : nat -> Prop) A (m : M A), sem_fn A m ->
  forall s1 s2 r s1',
    sim D s1 s2 -> m s1 = (r, s1') -> unstarted D s1' ->
    exists s2', m s2 = (r, s2') /\ sim D s1' s2'.
Proof. exact unforced_irrelevant. Qed.
Print Assumptions C03_sem_unforced_thunk_irrelevant.

Theorem C03_sem_unused_local_never_runs :
  forall n ev oc x e e' body s r s',
    eval (S n) ev oc (ELocal [(x, e)] body) s = (r, s') ->
    (exists c, nth_error (cells s') (length (cells s)) = Some c /\ is_wait c = true) ->
    exists s2', eval (S n) ev oc (ELocal [(x, e')] body) s = (r, s2') /\ log s2' = log s' /\
                sim (eq (length (cells s))) s' s2'.
Proof. exact unused_local_never_runs. Qed.
Print Assumptions C03_sem_unused_local_never_runs.

Theorem C03_sem_unused_local_never_runs_program :
  forall fuel x e e' body,
    (exists c, nth_error (cells (snd (run_state fuel (ELocal [(x, e)] body)))) 0 = Some c /\ is_wait c = true) ->
    run fuel (ELocal [(x, e')] body) = run fuel (ELocal [(x, e)] body).
Proof. exact unused_local_never_runs_program. Qed.
Print Assumptions C03_sem_unused_local_never_runs_program.

(** a `local` with several bindings: those with [keep i = false] may be bound to anything else,
    provided their thunks are still waiting when the evaluation ends *)
Theorem C03_sem_unused_locals_never_run :
  forall (keep : nat -> bool) n ev oc bs bs' body s r s',
    map fst bs' = map fst bs ->
    (forall i, keep i = true -> nth_error bs' i = nth_error bs i) ->
    eval (S n) ev oc (ELocal bs body) s = (r, s') ->
    (forall i, i < length bs -> keep i = false ->
               exists c, nth_error (cells s') (length (cells s) + i) = Some c /\ is_wait c = true) ->
    exists s2', eval (S n) ev oc (ELocal bs' body) s = (r, s2') /\ log s2' = log s'.
Proof. exact unused_locals_never_run. Qed.
Print Assumptions C03_sem_unused_locals_never_run.

(** an array literal and whatever is done with it afterwards ([k]: any interpreter function or
    sequence of them): elements that are never read may be replaced by anything *)
Theorem C03_sem_unread_elements_never_run :
  forall (keep : nat -> bool) n ev oc es es' A (k : value -> M A) s r s',
    (forall v, sem_fn A (k v)) ->
    length es' = length es ->
    (forall i, keep i = true -> nth_error es' i = nth_error es i) ->
    (v <- eval (S n) ev oc (EArr es) ;; k v) s = (r, s') ->
    (forall i, i < length es -> keep i = false ->
               exists c, nth_error (cells s') (length (cells s) + i) = Some c /\ is_wait c = true) ->
    exists s2', (v <- eval (S n) ev oc (EArr es') ;; k v) s = (r, s2') /\ log s2' = log s'.
Proof. exact unread_elements_never_run. Qed.
Print Assumptions C03_sem_unread_elements_never_run.
