(** C03 — property theorems on the memo-cell kernel. *)
From Coq Require Import List Arith Bool.
From JrV Require Sem.Syntax Sem.Interp Sem.Mono.
From JrV Require Import C03.Model C03.Proofs.
Import ListNotations.

(** over every history of (nested, re-entrant) forces and whatever the closures do, no
    closure is started twice *)
Theorem C03_cell_at_most_once :
  forall fuel (b : bodies) n cs st' log',
    force_all fuel b cs (repeat Waiting n) [] = (st', log') -> NoDup log'.
Proof. exact at_most_once. Qed.
Print Assumptions C03_cell_at_most_once.

(** the log lists exactly the started cells; finished and running cells are untouched by any
    nested force; the log only grows *)
Theorem C03_force_invariant :
  forall fuel b c st log o st' log',
    Inv st log -> force fuel b c st log = (o, st', log') ->
    Inv st' log' /\ stable st st' /\ extends log log'.
Proof. exact force_inv. Qed.
Print Assumptions C03_force_invariant.

Theorem C03_finished_forever :
  forall fuel b c st log o st' log',
    Inv st log -> force fuel b c st log = (o, st', log') ->
    forall x s, nth_error st x = Some s -> finished s = true -> nth_error st' x = Some s.
Proof. exact finished_forever. Qed.
Print Assumptions C03_finished_forever.

Theorem C03_no_rerun :
  forall fuel b c st log,
    (exists s, nth_error st c = Some s /\ finished s = true) ->
    exists o, force (S fuel) b c st log = (o, st, log) /\ (o = OK \/ o = ERR).
Proof. exact forced_again_no_rerun. Qed.
Print Assumptions C03_no_rerun.

Theorem C03_reentrant_is_infinite_recursion :
  forall fuel b c st log,
    nth_error st c = Some Pending -> force (S fuel) b c st log = (INFREC, st, log).
Proof. exact reentrant_is_infrec. Qed.
Print Assumptions C03_reentrant_is_infinite_recursion.

(** the call-by-need SPEC for whole programs is Sem's trace log: which labelled sub-expressions run, and
    how often, is a function of the program alone (not of the fuel), whenever the program is judged *)
Theorem C03_sem_log_fuel_independent :
  forall n m e, n <= m ->
    fst (JrV.Sem.Interp.run n e) <> JrV.Sem.Interp.OErr JrV.Sem.Interp.KFuel ->
    snd (JrV.Sem.Interp.run m e) = snd (JrV.Sem.Interp.run n e).
Proof. intros n m e H1 H2. rewrite (JrV.Sem.Mono.run_fuel_independent n m e H1 H2). reflexivity. Qed.
Print Assumptions C03_sem_log_fuel_independent.
