(** C03, whole-interpreter part: non-vacuity examples for the theorems of PropertiesSem.v
    (the lemmas themselves live in Sem/Store.v and Sem/Needed.v). *)
From Coq Require Import List ZArith NArith Bool.
From JrV Require Import Sem.Syntax Sem.Interp Sem.Store Sem.Needed.
Import ListNotations.

(** local x = std.trace("L9", 1 + 2); [x, x] *)
Definition ex_prog : expr :=
  ELocal [(1%N, ETrace 9 (EBin BAdd (ENum 1) (ENum 2)))] (EArr [EVar 1%N; EVar 1%N]).

Definition ex_s1 : store := snd (eval 50 [] no_octx ex_prog empty_store).   (* array built, nothing forced *)
Definition ex_s2 : store := snd (force 50 1 ex_s1).                         (* element 0 forced: x runs *)
Definition ex_s3 : store := snd (force 50 2 ex_s2).                         (* element 1 forced: x is shared *)

Example ex_history : sem_reach empty_store ex_s1 /\ sem_reach ex_s1 ex_s2 /\ sem_reach ex_s2 ex_s3 /\
                     sem_reach ex_s1 ex_s3.
Proof.
  assert (H12 : sem_reach ex_s1 ex_s2) by (apply (sem_reach_one _ (force 50 1)), sf_force).
  assert (H23 : sem_reach ex_s2 ex_s3) by (apply (sem_reach_one _ (force 50 2)), sf_force).
  repeat split; auto.
  - apply (sem_reach_one _ (eval 50 [] no_octx ex_prog)), sf_eval.
  - destruct H12 as [|a b c Hc Hr]; [exact H23|].
    eapply sr_step; [exact Hc|]. clear Hc. induction Hr; [exact H23|]. eapply sr_step; eauto.
Qed.

(** the cells: x, element 0, element 1.  x goes Waiting -> Done 3 in the first force and is Done 3
    in the second; the label 9 is logged once; element 1 goes Waiting -> Done 3 without a new label *)
Example ex_states :
  map cell_rank (cells ex_s1) = [0; 0; 0] /\ log ex_s1 = [] /\
  nth_error (cells ex_s2) 0 = Some (CDone (VNum 3)) /\ map cell_rank (cells ex_s2) = [2; 2; 0] /\
  log ex_s2 = [9%N] /\
  nth_error (cells ex_s3) 0 = Some (CDone (VNum 3)) /\ map cell_rank (cells ex_s3) = [2; 2; 2] /\
  log ex_s3 = [9%N] /\
  force 50 1 ex_s1 = (Ok (VNum 3), ex_s2) /\ force 7 0 ex_s3 = (Ok (VNum 3), ex_s3).
Proof. vm_compute. repeat split; reflexivity. Qed.

(** local x = std.trace("L4", error ""); [x, x]: the failure is stored and answered again *)
Definition ex_fail_prog : expr :=
  ELocal [(1%N, ETrace 4 (EError (EStr [])))] (EArr [EVar 1%N; EVar 1%N]).
Definition ex_f1 : store := snd (eval 50 [] no_octx ex_fail_prog empty_store).
Definition ex_f2 : store := snd (force 50 1 ex_f1).
Definition ex_f3 : store := snd (force 50 2 ex_f2).

Example ex_fail_history : sem_reach ex_f2 ex_f3.
Proof. apply (sem_reach_one _ (force 50 2)), sf_force. Qed.

Example ex_fail_states :
  nth_error (cells ex_f2) 0 = Some (CFail KRuntime) /\ log ex_f2 = [4%N] /\
  nth_error (cells ex_f3) 0 = Some (CFail KRuntime) /\ log ex_f3 = [4%N] /\
  fst (force 50 1 ex_f1) = Err KRuntime /\ fst (force 50 2 ex_f2) = Err KRuntime /\
  force 3 0 ex_f3 = (Err KRuntime, ex_f3).
Proof. vm_compute. repeat split; reflexivity. Qed.

(** a store with a running cell: other work leaves it running, forcing it is infinite recursion *)
Definition ex_p1 : store := with_cells empty_store [CPend; CWait [] no_octx (ETrace 1 (ENum 1))].
Definition ex_p2 : store := snd (force 5 1 ex_p1).

Example ex_pending :
  sem_reach ex_p1 ex_p2 /\ nth_error (cells ex_p1) 0 = Some CPend /\
  cells ex_p2 = [CPend; CDone (VNum 1)] /\ log ex_p2 = [1%N] /\
  force 5 0 ex_p2 = (Err KInfRec, ex_p2).
Proof.
  split; [apply (sem_reach_one _ (force 5 1)), sf_force|]. vm_compute. repeat split; reflexivity.
Qed.

(** never-started thunks: see also [Sem.Needed.unused_local_example].  Here two stores that differ in
    an unstarted cell, a call that does not touch it, and a call that does (hypothesis fails) *)
Definition ex_n1 (e : expr) : store :=
  with_cells empty_store [CWait [] no_octx e; CWait [] no_octx (ETrace 2 (ENum 7))].

Example ex_needed :
  sim (eq 0) (ex_n1 (ETrace 5 (EError ENull))) (ex_n1 (ENum 0)) /\
  unstarted (eq 0) (snd (force 9 1 (ex_n1 (ETrace 5 (EError ENull))))) /\
  fst (force 9 1 (ex_n1 (ETrace 5 (EError ENull)))) = Ok (VNum 7) /\
  fst (force 9 1 (ex_n1 (ENum 0))) = Ok (VNum 7) /\
  log (snd (force 9 1 (ex_n1 (ENum 0)))) = [2%N] /\
  ~ unstarted (eq 0) (snd (force 9 0 (ex_n1 (ETrace 5 (EError ENull))))).
Proof.
  split.
  { constructor; try reflexivity. intros [|[|loc]]; [right|left; reflexivity|left; reflexivity].
    split; [reflexivity|]. do 2 eexists. repeat split; reflexivity. }
  split.
  { intros loc c <-. vm_compute. intro H; injection H as <-. reflexivity. }
  repeat split; try (vm_compute; reflexivity).
  intro H. specialize (H 0 (CFail KRuntime) eq_refl). vm_compute in H. specialize (H eq_refl). discriminate.
Qed.
