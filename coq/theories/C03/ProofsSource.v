From Coq Require Import List Arith Bool Lia.
From JrV Require Import C03.Model C03.Proofs Gen.GenMemo C03.ModelSource.
Import ListNotations.

(** a site whose two step functions are the model cell's *)
Definition site_ok (P : site) : Prop :=
  (forall s, s_enter P s = cell_enter s) /\ (forall s ok, s_leave P s ok = cell_leave s ok).

Lemma st_of_g_of s : st_of (g_of s) = s.
Proof. destruct s; reflexivity. Qed.

(** such a site, interpreted over the store, IS [Model.force] *)
Lemma site_force_is_force P : site_ok P ->
  forall fuel b c st log, site_force P fuel b c st log = force fuel b c st log.
Proof.
  intros [He Hl]. induction fuel as [|f IH]; intros b c st log; [reflexivity|].
  cbn [site_force force]. destruct (nth_error st c) as [s|]; [|reflexivity].
  rewrite He. destruct s; cbn [g_of cell_enter st_of]; try reflexivity.
  set (rs1 := fix rs (sc : list nat) (st : state) (log : list nat) : out * state * list nat :=
               match sc with
               | [] => (OK, st, log)
               | x :: t => match site_force P f b x st log with
                           | (OK, st', log') => rs t st' log'
                           | r => r
                           end
               end).
  set (rs2 := fix rs (s : list nat) (st : state) (log : list nat) : out * state * list nat :=
               match s with
               | [] => (OK, st, log)
               | x :: t => match force f b x st log with
                           | (OK, st', log') => rs t st' log'
                           | r => r
                           end
               end).
  assert (Hrs : forall sc st1 log1, rs1 sc st1 log1 = rs2 sc st1 log1).
  { induction sc as [|x t IHs]; intros st1 log1; [reflexivity|].
    cbn [rs1 rs2]. fold rs1. fold rs2. rewrite IH.
    destruct (force f b x st1 log1) as [[o sta] loga]. destruct o; auto. }
  rewrite Hrs. destruct (rs2 (fst (b c)) (set_nth st c Pending) (c :: log)) as [[o st2] log2].
  destruct o; try reflexivity; rewrite Hl; cbn [cell_leave ret_out st_of].
  - destruct (snd (b c)); reflexivity.
  - reflexivity.
  - reflexivity.
Qed.

Lemma site_call_is_force P : site_ok P ->
  forall g fuel b c st log,
    site_call P g fuel b c st log =
    if negb (s_gate P) || g then force fuel b c st log else (ERR, st, log).
Proof.
  intros H g fuel b c st log. unfold site_call. rewrite (site_force_is_force P H).
  destruct (s_gate P), g; reflexivity.
Qed.

Lemma site_call_all_is_force_all P : site_ok P ->
  forall fuel b cs st log,
    site_call_all P fuel b cs st log = force_all fuel b (passing P cs) st log.
Proof.
  intros H fuel b. induction cs as [|[c g] t IH]; intros st log; [reflexivity|].
  cbn [site_call_all]. rewrite (site_call_is_force P H). unfold passing. cbn [filter snd].
  destruct (negb (s_gate P) || g); cbn [map fst force_all].
  - destruct (force fuel b c st log) as [[o st1] log1]. apply IH.
  - apply IH.
Qed.

(** the three C03 theorems, for every site that is the model cell *)
Lemma site_at_most_once P : site_ok P ->
  forall fuel b n cs st' log',
    site_call_all P fuel b cs (repeat Waiting n) [] = (st', log') -> NoDup log'.
Proof.
  intros H fuel b n cs st' log' E. rewrite (site_call_all_is_force_all P H) in E.
  exact (at_most_once _ _ _ _ _ _ E).
Qed.

Lemma site_finished_forever P : site_ok P ->
  forall g fuel b c st log o st' log',
    Inv st log -> site_call P g fuel b c st log = (o, st', log') ->
    forall x s, nth_error st x = Some s -> finished s = true -> nth_error st' x = Some s.
Proof.
  intros H g fuel b c st log o st' log' HI E. rewrite (site_call_is_force P H) in E.
  destruct (negb (s_gate P) || g).
  - exact (finished_forever _ _ _ _ _ _ _ _ HI E).
  - injection E as <- <- <-. auto.
Qed.

Lemma site_no_rerun P : site_ok P ->
  forall fuel b c st log,
    (exists s, nth_error st c = Some s /\ finished s = true) ->
    exists o, site_call P true (S fuel) b c st log = (o, st, log) /\ (o = OK \/ o = ERR).
Proof.
  intros H fuel b c st log Hs. rewrite (site_call_is_force P H), orb_true_r.
  exact (forced_again_no_rerun _ _ _ _ _ Hs).
Qed.

Lemma site_reentrant P : site_ok P ->
  forall fuel b c st log,
    nth_error st c = Some Pending -> site_call P true (S fuel) b c st log = (INFREC, st, log).
Proof.
  intros H fuel b c st log Hs. rewrite (site_call_is_force P H), orb_true_r.
  exact (reentrant_is_infrec _ _ _ _ _ Hs).
Qed.

(** when the gate fails nothing is started and nothing changes *)
Lemma site_gate_failed P fuel b c st log :
  s_gate P = true -> site_call P false fuel b c st log = (ERR, st, log).
Proof. intros H. unfold site_call. rewrite H. reflexivity. Qed.

(** get_lazy: a handle made in store [st0] and forced in any later store [st] (every cell that was
    finished in [st0] is still what it was - which [force_inv]'s [stable] guarantees for every
    history in between) answers exactly like a call of get at that later moment *)
Lemma site_lazy_is_force P lazy : site_ok P -> (forall s, lazy s = cell_lazy s) ->
  forall fuel b c st0 st log,
    (forall s, nth_error st0 c = Some s -> finished s = true -> nth_error st c = Some s) ->
    (nth_error st0 c = None -> nth_error st c = None) ->
    site_lazy_force P lazy (S fuel) b c st0 st log = force (S fuel) b c st log.
Proof.
  intros H Hz fuel b c st0 st log Hst Hnone. unfold site_lazy_force.
  destruct (nth_error st0 c) as [s0|] eqn:E0.
  - rewrite Hz. destruct s0; cbn [g_of cell_lazy].
    + apply (site_force_is_force P H).
    + apply (site_force_is_force P H).
    + cbn [force]. rewrite (Hst Computed eq_refl eq_refl). reflexivity.
    + cbn [force]. rewrite (Hst Errored eq_refl eq_refl). reflexivity.
  - cbn [force]. rewrite (Hnone eq_refl). reflexivity.
Qed.

(** the four translated sites are the model cell: decided by computation over the finite
    domain of states and closure outcomes *)
Lemma site_ok_by_tables P :
  forallb (fun s => match s_enter P s, cell_enter s with
                    | (a, x), (a', x') =>
                        match a, a' with
                        | EValue, EValue | EStoredErr, EStoredErr | EInfRec, EInfRec | EProceed, EProceed => true
                        | _, _ => false
                        end &&
                        match x, x' with
                        | GWaiting, GWaiting | GPending, GPending | GComputed, GComputed | GErrored, GErrored => true
                        | _, _ => false
                        end
                    end) [GWaiting; GPending; GComputed; GErrored] = true ->
  forallb (fun sk : gstate * bool =>
             match s_leave P (fst sk) (snd sk), cell_leave (fst sk) (snd sk) with
             | (r, x), (r', x') =>
                 match r, r' with ROk, ROk | RErr, RErr => true | _, _ => false end &&
                 match x, x' with
                 | GWaiting, GWaiting | GPending, GPending | GComputed, GComputed | GErrored, GErrored => true
                 | _, _ => false
                 end
             end)
          (list_prod [GWaiting; GPending; GComputed; GErrored] [true; false]) = true ->
  site_ok P.
Proof.
  intros H1 H2. split.
  - intros s. rewrite forallb_forall in H1.
    assert (Hin : In s [GWaiting; GPending; GComputed; GErrored]) by (destruct s; cbn; auto).
    specialize (H1 s Hin). destruct (s_enter P s) as [a x], (cell_enter s) as [a' x'].
    apply andb_prop in H1. destruct H1 as [Ha Hx].
    destruct a, a'; try discriminate; destruct x, x'; try discriminate; reflexivity.
  - intros s ok. rewrite forallb_forall in H2.
    assert (Hin : In (s, ok) (list_prod [GWaiting; GPending; GComputed; GErrored] [true; false]))
      by (destruct s, ok; cbn; auto 10).
    specialize (H2 (s, ok) Hin). cbn [fst snd] in H2.
    destruct (s_leave P s ok) as [r x], (cell_leave s ok) as [r' x'].
    apply andb_prop in H2. destruct H2 as [Hr Hx].
    destruct r, r'; try discriminate; destruct x, x'; try discriminate; reflexivity.
Qed.

Lemma thunk_ok : site_ok site_thunk.
Proof. apply site_ok_by_tables; vm_compute; reflexivity. Qed.
Lemma exprarr_ok : site_ok site_exprarr.
Proof. apply site_ok_by_tables; vm_compute; reflexivity. Qed.
Lemma mapped_ok : site_ok site_mapped.
Proof. apply site_ok_by_tables; vm_compute; reflexivity. Qed.
Lemma obj_ok : site_ok site_obj.
Proof. apply site_ok_by_tables; vm_compute; reflexivity. Qed.

Lemma exprarr_lazy_ok : forall s, gen_exprarr_lazy s = cell_lazy s.
Proof. intros []; reflexivity. Qed.
Lemma mapped_lazy_ok : forall s, gen_mapped_lazy s = cell_lazy s.
Proof. intros []; reflexivity. Qed.

Lemma thunk_gate : s_gate site_thunk = false. Proof. reflexivity. Qed.
Lemma exprarr_gate : s_gate site_exprarr = false. Proof. reflexivity. Qed.
Lemma mapped_gate : s_gate site_mapped = false. Proof. reflexivity. Qed.
Lemma obj_gate : s_gate site_obj = true. Proof. reflexivity. Qed.

(** ungated sites: a call is [force], whatever [g] *)
Lemma ungated_call_is_force P : site_ok P -> s_gate P = false ->
  forall g fuel b c st log, site_call P g fuel b c st log = force fuel b c st log.
Proof. intros H Hg g fuel b c st log. rewrite (site_call_is_force P H), Hg. reflexivity. Qed.

Lemma gated_call_is_force P : site_ok P -> s_gate P = true ->
  forall g fuel b c st log,
    site_call P g fuel b c st log = if g then force fuel b c st log else (ERR, st, log).
Proof. intros H Hg g fuel b c st log. rewrite (site_call_is_force P H), Hg. reflexivity. Qed.

(** non-vacuity: the thunk site on the history of Proofs.cells_example *)
Example site_example :
  let b := fun c => match c with 0 => ([1; 2; 1], true) | 1 => ([2], true) | _ => ([], false) end in
  site_call_all site_thunk 10 b [(0, true); (1, true); (2, false); (0, true)] (repeat Waiting 3) []
  = ([Errored; Errored; Errored], [2; 1; 0]).
Proof. reflexivity. Qed.

Example site_obj_gate_example :
  let b := fun c => match c with 0 => ([1], true) | _ => ([], true) end in
  site_call_all site_obj 10 b [(0, false); (1, true); (0, true); (0, false)] (repeat Waiting 2) []
  = ([Computed; Computed], [0; 1]).
Proof. reflexivity. Qed.

Example site_lazy_example :
  let b := fun c => ([], true) in
  site_lazy_force site_exprarr gen_exprarr_lazy 3 b 0 [Waiting] [Computed] [0] = (OK, [Computed], [0])
  /\ site_lazy_force site_mapped gen_mapped_lazy 3 b 0 [Waiting] [Waiting] [] = (OK, [Computed], [0]).
Proof. split; reflexivity. Qed.
