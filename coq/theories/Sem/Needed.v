(** "Nothing unneeded runs", for the reference interpreter [Sem], at whole-interpreter level.

    Two stores that differ only in the CONTENTS of waiting cells at locations in a set [D]
    (the expression / environment of a thunk that has not been started) are indistinguishable
    for every function of the interpreter, as long as the run does not start one of these cells:
    if a call on the first store ends with every [D]-cell still waiting, the same call on the
    second store gives the same result (value or error class) and final stores that again
    differ only in those cells - in particular the same trace log.  So what an unforced thunk
    contains (trace labels, errors, divergence) has no influence whatsoever.

    Proved with the closure argument of [Sem.Store] ([all_good]), for the predicate
    "extends the store and does not depend on unstarted [D]-cells". *)
From Coq Require Import List ZArith NArith Bool Lia.
From JrV Require Import Sem.Syntax Sem.Interp Sem.Store.
Import ListNotations.

(** *** [force] on a waiting / non-waiting cell, in closed form *)

Definition cell_body (n : nat) (c : cell) : M value :=
  match c with
  | CWait ev oc x => eval n ev oc x
  | CFieldWait oid ls nm up => field_raw n oid ls nm up
  | _ => fail KType
  end.

Lemma force_wait n loc s c :
  nth_error (cells s) loc = Some c -> is_wait c = true ->
  force (S n) loc s =
  match cell_body n c (upd s loc CPend) with
  | (Ok v, s2) => (Ok v, upd s2 loc (CDone v))
  | (Err KFuel, s2) => (Err KFuel, s2)
  | (Err k, s2) => (Err k, upd s2 loc (CFail k))
  end.
Proof.
  intros H Hw. cbn [force]. unfold bind at 1. unfold get_cell. rewrite H.
  destruct c; try discriminate; cbn [cell_body]; unfold bind at 1; rewrite set_cell_upd.
  - destruct (eval n e oc x (upd s loc CPend)) as [[v|k] s2]; [reflexivity|]. destruct k; reflexivity.
  - destruct (field_raw n oid layers name upto (upd s loc CPend)) as [[v|k] s2]; [reflexivity|].
    destruct k; reflexivity.
Qed.

Lemma force_nonwait n loc s c :
  nth_error (cells s) loc = Some c -> is_wait c = false ->
  force (S n) loc s = (match c with CDone v => Ok v | CFail k => Err k | _ => Err KInfRec end, s).
Proof.
  intros H Hw. cbn [force]. unfold bind at 1. unfold get_cell. rewrite H.
  destruct c; try discriminate; reflexivity.
Qed.

Lemma force_nocell n loc s :
  nth_error (cells s) loc = None -> force (S n) loc s = (Err KType, s).
Proof. intros H. cbn [force]. unfold bind at 1. unfold get_cell. rewrite H. reflexivity. Qed.

Lemma cell_body_ext n c : ext_m (cell_body n c).
Proof.
  destruct (sem_ext_all n) as (He & _ & _ & _ & Hr & _). unfold ext_good in *.
  destruct c; cbn [cell_body]; auto using ext_m_fail.
Qed.

(** forcing a waiting cell leaves it started, whatever happens *)
Lemma force_starts n loc s c r s' :
  nth_error (cells s) loc = Some c -> is_wait c = true -> force (S n) loc s = (r, s') ->
  exists c', nth_error (cells s') loc = Some c' /\ is_wait c' = false.
Proof.
  intros H Hw Hf. rewrite (force_wait _ _ _ _ H Hw) in Hf.
  pose proof (cell_body_ext n c (upd s loc CPend)) as He.
  destruct (cell_body n c (upd s loc CPend)) as [[v|k] s2]; cbn [snd] in He.
  - injection Hf as <- <-. exists (CDone v). split; [|reflexivity].
    eapply upd_get. eapply ext_pend_stays; [exact He|]. eapply upd_get; eassumption.
  - assert (Hp : nth_error (cells s2) loc = Some CPend)
      by (eapply ext_pend_stays; [exact He|]; eapply upd_get; eassumption).
    destruct k; injection Hf as <- <-;
      first [ exists (CFail KRuntime); split; [eapply upd_get; eassumption|reflexivity]
            | exists (CFail KType); split; [eapply upd_get; eassumption|reflexivity]
            | exists (CFail KInfRec); split; [eapply upd_get; eassumption|reflexivity]
            | exists (CFail KUnsup); split; [eapply upd_get; eassumption|reflexivity]
            | exists CPend; split; [assumption|reflexivity] ].
Qed.

Section Needed.
  Variable D : nat -> Prop.

  (** stores that agree except for what waiting cells at locations in [D] contain *)
  Record sim (s1 s2 : store) : Prop := mkSim {
    sim_cells : forall loc,
        nth_error (cells s1) loc = nth_error (cells s2) loc \/
        (D loc /\ exists c1 c2, nth_error (cells s1) loc = Some c1 /\ nth_error (cells s2) loc = Some c2 /\
                                is_wait c1 = true /\ is_wait c2 = true);
    sim_len : length (cells s1) = length (cells s2);
    sim_fcache : fcache s1 = fcache s2;
    sim_lcache : lcache s1 = lcache s2;
    sim_asserted : asserted s1 = asserted s2;
    sim_oid : next_oid s1 = next_oid s2;
    sim_log : log s1 = log s2
  }.

  (** every existing cell at a location in [D] is (still) waiting *)
  Definition unstarted (s : store) : Prop :=
    forall loc c, D loc -> nth_error (cells s) loc = Some c -> is_wait c = true.

  Definition indep {A} (m : M A) : Prop :=
    forall s1 s2 r s1', sim s1 s2 -> m s1 = (r, s1') -> unstarted s1' ->
                        exists s2', m s2 = (r, s2') /\ sim s1' s2'.

  Definition needed_good : forall A : Type, M A -> Prop := fun A m => ext_m m /\ indep m.

  Lemma sim_refl s : sim s s.
  Proof. constructor; auto. Qed.

  Lemma unstarted_back s s' : ext s s' -> unstarted s' -> unstarted s.
  Proof.
    intros He Hu loc c HD Hc. destruct (ext_cells _ _ He _ _ Hc) as (c' & Hc' & [->|[Hw _]]); [|exact Hw].
    eapply Hu; eassumption.
  Qed.

  Lemma sim_same_cells s1 s2 s1' s2' :
    sim s1 s2 -> cells s1' = cells s1 -> cells s2' = cells s2 ->
    fcache s1' = fcache s2' -> lcache s1' = lcache s2' -> asserted s1' = asserted s2' ->
    next_oid s1' = next_oid s2' -> log s1' = log s2' -> sim s1' s2'.
  Proof.
    intros [C L _ _ _ _ _] H1 H2 ? ? ? ? ?. constructor; auto; rewrite H1, H2; assumption.
  Qed.

  Lemma sim_upd s1 s2 loc c : sim s1 s2 -> sim (upd s1 loc c) (upd s2 loc c).
  Proof.
    intros [C L F M A O G]. constructor; cbn; auto; [|rewrite !set_nth_length; exact L].
    intro x. rewrite !nth_set_nth. destruct (Nat.eqb_spec loc x) as [->|Hne]; [|apply C].
    left. destruct (C x) as [->|(_ & c1 & c2 & -> & -> & _)]; reflexivity.
  Qed.

  Lemma nth_error_snoc {A} (l : list A) (c : A) loc :
    nth_error (l ++ [c]) loc =
    if Nat.ltb loc (length l) then nth_error l loc
    else if Nat.eqb loc (length l) then Some c else None.
  Proof.
    destruct (Nat.ltb_spec loc (length l)) as [H|H].
    - apply nth_error_app1; exact H.
    - rewrite nth_error_app2 by exact H. destruct (Nat.eqb_spec loc (length l)) as [->|Hne].
      + rewrite Nat.sub_diag. reflexivity.
      + destruct (loc - length l) as [|[|k]] eqn:E; cbn; try reflexivity. lia.
  Qed.

  Lemma sim_alloc s1 s2 c : sim s1 s2 -> sim (snd (alloc c s1)) (snd (alloc c s2)).
  Proof.
    intros [C L F M A O G]. constructor; cbn; auto; [|rewrite !app_length, L; reflexivity].
    intro x. rewrite !nth_error_snoc, <- L.
    destruct (Nat.ltb x (length (cells s1))); [apply C|]. left; reflexivity.
  Qed.

  Lemma ng_ret A (a : A) : needed_good A (ret a).
  Proof.
    split; [apply ext_m_ret|]. intros s1 s2 r s1' Hs H Hu. injection H as <- <-. exists s2. auto.
  Qed.
  Lemma ng_fail A k : needed_good A (fail k).
  Proof.
    split; [apply ext_m_fail|]. intros s1 s2 r s1' Hs H Hu. injection H as <- <-. exists s2. auto.
  Qed.

  Lemma ng_bind A B (m : M A) (f : A -> M B) :
    needed_good A m -> (forall a, needed_good B (f a)) -> needed_good B (bind m f).
  Proof.
    intros [Em Im] Hf. split; [apply ext_m_bind; [exact Em|intro a; apply Hf]|].
    intros s1 s2 r s1' Hs H Hu. unfold bind in *.
    destruct (m s1) as [[a|k] s1m] eqn:E1.
    - destruct (Hf a) as [Ef If]. pose proof (Ef s1m) as Hext. rewrite H in Hext. cbn [snd] in Hext.
      destruct (Im _ _ _ _ Hs E1 (unstarted_back _ _ Hext Hu)) as (s2m & E2 & Hs2).
      rewrite E2. eapply If; eassumption.
    - injection H as <- <-. destruct (Im _ _ _ _ Hs E1 Hu) as (s2m & E2 & Hs2).
      rewrite E2. exists s2m. auto.
  Qed.

  Lemma ng_alloc c : needed_good _ (alloc c).
  Proof.
    split; [apply ext_m_alloc|]. intros s1 s2 r s1' Hs H Hu.
    pose proof (sim_alloc _ _ c Hs) as Hs'. unfold alloc in H. injection H as <- <-.
    exists (snd (alloc c s2)). split; [|exact Hs'].
    unfold alloc; cbn [snd]. rewrite (sim_len _ _ Hs). reflexivity.
  Qed.

  Ltac ng_field_update lem :=
    split; [apply lem|]; intros s1 s2 r s1' Hs H Hu; injection H as <- <-;
    eexists; split; [reflexivity|];
    destruct Hs as [C L F M A O G]; apply (sim_same_cells s1 s2);
    [constructor; assumption|reflexivity|reflexivity|cbn; rewrite ?F, ?M, ?A, ?O, ?G; reflexivity..].

  Lemma ng_fresh_oid : needed_good _ fresh_oid.
  Proof.
    split; [apply ext_m_fresh_oid|]; intros s1 s2 r s1' Hs H Hu; injection H as <- <-.
    rewrite (sim_oid _ _ Hs). eexists; split; [reflexivity|].
    destruct Hs as [C L F M A O G]; apply (sim_same_cells s1 s2);
      [constructor; assumption|reflexivity|reflexivity|cbn; rewrite ?F, ?M, ?A, ?O, ?G; reflexivity..].
  Qed.
  Lemma ng_log_label l : needed_good _ (log_label l).
  Proof. ng_field_update ext_m_log_label. Qed.
  Lemma ng_add_fcache oid nm up loc : needed_good _ (add_fcache oid nm up loc).
  Proof. ng_field_update ext_m_add_fcache. Qed.
  Lemma ng_add_lcache oid i e : needed_good _ (add_lcache oid i e).
  Proof. ng_field_update ext_m_add_lcache. Qed.
  Lemma ng_set_asserted oid st : needed_good _ (set_asserted oid st).
  Proof. ng_field_update ext_m_set_asserted. Qed.

  Lemma ng_get_store B (f : store -> M B)
        (k : nat -> list (nat * str * nat * nat) -> list (nat * nat * env) -> list (nat * bool) -> M B) :
    (forall s, f s = k (length (cells s)) (fcache s) (lcache s) (asserted s)) ->
    (forall a b c d, needed_good B (k a b c d)) -> needed_good B (bind get_store f).
  Proof.
    intros Hf Hk. split; [eapply ext_m_get_store; [exact Hf|intros; apply Hk]|].
    intros s1 s2 r s1' Hs H Hu. unfold bind, get_store in *. rewrite Hf in *.
    destruct Hs as [C L F M A O G]. rewrite <- L, <- F, <- M, <- A.
    eapply (proj2 (Hk _ _ _ _)); [constructor; eassumption|exact H|exact Hu].
  Qed.

  Lemma ng_catch_assert A (m : M A) oid :
    needed_good _ m ->
    needed_good _ (fun s0 => match m s0 with
                             | (Ok _, s') => (set_asserted oid None ;;; set_asserted oid (Some true)) s'
                             | (Err k, s') => (set_asserted oid None ;;; @fail unit k) s'
                             end).
  Proof.
    intros [Em Im]. split; [apply ext_m_catch_assert; exact Em|].
    intros s1 s2 r s1' Hs H Hu.
    destruct (m s1) as [[a|k] s1m] eqn:E1.
    - assert (Hu1 : unstarted s1m).
      { unfold bind, set_asserted in H. injection H as <- <-. exact Hu. }
      destruct (Im _ _ _ _ Hs E1 Hu1) as (s2m & E2 & Hs2). rewrite E2.
      eapply (proj2 (ng_bind _ _ (set_asserted oid None) (fun _ => set_asserted oid (Some true))
                             (ng_set_asserted _ _) (fun _ => ng_set_asserted _ _))); eassumption.
    - assert (Hu1 : unstarted s1m).
      { unfold bind, set_asserted, fail in H. injection H as <- <-. exact Hu. }
      destruct (Im _ _ _ _ Hs E1 Hu1) as (s2m & E2 & Hs2). rewrite E2.
      eapply (proj2 (ng_bind _ _ (set_asserted oid None) (fun _ => @fail unit k)
                             (ng_set_asserted _ _) (fun _ => ng_fail _ _))); eassumption.
  Qed.

  Lemma unstarted_upd_other s loc c : ~ D loc -> unstarted (upd s loc c) -> unstarted s.
  Proof.
    intros HD Hu x cx Hx Hc. apply (Hu x cx Hx). cbn. rewrite nth_set_nth.
    destruct (Nat.eqb_spec loc x) as [->|]; [contradiction|exact Hc].
  Qed.

  Lemma ng_force n loc :
    (forall ev oc x, needed_good _ (eval n ev oc x)) ->
    (forall oid ls nm up, needed_good _ (field_raw n oid ls nm up)) ->
    needed_good _ (force (S n) loc).
  Proof.
    intros He Hr. split; [apply ext_m_force; intros; [apply He|apply Hr]|].
    intros s1 s2 r s1' Hs H Hu.
    destruct (nth_error (cells s1) loc) as [c1|] eqn:E1.
    2:{ rewrite (force_nocell _ _ _ E1) in H. injection H as <- <-.
        destruct (sim_cells _ _ Hs loc) as [E|(_ & c1 & c2 & E & _)]; [|congruence].
        rewrite E1 in E. rewrite (force_nocell _ _ _ (eq_sym E)). exists s2. auto. }
    destruct (is_wait c1) eqn:Hw.
    - assert (HD : ~ D loc).
      { intro HD. destruct (force_starts _ _ _ _ _ _ E1 Hw H) as (c' & Hc' & Hw').
        rewrite (Hu _ _ HD Hc') in Hw'. discriminate. }
      assert (E2 : nth_error (cells s2) loc = Some c1).
      { destruct (sim_cells _ _ Hs loc) as [E|(HD' & _)]; [congruence|contradiction]. }
      rewrite (force_wait _ _ _ _ E1 Hw) in H. rewrite (force_wait _ _ _ _ E2 Hw).
      assert (Ib : indep (cell_body n c1)).
      { destruct c1; cbn [cell_body]; first [apply He|apply Hr|apply ng_fail]. }
      pose proof (sim_upd _ _ loc CPend Hs) as Hs1.
      destruct (cell_body n c1 (upd s1 loc CPend)) as [[v|k] s1b] eqn:Eb.
      + injection H as <- <-.
        destruct (Ib _ _ _ _ Hs1 Eb (unstarted_upd_other _ _ _ HD Hu)) as (s2b & Eb2 & Hs2).
        rewrite Eb2. eexists; split; [reflexivity|]. apply sim_upd; exact Hs2.
      + assert (Hu1 : unstarted s1b).
        { destruct k; injection H as <- <-; first [exact Hu|eapply unstarted_upd_other; eassumption]. }
        destruct (Ib _ _ _ _ Hs1 Eb Hu1) as (s2b & Eb2 & Hs2). rewrite Eb2.
        destruct k; injection H as <- <-; eexists; (split; [reflexivity|]);
          first [exact Hs2|apply sim_upd; exact Hs2].
    - rewrite (force_nonwait _ _ _ _ E1 Hw) in H. injection H as <- <-.
      assert (E2 : nth_error (cells s2) loc = Some c1).
      { destruct (sim_cells _ _ Hs loc) as [E|(_ & c1' & c2 & E & _ & Hw1 & _)]; [congruence|].
        rewrite E1 in E. injection E as <-. congruence. }
      rewrite (force_nonwait _ _ _ _ E2 Hw). exists s2. auto.
  Qed.

  Theorem needed_all : forall n, good_at needed_good n.
  Proof.
    apply all_good.
    - exact ng_ret.
    - exact ng_fail.
    - exact ng_bind.
    - exact ng_alloc.
    - exact ng_fresh_oid.
    - exact ng_log_label.
    - exact ng_add_fcache.
    - exact ng_add_lcache.
    - exact ng_set_asserted.
    - exact ng_get_store.
    - exact ng_force.
    - exact ng_catch_assert.
  Qed.

  Theorem manifest_needed : forall n v, needed_good _ (manifest n v).
  Proof.
    apply manifest_good.
    - exact ng_ret.
    - exact ng_fail.
    - exact ng_bind.
    - exact ng_alloc.
    - exact ng_fresh_oid.
    - exact ng_log_label.
    - exact ng_add_fcache.
    - exact ng_add_lcache.
    - exact ng_set_asserted.
    - exact ng_get_store.
    - exact ng_force.
    - exact ng_catch_assert.
  Qed.

  Theorem sem_fn_needed : forall A (m : M A), sem_fn A m -> needed_good A m.
  Proof.
    induction 1;
      try (destruct (needed_all n) as (He & Hf & Hc & Hg & Hr & Hm & Ha & Hl & Hb & Hq & Hcmp); auto; fail).
    - apply manifest_needed.
    - apply ng_ret.
    - apply ng_fail.
    - apply ng_bind; assumption.
  Qed.
End Needed.

(** *** consequences *)

(** the contents of thunks that are never started are irrelevant, for every function of the
    interpreter (and every sequential composition of them) *)
Theorem unforced_irrelevant :
  forall (D : nat -> Prop) A (m : M A), sem_fn A m ->
  forall s1 s2 r s1',
    sim D s1 s2 -> m s1 = (r, s1') -> unstarted D s1' ->
    exists s2', m s2 = (r, s2') /\ sim D s1' s2'.
Proof. intros D A m Hm. exact (proj2 (sem_fn_needed D A m Hm)). Qed.

Definition with_cells (s : store) (cs : list cell) : store :=
  mkStore cs (fcache s) (lcache s) (asserted s) (next_oid s) (log s).

Lemma eval_local1 n ev oc x e body s :
  eval (S n) ev oc (ELocal [(x, e)] body) s =
  eval n ((x, length (cells s)) :: ev) oc body
       (with_cells s (cells s ++ [CWait ((x, length (cells s)) :: ev) oc e])).
Proof. reflexivity. Qed.

Lemma sim_local1 s c1 c2 :
  is_wait c1 = true -> is_wait c2 = true ->
  sim (eq (length (cells s))) (with_cells s (cells s ++ [c1])) (with_cells s (cells s ++ [c2])).
Proof.
  intros H1 H2. constructor; cbn; auto; [|rewrite !app_length; reflexivity].
  intro loc. rewrite !nth_error_snoc. destruct (Nat.ltb loc (length (cells s))); [left; reflexivity|].
  destruct (Nat.eqb_spec loc (length (cells s))) as [->|]; [|left; reflexivity].
  right. split; [reflexivity|]. exists c1, c2. auto.
Qed.

(** a local whose thunk is still waiting when the evaluation ends never ran: whatever it is bound to
    (trace labels, [error], a diverging expression), result and log are the same *)
Theorem unused_local_never_runs :
  forall n ev oc x e e' body s r s',
    eval (S n) ev oc (ELocal [(x, e)] body) s = (r, s') ->
    (exists c, nth_error (cells s') (length (cells s)) = Some c /\ is_wait c = true) ->
    exists s2', eval (S n) ev oc (ELocal [(x, e')] body) s = (r, s2') /\ log s2' = log s' /\
                sim (eq (length (cells s))) s' s2'.
Proof.
  intros n ev oc x e e' body s r s' H (c & Hc & Hw). rewrite eval_local1 in *.
  destruct (unforced_irrelevant (eq (length (cells s))) _ _ (sf_eval n _ oc body) _ _ _ _
              (sim_local1 s (CWait ((x, length (cells s)) :: ev) oc e)
                            (CWait ((x, length (cells s)) :: ev) oc e') eq_refl eq_refl) H)
    as (s2' & H2 & Hs).
  - intros loc cx <- Hx. congruence.
  - exists s2'. split; [exact H2|]. split; [symmetry; apply (sim_log _ _ _ Hs)|exact Hs].
Qed.

(** the same for whole programs: [run]'s pipeline *)
Definition run_state (fuel : nat) (e : expr) : res jval * store :=
  (v <- eval fuel [] no_octx e ;; manifest fuel v) empty_store.

Lemma run_of_state fuel e :
  run fuel e = (match fst (run_state fuel e) with Ok j => OVal j | Err k => OErr k end,
                rev (log (snd (run_state fuel e)))).
Proof. unfold run, run_state. destruct ((v <- eval fuel [] no_octx e ;; manifest fuel v) empty_store) as [[j|k] s]; reflexivity. Qed.

Theorem unused_local_never_runs_program :
  forall fuel x e e' body,
    (exists c, nth_error (cells (snd (run_state fuel (ELocal [(x, e)] body)))) 0 = Some c /\ is_wait c = true) ->
    run fuel (ELocal [(x, e')] body) = run fuel (ELocal [(x, e)] body).
Proof.
  intros fuel x e e' body (c & Hc & Hw). rewrite !run_of_state.
  destruct fuel as [|n]; [reflexivity|].
  unfold run_state in *. unfold bind at 1 in Hc. unfold bind at 1 2. rewrite !eval_local1 in *.
  cbn [cells empty_store length app] in *.
  set (ev' := [(x, 0)]) in *.
  pose (m := (v <- eval n ev' no_octx body ;; manifest (S n) v)).
  assert (Hm : sem_fn _ m) by (apply sf_bind; [apply sf_eval|intro; apply sf_manifest]).
  pose proof (sim_local1 empty_store (CWait ev' no_octx e) (CWait ev' no_octx e') eq_refl eq_refl) as Hs.
  cbn [cells empty_store length app] in Hs.
  change (nth_error (cells (snd (m (with_cells empty_store [CWait ev' no_octx e])))) 0 = Some c) in Hc.
  change ((match fst (m (with_cells empty_store [CWait ev' no_octx e'])) with Ok j => OVal j | Err k => OErr k end,
           rev (log (snd (m (with_cells empty_store [CWait ev' no_octx e']))))) =
          (match fst (m (with_cells empty_store [CWait ev' no_octx e])) with Ok j => OVal j | Err k => OErr k end,
           rev (log (snd (m (with_cells empty_store [CWait ev' no_octx e])))))).
  destruct (m (with_cells empty_store [CWait ev' no_octx e])) as [r s1'] eqn:E1. cbn [fst snd] in *.
  destruct (unforced_irrelevant (eq 0) _ m Hm _ _ _ _ Hs E1) as (s2' & E2 & Hs').
  - intros loc cx <- Hx. congruence.
  - rewrite E2. cbn [fst snd]. rewrite (sim_log _ _ _ Hs'). reflexivity.
Qed.

(** non-vacuity: an unused local holding a trace label and an error; a used local next to it *)
Example unused_local_example :
  let p := ELocal [(1%N, ETrace 7 (EError (EStr [])))] (ELocal [(2%N, ETrace 3 (ENum 5))] (EArr [EVar 2%N; EVar 2%N])) in
  (exists c, nth_error (cells (snd (run_state 50 p))) 0 = Some c /\ is_wait c = true) /\
  run 50 p = (OVal (JArr [JNum 5; JNum 5]), [3%N]).
Proof. split; [eexists; split; vm_compute; reflexivity|vm_compute; reflexivity]. Qed.
