(** Store extension and the cell protocol of the reference interpreter [Sem].

    Every function of the interpreter ([eval], [force], [comp], [getfield], [field_raw],
    [member_env], [run_asserts], [assert_layer], [binop_val], [equals], [compare_val], [manifest])
    only EXTENDS the store: no cell disappears, a cell that is [CDone v] / [CFail k] / [CPend]
    before a call is exactly that after the call, a waiting cell either is untouched or has been
    started (it is then [CPend], [CDone _] or [CFail _], never waiting again), the trace log only
    grows at its head (the old log is a suffix of the new one; the log is stored most recent
    first), the field and object-local caches only grow, object ids are never reused.

    The proof is organised as a closure argument ([Section Closure]): a predicate [Good] on
    monadic computations that is closed under the interpreter's primitives, [bind], the two
    places that inspect an error ([force], [run_asserts]) holds of all twelve functions at every
    fuel.  It is instantiated here with "extends the store" and in [Sem.Needed] with "does not
    depend on the contents of cells that are never started". *)
From Coq Require Import List ZArith NArith Bool Lia.
From JrV Require Import Sem.Syntax Sem.Interp.
Import ListNotations.

(** *** the order on cells and stores *)

Definition is_wait (c : cell) : bool :=
  match c with CWait _ _ _ | CFieldWait _ _ _ _ => true | _ => false end.

(** what may have happened to one cell during a complete call of an interpreter function *)
Definition cell_le (c c' : cell) : Prop :=
  c' = c \/ (is_wait c = true /\ is_wait c' = false).

(** the protocol Waiting(0) -> Pending(1) -> Done/Failed(2) as a rank *)
Definition cell_rank (c : cell) : nat :=
  match c with
  | CWait _ _ _ | CFieldWait _ _ _ _ => 0
  | CPend => 1
  | CDone _ | CFail _ => 2
  end.

Definition suffix_of {A} (l l' : list A) : Prop := exists pre, l' = pre ++ l.

Record ext (s s' : store) : Prop := mkExt {
  ext_cells : forall loc c, nth_error (cells s) loc = Some c ->
                exists c', nth_error (cells s') loc = Some c' /\ cell_le c c';
  ext_log : suffix_of (log s) (log s');
  ext_fcache : suffix_of (fcache s) (fcache s');
  ext_lcache : suffix_of (lcache s) (lcache s');
  ext_oid : next_oid s <= next_oid s'
}.

Lemma cell_le_refl c : cell_le c c.
Proof. left; reflexivity. Qed.

Lemma cell_le_trans a b c : cell_le a b -> cell_le b c -> cell_le a c.
Proof.
  intros [->|[H1 H2]] [->|[H3 H4]]; unfold cell_le; auto.
Qed.

Lemma cell_le_rank c c' : cell_le c c' -> cell_rank c <= cell_rank c' /\ (cell_rank c = cell_rank c' -> c' = c).
Proof.
  intros [->|[H1 H2]]; [split; auto|].
  destruct c; try discriminate; destruct c'; try discriminate; cbn; split; auto; lia.
Qed.

Lemma suffix_refl {A} (l : list A) : suffix_of l l.
Proof. exists []; reflexivity. Qed.
Lemma suffix_trans {A} (a b c : list A) : suffix_of a b -> suffix_of b c -> suffix_of a c.
Proof. intros [p ->] [q ->]. exists (q ++ p). rewrite app_assoc. reflexivity. Qed.
Lemma suffix_cons {A} (x : A) l : suffix_of l (x :: l).
Proof. exists [x]; reflexivity. Qed.

Lemma ext_refl s : ext s s.
Proof.
  constructor; auto using suffix_refl. intros loc c H. exists c. split; [exact H|apply cell_le_refl].
Qed.

Lemma ext_trans a b c : ext a b -> ext b c -> ext a c.
Proof.
  intros [C1 L1 F1 M1 O1] [C2 L2 F2 M2 O2]. constructor; eauto using suffix_trans; [|lia].
  intros loc x H. destruct (C1 _ _ H) as (y & Hy & Hxy). destruct (C2 _ _ Hy) as (z & Hz & Hyz).
  exists z. split; [exact Hz|]. eapply cell_le_trans; eassumption.
Qed.

Lemma ext_same_cells s s' :
  cells s' = cells s -> suffix_of (log s) (log s') -> suffix_of (fcache s) (fcache s') ->
  suffix_of (lcache s) (lcache s') -> next_oid s <= next_oid s' -> ext s s'.
Proof.
  intros Hc Hl Hf Hm Ho. constructor; auto. rewrite Hc. intros loc c H. exists c.
  split; [exact H|apply cell_le_refl].
Qed.

Lemma ext_length s s' : ext s s' -> length (cells s) <= length (cells s').
Proof.
  intros [C _ _ _ _]. destruct (Nat.le_gt_cases (length (cells s)) (length (cells s'))) as [H|H]; [exact H|].
  exfalso. destruct (nth_error (cells s) (length (cells s'))) as [c|] eqn:E.
  - destruct (C _ _ E) as (c' & Hc' & _).
    assert (Hn : nth_error (cells s') (length (cells s')) = None) by (apply nth_error_None; lia).
    congruence.
  - apply nth_error_None in E. lia.
Qed.

(** *** store updates *)

Definition upd (s : store) (loc : nat) (c : cell) : store :=
  mkStore (set_nth (cells s) loc c) (fcache s) (lcache s) (asserted s) (next_oid s) (log s).

Lemma set_cell_upd loc c s : set_cell loc c s = (Ok tt, upd s loc c).
Proof. reflexivity. Qed.

Lemma set_nth_length {A} (l : list A) i x : length (set_nth l i x) = length l.
Proof. revert i; induction l as [|h t IH]; intros [|i]; cbn; auto. Qed.

Lemma nth_set_nth {A} (l : list A) : forall i j x,
  nth_error (set_nth l i x) j =
  if Nat.eqb i j then (match nth_error l j with Some _ => Some x | None => None end)
  else nth_error l j.
Proof.
  induction l as [|h t IH]; intros i j x.
  - cbn. destruct j; destruct (Nat.eqb i _); reflexivity.
  - destruct i as [|i], j as [|j]; cbn [set_nth nth_error Nat.eqb]; try reflexivity. apply IH.
Qed.

(** starting a waiting cell is an extension *)
Lemma ext_start s loc c :
  nth_error (cells s) loc = Some c -> is_wait c = true -> ext s (upd s loc CPend).
Proof.
  intros Hc Hw. constructor; cbn; auto using suffix_refl.
  intros x cx Hx. rewrite nth_set_nth. destruct (Nat.eqb_spec loc x) as [->|Hne].
  - rewrite Hx. exists CPend. split; [reflexivity|]. right. split; [congruence|reflexivity].
  - exists cx. split; [exact Hx|apply cell_le_refl].
Qed.

(** ... and so is the whole bracket "start, run something that extends the store, finish" *)
Lemma ext_finish s loc c s2 cf :
  nth_error (cells s) loc = Some c -> is_wait c = true -> is_wait cf = false ->
  ext (upd s loc CPend) s2 -> ext s (upd s2 loc cf).
Proof.
  intros Hc Hw Hf [C L F M O]. cbn in *. constructor; cbn; auto.
  intros x cx Hx. rewrite nth_set_nth. destruct (Nat.eqb_spec loc x) as [->|Hne].
  - destruct (C x CPend) as (c' & Hc' & _).
    { rewrite nth_set_nth, Nat.eqb_refl, Hx. reflexivity. }
    rewrite Hc'. exists cf. split; [reflexivity|]. right. split; [congruence|exact Hf].
  - destruct (C x cx) as (c' & Hc' & Hle).
    { rewrite nth_set_nth. destruct (Nat.eqb_spec loc x); [contradiction|exact Hx]. }
    exists c'. split; assumption.
Qed.

(** a cell that was pending before a call is pending after it *)
Lemma ext_pend_stays s s' loc :
  ext s s' -> nth_error (cells s) loc = Some CPend -> nth_error (cells s') loc = Some CPend.
Proof.
  intros [C _ _ _ _] H. destruct (C _ _ H) as (c' & Hc' & [->|[Hw _]]); [exact Hc'|discriminate].
Qed.

(** *** closure argument *)

Section Closure.
  Variable Good : forall A : Type, M A -> Prop.

  Hypothesis G_ret : forall A (a : A), Good A (ret a).
  Hypothesis G_fail : forall A k, Good A (fail k).
  Hypothesis G_bind : forall A B (m : M A) (f : A -> M B),
      Good A m -> (forall a, Good B (f a)) -> Good B (bind m f).
  Hypothesis G_alloc : forall c, Good _ (alloc c).
  Hypothesis G_fresh_oid : Good _ fresh_oid.
  Hypothesis G_log_label : forall l, Good _ (log_label l).
  Hypothesis G_add_fcache : forall oid nm up loc, Good _ (add_fcache oid nm up loc).
  Hypothesis G_add_lcache : forall oid i e, Good _ (add_lcache oid i e).
  Hypothesis G_set_asserted : forall oid st, Good _ (set_asserted oid st).
  (** the interpreter reads the store as a whole only to look at the number of cells, the two
      caches and the assertion states *)
  Hypothesis G_get_store : forall B (f : store -> M B)
      (k : nat -> list (nat * str * nat * nat) -> list (nat * nat * env) -> list (nat * bool) -> M B),
      (forall s, f s = k (length (cells s)) (fcache s) (lcache s) (asserted s)) ->
      (forall a b c d, Good B (k a b c d)) -> Good B (bind get_store f).
  Hypothesis G_force : forall n loc,
      (forall ev oc x, Good _ (eval n ev oc x)) ->
      (forall oid ls nm up, Good _ (field_raw n oid ls nm up)) ->
      Good _ (force (S n) loc).
  Hypothesis G_catch_assert : forall A (m : M A) oid,
      Good _ m ->
      Good _ (fun s0 => match m s0 with
                        | (Ok _, s') => (set_asserted oid None ;;; set_asserted oid (Some true)) s'
                        | (Err k, s') => (set_asserted oid None ;;; @fail unit k) s'
                        end).

  Lemma G_mapM A B (f : A -> M B) l : (forall a, Good _ (f a)) -> Good _ (mapM f l).
  Proof.
    intro H. induction l as [|x t IH]; cbn [mapM]; [apply G_ret|].
    apply G_bind; [apply H|]. intro y. apply G_bind; [apply IH|]. intro r. apply G_ret.
  Qed.

  Lemma G_alloc_many cs : Good _ (alloc_many cs).
  Proof.
    induction cs as [|c t IH]; cbn [alloc_many]; [apply G_ret|].
    apply G_bind; [apply G_alloc|]. intro l. apply G_bind; [apply IH|]. intro r. apply G_ret.
  Qed.

  Lemma G_retnum z : Good _ (retnum z).
  Proof. unfold retnum, num. destruct (Z.abs z <=? two53)%Z; [apply G_ret|apply G_fail]. Qed.

  Definition good_at (n : nat) : Prop :=
    (forall ev oc e, Good _ (eval n ev oc e)) /\
    (forall loc, Good _ (force n loc)) /\
    (forall ev oc sp, Good _ (comp n ev oc sp)) /\
    (forall oid ls nm up, Good _ (getfield n oid ls nm up)) /\
    (forall oid ls nm up, Good _ (field_raw n oid ls nm up)) /\
    (forall oid ls i, Good _ (member_env n oid ls i)) /\
    (forall oid ls, Good _ (run_asserts n oid ls)) /\
    (forall oid ls i, Good _ (assert_layer n oid ls i)) /\
    (forall o a b, Good _ (binop_val n o a b)) /\
    (forall a b, Good _ (equals n a b)) /\
    (forall a b, Good _ (compare_val n a b)).

  Ltac get_store_step :=
    match goal with
    | |- Good _ (bind get_store _) =>
        eapply G_get_store;
        [ let s := fresh "s" in
          intro s; cbv beta;
          match goal with
          | |- ?lhs = ?k _ _ _ _ =>
              let t := eval pattern (length (cells s)), (fcache s), (lcache s), (asserted s) in lhs in
              match t with ?f _ _ _ _ => unify k f end
          end; reflexivity
        | intros; cbv beta ]
    end.

  Ltac good_step He Hf Hc Hg Hr Hm Ha Hl Hb Hq Hcmp :=
    first
      [ apply G_ret | apply G_fail | apply G_retnum | apply G_alloc | apply G_alloc_many
      | apply G_fresh_oid | apply G_log_label | apply G_add_fcache | apply G_add_lcache
      | apply G_set_asserted
      | apply He | apply Hf | apply Hc | apply Hg | apply Hr | apply Hm | apply Ha | apply Hl
      | apply Hb | apply Hq | apply Hcmp
      | match goal with H : Good _ _ |- Good _ _ => exact H end
      | match goal with H : forall x, Good _ _ |- Good _ _ => apply H end
      | get_store_step
      | apply G_bind; [| intro]
      | apply G_mapM; intro
      | apply G_catch_assert
      | match goal with |- Good _ (match ?x with _ => _ end) => destruct x end ].

  Theorem all_good : forall n, good_at n.
  Proof.
    induction n as [|n IH].
    - repeat split; intros; cbn; apply G_fail.
    - destruct IH as (He & Hf & Hc & Hg & Hr & Hm & Ha & Hl & Hb & Hq & Hcmp).
      repeat split.
      + intros ev oc e; destruct e; simpl; repeat good_step He Hf Hc Hg Hr Hm Ha Hl Hb Hq Hcmp.
      + intros; apply G_force; assumption.
      + intros ev oc sp; destruct sp as [|[]]; simpl; repeat good_step He Hf Hc Hg Hr Hm Ha Hl Hb Hq Hcmp.
      + intros; simpl; repeat good_step He Hf Hc Hg Hr Hm Ha Hl Hb Hq Hcmp.
      + intros; simpl; repeat good_step He Hf Hc Hg Hr Hm Ha Hl Hb Hq Hcmp.
      + intros; simpl; repeat good_step He Hf Hc Hg Hr Hm Ha Hl Hb Hq Hcmp.
      + intros; simpl; repeat good_step He Hf Hc Hg Hr Hm Ha Hl Hb Hq Hcmp.
      + intros; simpl; repeat good_step He Hf Hc Hg Hr Hm Ha Hl Hb Hq Hcmp.
      + intros; simpl; repeat good_step He Hf Hc Hg Hr Hm Ha Hl Hb Hq Hcmp.
      + intros a b; destruct a, b; simpl; repeat good_step He Hf Hc Hg Hr Hm Ha Hl Hb Hq Hcmp.
        * generalize (combine cells cells0). intro l.
          induction l as [|[p q] t IHgo]; simpl; repeat good_step He Hf Hc Hg Hr Hm Ha Hl Hb Hq Hcmp.
        * generalize (visible_names layers). intro l.
          induction l as [|nm t IHgo]; simpl; repeat good_step He Hf Hc Hg Hr Hm Ha Hl Hb Hq Hcmp.
      + intros a b; destruct a, b; simpl; repeat good_step He Hf Hc Hg Hr Hm Ha Hl Hb Hq Hcmp.
        revert cells0. induction cells as [|p t IHgo]; intros [|q t2]; simpl;
          repeat good_step He Hf Hc Hg Hr Hm Ha Hl Hb Hq Hcmp.
  Qed.

  Theorem manifest_good : forall n v, Good _ (manifest n v).
  Proof.
    induction n as [|n IH]; intro v.
    - cbn; apply G_fail.
    - destruct (all_good n) as (He & Hf & Hc & Hg & Hr & Hm & Ha & Hl & Hb & Hq & Hcmp).
      destruct v; simpl; repeat good_step He Hf Hc Hg Hr Hm Ha Hl Hb Hq Hcmp.
  Qed.
End Closure.

(** *** instance 1: every function only extends the store *)

Definition ext_m {A} (m : M A) : Prop := forall s, ext s (snd (m s)).

Lemma ext_m_ret A (a : A) : ext_m (ret a).
Proof. intro s; apply ext_refl. Qed.
Lemma ext_m_fail A k : ext_m (@fail A k).
Proof. intro s; apply ext_refl. Qed.
Lemma ext_m_bind A B (m : M A) (f : A -> M B) :
  ext_m m -> (forall a, ext_m (f a)) -> ext_m (bind m f).
Proof.
  intros Hm Hf s. unfold bind. specialize (Hm s). destruct (m s) as [[a|k] s1]; cbn in *; [|exact Hm].
  eapply ext_trans; [exact Hm|apply Hf].
Qed.
Lemma ext_m_alloc c : ext_m (alloc c).
Proof.
  intro s. constructor; cbn; auto using suffix_refl.
  intros loc x H. exists x. split; [|apply cell_le_refl].
  rewrite nth_error_app1; [exact H|]. apply nth_error_Some. congruence.
Qed.
Lemma ext_m_fresh_oid : ext_m fresh_oid.
Proof. intro s. apply ext_same_cells; cbn; auto using suffix_refl. Qed.
Lemma ext_m_log_label l : ext_m (log_label l).
Proof. intro s. apply ext_same_cells; cbn; auto using suffix_refl, suffix_cons. Qed.
Lemma ext_m_add_fcache oid nm up loc : ext_m (add_fcache oid nm up loc).
Proof. intro s. apply ext_same_cells; cbn; auto using suffix_refl, suffix_cons. Qed.
Lemma ext_m_add_lcache oid i e : ext_m (add_lcache oid i e).
Proof. intro s. apply ext_same_cells; cbn; auto using suffix_refl, suffix_cons. Qed.
Lemma ext_m_set_asserted oid st : ext_m (set_asserted oid st).
Proof. intro s. apply ext_same_cells; cbn; auto using suffix_refl. Qed.
Lemma ext_m_get_store B (f : store -> M B)
      (k : nat -> list (nat * str * nat * nat) -> list (nat * nat * env) -> list (nat * bool) -> M B) :
  (forall s, f s = k (length (cells s)) (fcache s) (lcache s) (asserted s)) ->
  (forall a b c d, ext_m (k a b c d)) -> ext_m (bind get_store f).
Proof. intros Hf Hk s. unfold bind, get_store. rewrite Hf. apply Hk. Qed.

Lemma ext_m_force n loc :
  (forall ev oc x, ext_m (eval n ev oc x)) ->
  (forall oid ls nm up, ext_m (field_raw n oid ls nm up)) ->
  ext_m (force (S n) loc).
Proof.
  intros He Hr s. cbn [force]. unfold bind at 1. unfold get_cell.
  destruct (nth_error (cells s) loc) as [c|] eqn:E; [|apply ext_refl].
  destruct c; try apply ext_refl.
  - unfold bind at 1. rewrite set_cell_upd.
    specialize (He e oc x (upd s loc CPend)).
    destruct (eval n e oc x (upd s loc CPend)) as [[v|k] s2]; cbn [snd] in He.
    + unfold bind, ret. rewrite set_cell_upd. cbn [snd]. eapply ext_finish; eauto.
    + assert (Hfin : ext s (upd s2 loc (CFail k))) by (eapply ext_finish; eauto).
      assert (Hfuel : ext s s2) by (eapply ext_trans; [eapply ext_start; eauto|exact He]).
      destruct k; unfold bind, fail; rewrite ?set_cell_upd; cbn [snd]; assumption.
  - unfold bind at 1. rewrite set_cell_upd.
    specialize (Hr oid layers name upto (upd s loc CPend)).
    destruct (field_raw n oid layers name upto (upd s loc CPend)) as [[v|k] s2]; cbn [snd] in Hr.
    + unfold bind, ret. rewrite set_cell_upd. cbn [snd]. eapply ext_finish; eauto.
    + assert (Hfin : ext s (upd s2 loc (CFail k))) by (eapply ext_finish; eauto).
      assert (Hfuel : ext s s2) by (eapply ext_trans; [eapply ext_start; eauto|exact Hr]).
      destruct k; unfold bind, fail; rewrite ?set_cell_upd; cbn [snd]; assumption.
Qed.

Lemma ext_m_catch_assert A (m : M A) oid :
  ext_m m ->
  ext_m (fun s0 => match m s0 with
                   | (Ok _, s') => (set_asserted oid None ;;; set_asserted oid (Some true)) s'
                   | (Err k, s') => (set_asserted oid None ;;; @fail unit k) s'
                   end).
Proof.
  intros Hm s. specialize (Hm s). destruct (m s) as [[a|k] s1]; cbn [snd] in Hm.
  - eapply ext_trans; [exact Hm|].
    apply (ext_m_bind _ _ (set_asserted oid None) (fun _ => set_asserted oid (Some true)));
      [apply ext_m_set_asserted|intro; apply ext_m_set_asserted].
  - eapply ext_trans; [exact Hm|].
    apply (ext_m_bind _ _ (set_asserted oid None) (fun _ => @fail unit k));
      [apply ext_m_set_asserted|intro; apply ext_m_fail].
Qed.

Definition ext_good : forall A : Type, M A -> Prop := fun A m => ext_m m.

Theorem sem_ext_all : forall n, good_at ext_good n.
Proof.
  apply all_good; unfold ext_good.
  - exact ext_m_ret.
  - exact ext_m_fail.
  - exact ext_m_bind.
  - exact ext_m_alloc.
  - exact ext_m_fresh_oid.
  - exact ext_m_log_label.
  - exact ext_m_add_fcache.
  - exact ext_m_add_lcache.
  - exact ext_m_set_asserted.
  - exact ext_m_get_store.
  - exact ext_m_force.
  - exact ext_m_catch_assert.
Qed.

Theorem manifest_ext : forall n v, ext_m (manifest n v).
Proof.
  apply (manifest_good ext_good); unfold ext_good.
  - exact ext_m_ret.
  - exact ext_m_fail.
  - exact ext_m_bind.
  - exact ext_m_alloc.
  - exact ext_m_fresh_oid.
  - exact ext_m_log_label.
  - exact ext_m_add_fcache.
  - exact ext_m_add_lcache.
  - exact ext_m_set_asserted.
  - exact ext_m_get_store.
  - exact ext_m_force.
  - exact ext_m_catch_assert.
Qed.

(** *** "every function of the interpreter", and histories of calls *)

(** the twelve functions at any fuel and arguments, and sequential compositions of them (so that
    the pipeline of [run], [v <- eval .. ;; manifest .. v], is covered) *)
Inductive sem_fn : forall A : Type, M A -> Prop :=
| sf_eval n ev oc e : sem_fn _ (eval n ev oc e)
| sf_force n loc : sem_fn _ (force n loc)
| sf_comp n ev oc sp : sem_fn _ (comp n ev oc sp)
| sf_getfield n oid ls nm up : sem_fn _ (getfield n oid ls nm up)
| sf_field_raw n oid ls nm up : sem_fn _ (field_raw n oid ls nm up)
| sf_member_env n oid ls i : sem_fn _ (member_env n oid ls i)
| sf_run_asserts n oid ls : sem_fn _ (run_asserts n oid ls)
| sf_assert_layer n oid ls i : sem_fn _ (assert_layer n oid ls i)
| sf_binop_val n o a b : sem_fn _ (binop_val n o a b)
| sf_equals n a b : sem_fn _ (equals n a b)
| sf_compare_val n a b : sem_fn _ (compare_val n a b)
| sf_manifest n v : sem_fn _ (manifest n v)
| sf_ret A (a : A) : sem_fn _ (ret a)
| sf_fail A k : sem_fn A (fail k)
| sf_bind A B (m : M A) (f : A -> M B) :
    sem_fn A m -> (forall a, sem_fn B (f a)) -> sem_fn B (bind m f).

(** one call: the store after running some interpreter function on [s] *)
Definition sem_call (s s' : store) : Prop :=
  exists (A : Type) (m : M A), sem_fn A m /\ s' = snd (m s).

(** any history of calls *)
Inductive sem_reach : store -> store -> Prop :=
| sr_refl s : sem_reach s s
| sr_step s s' s'' : sem_call s s' -> sem_reach s' s'' -> sem_reach s s''.

Theorem sem_fn_ext : forall A (m : M A), sem_fn A m -> ext_m m.
Proof.
  induction 1;
    try (destruct (sem_ext_all n) as (He & Hf & Hc & Hg & Hr & Hm & Ha & Hl & Hb & Hq & Hcmp);
         unfold ext_good in *; auto; fail).
  - apply manifest_ext.
  - apply ext_m_ret.
  - apply ext_m_fail.
  - apply ext_m_bind; assumption.
Qed.

Theorem sem_reach_ext : forall s s', sem_reach s s' -> ext s s'.
Proof.
  induction 1 as [s|s s' s'' (A & m & Hm & ->) _ IH]; [apply ext_refl|].
  eapply ext_trans; [apply (sem_fn_ext _ _ Hm)|exact IH].
Qed.

Lemma sem_reach_one A (m : M A) s : sem_fn A m -> sem_reach s (snd (m s)).
Proof. intro H. eapply sr_step; [exists A, m; split; [exact H|reflexivity]|apply sr_refl]. Qed.

(** *** consequences *)

Lemma done_forever s s' loc v :
  sem_reach s s' -> nth_error (cells s) loc = Some (CDone v) -> nth_error (cells s') loc = Some (CDone v).
Proof.
  intros H Hc. destruct (ext_cells _ _ (sem_reach_ext _ _ H) _ _ Hc) as (c' & Hc' & [->|[Hw _]]);
    [exact Hc'|discriminate].
Qed.

Lemma failed_forever s s' loc k :
  sem_reach s s' -> nth_error (cells s) loc = Some (CFail k) -> nth_error (cells s') loc = Some (CFail k).
Proof.
  intros H Hc. destruct (ext_cells _ _ (sem_reach_ext _ _ H) _ _ Hc) as (c' & Hc' & [->|[Hw _]]);
    [exact Hc'|discriminate].
Qed.

Lemma pending_untouched s s' loc :
  sem_reach s s' -> nth_error (cells s) loc = Some CPend -> nth_error (cells s') loc = Some CPend.
Proof. intros H. apply ext_pend_stays. apply sem_reach_ext; exact H. Qed.

Lemma cells_never_decrease s s' : sem_reach s s' -> length (cells s) <= length (cells s').
Proof. intro H. apply ext_length, sem_reach_ext, H. Qed.

Lemma log_append_only s s' : sem_reach s s' -> exists newer, log s' = newer ++ log s.
Proof. intro H. exact (ext_log _ _ (sem_reach_ext _ _ H)). Qed.

Lemma caches_grow s s' :
  sem_reach s s' ->
  (exists newer, fcache s' = newer ++ fcache s) /\ (exists newer, lcache s' = newer ++ lcache s) /\
  next_oid s <= next_oid s'.
Proof. intro H. destruct (sem_reach_ext _ _ H) as [_ _ F M O]. auto. Qed.

Lemma cell_protocol s s' loc c :
  sem_reach s s' -> nth_error (cells s) loc = Some c ->
  exists c', nth_error (cells s') loc = Some c' /\ cell_le c c' /\
             cell_rank c <= cell_rank c' /\ (cell_rank c = cell_rank c' -> c' = c).
Proof.
  intros H Hc. destruct (ext_cells _ _ (sem_reach_ext _ _ H) _ _ Hc) as (c' & Hc' & Hle).
  exists c'. destruct (cell_le_rank _ _ Hle). auto.
Qed.

Lemma force_done_is_pure n loc v s :
  nth_error (cells s) loc = Some (CDone v) -> force (S n) loc s = (Ok v, s).
Proof. intro H. cbn [force]. unfold bind, get_cell. rewrite H. reflexivity. Qed.

Lemma force_failed_is_pure n loc k s :
  nth_error (cells s) loc = Some (CFail k) -> force (S n) loc s = (Err k, s).
Proof. intro H. cbn [force]. unfold bind, get_cell. rewrite H. reflexivity. Qed.

Lemma shared_never_reruns s s' loc v n :
  sem_reach s s' -> nth_error (cells s) loc = Some (CDone v) -> force (S n) loc s' = (Ok v, s').
Proof. intros H Hc. apply force_done_is_pure. eapply done_forever; eassumption. Qed.

(** Pending -> Done / Failed: what a force that ran to completion leaves in the cell *)
Definition force_post (loc : nat) (s : store) (r : res value) (s' : store) : Prop :=
  match r with
  | Ok v => nth_error (cells s') loc = Some (CDone v)
  | Err KFuel => True
  | Err k => nth_error (cells s') loc = Some (CFail k) \/
             (k = KInfRec /\ nth_error (cells s) loc = Some CPend /\ s' = s) \/
             (k = KType /\ nth_error (cells s) loc = None /\ s' = s)
  end.

Lemma upd_get s loc c x : nth_error (cells s) loc = Some x -> nth_error (cells (upd s loc c)) loc = Some c.
Proof. intro H. cbn. rewrite nth_set_nth, Nat.eqb_refl, H. reflexivity. Qed.

Lemma force_stores_result n loc s r s' : force n loc s = (r, s') -> force_post loc s r s'.
Proof.
  intro H. destruct n as [|n]; [cbn in H; injection H as <- <-; exact I|].
  destruct (sem_ext_all n) as (He & _ & _ & _ & Hr & _). unfold ext_good in *.
  cbn [force] in H. unfold bind at 1 in H. unfold get_cell in H.
  destruct (nth_error (cells s) loc) as [c|] eqn:E;
    [|injection H as <- <-; cbn; auto].
  destruct c.
  - unfold bind at 1 in H. rewrite set_cell_upd in H.
    specialize (He e oc x (upd s loc CPend)).
    destruct (eval n e oc x (upd s loc CPend)) as [[v|k] s2]; cbn [snd] in He.
    + unfold bind, ret in H. rewrite set_cell_upd in H. injection H as <- <-. cbn [force_post].
      eapply upd_get. eapply ext_pend_stays; [exact He|]. eapply upd_get; eassumption.
    + assert (Hs2 : nth_error (cells (upd s2 loc (CFail k))) loc = Some (CFail k)).
      { eapply upd_get. eapply ext_pend_stays; [exact He|]. eapply upd_get; eassumption. }
      destruct k; unfold bind, fail in H; rewrite ?set_cell_upd in H; injection H as <- <-;
        cbn [force_post]; auto.
  - unfold bind at 1 in H. rewrite set_cell_upd in H.
    specialize (Hr oid layers name upto (upd s loc CPend)).
    destruct (field_raw n oid layers name upto (upd s loc CPend)) as [[v|k] s2]; cbn [snd] in Hr.
    + unfold bind, ret in H. rewrite set_cell_upd in H. injection H as <- <-. cbn [force_post].
      eapply upd_get. eapply ext_pend_stays; [exact Hr|]. eapply upd_get; eassumption.
    + assert (Hs2 : nth_error (cells (upd s2 loc (CFail k))) loc = Some (CFail k)).
      { eapply upd_get. eapply ext_pend_stays; [exact Hr|]. eapply upd_get; eassumption. }
      destruct k; unfold bind, fail in H; rewrite ?set_cell_upd in H; injection H as <- <-;
        cbn [force_post]; auto.
  - injection H as <- <-. cbn; auto.
  - injection H as <- <-. exact E.
  - injection H as <- <-. destruct k; cbn; auto.
Qed.
