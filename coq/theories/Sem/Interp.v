(** Sem — reference call-by-need interpreter for core Jsonnet (fuelled, store-passing).

    Thunks are store cells [CWait | CPend | CDone | CFail]; array elements, locals,
    arguments, object-local bindings and object field reads (per object, name and
    super-depth) are cells, so the number of times each [ETrace]-labelled sub-expression
    runs is part of the result ([log]).  Numbers are integers ([Z]); operations whose Jsonnet
    result is not an integer below 2^53, and a few constructs outside the modelled core,
    yield [KUnsup] — the correspondence check skips and counts such cases, it never judges
    them.  [KFuel] likewise. *)
From Coq Require Import List ZArith NArith Bool.
From JrV Require Import Sem.Syntax.
Import ListNotations.

Inductive errk := KRuntime | KType | KInfRec | KFuel | KUnsup.

Definition env := list (ident * nat).

Inductive layer :=
| Layer (lenv : env) (outer : octx) (locals : list (ident * expr))
        (asserts : list (expr * option expr)) (fields : list (str * vis * bool * expr * list (ident * nat)))
with octx :=
| OCtx (self : option (nat * list layer * nat)) (dollar : option (nat * list layer)).

Definition no_octx := OCtx None None.

Inductive value :=
| VNull | VBool (b : bool) | VNum (z : Z) | VStr (s : str)
| VArr (cells : list nat)
| VObj (oid : nat) (layers : list layer)
| VFun (fenv : env) (foc : octx) (ps : list (ident * option expr)) (body : expr).

Inductive cell :=
| CWait (e : env) (oc : octx) (x : expr)
| CFieldWait (oid : nat) (layers : list layer) (name : str) (upto : nat)
| CPend
| CDone (v : value)
| CFail (k : errk).

Record store := mkStore {
  cells : list cell;
  fcache : list (nat * str * nat * nat);      (* (oid, name, upto) -> cell *)
  lcache : list (nat * nat * env);            (* (oid, layer) -> env of its object locals *)
  asserted : list (nat * bool);               (* oid -> false: running, true: ran *)
  next_oid : nat;
  log : list N                                (* trace labels, most recent first *)
}.

Definition empty_store := mkStore [] [] [] [] 0 [].

Inductive res (A : Type) := Ok (a : A) | Err (k : errk).
Arguments Ok {A} a.
Arguments Err {A} k.

Definition M (A : Type) := store -> res A * store.
Definition ret {A} (a : A) : M A := fun s => (Ok a, s).
Definition fail {A} (k : errk) : M A := fun s => (Err k, s).
Definition bind {A B} (m : M A) (f : A -> M B) : M B :=
  fun s => match m s with
           | (Ok a, s') => f a s'
           | (Err k, s') => (Err k, s')
           end.
Notation "x <- m ;; k" := (bind m (fun x => k)) (at level 61, m at next level, right associativity).
Notation "m ;;; k" := (bind m (fun _ => k)) (at level 61, right associativity).

Definition get_store : M store := fun s => (Ok s, s).
Definition alloc (c : cell) : M nat :=
  fun s => (Ok (length (cells s)),
            mkStore (cells s ++ [c]) (fcache s) (lcache s) (asserted s) (next_oid s) (log s)).
Fixpoint set_nth {A} (l : list A) (i : nat) (x : A) : list A :=
  match l, i with
  | [], _ => []
  | _ :: t, O => x :: t
  | h :: t, S j => h :: set_nth t j x
  end.
Definition set_cell (loc : nat) (c : cell) : M unit :=
  fun s => (Ok tt, mkStore (set_nth (cells s) loc c) (fcache s) (lcache s) (asserted s) (next_oid s) (log s)).
Definition get_cell (loc : nat) : M cell :=
  fun s => match nth_error (cells s) loc with
           | Some c => (Ok c, s)
           | None => (Err KType, s)
           end.
Definition fresh_oid : M nat :=
  fun s => (Ok (next_oid s),
            mkStore (cells s) (fcache s) (lcache s) (asserted s) (S (next_oid s)) (log s)).
Definition log_label (l : N) : M unit :=
  fun s => (Ok tt, mkStore (cells s) (fcache s) (lcache s) (asserted s) (next_oid s) (l :: log s)).

Fixpoint alloc_many (cs : list cell) : M (list nat) :=
  match cs with
  | [] => ret []
  | c :: t => l <- alloc c ;; r <- alloc_many t ;; ret (l :: r)
  end.

(** *** pure helpers *)

Fixpoint lookup (x : ident) (e : env) : option nat :=
  match e with
  | [] => None
  | (y, l) :: t => if N.eqb x y then Some l else lookup x t
  end.

Fixpoint str_eqb (a b : str) : bool :=
  match a, b with
  | [], [] => true
  | x :: a', y :: b' => N.eqb x y && str_eqb a' b'
  | _, _ => false
  end.
Fixpoint str_cmp (a b : str) : comparison :=
  match a, b with
  | [], [] => Eq
  | [], _ => Lt
  | _, [] => Gt
  | x :: a', y :: b' => match N.compare x y with Eq => str_cmp a' b' | c => c end
  end.

Definition layer_fields (l : layer) := match l with Layer _ _ _ _ f => f end.
Fixpoint find_field (fs : list (str * vis * bool * expr * list (ident * nat))) (name : str)
  : option (vis * bool * expr * list (ident * nat)) :=
  match fs with
  | [] => None
  | (n, v, p, b, fe) :: t => if str_eqb n name then Some (v, p, b, fe) else find_field t name
  end.

(** index of the right-most layer below [upto] that defines [name] *)
Fixpoint top_def_from (ls : list layer) (i : nat) (name : str) (upto : nat) (acc : option nat) : option nat :=
  match ls with
  | [] => acc
  | l :: t =>
      if Nat.ltb i upto then
        top_def_from t (S i) name upto
          (match find_field (layer_fields l) name with Some _ => Some i | None => acc end)
      else acc
  end.
Definition top_def (ls : list layer) (name : str) (upto : nat) : option nat :=
  top_def_from ls 0 name upto None.

(** visibility by the language rule: right-most explicit `::`/`:::` wins, else `:` *)
Fixpoint vis_from (ls : list layer) (name : str) (acc : option vis) : option vis :=
  match ls with
  | [] => acc
  | l :: t =>
      vis_from t name
        (match find_field (layer_fields l) name with
         | Some (VisHidden, _, _, _) => Some VisHidden
         | Some (VisUnhide, _, _, _) => Some VisUnhide
         | Some (VisNormal, _, _, _) => match acc with None => Some VisNormal | a => a end
         | None => acc
         end)
  end.
Definition field_vis (ls : list layer) (name : str) : option vis := vis_from ls name None.
Definition visible (ls : list layer) (name : str) : bool :=
  match field_vis ls name with Some VisHidden | None => false | _ => true end.

Fixpoint insert_sorted (x : str) (l : list str) : list str :=
  match l with
  | [] => [x]
  | y :: t => match str_cmp x y with
              | Lt => x :: l
              | Eq => l
              | Gt => y :: insert_sorted x t
              end
  end.
Definition all_names (ls : list layer) : list str :=
  fold_left (fun acc l => fold_left (fun acc f => match f with (n, _, _, _, _) => insert_sorted n acc end)
                                    (layer_fields l) acc) ls [].
Definition visible_names (ls : list layer) : list str := filter (visible ls) (all_names ls).

Definition two53 : Z := 9007199254740992%Z.
Definition num {A} (k : value -> M A) (z : Z) : M A :=
  if (Z.abs z <=? two53)%Z then k (VNum z) else fail KUnsup.
Definition retnum (z : Z) : M value := num ret z.

(** decimal digits of an integer as code points *)
Fixpoint digits_pos (fuel : nat) (n : Z) (acc : str) : str :=
  match fuel with
  | O => acc
  | S f => if (n <? 10)%Z then (Z.to_N n + 48)%N :: acc
           else digits_pos f (n / 10)%Z ((Z.to_N (n mod 10) + 48)%N :: acc)
  end.
Definition show_int (z : Z) : str :=
  if (z <? 0)%Z then 45%N :: digits_pos 20 (- z) [] else digits_pos 20 z [].

Definition type_name (v : value) : str :=
  match v with
  | VNull => [110;117;108;108]%N
  | VBool _ => [98;111;111;108;101;97;110]%N
  | VNum _ => [110;117;109;98;101;114]%N
  | VStr _ => [115;116;114;105;110;103]%N
  | VArr _ => [97;114;114;97;121]%N
  | VObj _ _ => [111;98;106;101;99;116]%N
  | VFun _ _ _ _ => [102;117;110;99;116;105;111;110]%N
  end.

(** value -> text for `str + v` (primitives only; containers are outside the modelled core) *)
Definition prim_to_str (v : value) : option str :=
  match v with
  | VNull => Some [110;117;108;108]%N
  | VBool true => Some [116;114;117;101]%N
  | VBool false => Some [102;97;108;115;101]%N
  | VNum z => Some (show_int z)
  | VStr s => Some s
  | _ => None
  end.

(** Jsonnet slice positions (as in C08's slice_spec) *)
Definition norm_pos (pos : option Z) (len default : nat) : nat :=
  match pos with
  | None => default
  | Some z => if (z <? 0)%Z then Nat.sub len (Z.to_nat (- z)) else Nat.min (Z.to_nat z) len
  end.
Fixpoint step_from {A} (st k : nat) (l : list A) : list A :=
  match l with
  | [] => []
  | x :: xs => match k with
               | O => x :: step_from st (st - 1) xs
               | S k' => step_from st k' xs
               end
  end.
Definition slice_list {A} (l : list A) (i j : option Z) (k : option Z) : list A :=
  let a := norm_pos i (length l) 0 in
  let b := norm_pos j (length l) (length l) in
  let st := match k with Some s => Z.to_nat s | None => 1%nat end in
  step_from st 0 (firstn (b - a) (skipn a l)).

Definition self_of (oc : octx) := match oc with OCtx s _ => s end.
Definition dollar_of (oc : octx) := match oc with OCtx _ d => d end.

(** context in which the members of layer [i] of object (oid, layers) are evaluated *)
Definition member_octx (oid : nat) (layers : list layer) (i : nat) : octx :=
  match nth_error layers i with
  | Some (Layer _ outer _ _ _) =>
      OCtx (Some (oid, layers, i))
           (match dollar_of outer with Some d => Some d | None => Some (oid, layers) end)
  | None => no_octx
  end.

Fixpoint count_nodefault (ps : list (ident * option expr)) : Z :=
  match ps with
  | [] => 0
  | (_, None) :: t => 1 + count_nodefault t
  | (_, Some _) :: t => count_nodefault t
  end.

Fixpoint assoc_lcache (k1 k2 : nat) (l : list (nat * nat * env)) : option env :=
  match l with
  | [] => None
  | (a, b, e) :: t => if Nat.eqb a k1 && Nat.eqb b k2 then Some e else assoc_lcache k1 k2 t
  end.
Fixpoint assoc_fcache (oid : nat) (name : str) (upto : nat) (l : list (nat * str * nat * nat)) : option nat :=
  match l with
  | [] => None
  | (a, n, u, c) :: t =>
      if Nat.eqb a oid && str_eqb n name && Nat.eqb u upto then Some c else assoc_fcache oid name upto t
  end.
Fixpoint assoc_nat {A} (k : nat) (l : list (nat * A)) : option A :=
  match l with
  | [] => None
  | (a, v) :: t => if Nat.eqb a k then Some v else assoc_nat k t
  end.

Definition add_fcache (oid : nat) (name : str) (upto loc : nat) : M unit :=
  fun s => (Ok tt, mkStore (cells s) ((oid, name, upto, loc) :: fcache s) (lcache s) (asserted s)
                           (next_oid s) (log s)).
Definition add_lcache (oid i : nat) (e : env) : M unit :=
  fun s => (Ok tt, mkStore (cells s) (fcache s) ((oid, i, e) :: lcache s) (asserted s)
                           (next_oid s) (log s)).
Definition set_asserted (oid : nat) (st : option bool) : M unit :=
  fun s => (Ok tt, mkStore (cells s) (fcache s) (lcache s)
                           (match st with
                            | Some b => (oid, b) :: asserted s
                            | None => filter (fun p => negb (Nat.eqb (fst p) oid)) (asserted s)
                            end)
                           (next_oid s) (log s)).

Fixpoint mapM {A B} (f : A -> M B) (l : list A) : M (list B) :=
  match l with
  | [] => ret []
  | x :: t => y <- f x ;; r <- mapM f t ;; ret (y :: r)
  end.

Fixpoint has_dup (l : list str) : bool :=
  match l with
  | [] => false
  | x :: t => existsb (str_eqb x) t || has_dup t
  end.

Fixpoint has_dup_id (l : list ident) : bool :=
  match l with
  | [] => false
  | x :: t => existsb (N.eqb x) t || has_dup_id t
  end.

Definition arith_shift_ok (a b : Z) : bool :=
  (Z.abs a <? 2147483648)%Z && (0 <=? b)%Z && (b <? 31)%Z.

(** *** the interpreter *)

Fixpoint eval (n : nat) (ev : env) (oc : octx) (e : expr) {struct n} : M value :=
  match n with
  | O => fail KFuel
  | S n' =>
    match e with
    | ENull => ret VNull
    | EBool b => ret (VBool b)
    | ENum z => retnum z
    | EStr s => ret (VStr s)
    | EVar x => match lookup x ev with Some l => force n' l | None => fail KType end
    | ESelf => match self_of oc with Some (oid, ls, _) => ret (VObj oid ls) | None => fail KType end
    | EDollar => match dollar_of oc with Some (oid, ls) => ret (VObj oid ls) | None => fail KType end
    | ESuperIdx ie =>
        match self_of oc with
        | None => fail KType
        | Some (oid, ls, i) =>
            nv <- eval n' ev oc ie ;;
            match nv with
            | VStr name =>
                r <- getfield n' oid ls name i ;;
                match r with Some v => ret v | None => fail KType end
            | _ => fail KType
            end
        end
    | EInSuper ie =>
        match self_of oc with
        | None => fail KType
        | Some (_, ls, i) =>
            nv <- eval n' ev oc ie ;;
            match nv with
            | VStr name => ret (VBool (match top_def ls name i with Some _ => true | None => false end))
            | _ => fail KType
            end
        end
    | ELocal bs body =>
        if has_dup_id (map fst bs) then fail KType else
        s <- get_store ;;
        let base := length (cells s) in
        let ev' := (combine (map fst bs) (seq base (length bs))) ++ ev in
        alloc_many (map (fun b => CWait ev' oc (snd b)) bs) ;;;
        eval n' ev' oc body
    | EIf c t f =>
        cv <- eval n' ev oc c ;;
        match cv with
        | VBool true => eval n' ev oc t
        | VBool false => eval n' ev oc f
        | _ => fail KType
        end
    | EUn o a =>
        v <- eval n' ev oc a ;;
        match o, v with
        | UNeg, VNum z => if (z =? 0)%Z then fail KUnsup (* -0 *) else retnum (- z)
        | UPlus, VNum z => retnum z
        | UNot, VBool b => ret (VBool (negb b))
        | UBitNot, VNum z => retnum (- z - 1)
        | _, _ => fail KType
        end
    | EBin BAnd a b =>
        va <- eval n' ev oc a ;;
        match va with
        | VBool false => ret (VBool false)
        | _ => vb <- eval n' ev oc b ;;
               match va, vb with
               | VBool true, VBool x => ret (VBool x)
               | _, _ => fail KType
               end
        end
    | EBin BOr a b =>
        va <- eval n' ev oc a ;;
        match va with
        | VBool true => ret (VBool true)
        | _ => vb <- eval n' ev oc b ;;
               match va, vb with
               | VBool false, VBool x => ret (VBool x)
               | _, _ => fail KType
               end
        end
    | EBin o a b =>
        va <- eval n' ev oc a ;;
        vb <- eval n' ev oc b ;;
        binop_val n' o va vb
    | EArr es =>
        ls <- alloc_many (map (fun x => CWait ev oc x) es) ;;
        ret (VArr ls)
    | EComp body specs =>
        envs <- comp n' ev oc specs ;;
        ls <- alloc_many (map (fun ev' => CWait ev' oc body) envs) ;;
        ret (VArr ls)
    | EIndex a ie =>
        va <- eval n' ev oc a ;;
        vi <- eval n' ev oc ie ;;
        match va, vi with
        | VArr cs, VNum z =>
            if (z <? 0)%Z then fail KType
            else match nth_error cs (Z.to_nat z) with
                 | Some l => force n' l
                 | None => fail KType
                 end
        | VObj oid ls, VStr name =>
            r <- getfield n' oid ls name (length ls) ;;
            match r with Some v => ret v | None => fail KType end
        | VStr s, VNum z =>
            if (z <? 0)%Z then fail KType
            else match nth_error s (Z.to_nat z) with
                 | Some c => ret (VStr [c])
                 | None => fail KType
                 end
        | _, _ => fail KType
        end
    | ESlice a i j k =>
        va <- eval n' ev oc a ;;
        let part (o : option expr) : M (option Z) :=
          match o with
          | None => ret None
          | Some x => v <- eval n' ev oc x ;;
                      match v with VNum z => ret (Some z) | VNull => ret None | _ => fail KType end
          end in
        vi <- part i ;; vj <- part j ;; vk <- part k ;;
        match vk with
        | Some z => if (z <? 1)%Z then fail KType else ret tt
        | None => ret tt
        end ;;;
        match va with
        | VArr cs => ret (VArr (slice_list cs vi vj vk))
        | VStr s => ret (VStr (slice_list s vi vj vk))
        | _ => fail KType
        end
    | EFun ps body =>
        if has_dup_id (map fst ps) then fail KType else ret (VFun ev oc ps body)
    | EApp f pos named ts =>
        vf <- eval n' ev oc f ;;
        match vf with
        | VFun fenv foc ps body =>
            if Nat.ltb (length ps) (length pos) then fail KType else
            let mk (x : expr) : M nat :=
              if ts then (v <- eval n' ev oc x ;; alloc (CDone v)) else alloc (CWait ev oc x) in
            pl <- mapM mk pos ;;
            nl <- mapM (fun p => l <- mk (snd p) ;; ret (fst p, l)) named ;;
            let pbind := combine (map fst ps) pl in
            if existsb (fun p => negb (existsb (fun q => N.eqb (fst q) (fst p)) ps)) nl then fail KType
            else if has_dup_id (map fst pbind ++ map fst nl) then fail KType
            else
              let given := pbind ++ nl in
              let missing := filter (fun p => match lookup (fst p) given with Some _ => false | None => true end) ps in
              if existsb (fun p => match snd p with None => true | Some _ => false end) missing then fail KType
              else
                s <- get_store ;;
                let base := length (cells s) in
                let dbind := combine (map fst missing) (seq base (length missing)) in
                let fenv' := given ++ dbind ++ fenv in
                alloc_many (map (fun p => match snd p with
                                          | Some d => CWait fenv' foc d
                                          | None => CFail KType
                                          end) missing) ;;;
                eval n' fenv' foc body
        | _ => fail KType
        end
    | EObj locals asserts fields =>
        fs <- mapM (fun f => match f with
                             | Field ne v p b =>
                                 nv <- eval n' ev oc ne ;;
                                 match nv with
                                 | VStr s => ret (Some (s, v, p, b, @nil (ident * nat)))
                                 | VNull => ret None
                                 | _ => fail KType
                                 end
                             end) fields ;;
        let fs' := fold_right (fun o acc => match o with Some x => x :: acc | None => acc end) [] fs in
        if has_dup (map (fun f => match f with (nm, _, _, _, _) => nm end) fs') then fail KType
        else if has_dup_id (map fst locals) then fail KType
        else oid <- fresh_oid ;; ret (VObj oid [Layer ev oc locals asserts fs'])
    | EObjComp ne body specs =>
        envs <- comp n' ev oc specs ;;
        fs <- mapM (fun ev1 =>
                      nv <- eval n' ev1 oc ne ;;
                      match nv with
                      | VStr s => ret (Some (s, VisNormal, false, body, firstn (length ev1 - length ev) ev1))
                      | VNull => ret None
                      | _ => fail KType
                      end) envs ;;
        let fs' := fold_right (fun o acc => match o with Some x => x :: acc | None => acc end) [] fs in
        if has_dup (map (fun f => match f with (nm, _, _, _, _) => nm end) fs') then fail KType
        else oid <- fresh_oid ;; ret (VObj oid [Layer ev oc [] [] fs'])
    | EError x => eval n' ev oc x ;;; fail KRuntime
    | EAssert c m rest =>
        cv <- eval n' ev oc c ;;
        match cv with
        | VBool true => eval n' ev oc rest
        | VBool false =>
            match m with Some x => eval n' ev oc x ;;; fail KRuntime | None => fail KRuntime end
        | _ => fail KType
        end
    | ETrace l x => log_label l ;;; eval n' ev oc x
    | ELen x =>
        v <- eval n' ev oc x ;;
        match v with
        | VArr cs => retnum (Z.of_nat (length cs))
        | VStr s => retnum (Z.of_nat (length s))
        | VObj _ ls => retnum (Z.of_nat (length (visible_names ls)))
        | VFun _ _ ps _ => retnum (count_nodefault ps)
        | _ => fail KType
        end
    | EType x => v <- eval n' ev oc x ;; ret (VStr (type_name v))
    end
  end

with force (n : nat) (loc : nat) {struct n} : M value :=
  match n with
  | O => fail KFuel
  | S n' =>
      c <- get_cell loc ;;
      match c with
      | CDone v => ret v
      | CFail k => fail k
      | CPend => fail KInfRec
      | CWait ev oc x =>
          set_cell loc CPend ;;;
          (fun s => match eval n' ev oc x s with
                    | (Ok v, s') => (set_cell loc (CDone v) ;;; ret v) s'
                    | (Err KFuel, s') => (Err KFuel, s')
                    | (Err k, s') => (set_cell loc (CFail k) ;;; fail k) s'
                    end)
      | CFieldWait oid ls name upto =>
          set_cell loc CPend ;;;
          (fun s => match field_raw n' oid ls name upto s with
                    | (Ok v, s') => (set_cell loc (CDone v) ;;; ret v) s'
                    | (Err KFuel, s') => (Err KFuel, s')
                    | (Err k, s') => (set_cell loc (CFail k) ;;; fail k) s'
                    end)
      end
  end

(** environments produced by a comprehension's for/if specs, in iteration order *)
with comp (n : nat) (ev : env) (oc : octx) (specs : list cspec) {struct n} : M (list env) :=
  match n with
  | O => fail KFuel
  | S n' =>
      match specs with
      | [] => ret [ev]
      | CIf c :: rest =>
          cv <- eval n' ev oc c ;;
          match cv with
          | VBool true => comp n' ev oc rest
          | VBool false => ret []
          | _ => fail KType
          end
      | CFor x over :: rest =>
          ov <- eval n' ev oc over ;;
          match ov with
          | VArr cs =>
              rs <- mapM (fun l => comp n' ((x, l) :: ev) oc rest) cs ;;
              ret (concat rs)
          | _ => fail KType
          end
      end
  end

(** cached field read of object (oid, ls) restricted to layers below [upto] *)
with getfield (n : nat) (oid : nat) (ls : list layer) (name : str) (upto : nat) {struct n}
  : M (option value) :=
  match n with
  | O => fail KFuel
  | S n' =>
      run_asserts n' oid ls ;;;
      match top_def ls name upto with
      | None => ret None
      | Some _ =>
          s <- get_store ;;
          match assoc_fcache oid name upto (fcache s) with
          | Some loc => v <- force n' loc ;; ret (Some v)
          | None =>
              loc <- alloc (CFieldWait oid ls name upto) ;;
              add_fcache oid name upto loc ;;;
              v <- force n' loc ;; ret (Some v)
          end
      end
  end

with field_raw (n : nat) (oid : nat) (ls : list layer) (name : str) (upto : nat) {struct n} : M value :=
  match n with
  | O => fail KFuel
  | S n' =>
      match top_def ls name upto with
      | None => fail KType
      | Some i =>
          match nth_error ls i with
          | None => fail KType
          | Some (Layer lenv outer locals _ fs) =>
              match find_field fs name with
              | None => fail KType
              | Some (_, plus, body, fenv) =>
                  ev0 <- member_env n' oid ls i ;;
                  let ev' := fenv ++ ev0 in
                  let oc' := member_octx oid ls i in
                  if plus then
                    match top_def ls name i with
                    | Some _ =>
                        sv <- getfield n' oid ls name i ;;
                        bv <- eval n' ev' oc' body ;;
                        match sv with
                        | Some s => binop_val n' BAdd s bv
                        | None => fail KType
                        end
                    | None => eval n' ev' oc' body
                    end
                  else eval n' ev' oc' body
              end
          end
      end
  end

(** environment of layer [i]'s members: its object locals (one set of cells per object
    and layer) in front of the layer's captured environment *)
with member_env (n : nat) (oid : nat) (ls : list layer) (i : nat) {struct n} : M env :=
  match n with
  | O => fail KFuel
  | S n' =>
      match nth_error ls i with
      | None => fail KType
      | Some (Layer lenv outer locals _ _) =>
          match locals with
          | [] => ret lenv
          | _ =>
              s <- get_store ;;
              match assoc_lcache oid i (lcache s) with
              | Some e => ret e
              | None =>
                  let base := length (cells s) in
                  let ev' := combine (map fst locals) (seq base (length locals)) ++ lenv in
                  let oc' := member_octx oid ls i in
                  alloc_many (map (fun b => CWait ev' oc' (snd b)) locals) ;;;
                  add_lcache oid i ev' ;;;
                  ret ev'
              end
          end
      end
  end

with run_asserts (n : nat) (oid : nat) (ls : list layer) {struct n} : M unit :=
  match n with
  | O => fail KFuel
  | S n' =>
      if forallb (fun l => match l with Layer _ _ _ [] _ => true | _ => false end) ls then ret tt else
      s <- get_store ;;
      match assoc_nat oid (asserted s) with
      | Some _ => ret tt
      | None =>
          set_asserted oid (Some false) ;;;
          (fun s0 =>
             match (mapM (fun i => assert_layer n' oid ls i) (seq 0 (length ls))) s0 with
             | (Ok _, s') => (set_asserted oid None ;;; set_asserted oid (Some true)) s'
             | (Err k, s') => (set_asserted oid None ;;; fail k) s'
             end)
      end
  end

with assert_layer (n : nat) (oid : nat) (ls : list layer) (i : nat) {struct n} : M unit :=
  match n with
  | O => fail KFuel
  | S n' =>
      match nth_error ls i with
      | None => fail KType
      | Some (Layer _ _ _ [] _) => ret tt
      | Some (Layer _ _ _ asserts _) =>
          ev' <- member_env n' oid ls i ;;
          let oc' := member_octx oid ls i in
          mapM (fun a => cv <- eval n' ev' oc' (fst a) ;;
                         match cv with
                         | VBool true => ret tt
                         | VBool false =>
                             match snd a with
                             | Some m => eval n' ev' oc' m ;;; fail KRuntime
                             | None => fail KRuntime
                             end
                         | _ => fail KType
                         end) asserts ;;;
          ret tt
      end
  end

with binop_val (n : nat) (o : binop) (a b : value) {struct n} : M value :=
  match n with
  | O => fail KFuel
  | S n' =>
      match o, a, b with
      | BEq, _, _ => r <- equals n' a b ;; ret (VBool r)
      | BNe, _, _ => r <- equals n' a b ;; ret (VBool (negb r))
      | BLt, _, _ => c <- compare_val n' a b ;; ret (VBool (match c with Lt => true | _ => false end))
      | BGt, _, _ => c <- compare_val n' a b ;; ret (VBool (match c with Gt => true | _ => false end))
      | BLe, _, _ => c <- compare_val n' a b ;; ret (VBool (match c with Gt => false | _ => true end))
      | BGe, _, _ => c <- compare_val n' a b ;; ret (VBool (match c with Lt => false | _ => true end))
      | BIn, VStr s, VObj _ ls =>
          ret (VBool (match top_def ls s (length ls) with Some _ => true | None => false end))
      | BAdd, VNum x, VNum y => retnum (x + y)
      | BAdd, VStr x, VStr y => ret (VStr (x ++ y))
      | BAdd, VStr x, y =>
          match prim_to_str y with Some t => ret (VStr (x ++ t))
                                 | None => match y with VFun _ _ _ _ => fail KType | _ => fail KUnsup end end
      | BAdd, x, VStr y =>
          match prim_to_str x with Some t => ret (VStr (t ++ y))
                                 | None => match x with VFun _ _ _ _ => fail KType | _ => fail KUnsup end end
      | BAdd, VArr x, VArr y => ret (VArr (x ++ y))
      | BAdd, VObj _ x, VObj _ y => oid <- fresh_oid ;; ret (VObj oid (x ++ y))
      | BSub, VNum x, VNum y => retnum (x - y)
      | BMul, VNum x, VNum y =>
          if ((x * y =? 0) && ((x <? 0) || (y <? 0)))%Z then fail KUnsup (* -0 *) else retnum (x * y)
      | BMul, VStr _, VNum _ => fail KUnsup
      | BMul, VNum _, VStr _ => fail KUnsup
      | BDiv, VNum x, VNum y =>
          if (y =? 0)%Z then fail KRuntime
          else if ((x =? 0) && (y <? 0))%Z then fail KUnsup (* -0 *)
          else if (Z.rem x y =? 0)%Z then retnum (Z.quot x y) else fail KUnsup
      | BMod, VNum x, VNum y =>
          if (y =? 0)%Z then fail KRuntime
          else if ((Z.rem x y =? 0) && (x <? 0))%Z then fail KUnsup (* -0 *) else retnum (Z.rem x y)
      | BMod, VStr _, _ => fail KUnsup
      | BBitAnd, VNum x, VNum y => retnum (Z.land x y)
      | BBitOr, VNum x, VNum y => retnum (Z.lor x y)
      | BBitXor, VNum x, VNum y => retnum (Z.lxor x y)
      | BShl, VNum x, VNum y =>
          if (y <? 0)%Z then fail KRuntime
          else if arith_shift_ok x y then retnum (x * 2 ^ y) else fail KUnsup
      | BShr, VNum x, VNum y =>
          if (y <? 0)%Z then fail KRuntime
          else if arith_shift_ok x y then retnum (Z.shiftr x y) else fail KUnsup
      | _, _, _ => fail KType
      end
  end

with equals (n : nat) (a b : value) {struct n} : M bool :=
  match n with
  | O => fail KFuel
  | S n' =>
      match a, b with
      | VNull, VNull => ret true
      | VBool x, VBool y => ret (Bool.eqb x y)
      | VNum x, VNum y => ret (x =? y)%Z
      | VStr x, VStr y => ret (str_eqb x y)
      | VArr x, VArr y =>
          if negb (Nat.eqb (length x) (length y)) then ret false
          else
            (fix go (l : list (nat * nat)) : M bool :=
               match l with
               | [] => ret true
               | (p, q) :: t =>
                   vp <- force n' p ;; vq <- force n' q ;;
                   r <- equals n' vp vq ;;
                   if r then go t else ret false
               end) (combine x y)
      | VObj o1 l1, VObj o2 l2 =>
          let f1 := visible_names l1 in
          let f2 := visible_names l2 in
          if negb (Nat.eqb (length f1) (length f2)) || negb (forallb (fun p => str_eqb (fst p) (snd p)) (combine f1 f2))
          then ret false
          else
            (fix go (l : list str) : M bool :=
               match l with
               | [] => ret true
               | nm :: t =>
                   vp <- getfield n' o1 l1 nm (length l1) ;;
                   vq <- getfield n' o2 l2 nm (length l2) ;;
                   match vp, vq with
                   | Some p, Some q => r <- equals n' p q ;; if r then go t else ret false
                   | _, _ => fail KType
                   end
               end) f1
      | VFun _ _ _ _, VFun _ _ _ _ => fail KType
      | _, _ => ret false
      end
  end

with compare_val (n : nat) (a b : value) {struct n} : M comparison :=
  match n with
  | O => fail KFuel
  | S n' =>
      match a, b with
      | VNum x, VNum y => ret (Z.compare x y)
      | VStr x, VStr y => ret (str_cmp x y)
      | VArr x, VArr y =>
          (fix go (l1 l2 : list nat) : M comparison :=
             match l1, l2 with
             | [], [] => ret Eq
             | [], _ => ret Lt
             | _, [] => ret Gt
             | p :: t1, q :: t2 =>
                 vp <- force n' p ;; vq <- force n' q ;;
                 c <- compare_val n' vp vq ;;
                 match c with Eq => go t1 t2 | _ => ret c end
             end) x y
      | _, _ => fail KType
      end
  end.

(** manifestation to JSON *)
Fixpoint manifest (n : nat) (v : value) {struct n} : M jval :=
  match n with
  | O => fail KFuel
  | S n' =>
      match v with
      | VNull => ret JNull
      | VBool b => ret (JBool b)
      | VNum z => ret (JNum z)
      | VStr s => ret (JStr s)
      | VArr cs =>
          r <- mapM (fun l => x <- force n' l ;; manifest n' x) cs ;; ret (JArr r)
      | VObj oid ls =>
          run_asserts n' oid ls ;;;
          r <- mapM (fun nm => x <- getfield n' oid ls nm (length ls) ;;
                               match x with
                               | Some y => j <- manifest n' y ;; ret (nm, j)
                               | None => fail KType
                               end) (visible_names ls) ;;
          ret (JObj r)
      | VFun _ _ _ _ => fail KType
      end
  end.

(** outcome of a whole program: JSON value or error class, plus the trace log *)
Inductive outcome := OVal (j : jval) | OErr (k : errk).

Definition run (fuel : nat) (e : expr) : outcome * list N :=
  match (v <- eval fuel [] no_octx e ;; manifest fuel v) empty_store with
  | (Ok j, s) => (OVal j, rev (log s))
  | (Err k, s) => (OErr k, rev (log s))
  end.
