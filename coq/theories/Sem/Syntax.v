(** Sem — reference semantics of core Jsonnet: abstract syntax.

    The generator in vlib/progen.py emits every program twice: as Jsonnet source (for the
    code) and as a term of [expr] (for this interpreter).  Sugar (methods, `local f(x)`,
    `a { }`, `e.f`, missing `else`, `assert` without message...) is expanded by the generator
    exactly as the language definition prescribes. *)
From Coq Require Import List ZArith NArith.
Import ListNotations.

Definition ident := N.
Definition str := list N.            (* code points *)

Inductive vis := VisNormal | VisHidden | VisUnhide.
Inductive unop := UNeg | UPlus | UNot | UBitNot.
Inductive binop :=
| BMul | BDiv | BMod | BAdd | BSub | BShl | BShr | BLt | BGt | BLe | BGe
| BEq | BNe | BIn | BBitAnd | BBitXor | BBitOr | BAnd | BOr.

Inductive expr :=
| ENull | EBool (b : bool) | ENum (z : Z) | EStr (s : str)
| EVar (x : ident)
| ESelf | EDollar
| ESuperIdx (e : expr)                       (* super[e] *)
| EInSuper (e : expr)                        (* e in super *)
| ELocal (bs : list (ident * expr)) (body : expr)
| EIf (c t e : expr)
| EUn (o : unop) (e : expr)
| EBin (o : binop) (a b : expr)
| EArr (es : list expr)
| EComp (body : expr) (specs : list cspec)   (* [body for .. if ..] *)
| EIndex (a i : expr)
| ESlice (a : expr) (i j k : option expr)
| EFun (ps : list (ident * option expr)) (body : expr)
| EApp (f : expr) (pos : list expr) (named : list (ident * expr)) (tailstrict : bool)
| EObj (locals : list (ident * expr)) (asserts : list (expr * option expr)) (fields : list field)
| EObjComp (name : expr) (body : expr) (specs : list cspec)   (* {[name]: body for .. if ..} *)
| EError (e : expr)
| EAssert (c : expr) (m : option expr) (rest : expr)
| ETrace (l : N) (e : expr)                  (* std.trace("L<l>", e) *)
| ELen (e : expr)                            (* std.length *)
| EType (e : expr)                           (* std.type *)
with cspec := CFor (x : ident) (e : expr) | CIf (e : expr)
with field := Field (name : expr) (v : vis) (plus : bool) (body : expr).

(** JSON result of manifestation *)
Inductive jval :=
| JNull | JBool (b : bool) | JNum (z : Z) | JStr (s : str)
| JArr (l : list jval) | JObj (l : list (str * jval)).
