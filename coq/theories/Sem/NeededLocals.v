(** More instances of [Sem.Needed.unforced_irrelevant]: a `local` with several bindings, any subset of
    which is never started. *)
From Coq Require Import List ZArith NArith Bool Lia.
From JrV Require Import Sem.Syntax Sem.Interp Sem.Store Sem.Needed.
Import ListNotations.

Lemma alloc_many_eq cs : forall s,
  alloc_many cs s = (Ok (seq (length (cells s)) (length cs)), with_cells s (cells s ++ cs)).
Proof.
  induction cs as [|c t IH]; intro s.
  - cbn. unfold ret, with_cells. rewrite app_nil_r. destruct s; reflexivity.
  - cbn [alloc_many]. unfold bind at 1. unfold alloc at 1. unfold bind at 1. rewrite IH.
    unfold ret, with_cells. cbn [cells fcache lcache asserted next_oid log length seq].
    rewrite app_length, Nat.add_1_r, <- app_assoc. reflexivity.
Qed.

Definition local_env (ev : env) (bs : list (ident * expr)) (base : nat) : env :=
  combine (map fst bs) (seq base (length bs)) ++ ev.

Lemma eval_local n ev oc bs body s :
  eval (S n) ev oc (ELocal bs body) s =
  if has_dup_id (map fst bs) then (Err KType, s)
  else eval n (local_env ev bs (length (cells s))) oc body
            (with_cells s (cells s ++ map (fun b => CWait (local_env ev bs (length (cells s))) oc (snd b)) bs)).
Proof.
  cbn [eval]. destruct (has_dup_id (map fst bs)); [reflexivity|].
  unfold bind at 1. unfold get_store. unfold bind at 1. rewrite alloc_many_eq.
  unfold local_env. reflexivity.
Qed.

(** [keep i = true]: binding i is the same in both programs; [keep i = false]: binding i may be bound
    to anything else, provided its thunk is still waiting when the evaluation ends *)
Theorem unused_locals_never_run :
  forall (keep : nat -> bool) n ev oc bs bs' body s r s',
    map fst bs' = map fst bs ->
    (forall i, keep i = true -> nth_error bs' i = nth_error bs i) ->
    eval (S n) ev oc (ELocal bs body) s = (r, s') ->
    (forall i, i < length bs -> keep i = false ->
               exists c, nth_error (cells s') (length (cells s) + i) = Some c /\ is_wait c = true) ->
    exists s2', eval (S n) ev oc (ELocal bs' body) s = (r, s2') /\ log s2' = log s'.
Proof.
  intros keep n ev oc bs bs' body s r s' Hn Hk H Hw.
  assert (Hlen : length bs' = length bs) by (rewrite <- (map_length fst bs'), Hn; apply map_length).
  rewrite eval_local in *. rewrite Hn. destruct (has_dup_id (map fst bs)).
  { injection H as <- <-. exists s. auto. }
  assert (Hev : local_env ev bs' (length (cells s)) = local_env ev bs (length (cells s)))
    by (unfold local_env; rewrite Hn, Hlen; reflexivity).
  rewrite Hev. set (ev' := local_env ev bs (length (cells s))) in *.
  set (D := fun loc => exists i, loc = length (cells s) + i /\ i < length bs /\ keep i = false).
  assert (Hs : sim D (with_cells s (cells s ++ map (fun b => CWait ev' oc (snd b)) bs))
                     (with_cells s (cells s ++ map (fun b => CWait ev' oc (snd b)) bs'))).
  { constructor; cbn; auto; [|rewrite !app_length, !map_length, Hlen; reflexivity].
    intro loc. destruct (Nat.lt_ge_cases loc (length (cells s))) as [Hlt|Hge].
    - left. rewrite !nth_error_app1 by exact Hlt. reflexivity.
    - rewrite !nth_error_app2 by exact Hge. set (i := loc - length (cells s)).
      destruct (keep i) eqn:Ek.
      + left. rewrite !nth_error_map, (Hk i Ek). reflexivity.
      + destruct (Nat.lt_ge_cases i (length bs)) as [Hi|Hi].
        * right. split; [exists i; repeat split; auto; unfold i; lia|].
          rewrite !nth_error_map.
          destruct (nth_error bs i) as [b|] eqn:E1; [|apply nth_error_None in E1; lia].
          destruct (nth_error bs' i) as [b'|] eqn:E2; [|apply nth_error_None in E2; lia].
          cbn. do 2 eexists. repeat split; reflexivity.
        * left. rewrite !nth_error_map.
          assert (E1 : nth_error bs i = None) by (apply nth_error_None; exact Hi).
          assert (E2 : nth_error bs' i = None) by (apply nth_error_None; lia).
          rewrite E1, E2. reflexivity. }
  destruct (unforced_irrelevant D _ _ (sf_eval n ev' oc body) _ _ _ _ Hs H) as (s2' & H2 & Hs').
  - intros loc c (i & -> & Hi & Ek) Hc. destruct (Hw i Hi Ek) as (c' & Hc' & Hw'). congruence.
  - exists s2'. split; [exact H2|]. symmetry. apply (sim_log _ _ _ Hs').
Qed.

(** non-vacuity: local a = trace(1, 10), b = trace(2, error), c = trace(3, a + 1); c  — b never runs *)
Example unused_locals_example :
  let bs := [(1%N, ETrace 1 (ENum 10)); (2%N, ETrace 2 (EError ENull)); (3%N, ETrace 3 (EBin BAdd (EVar 1%N) (ENum 1)))] in
  let r := eval 30 [] no_octx (ELocal bs (EVar 3%N)) empty_store in
  fst r = Ok (VNum 11) /\ log (snd r) = [1%N; 3%N] /\
  map is_wait (cells (snd r)) = [false; true; false].
Proof. vm_compute. repeat split; reflexivity. Qed.

(** *** array literals: elements that are never read *)

Lemma eval_arr n ev oc es s :
  eval (S n) ev oc (EArr es) s =
  (Ok (VArr (seq (length (cells s)) (length es))),
   with_cells s (cells s ++ map (fun x => CWait ev oc x) es)).
Proof.
  cbn [eval]. unfold bind at 1. rewrite alloc_many_eq, map_length. reflexivity.
Qed.

(** whatever is done with the array afterwards ([k]: any interpreter function or sequence of them),
    elements whose thunks are still waiting at the end may be replaced by anything *)
Theorem unread_elements_never_run :
  forall (keep : nat -> bool) n ev oc es es' A (k : value -> M A) s r s',
    (forall v, sem_fn A (k v)) ->
    length es' = length es ->
    (forall i, keep i = true -> nth_error es' i = nth_error es i) ->
    (v <- eval (S n) ev oc (EArr es) ;; k v) s = (r, s') ->
    (forall i, i < length es -> keep i = false ->
               exists c, nth_error (cells s') (length (cells s) + i) = Some c /\ is_wait c = true) ->
    exists s2', (v <- eval (S n) ev oc (EArr es') ;; k v) s = (r, s2') /\ log s2' = log s'.
Proof.
  intros keep n ev oc es es' A k s r s' Hk Hlen Hkeep H Hw.
  unfold bind in *. rewrite eval_arr in *. rewrite Hlen.
  set (D := fun loc => exists i, loc = length (cells s) + i /\ i < length es /\ keep i = false).
  assert (Hs : sim D (with_cells s (cells s ++ map (fun x => CWait ev oc x) es))
                     (with_cells s (cells s ++ map (fun x => CWait ev oc x) es'))).
  { constructor; cbn; auto; [|rewrite !app_length, !map_length, Hlen; reflexivity].
    intro loc. destruct (Nat.lt_ge_cases loc (length (cells s))) as [Hlt|Hge].
    - left. rewrite !nth_error_app1 by exact Hlt. reflexivity.
    - rewrite !nth_error_app2 by exact Hge. set (i := loc - length (cells s)).
      destruct (keep i) eqn:Ek.
      + left. rewrite !nth_error_map, (Hkeep i Ek). reflexivity.
      + destruct (Nat.lt_ge_cases i (length es)) as [Hi|Hi].
        * right. split; [exists i; repeat split; auto; unfold i; lia|].
          rewrite !nth_error_map.
          destruct (nth_error es i) as [b|] eqn:E1; [|apply nth_error_None in E1; lia].
          destruct (nth_error es' i) as [b'|] eqn:E2; [|apply nth_error_None in E2; lia].
          cbn. do 2 eexists. repeat split; reflexivity.
        * left. rewrite !nth_error_map.
          assert (E1 : nth_error es i = None) by (apply nth_error_None; exact Hi).
          assert (E2 : nth_error es' i = None) by (apply nth_error_None; lia).
          rewrite E1, E2. reflexivity. }
  destruct (unforced_irrelevant D _ _ (Hk (VArr (seq (length (cells s)) (length es)))) _ _ _ _ Hs H)
    as (s2' & H2 & Hs').
  - intros loc c (i & -> & Hi & Ek) Hc. destruct (Hw i Hi Ek) as (c' & Hc' & Hw'). congruence.
  - exists s2'. split; [exact H2|]. symmetry. apply (sim_log _ _ _ Hs').
Qed.

(** non-vacuity: [trace(1, 10), trace(2, error), trace(3, 30)], elements 2 then 0 read *)
Example unread_elements_example :
  let es := [ETrace 1 (ENum 10); ETrace 2 (EError ENull); ETrace 3 (ENum 30)] in
  let k := fun v => match v with VArr [a; _; c] => force 20 c ;;; force 20 a | _ => fail KType end in
  let r := (v <- eval 30 [] no_octx (EArr es) ;; k v) empty_store in
  fst r = Ok (VNum 10) /\ log (snd r) = [1%N; 3%N] /\ map is_wait (cells (snd r)) = [false; true; false].
Proof. vm_compute. repeat split; reflexivity. Qed.

Example unread_elements_example_continuation :
  forall v, sem_fn _ (match v with VArr [a; _; c] => force 20 c ;;; force 20 a | _ => fail KType end).
Proof.
  intro v. destruct v; try apply sf_fail.
  destruct cells as [|a [|b [|c [|d t]]]]; try apply sf_fail.
  apply sf_bind; [apply sf_force|intro; apply sf_force].
Qed.
