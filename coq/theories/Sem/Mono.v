(** Fuel monotonicity of the reference interpreter [Sem]: an answer that is not "out of fuel"
    does not depend on the fuel.  Hence [run]'s outcome (value or error class, trace log
    included) is a partial function of the program alone: the FUEL constant used by the
    correspondence checks selects which programs are judged, never what the judgement is. *)
From Coq Require Import List ZArith NArith Bool Lia.
From JrV Require Import Sem.Syntax Sem.Interp.
Import ListNotations.

Definition le {A} (m m' : M A) : Prop :=
  forall s, fst (m s) = Err KFuel \/ m s = m' s.

Lemma le_refl {A} (m : M A) : le m m.
Proof. intro s; right; reflexivity. Qed.

Lemma le_fuel {A} (m' : M A) : le (fail KFuel) m'.
Proof. intro s; left; reflexivity. Qed.

Lemma bind_le {A B} (m m' : M A) (f f' : A -> M B) :
  le m m' -> (forall a, le (f a) (f' a)) -> le (bind m f) (bind m' f').
Proof.
  intros Hm Hf s. unfold bind. destruct (Hm s) as [H|H].
  - left. destruct (m s) as [[a|k] s1]; simpl in *; [discriminate|]. inversion H; reflexivity.
  - rewrite H. destruct (m' s) as [[a|k] s1]; [apply Hf | right; reflexivity].
Qed.

Lemma mapM_le {A B} (f f' : A -> M B) (l : list A) :
  (forall a, le (f a) (f' a)) -> le (mapM f l) (mapM f' l).
Proof.
  intro H. induction l as [|x t IH]; simpl; [apply le_refl|].
  apply bind_le; [apply H|]. intro b. apply bind_le; [apply IH|]. intro r. apply le_refl.
Qed.

(** the two places where the interpreter inspects an error *)
Lemma catch_cell_le {A B} (m m' : M A) (k1 : A -> M B) (k2 : errk -> M B) :
  le m m' ->
  le (fun s => match m s with
               | (Ok v, s') => k1 v s'
               | (Err KFuel, s') => (Err KFuel, s')
               | (Err k, s') => k2 k s'
               end)
     (fun s => match m' s with
               | (Ok v, s') => k1 v s'
               | (Err KFuel, s') => (Err KFuel, s')
               | (Err k, s') => k2 k s'
               end).
Proof.
  intros Hm s. destruct (Hm s) as [H|H].
  - left. destruct (m s) as [[a|k] s1]; simpl in *; [discriminate|]. inversion H; reflexivity.
  - rewrite H. right; reflexivity.
Qed.

Lemma catch_assert_le {A} (m m' : M A) (oid : nat) :
  le m m' ->
  le (fun s0 => match m s0 with
                | (Ok _, s') => (set_asserted oid None ;;; set_asserted oid (Some true)) s'
                | (Err k, s') => (set_asserted oid None ;;; fail k) s'
                end)
     (fun s0 => match m' s0 with
                | (Ok _, s') => (set_asserted oid None ;;; set_asserted oid (Some true)) s'
                | (Err k, s') => (set_asserted oid None ;;; fail k) s'
                end).
Proof.
  intros Hm s. destruct (Hm s) as [H|H].
  - left. destruct (m s) as [[a|k] s1]; simpl in *; [discriminate|]. inversion H; reflexivity.
  - rewrite H. right; reflexivity.
Qed.

Definition mono_at (n m : nat) : Prop :=
  (forall ev oc e, le (eval n ev oc e) (eval m ev oc e)) /\
  (forall loc, le (force n loc) (force m loc)) /\
  (forall ev oc sp, le (comp n ev oc sp) (comp m ev oc sp)) /\
  (forall oid ls nm up, le (getfield n oid ls nm up) (getfield m oid ls nm up)) /\
  (forall oid ls nm up, le (field_raw n oid ls nm up) (field_raw m oid ls nm up)) /\
  (forall oid ls i, le (member_env n oid ls i) (member_env m oid ls i)) /\
  (forall oid ls, le (run_asserts n oid ls) (run_asserts m oid ls)) /\
  (forall oid ls i, le (assert_layer n oid ls i) (assert_layer m oid ls i)) /\
  (forall o a b, le (binop_val n o a b) (binop_val m o a b)) /\
  (forall a b, le (equals n a b) (equals m a b)) /\
  (forall a b, le (compare_val n a b) (compare_val m a b)).

Ltac le_step :=
  first
    [ apply le_refl
    | apply le_fuel
    | match goal with H : _ |- le _ _ => apply H end
    | apply bind_le; [| intro]
    | apply mapM_le; intro
    | apply catch_cell_le
    | apply catch_assert_le
    | match goal with |- le (match ?x with _ => _ end) (match ?x with _ => _ end) => destruct x end ].
Ltac solve_le := repeat le_step.

Theorem sem_mono : forall n m, n <= m -> mono_at n m.
Proof.
  induction n as [|n IH]; intros m Hle.
  - repeat split; intros; simpl; apply le_fuel.
  - destruct m as [|m]; [lia|]. specialize (IH m ltac:(lia)).
    destruct IH as (He & Hf & Hc & Hg & Hr & Hm & Ha & Hl & Hb & Hq & Hcmp).
    repeat split.
    + intros ev oc e; destruct e; simpl; solve_le.
    + intros; simpl; solve_le.
    + intros ev oc sp; destruct sp as [|[]]; simpl; solve_le.
    + intros; simpl; solve_le.
    + intros; simpl; solve_le.
    + intros; simpl; solve_le.
    + intros; simpl; solve_le.
    + intros; simpl; solve_le.
    + intros; simpl; solve_le.
    + intros a b; destruct a, b; simpl; solve_le.
      * generalize (combine cells cells0). intro l.
        induction l as [|[p q] t IHgo]; simpl; solve_le.
      * generalize (visible_names layers). intro l.
        induction l as [|nm t IHgo]; simpl; solve_le.
    + intros a b; destruct a, b; simpl; solve_le.
      revert cells0. induction cells as [|p t IHgo]; intros [|q t2]; simpl; solve_le.
Qed.

Lemma manifest_mono : forall n m v, n <= m -> le (manifest n v) (manifest m v).
Proof.
  induction n as [|n IH]; intros m v Hle.
  - simpl; apply le_fuel.
  - destruct m as [|m]; [lia|].
    destruct (sem_mono n m ltac:(lia)) as (He & Hf & Hc & Hg & Hr & Hm & Ha & Hl & Hb & Hq & Hcmp).
    assert (IH' : forall v, le (manifest n v) (manifest m v)) by (intro; apply IH; lia).
    destruct v; simpl; solve_le.
Qed.

(** the outcome of a whole program (value or error class, and the trace log) does not depend on the
    fuel, as soon as the fuel suffices *)
Theorem run_fuel_independent : forall n m e,
  n <= m -> fst (run n e) <> OErr KFuel -> run m e = run n e.
Proof.
  intros n m e Hle Hne. unfold run in *.
  destruct (sem_mono n m Hle) as (He & _).
  assert (H : le (v <- eval n [] no_octx e ;; manifest n v) (v <- eval m [] no_octx e ;; manifest m v)).
  { apply bind_le; [apply He|]. intro v. apply manifest_mono; assumption. }
  destruct (H empty_store) as [Hf|Heq].
  - exfalso. apply Hne.
    destruct ((v <- eval n [] no_octx e ;; manifest n v) empty_store) as [[j|k] s]; simpl in *;
      [discriminate|]. inversion Hf; reflexivity.
  - rewrite Heq. reflexivity.
Qed.

(** non-vacuity: a program with a function call, an object with inheritance and a shared local *)
Example run_fuel_independent_applies :
  fst (run 50 (ELocal [(1%N, EBin BAdd (ENum 1) (ENum 2))] (EArr [EVar 1%N; EVar 1%N]))) <> OErr KFuel.
Proof. vm_compute. discriminate. Qed.
