(** C19 — source tie, property theorems only.  Gen/GenFmt.v is regenerated from
    crates/jrsonnet-formatter/src/children.rs on every run (translator/gens/fmtkernels.py, statement by
    statement); these theorems say that what the source says IS the hand model the C19/C20 theorems
    are about, for all inputs, and carry the main theorems over to the translated kernel. *)
From Coq Require Import List NArith Bool.
From JrV Require Import C19.Model C19.Trivia C19.Comments Gen.GenFmt C19.ModelSource C19.ProofsSource
  C19.Properties.
Import ListNotations.
Open Scope N_scope.

(** count_newlines_before / count_newlines_after as translated = the model's, for every trivia list *)
Theorem C19_model_is_translated_source_count_newlines :
  forall tt, gen_count_newlines_before tt = count_newlines_before tt
          /\ gen_count_newlines_after tt = count_newlines_after tt.
Proof. intros tt. split; [apply gen_cnb_eq | apply gen_cna_eq]. Qed.
Print Assumptions C19_model_is_translated_source_count_newlines.

(** should_start_with_newline (blank-line flag, multi-line trigger) as translated = the model's *)
Theorem C19_model_is_translated_source_should_start :
  forall prev_inline tt, gen_should_start prev_inline tt = should_start prev_inline tt.
Proof. exact gen_should_start_eq. Qed.
Print Assumptions C19_model_is_translated_source_should_start.

(** one iteration of `for item in items` of children(), as translated, = the model's [step], for every
    state, every item and both values of `loose` (inline / own-line decision, asserts, break) *)
Theorem C19_model_is_translated_source_step :
  forall loose s it, gen_step loose s it = step loose s it.
Proof. exact gen_step_eq. Qed.
Print Assumptions C19_model_is_translated_source_step.

(** the whole of children(): state initialisation, loop, statements after the loop *)
Theorem C19_model_is_translated_source_children :
  forall loose trailing items, src_children loose trailing items = children loose trailing items.
Proof. exact src_children_eq. Qed.
Print Assumptions C19_model_is_translated_source_children.

(** corollary: the TRANSLATED children() keeps every comment token, in order, and every child node *)
Theorem C19_source_children_partition_lossless :
  forall items cs e,
    no_err items = true ->
    src_children false None items = Some (cs, e) ->
    collected (cs, e) = trivia_of items /\ map c_value cs = nodes_of items.
Proof.
  intros items cs e Hn H. rewrite src_children_eq in H.
  exact (C19_children_partition_lossless items cs e Hn H).
Qed.
Print Assumptions C19_source_children_partition_lossless.

Theorem C19_source_children_partition_lossless_loose :
  forall items cs e,
    no_err items = true ->
    src_children true None items = Some (cs, e) ->
    exists pre post, items = pre ++ post
      /\ collected (cs, e) = trivia_of pre /\ map c_value cs = nodes_of pre.
Proof.
  intros items cs e Hn H. rewrite src_children_eq in H.
  exact (C19_children_partition_lossless_loose items cs e Hn H).
Qed.
Print Assumptions C19_source_children_partition_lossless_loose.

(** corollary (the blank-line cap): the translated flags depend only on whether the number of line
    ends between two items is 0, 1 or at least 2 — any number of blank lines is one blank line *)
Theorem C19_source_blank_lines_capped :
  forall prev_inline tt,
    let n := (count_newlines_before tt
              + match prev_inline with Some p => count_newlines_after p | None => 0 end)%nat in
    gen_should_start prev_inline tt = (Nat.leb 2 n, Nat.leb 1 n).
Proof. intros. rewrite gen_should_start_eq. reflexivity. Qed.
Print Assumptions C19_source_blank_lines_capped.

(** non-vacuity: the translated kernel computes, and the decisions the mutations aim at are visible *)
Example C19_source_nonvacuous_children :
  src_children_case
     [ITriv MLc [47;42;97;42;47]; INode 1; ITriv MLc [47;42;98;42;47]; ISep; ITriv Ws [10]; INode 2]
  = Some ([(false, [(1, [47;42;97;42;47])], 1, [(1, [47;42;98;42;47])], false);
           (false, [(0, [10])], 2, [], true)], (false, [])).
Proof. vm_compute. reflexivity. Qed.
(** a block comment containing a line end is NOT an inline comment of the item before it *)
Example C19_source_multiline_comment_not_inline :
  src_children_case [INode 1; ITriv MLc [47;42;10;42;47]; INode 2]
  = Some ([(false, [], 1, [], false); (false, [(1, [47;42;10;42;47])], 2, [], false)], (false, [])).
Proof. vm_compute. reflexivity. Qed.
(** two line ends start the next item with a blank line, one does not; five count as two *)
Example C19_source_blank_line_flags :
  gen_should_start None [TOk Ws [10]] = (false, true)
  /\ gen_should_start None [TOk Ws [10; 32; 10]] = (true, true)
  /\ gen_should_start None [TOk Ws [10; 10; 10; 10; 10]] = (true, true)
  /\ gen_should_start (Some [TOk SlashC [47; 47; 97]]) [TOk Ws [10]] = (true, true).
Proof. vm_compute. repeat split; reflexivity. Qed.
