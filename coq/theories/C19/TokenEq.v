(** C19 — the reduction "same non-trivia tokens => same program", over an arbitrary
    deterministic parser that is handed the lexemes with the trivia kinds filtered out (what
    jrsonnet-ir-parser's Parser::new does) and whose result does not depend on source
    positions once they are erased. *)
From Coq Require Import List NArith Bool.
From JrV Require Import C19.Model.
Import ListNotations.

Section TokenEq.
  Variable is_trivia : N -> bool.
  Variable tree : Type.
  (** the parser proper: sees kinds, texts AND spans of the non-trivia lexemes *)
  Variable P : list lexeme -> tree.
  (** erasure of source positions from a tree *)
  Variable erase : tree -> tree.
  (** position-independence of the parser: lexeme lists that agree on kinds and texts give
      trees that agree after erasure (true of any parser that uses spans only to fill
      position fields) *)
  Hypothesis P_positions_only :
    forall l1 l2, map unspan l1 = map unspan l2 -> erase (P l1) = erase (P l2).

  Definition parse (ls : list lexeme) : tree := P (nontrivia is_trivia ls).

  Lemma parse_depends_on_tokens ls1 ls2 :
    map unspan (nontrivia is_trivia ls1) = map unspan (nontrivia is_trivia ls2) ->
    erase (parse ls1) = erase (parse ls2).
  Proof. intros H. unfold parse. apply P_positions_only. exact H. Qed.
End TokenEq.

(** inserting, deleting or rewriting trivia lexemes anywhere does not change the non-trivia
    token list *)
Lemma nontrivia_app is_trivia a b :
  nontrivia is_trivia (a ++ b) = nontrivia is_trivia a ++ nontrivia is_trivia b.
Proof. unfold nontrivia. apply filter_app. Qed.

Lemma nontrivia_insert is_trivia a t b :
  forallb (fun l => is_trivia (lx_kind l)) t = true ->
  nontrivia is_trivia (a ++ t ++ b) = nontrivia is_trivia (a ++ b).
Proof.
  intros H. rewrite !nontrivia_app. f_equal.
  replace (nontrivia is_trivia t) with (@nil lexeme); [reflexivity|].
  induction t as [|x t IH]; simpl; auto.
  simpl in H. apply andb_true_iff in H. destruct H as [H1 H2]. rewrite H1. simpl. auto.
Qed.
