(** C19 / C20 — source tie, definitions only.  The loop of [children] (children.rs) run over the
    TRANSLATED pieces of Gen/GenFmt.v: [gen_init_st] (the `let mut` state variables),
    [gen_step] (one iteration of `for item in items`, translated statement by statement),
    [gen_finish] (the statements after the loop).  Only the iteration scheme itself
    (a `for` loop with `continue` / `break`, a panic aborting everything) is written here. *)
From Coq Require Import List NArith Bool.
From JrV Require Import C19.Model Gen.GenFmt.
Import ListNotations.
Open Scope N_scope.

Fixpoint src_run_loop (loose : bool) (s : st) (items : list item) : option (st * list item) :=
  match items with
  | [] => Some (s, [])
  | it :: r =>
      match gen_step loose s it with
      | Continue s' => src_run_loop loose s' r
      | Break s' => Some (s', it :: r)
      | StepPanic => None
      end
  end.

(** [children(items, loose, trailing)] as the source says it *)
Definition src_children (loose : bool) (trailing : option (list tr)) (items : list item)
  : option (list child * ending) :=
  match src_run_loop loose (gen_init_st trailing) items with
  | Some (s, _) => Some (gen_finish s)
  | None => None
  end.

(** the sensitivity of the translation: the same item list under the translated kernel, as
    observable codes (used by the check to look for a deviating input) *)
Definition src_children_case (items : list item) :=
  match src_children false None items with
  | Some (cs, e) => Some (map child_code cs, (e_nl e, map tr_code (e_trivia e)))
  | None => None
  end.
