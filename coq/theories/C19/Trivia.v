(** C19 — proofs about the [children] kernel (children.rs). *)
From Coq Require Import List NArith Bool Lia Permutation.
From JrV Require Import C19.Model.
Import ListNotations.

Definition cur_triv (o : option child) : list tr :=
  match o with Some c => c_before c ++ c_inline c | None => [] end.

Definition flat (s : st) : list tr :=
  flat_map (fun c => c_before c ++ c_inline c) (s_out s) ++ cur_triv (s_cur s) ++ s_next s.

Definition vals (s : st) : list N :=
  map c_value (s_out s) ++ map c_value (opt_list (s_cur s)).

(** nothing waits in [next] unless [started_next] is set — true as long as no error element
    was met (error elements are pushed to [next] without setting the flag) *)
Definition Inv (s : st) : Prop :=
  s_trailing s = None /\ (s_started s = false -> s_next s = []).

Definition not_err (it : item) : bool := match it with IErr _ => false | _ => true end.

Lemma flat_map_app' {A B} (f : A -> list B) l1 l2 :
  flat_map f (l1 ++ l2) = flat_map f l1 ++ flat_map f l2.
Proof. induction l1; simpl; auto. rewrite IHl1, app_assoc. reflexivity. Qed.

Lemma flat_out_cur (out : list child) (cur : option child) :
  flat_map (fun c => c_before c ++ c_inline c) (out ++ opt_list cur)
  = flat_map (fun c => c_before c ++ c_inline c) out ++ cur_triv cur.
Proof.
  rewrite flat_map_app'. destruct cur; simpl; auto. rewrite app_nil_r. reflexivity.
Qed.

Lemma step_continue loose s it s' :
  Inv s -> not_err it = true -> step loose s it = Continue s' ->
  Inv s' /\ flat s' = flat s ++ tr_of_item it
  /\ vals s' = vals s ++ match it with INode n => [n] | _ => [] end.
Proof.
  intros [Ht Hn] Hne Hs. destruct s as [out cur nxt started had trailing].
  simpl in Ht. subst trailing. simpl in Hn.
  destruct it as [v | k text | text | | ]; simpl in Hs; try discriminate.
  - (* node *)
    destruct (should_start (option_map c_inline cur) nxt) as [ssn multi].
    inversion Hs; subst s'; clear Hs. unfold Inv, flat, vals; simpl.
    split; [split; auto|]. split.
    + rewrite flat_out_cur. rewrite ?app_nil_r. rewrite <- ?app_assoc. reflexivity.
    + rewrite ?map_app. simpl. rewrite ?app_nil_r. rewrite <- ?app_assoc. reflexivity.
  - (* trivia *)
    destruct (started || is_none cur || (contains_nl text && negb (single_line_comment k))) eqn:E.
    + inversion Hs; subst s'; clear Hs. unfold Inv, flat, vals; simpl.
      split; [split; [auto | discriminate]|]. split; [|rewrite ?app_nil_r; reflexivity].
      rewrite <- ?app_assoc. reflexivity.
    + destruct cur as [c|]; [|discriminate].
      inversion Hs; subst s'; clear Hs.
      apply orb_false_iff in E. destruct E as [E _]. apply orb_false_iff in E. destruct E as [E _].
      subst started. specialize (Hn eq_refl). subst nxt.
      unfold Inv, flat, vals; simpl.
      split; [split; [auto|]|].
      * destruct (single_line_comment k); [discriminate | auto].
      * split; [|rewrite ?app_nil_r; reflexivity].
        rewrite ?app_nil_r. rewrite <- ?app_assoc. reflexivity.
  - (* separator *)
    destruct loose.
    + destruct had; [discriminate|]. inversion Hs; subst s'; clear Hs.
      unfold Inv, flat, vals; simpl. split; [split; [auto|discriminate]|].
      rewrite ?app_nil_r. auto.
    + inversion Hs; subst s'; clear Hs. unfold Inv, flat, vals; simpl.
      split; [split; auto|]. rewrite ?app_nil_r. auto.
  - (* other *)
    destruct loose; [|discriminate].
    destruct had; [discriminate|]. inversion Hs; subst s'; clear Hs.
    unfold Inv, flat, vals; simpl. split; [split; [auto|discriminate]|].
    rewrite ?app_nil_r. auto.
Qed.

Lemma step_break loose s it s' : step loose s it = Break s' -> s' = s /\ loose = true.
Proof.
  destruct s as [out cur nxt started had trailing].
  destruct it as [v | k text | text | | ]; simpl; intros H.
  - destruct trailing as [t|]; [destruct (is_empty nxt)|];
      try discriminate;
      destruct (should_start _ _); discriminate.
  - destruct trailing; [discriminate|].
    destruct (started || is_none cur || _); [discriminate|]. destruct cur; discriminate.
  - discriminate.
  - destruct loose; [|discriminate]. destruct had; [|discriminate]. inversion H. auto.
  - destruct loose; [|discriminate]. destruct had; [|discriminate]. inversion H. auto.
Qed.

Lemma run_loop_inv loose : forall items s s' rest,
  Inv s -> forallb not_err items = true ->
  run_loop loose s items = Some (s', rest) ->
  exists pre, items = pre ++ rest
    /\ flat s' = flat s ++ trivia_of pre
    /\ vals s' = vals s ++ nodes_of pre
    /\ (loose = false -> rest = []).
Proof.
  induction items as [|it r IH]; intros s s' rest HI Hne H; simpl in H.
  - inversion H; subst. exists []. simpl. rewrite !app_nil_r. auto.
  - simpl in Hne. apply andb_true_iff in Hne. destruct Hne as [Hit Hr].
    destruct (step loose s it) as [s1 | s1 |] eqn:E; [| |discriminate].
    + destruct (step_continue _ _ _ _ HI Hit E) as [HI1 [Hf Hv]].
      destruct (IH _ _ _ HI1 Hr H) as [pre [Hp [Hf' [Hv' Hl]]]].
      exists (it :: pre). split; [simpl; congruence|].
      unfold trivia_of, nodes_of in *. simpl.
      split; [rewrite Hf', Hf, <- app_assoc; reflexivity|].
      split; [|exact Hl]. rewrite Hv', Hv, <- app_assoc. reflexivity.
    + inversion H; subst. destruct (step_break _ _ _ _ E) as [-> ->].
      exists []. simpl. rewrite !app_nil_r. repeat split; auto. discriminate.
Qed.

Lemma no_err_forallb items : no_err items = forallb not_err items.
Proof. reflexivity. Qed.

Lemma collected_finish s : collected (finish s) = flat s.
Proof.
  unfold collected, finish, flat; simpl. rewrite flat_out_cur, <- app_assoc. reflexivity.
Qed.

Lemma init_inv : Inv (init_st None).
Proof. split; auto. Qed.

(** non-loose call (every call site in lib.rs): all trivia, in input order, and every child *)
Lemma children_lossless items cs e :
  no_err items = true ->
  children false None items = Some (cs, e) ->
  collected (cs, e) = trivia_of items /\ map c_value cs = nodes_of items.
Proof.
  unfold children. intros Hne H.
  destruct (run_loop false (init_st None) items) as [[s rest]|] eqn:E; [|discriminate].
  assert (Hfin : finish s = (cs, e)) by congruence. clear H.
  destruct (run_loop_inv false items _ _ _ init_inv Hne E) as [pre [Hp [Hf [Hv Hl]]]].
  rewrite (Hl eq_refl), app_nil_r in Hp. subst pre.
  split.
  - rewrite <- Hfin. rewrite collected_finish, Hf. reflexivity.
  - replace cs with (fst (finish s)) by (rewrite Hfin; reflexivity).
    unfold finish; simpl. rewrite map_app. exact Hv.
Qed.

(** loose call: the same for the consumed prefix *)
Lemma children_lossless_loose items cs e :
  no_err items = true ->
  children true None items = Some (cs, e) ->
  exists pre post, items = pre ++ post
    /\ collected (cs, e) = trivia_of pre /\ map c_value cs = nodes_of pre.
Proof.
  unfold children. intros Hne H.
  destruct (run_loop true (init_st None) items) as [[s rest]|] eqn:E; [|discriminate].
  assert (Hfin : finish s = (cs, e)) by congruence. clear H.
  destruct (run_loop_inv true items _ _ _ init_inv Hne E) as [pre [Hp [Hf [Hv _]]]].
  exists pre, rest. split; auto. split.
  - rewrite <- Hfin. rewrite collected_finish, Hf. reflexivity.
  - replace cs with (fst (finish s)) by (rewrite Hfin; reflexivity).
    unfold finish; simpl. rewrite map_app. exact Hv.
Qed.

(** no assert of [children] can fire in a non-loose call on trivia / nodes / separators *)
Definition sep_only (it : item) : bool := match it with IOther => false | _ => true end.

Lemma step_no_panic s it :
  s_trailing s = None -> sep_only it = true -> step false s it <> StepPanic.
Proof.
  intros Ht Hs. destruct s as [out cur nxt started had trailing]. simpl in Ht. subst.
  destruct it as [v | k text | text | | ]; simpl; try discriminate.
  destruct (started || is_none cur || (contains_nl text && negb (single_line_comment k))) eqn:E; [discriminate|].
  destruct cur; [discriminate|].
  rewrite orb_false_iff in E. destruct E as [E _]. rewrite orb_false_iff in E.
  destruct E as [_ E]. discriminate.
Qed.

Lemma step_keeps_trailing_none s it s' :
  s_trailing s = None -> step false s it = Continue s' -> s_trailing s' = None.
Proof.
  intros Ht H. destruct s as [out cur nxt started had trailing]. simpl in Ht. subst.
  destruct it as [v | k text | text | | ]; simpl in H.
  - inversion H. reflexivity.
  - destruct (started || is_none cur || (contains_nl text && negb (single_line_comment k))); [inversion H; reflexivity|].
    destruct cur; [inversion H; reflexivity|discriminate].
  - inversion H. reflexivity.
  - inversion H. reflexivity.
  - discriminate.
Qed.

Lemma run_loop_total : forall items s,
  s_trailing s = None -> forallb sep_only items = true ->
  run_loop false s items <> None.
Proof.
  induction items as [|it r IH]; intros s Ht Hs; simpl; [discriminate|].
  simpl in Hs. apply andb_true_iff in Hs. destruct Hs as [Hi Hr].
  destruct (step false s it) as [s1|s1|] eqn:E.
  - apply IH; auto. eapply step_keeps_trailing_none; eauto.
  - discriminate.
  - exfalso. eapply step_no_panic; eauto.
Qed.

Lemma children_total items :
  forallb sep_only items = true -> children false None items <> None.
Proof.
  intros H. unfold children.
  destruct (run_loop false (init_st None) items) as [[s r]|] eqn:E; [discriminate|].
  exfalso. eapply run_loop_total; eauto. reflexivity.
Qed.

(** with an error element the order is NOT kept: the element waits in [next] while a later
    comment is still attached inline to the previous child *)
Lemma children_reorders_with_error :
  exists items cs e, children false None items = Some (cs, e)
     /\ collected (cs, e) <> trivia_of items.
Proof.
  exists [INode 1; IErr [101]; ITriv MLc [47; 42; 99; 42; 47]; INode 2].
  eexists. eexists. split; [vm_compute; reflexivity|]. vm_compute. discriminate.
Qed.
