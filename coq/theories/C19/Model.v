(** C19 / C20 — models of the formatter's two hand-written pure kernels and of the
    "parser only sees non-trivia tokens" reduction.  DEFINITIONS ONLY.

    IMPL-MODEL part 1 (Trivia): crates/jrsonnet-formatter/src/children.rs
       [children], [should_start_with_newline], [count_newlines_before/after]
       transliterated over an abstract item list.
    IMPL-MODEL part 2 (Comments): crates/jrsonnet-formatter/src/comments.rs
       [format_comments] for the three comment kinds, as a function from the comment token's
       text to the list of output lines.
    SPEC: the trivia of the input, in input order ([trivia_of]); the comment's text lines
       with a whitespace / `*` gutter removed ([gutter_suffix]); fixed point of
       render-then-format.
    Strings are lists of code points ([list N]). *)
From Coq Require Import List NArith Bool.
Import ListNotations.
Open Scope N_scope.

Definition str := list N.

(* ------------------------------------------------------------------ characters *)
Definition NL : N := 10.
Definition TAB : N := 9.
Definition SP : N := 32.
Definition STAR : N := 42.
Definition SLASH : N := 47.
Definition HASH : N := 35.

(** Rust [char::is_whitespace] (Unicode White_Space), used by [str::trim*]. *)
Definition is_ws (c : N) : bool :=
  ((9 <=? c) && (c <=? 13)) || (c =? 32) || (c =? 133) || (c =? 160) || (c =? 5760)
  || ((8192 <=? c) && (c <=? 8202)) || (c =? 8232) || (c =? 8233) || (c =? 8239)
  || (c =? 8287) || (c =? 12288).

(** Rust [u8::is_ascii_whitespace]: space, \t, \n, \x0C, \r  (NOT \x0B). *)
Definition is_ascii_ws (c : N) : bool :=
  (c =? 32) || (c =? 9) || (c =? 10) || (c =? 12) || (c =? 13).

(** the bytes [common_ws_prefix] accepts into the padding *)
Definition is_gutter (c : N) : bool := is_ascii_ws c || (c =? STAR).

(* ------------------------------------------------------------------ string helpers *)
Fixpoint drop_while (p : N -> bool) (s : str) : str :=
  match s with
  | [] => []
  | c :: r => if p c then drop_while p r else s
  end.

Definition trim_start (s : str) : str := drop_while is_ws s.
Definition trim_end (s : str) : str := rev (drop_while is_ws (rev s)).
Definition trim (s : str) : str := trim_end (trim_start s).

Definition is_empty {A} (l : list A) : bool := match l with [] => true | _ => false end.

Fixpoint str_eqb (a b : str) : bool :=
  match a, b with
  | [], [] => true
  | x :: a', y :: b' => (x =? y) && str_eqb a' b'
  | _, _ => false
  end.

(** [str::strip_prefix] *)
Fixpoint strip_prefix (p s : str) : option str :=
  match p, s with
  | [], _ => Some s
  | x :: p', y :: s' => if x =? y then strip_prefix p' s' else None
  | _ :: _, [] => None
  end.

Definition strip_suffix (p s : str) : option str :=
  match strip_prefix (rev p) (rev s) with
  | Some r => Some (rev r)
  | None => None
  end.

(** [str::split('\n')]: always at least one piece *)
Fixpoint split_nl_aux (cur : str) (s : str) : list str :=
  match s with
  | [] => [rev cur]
  | c :: r => if c =? NL then rev cur :: split_nl_aux [] r else split_nl_aux (c :: cur) r
  end.
Definition split_nl (s : str) : list str := split_nl_aux [] s.

Fixpoint join_nl (ls : list str) : str :=
  match ls with
  | [] => []
  | [l] => l
  | l :: r => l ++ NL :: join_nl r
  end.

Definition count_nl (s : str) : nat := length (filter (fun c => c =? NL) s).
Definition contains_nl (s : str) : bool := existsb (fun c => c =? NL) s.

(* ================================================================== *)
(** * Part 1: children.rs                                              *)
(* ================================================================== *)
Inductive tkind := Ws | MLc | ErrShort | ErrUnterm | HashC | SlashC.

(** one element of [ChildTrivia = Vec<Result<Trivia, String>>] *)
Inductive tr :=
| TOk (k : tkind) (text : str)
| TErr (text : str).

(** what [children] can meet while iterating the syntax elements of a node *)
Inductive item :=
| INode (n : N)                 (* a child node that casts to T; [n] identifies it *)
| ITriv (k : tkind) (text : str)(* a trivia token *)
| IErr (text : str)             (* a CustomError element (only present on syntax errors) *)
| ISep                          (* a `,` or `;` token *)
| IOther.                       (* anything else *)

Record child := mkChild {
  c_nl : bool;          (* should_start_with_newline *)
  c_before : list tr;
  c_value : N;
  c_inline : list tr;
  c_multi : bool        (* triggers_multiline *)
}.

Record ending := mkEnding { e_nl : bool; e_trivia : list tr }.

Definition single_line_comment (k : tkind) : bool :=
  match k with HashC | SlashC => true | _ => false end.

(** [count_newlines_before] *)
Fixpoint count_newlines_before (tt : list tr) : nat :=
  match tt with
  | [] => 0
  | TOk Ws text :: r => count_nl text + count_newlines_before r
  | TOk _ _ :: _ => 0
  | TErr _ :: r => 1 + count_newlines_before r
  end%nat.

(** [count_newlines_after]: iterates the REVERSED list *)
Fixpoint count_newlines_after_rev (tt : list tr) : nat :=
  match tt with
  | [] => 0
  | TOk Ws text :: r => count_nl text + count_newlines_after_rev r
  | TOk HashC _ :: _ => 1
  | TOk SlashC _ :: _ => 1
  | TOk _ _ :: r => count_newlines_after_rev r
  | TErr _ :: r => 1 + count_newlines_after_rev r
  end%nat.
Definition count_newlines_after (tt : list tr) : nat := count_newlines_after_rev (rev tt).

(** [should_start_with_newline(prev_inline, tt)] = (count >= 2, count >= 1) *)
Definition should_start (prev_inline : option (list tr)) (tt : list tr) : bool * bool :=
  let count := (count_newlines_before tt
                + match prev_inline with Some p => count_newlines_after p | None => 0 end)%nat in
  (Nat.leb 2 count, Nat.leb 1 count).

Record st := mkSt {
  s_out : list child;            (* in output order *)
  s_cur : option child;
  s_next : list tr;
  s_started : bool;              (* started_next *)
  s_had : bool;                  (* had_some *)
  s_trailing : option (list tr)
}.

Inductive step_res := Continue (s : st) | Break (s : st) | StepPanic.

Definition push_inline (c : child) (t : tr) : child :=
  mkChild (c_nl c) (c_before c) (c_value c) (c_inline c ++ [t]) (c_multi c).

Definition is_none {A} (o : option A) : bool := match o with None => true | Some _ => false end.

Definition opt_list {A} (o : option A) : list A := match o with Some x => [x] | None => [] end.

(** one iteration of the [for item in items] loop of [children] *)
Definition step (loose : bool) (s : st) (it : item) : step_res :=
  match it with
  | INode v =>
      match (match s_trailing s with
             | Some t => if is_empty (s_next s) then Some t else None   (* assert!(next.is_empty()) *)
             | None => Some (s_next s)                                  (* mem::take(&mut next) *)
             end) with
      | None => StepPanic
      | Some before =>
          let '(ssn, multi) := should_start (option_map c_inline (s_cur s)) before in
          let c := mkChild (s_had s && ssn) before v [] multi in
          Continue (mkSt (s_out s ++ opt_list (s_cur s)) (Some c) [] false true None)
      end
  | ITriv k text =>
      match s_trailing s with
      | Some _ => Continue s                                  (* continue; had_some NOT set *)
      | None =>
          if s_started s || is_none (s_cur s)
             || (contains_nl text && negb (single_line_comment k))
          then Continue (mkSt (s_out s) (s_cur s) (s_next s ++ [TOk k text]) true true None)
          else
            match s_cur s with
            | None => StepPanic                                (* expect("checked not none") *)
            | Some c =>
                Continue (mkSt (s_out s) (Some (push_inline c (TOk k text))) (s_next s)
                               (if single_line_comment k then true else s_started s) true None)
            end
      end
  | IErr text =>
      Continue (mkSt (s_out s) (s_cur s) (s_next s ++ [TErr text]) (s_started s) (s_had s)
                     (s_trailing s))
  | ISep =>
      if loose then
        if s_had s then Break s
        else Continue (mkSt (s_out s) (s_cur s) (s_next s) true (s_had s) (s_trailing s))
      else Continue s
  | IOther =>
      if loose then
        if s_had s then Break s
        else Continue (mkSt (s_out s) (s_cur s) (s_next s) true (s_had s) (s_trailing s))
      else StepPanic                                           (* "silently eaten token" *)
  end.

(** the loop; returns the final state and the items NOT consumed (after a loose [break]) *)
Fixpoint run_loop (loose : bool) (s : st) (items : list item) : option (st * list item) :=
  match items with
  | [] => Some (s, [])
  | it :: r =>
      match step loose s it with
      | Continue s' => run_loop loose s' r
      | Break s' => Some (s', it :: r)
      | StepPanic => None
      end
  end.

Definition init_st (trailing : option (list tr)) : st := mkSt [] None [] false false trailing.

Definition finish (s : st) : list child * ending :=
  (s_out s ++ opt_list (s_cur s),
   mkEnding (fst (should_start (option_map c_inline (s_cur s)) (s_next s))) (s_next s)).

(** [children(items, loose, trailing)]; [None] = one of its asserts fired *)
Definition children (loose : bool) (trailing : option (list tr)) (items : list item)
  : option (list child * ending) :=
  match run_loop loose (init_st trailing) items with
  | Some (s, _) => Some (finish s)
  | None => None
  end.

Definition consumed (loose : bool) (trailing : option (list tr)) (items : list item)
  : option (list item) :=
  match run_loop loose (init_st trailing) items with
  | Some (_, rest) => Some (firstn (length items - length rest) items)
  | None => None
  end.

(** ** SPEC side *)
Definition tr_of_item (it : item) : list tr :=
  match it with
  | ITriv k t => [TOk k t]
  | IErr t => [TErr t]
  | _ => []
  end.
(** the trivia of the input, in input order *)
Definition trivia_of (items : list item) : list tr := flat_map tr_of_item items.
Definition nodes_of (items : list item) : list N :=
  flat_map (fun it => match it with INode n => [n] | _ => [] end) items.
Definition no_err (items : list item) : bool :=
  forallb (fun it => match it with IErr _ => false | _ => true end) items.
(** the trivia collected by [children], concatenated in the order the printers emit them:
    before-comments, the value, inline comments, ... and the ending comments last *)
Definition collected (r : list child * ending) : list tr :=
  flat_map (fun c => c_before c ++ c_inline c) (fst r) ++ e_trivia (snd r).

(* ================================================================== *)
(** * Part 2: comments.rs                                              *)
(* ================================================================== *)

(** ** single-line comments: [# text] and [// text] (token text includes the line end) *)
Definition fmt_hash (text : str) : option str :=
  option_map trim (strip_prefix [HASH] text).
Definition fmt_slash (text : str) : option str :=
  option_map trim (strip_prefix [SLASH; SLASH] text).
(** what is printed for the body *)
Definition render_hash (body : str) : str := HASH :: SP :: body.
Definition render_slash (body : str) : str := SLASH :: SLASH :: SP :: body.

(** ** multi-line comments *)
Inductive ml_out :=
| MLNothing                                  (* nothing at all is printed *)
| MLSingle (body : str)                      (* [/* body */] *)
| MLMulti (doc : bool) (lines : list str).   (* [/*] or [/**], one line per element, [*/] *)

(** [common_ws_prefix(a, b)] *)
Fixpoint common_ws_prefix (a b : str) : str :=
  match a, b with
  | x :: a', y :: b' => if (x =? y) && is_gutter x then x :: common_ws_prefix a' b' else []
  | _, _ => []
  end.

Fixpoint drop_trailing_empty_rev (ls : list str) : list str :=
  match ls with
  | [] => []
  | l :: r => if is_empty l then drop_trailing_empty_rev r else ls
  end.
(** [while lines.last().is_some_and(String::is_empty) { lines.pop(); }] *)
Definition drop_trailing_empty (ls : list str) : list str := rev (drop_trailing_empty_rev (rev ls)).
Fixpoint drop_leading_empty (ls : list str) : list str :=
  match ls with
  | [] => []
  | l :: r => if is_empty l then drop_leading_empty r else ls
  end.

Definition nonempty_lines (ls : list str) : list str := filter (fun l => negb (is_empty l)) ls.

(** strip the padding from every non-empty line; [None] is the
    [expect("all non-empty lines start with this padding")] *)
Fixpoint strip_all (pad : str) (ls : list str) : option (list str) :=
  match ls with
  | [] => Some []
  | l :: r =>
      match (if is_empty l then Some l else strip_prefix pad l), strip_all pad r with
      | Some l', Some r' => Some (l' :: r')
      | _, _ => None
      end
  end.

(** the body of the [MultiLineComment] arm, from the text between [/*] and [*/] *)
Definition fmt_ml_body (text0 : str) : option ml_out :=
  let '(doc, text) := match text0 with
                      | c :: r => if c =? STAR then (true, r) else (false, text0)
                      | [] => (false, text0)
                      end in
  let ls0 := map trim_end (split_nl text) in
  let immediate_start := match ls0 with l :: _ => negb (is_empty l) | [] => true end in
  let lines := drop_trailing_empty (drop_leading_empty ls0) in
  match lines with
  | [] => Some MLNothing
  | l0 :: rest =>
      if is_empty rest && negb doc then Some (MLSingle (trim l0))
      else
        let seed := if immediate_start && negb (is_empty rest)
                    then match rest with l1 :: _ => common_ws_prefix l1 l1 | [] => [] end
                    else common_ws_prefix l0 l0 in
        let others := nonempty_lines (skipn (if immediate_start then 2 else 1) lines) in
        let pad := fold_left common_ws_prefix others seed in
        match (if immediate_start
               then option_map (cons l0) (strip_all pad rest)
               else strip_all pad lines) with
        | Some ls => Some (MLMulti doc ls)
        | None => None
        end
  end.

(** the whole arm, from the token text; [None] = a panic ([expect]) *)
Definition fmt_ml (tok : str) : option ml_out :=
  match strip_prefix [SLASH; STAR] tok with
  | None => None
  | Some t1 =>
      match strip_suffix [STAR; SLASH] t1 with
      | None => None
      | Some body => fmt_ml_body body
      end
  end.

(** leading tabs of a doc-comment line become four spaces each; in a plain comment they are
    sent as Tab signals, which dprint prints as a tab *)
Fixpoint tabs_to_spaces (l : str) : str :=
  match l with
  | c :: r => if c =? TAB then SP :: SP :: SP :: SP :: tabs_to_spaces r else l
  | [] => []
  end.

(** the text lines printed for an outcome, without the indentation dprint adds *)
Definition render_ml_lines (o : ml_out) : list str :=
  match o with
  | MLNothing => []
  | MLSingle b => [[SLASH; STAR; SP] ++ b ++ [SP; STAR; SLASH]]
  | MLMulti false ls => [[SLASH; STAR]] ++ ls ++ [[STAR; SLASH]]
  | MLMulti true ls =>
      [[SLASH; STAR; STAR]]
      ++ map (fun l => if is_empty l then [SP; STAR] else [SP; STAR; SP] ++ tabs_to_spaces l) ls
      ++ [[SP; STAR; SLASH]]
  end.

(** dprint writes the current indentation in front of every non-empty line; the first line
    of the comment starts after the indentation (it is outside the comment token) *)
Definition indent_line (ind l : str) : str := if is_empty l then l else ind ++ l.
Definition render_ml (ind : str) (o : ml_out) : str :=
  match render_ml_lines o with
  | [] => []
  | first :: rest => join_nl (first :: map (indent_line ind) rest)
  end.

(** strings handed to dprint as one [string(..)] item by the comment printer; dprint's debug
    build panics when one of them contains a tab or a newline *)
Definition ml_strings (o : ml_out) : list str :=
  match o with
  | MLNothing => []
  | MLSingle b => [b]
  | MLMulti doc ls => map (drop_while (fun c => c =? TAB)) ls
  end.
Definition dprint_ok (s : str) : bool := forallb (fun c => negb (c =? TAB) && negb (c =? NL)) s.

(** SPEC relation between an input line and the line printed for it: the printed line is a
    suffix of the input line (trailing whitespace removed) and what was cut off in front is
    gutter: ASCII whitespace and `*` only. *)
Definition gutter_suffix (inp out : str) : Prop :=
  exists g, trim_end inp = g ++ out /\ forallb is_gutter g = true.

(** the non-blank lines of a comment body *)
Definition body_lines (body : str) : list str :=
  drop_trailing_empty (drop_leading_empty (map trim_end (split_nl body))).

(** fixed point of render-then-format at indentation [ind] *)
Definition ml_stable (ind : str) (tok : str) : Prop :=
  match fmt_ml tok with
  | Some o => o = MLNothing \/ fmt_ml (render_ml ind o) = Some o
  | None => False
  end.
Definition ml_text_stable (ind : str) (tok : str) : bool :=
  match fmt_ml tok with
  | Some MLNothing => true
  | Some o => match fmt_ml (render_ml ind o) with
              | Some o' => str_eqb (render_ml ind o') (render_ml ind o)
              | None => false
              end
  | None => false
  end.

(* ================================================================== *)
(** * Part 3: a parser that only sees non-trivia tokens                *)
(* ================================================================== *)
(** lexeme kinds are opaque numbers (SyntaxKind discriminants); the four kinds the evaluator's
    parser filters out (jrsonnet-ir-parser/src/lib.rs Parser::new) are given as a predicate *)
Record lexeme := mkLex { lx_kind : N; lx_text : str; lx_start : N; lx_end : N }.
Definition nontrivia (is_trivia : N -> bool) (ls : list lexeme) : list lexeme :=
  filter (fun l => negb (is_trivia (lx_kind l))) ls.
(** what a position-insensitive observer sees of a lexeme *)
Definition unspan (l : lexeme) : N * str := (lx_kind l, lx_text l).

(** helper for the correspondence: everything about one block comment *)
Definition ml_case (ind tok : str) :=
  (fmt_ml tok, option_map (render_ml ind) (fmt_ml tok), ml_text_stable ind tok).
(** helper for the correspondence: partition of an item list, flags included *)
Definition tr_code (t : tr) : N * str :=
  match t with
  | TOk Ws s => (0, s) | TOk MLc s => (1, s) | TOk ErrShort s => (2, s)
  | TOk ErrUnterm s => (3, s) | TOk HashC s => (4, s) | TOk SlashC s => (5, s)
  | TErr s => (6, s)
  end.
Definition child_code (c : child) :=
  (c_nl c, map tr_code (c_before c), c_value c, map tr_code (c_inline c), c_multi c).
Definition children_case (items : list item) :=
  match children false None items with
  | Some (cs, e) => Some (map child_code cs, (e_nl e, map tr_code (e_trivia e)))
  | None => None
  end.
