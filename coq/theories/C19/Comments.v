(** C19 / C20 — proofs about the comment printer kernel (comments.rs). *)
From Coq Require Import List NArith Bool Lia.
From JrV Require Import C19.Model.
Import ListNotations.
Open Scope N_scope.

Definition prefix (p l : str) : Prop := exists r, l = p ++ r.
Definition all_gutter (g : str) : Prop := forallb is_gutter g = true.

Lemma prefix_refl l : prefix l l.
Proof. exists []. rewrite app_nil_r. reflexivity. Qed.

Lemma prefix_nil l : prefix [] l.
Proof. exists l. reflexivity. Qed.

Lemma prefix_trans a b c : prefix a b -> prefix b c -> prefix a c.
Proof. intros [r1 ->] [r2 ->]. exists (r1 ++ r2). rewrite app_assoc. reflexivity. Qed.

Lemma cwp_prefix_l : forall a b, prefix (common_ws_prefix a b) a.
Proof.
  induction a as [|x a IH]; intros b; simpl; [apply prefix_nil|].
  destruct b as [|y b]; [apply prefix_nil|].
  destruct ((x =? y) && is_gutter x); [|apply prefix_nil].
  destruct (IH b) as [r Hr]. exists r. simpl. congruence.
Qed.

Lemma cwp_prefix_r : forall a b, prefix (common_ws_prefix a b) b.
Proof.
  induction a as [|x a IH]; intros b; simpl; [apply prefix_nil|].
  destruct b as [|y b]; [apply prefix_nil|].
  destruct ((x =? y) && is_gutter x) eqn:E; [|apply prefix_nil].
  apply andb_true_iff in E. destruct E as [E _]. apply N.eqb_eq in E. subst y.
  destruct (IH b) as [r Hr]. exists r. simpl. congruence.
Qed.

Lemma cwp_gutter : forall a b, all_gutter (common_ws_prefix a b).
Proof.
  unfold all_gutter.
  induction a as [|x a IH]; intros b; simpl; auto.
  destruct b as [|y b]; auto.
  destruct ((x =? y) && is_gutter x) eqn:E; auto.
  apply andb_true_iff in E. destruct E as [_ E]. simpl. rewrite E, IH. reflexivity.
Qed.

Lemma prefix_gutter p g : prefix p g -> all_gutter g -> all_gutter p.
Proof.
  unfold all_gutter. intros [r ->] H. rewrite forallb_app in H.
  apply andb_true_iff in H. tauto.
Qed.

Lemma fold_cwp_prefix : forall others seed,
  prefix (fold_left common_ws_prefix others seed) seed
  /\ Forall (prefix (fold_left common_ws_prefix others seed)) others.
Proof.
  induction others as [|o r IH]; intros seed; simpl.
  - split; [apply prefix_refl | constructor].
  - destruct (IH (common_ws_prefix seed o)) as [H1 H2]. split.
    + eapply prefix_trans; [exact H1 | apply cwp_prefix_l].
    + constructor; auto. eapply prefix_trans; [exact H1 | apply cwp_prefix_r].
Qed.

Lemma strip_prefix_prefix : forall p l, prefix p l -> exists r, strip_prefix p l = Some r /\ l = p ++ r.
Proof.
  induction p as [|x p IH]; intros l [r Hr]; simpl.
  - exists l. auto.
  - subst l. simpl. rewrite N.eqb_refl. destruct (IH (p ++ r)) as [r' [H1 H2]]; [exists r; auto|].
    exists r'. split; auto. congruence.
Qed.

(** relation between an input line and the printed line: a gutter prefix was cut off *)
Definition cut (inp out : str) : Prop := exists g, inp = g ++ out /\ all_gutter g.

Lemma strip_all_ok pad : all_gutter pad -> forall ls,
  Forall (fun l => is_empty l = false -> prefix pad l) ls ->
  exists ls', strip_all pad ls = Some ls' /\ Forall2 cut ls ls'.
Proof.
  intros Hg. induction ls as [|l r IH]; intros H; simpl.
  - exists []. split; auto.
  - inversion H as [|? ? Hl Hr]; subst. destruct (IH Hr) as [r' [E1 E2]]. rewrite E1.
    destruct (is_empty l) eqn:El.
    + exists (l :: r'). split; auto. constructor; auto. exists []. split; auto. reflexivity.
    + destruct (strip_prefix_prefix pad l (Hl eq_refl)) as [l' [S1 S2]]. rewrite S1.
      exists (l' :: r'). split; auto. constructor; auto. exists pad. split; auto.
Qed.

Lemma nonempty_lines_in ls l : In l ls -> is_empty l = false -> In l (nonempty_lines ls).
Proof. intros H E. unfold nonempty_lines. apply filter_In. rewrite E. auto. Qed.

Lemma is_empty_false_prefix_nil {A} (l : list A) : is_empty l = true -> l = [].
Proof. destruct l; [auto|discriminate]. Qed.

(** the outcome of the multi-line arm on ANY text between [/*] and [*/]: never the
    [expect("all non-empty lines start with this padding")], and every printed line is the
    input line with a gutter prefix removed *)
Definition lines_of (text0 : str) : list str :=
  let text := match text0 with
              | c :: r => if c =? STAR then r else text0
              | [] => text0
              end in
  body_lines text.

Lemma fmt_ml_body_ok text0 :
  exists o, fmt_ml_body text0 = Some o /\
    match o with
    | MLNothing => lines_of text0 = []
    | MLSingle b => exists l0, lines_of text0 = [l0] /\ b = trim l0
    | MLMulti doc ls => Forall2 cut (lines_of text0) ls
    end.
Proof.
  unfold fmt_ml_body, lines_of, body_lines.
  set (dt := match text0 with
             | c :: r => if c =? STAR then (true, r) else (false, text0)
             | [] => (false, text0) end).
  assert (Hsnd : snd dt = match text0 with
              | c :: r => if c =? STAR then r else text0
              | [] => text0 end).
  { unfold dt. destruct text0 as [|c r]; auto. destruct (c =? STAR); auto. }
  rewrite <- Hsnd. destruct dt as [doc text]. simpl snd. clear Hsnd.
  set (ls0 := map trim_end (split_nl text)).
  set (imm := match ls0 with l :: _ => negb (is_empty l) | [] => true end).
  destruct (drop_trailing_empty (drop_leading_empty ls0)) as [|l0 rest] eqn:EL.
  - exists MLNothing. auto.
  - destruct (is_empty rest && negb doc) eqn:E1.
    + exists (MLSingle (trim l0)). split; auto. exists l0. split; auto.
      apply andb_true_iff in E1. destruct E1 as [E1 _].
      apply is_empty_false_prefix_nil in E1. subst. reflexivity.
    + set (seed := if imm && negb (is_empty rest)
                   then match rest with l1 :: _ => common_ws_prefix l1 l1 | [] => [] end
                   else common_ws_prefix l0 l0).
      set (others := nonempty_lines (skipn (if imm then 2 else 1) (l0 :: rest))).
      set (pad := fold_left common_ws_prefix others seed).
      destruct (fold_cwp_prefix others seed) as [Hps Hpo]. fold pad in Hps, Hpo.
      assert (Hseedg : all_gutter seed).
      { unfold seed. destruct (imm && negb (is_empty rest)); [|apply cwp_gutter].
        destruct rest; [reflexivity|apply cwp_gutter]. }
      assert (Hpg : all_gutter pad) by (eapply prefix_gutter; eauto).
      rewrite Forall_forall in Hpo.
      destruct imm eqn:Ei.
      * (* first line kept as is *)
        assert (Hrest : Forall (fun l => is_empty l = false -> prefix pad l) rest).
        { destruct rest as [|l1 r2]; [constructor|].
          simpl in seed. unfold others in Hpo. simpl in Hpo.
          constructor.
          - intros _. eapply prefix_trans; [exact Hps|]. apply cwp_prefix_l.
          - apply Forall_forall. intros l Hin Hl. apply Hpo. apply nonempty_lines_in; auto. }
        destruct (strip_all_ok pad Hpg rest Hrest) as [ls' [S1 S2]].
        rewrite S1. simpl. exists (MLMulti doc (l0 :: ls')). split; auto.
        constructor; auto. exists []. split; auto. reflexivity.
      * assert (Hall : Forall (fun l => is_empty l = false -> prefix pad l) (l0 :: rest)).
        { simpl in seed. unfold others in Hpo. simpl in Hpo. constructor.
          - intros _. eapply prefix_trans; [exact Hps|]. apply cwp_prefix_l.
          - apply Forall_forall. intros l Hin Hl. apply Hpo. apply nonempty_lines_in; auto. }
        destruct (strip_all_ok pad Hpg (l0 :: rest) Hall) as [ls' [S1 S2]].
        rewrite S1. exists (MLMulti doc ls'). split; auto.
Qed.

Lemma fmt_ml_body_total text0 : fmt_ml_body text0 <> None.
Proof. destruct (fmt_ml_body_ok text0) as [o [H _]]. congruence. Qed.

(** every token the lexer classifies as a block comment starts with [/*] and ends with a
    separate [*/]; for all of them the printer arm is total *)
Lemma fmt_ml_total body : fmt_ml ([SLASH; STAR] ++ body ++ [STAR; SLASH]) <> None.
Proof.
  unfold fmt_ml. simpl. unfold strip_suffix.
  rewrite rev_app_distr. simpl.
  rewrite rev_involutive. apply fmt_ml_body_total.
Qed.

Lemma fmt_ml_cut body o :
  fmt_ml ([SLASH; STAR] ++ body ++ [STAR; SLASH]) = Some o ->
  match o with
  | MLNothing => lines_of body = []
  | MLSingle b => exists l0, lines_of body = [l0] /\ b = trim l0
  | MLMulti doc ls => Forall2 cut (lines_of body) ls
  end.
Proof.
  unfold fmt_ml. simpl. unfold strip_suffix.
  rewrite rev_app_distr. simpl. rewrite rev_involutive. intros H.
  destruct (fmt_ml_body_ok body) as [o' [H1 H2]].
  assert (o' = o) by congruence. subst o'. exact H2.
Qed.

(* ------------------------------------------------------------------ trim facts *)
Lemma drop_while_idem p : forall s, drop_while p (drop_while p s) = drop_while p s.
Proof.
  induction s as [|c r IH]; simpl; auto. destruct (p c) eqn:E; auto. simpl. rewrite E. auto.
Qed.

Lemma drop_while_head p s : match drop_while p s with c :: _ => p c = false | [] => True end.
Proof. induction s as [|c r IH]; simpl; auto. destruct (p c) eqn:E; auto. Qed.

Lemma drop_while_id p s : match s with c :: _ => p c = false | [] => True end -> drop_while p s = s.
Proof. destruct s; simpl; auto. intros ->. auto. Qed.

Lemma trim_end_idem s : trim_end (trim_end s) = trim_end s.
Proof. unfold trim_end. rewrite rev_involutive, drop_while_idem. reflexivity. Qed.

Lemma drop_while_app_keep p : forall a b,
  (exists c, In c b /\ p c = false) -> drop_while p (a ++ b) = drop_while p a ++ b
  \/ drop_while p a = [].
Proof.
  induction a as [|x a IH]; intros b H; simpl; auto.
  destruct (p x); auto.
Qed.

(** trimming the start does not disturb a trimmed end and vice versa *)
Lemma trim_start_of_trim_end_head s :
  match trim s with c :: _ => is_ws c = false | [] => True end.
Proof.
  unfold trim, trim_end, trim_start.
  pose proof (drop_while_head is_ws s) as H.
  set (t := drop_while is_ws s) in *.
  destruct t as [|c r]; [simpl; auto|].
  (* rev (drop_while is_ws (rev (c :: r))) starts with c because c is not whitespace *)
  assert (Hin : exists d, In d (rev (c :: r)) /\ is_ws d = false).
  { exists c. split; auto. apply in_rev. rewrite rev_involutive. left. reflexivity. }
  assert (Hne : forall l, (exists d, In d l /\ is_ws d = false) ->
                  exists l', drop_while is_ws l = l' /\ (exists pre, l = pre ++ l') /\
                             (forall x, In x l -> is_ws x = false -> In x l')).
  { induction l as [|y l IHl]; intros [d [Hd1 Hd2]].
    - destruct Hd1.
    - simpl. destruct (is_ws y) eqn:Ey.
      + destruct Hd1 as [->|Hd1]; [congruence|].
        destruct (IHl (ex_intro _ d (conj Hd1 Hd2))) as [l' [A [[pre B] C]]].
        exists l'. split; auto. split; [exists (y :: pre); simpl; congruence|].
        intros x [->|Hx] Hw; [congruence|auto].
      + exists (y :: l). split; auto. split; [exists []; auto|]. auto. }
  destruct (Hne _ Hin) as [l' [A [[pre B] C]]]. rewrite A.
  assert (Hc : In c l') by (apply C; auto; apply in_rev; rewrite rev_involutive; left; auto).
  (* l' is a suffix of rev (c :: r) = rev r ++ [c]; so rev l' is a prefix of c :: r *)
  assert (Hrev : c :: r = rev l' ++ rev pre).
  { rewrite <- rev_app_distr, <- B, rev_involutive. reflexivity. }
  destruct (rev l') as [|z zs] eqn:Ez.
  - apply in_rev in Hc. rewrite Ez in Hc. destruct Hc.
  - simpl in Hrev. inversion Hrev; subst. exact H.
Qed.

Lemma trim_end_last s :
  match rev (trim_end s) with c :: _ => is_ws c = false | [] => True end.
Proof.
  unfold trim_end. rewrite rev_involutive. apply drop_while_head.
Qed.

Lemma trim_fix s :
  match s with c :: _ => is_ws c = false | [] => True end ->
  match rev s with c :: _ => is_ws c = false | [] => True end ->
  trim s = s.
Proof.
  intros H1 H2. unfold trim, trim_start, trim_end.
  rewrite (drop_while_id _ s H1). rewrite (drop_while_id _ (rev s) H2).
  apply rev_involutive.
Qed.

Lemma trim_end_of_trim s : rev (trim s) = drop_while is_ws (rev (trim_start s)).
Proof. unfold trim, trim_end. rewrite rev_involutive. reflexivity. Qed.

Lemma trim_idem s : trim (trim s) = trim s.
Proof.
  apply trim_fix.
  - apply trim_start_of_trim_end_head.
  - unfold trim. apply trim_end_last.
Qed.

(** [trim (ws ++ body ++ ws') = body] for an already trimmed body *)
Lemma drop_while_all p : forall a b, forallb p a = true -> drop_while p (a ++ b) = drop_while p b.
Proof.
  induction a as [|x a IH]; intros b H; simpl; auto.
  simpl in H. apply andb_true_iff in H. destruct H as [H1 H2]. rewrite H1. auto.
Qed.

Lemma drop_while_all_nil p (a : str) : forallb p a = true -> drop_while p a = [].
Proof. intros H. rewrite <- (app_nil_r a). rewrite drop_while_all by auto. reflexivity. Qed.

Lemma forallb_rev (p : N -> bool) (b : str) : forallb p b = true -> forallb p (rev b) = true.
Proof.
  intros H. rewrite forallb_forall in *. intros x Hx. apply H. apply in_rev. exact Hx.
Qed.

Lemma trim_pad a b s :
  forallb is_ws a = true -> forallb is_ws b = true -> trim (a ++ trim s ++ b) = trim s.
Proof.
  intros Ha Hb. unfold trim at 1. unfold trim_start. rewrite drop_while_all by auto.
  pose proof (trim_start_of_trim_end_head s) as Hh.
  pose proof (trim_idem s) as Hi.
  destruct (trim s) as [|c r].
  - simpl. rewrite (drop_while_all_nil _ b Hb). reflexivity.
  - assert (Hd : drop_while is_ws ((c :: r) ++ b) = (c :: r) ++ b).
    { apply drop_while_id. simpl. exact Hh. }
    rewrite Hd. unfold trim_end. rewrite rev_app_distr.
    rewrite drop_while_all by (apply forallb_rev; exact Hb).
    unfold trim, trim_start in Hi.
    assert (Hd2 : drop_while is_ws (c :: r) = c :: r).
    { apply drop_while_id. exact Hh. }
    rewrite Hd2 in Hi. exact Hi.
Qed.

(* ------------------------------------------------------------------ C20: fixed points *)
(** [// body] re-read (with or without the line end the lexer includes) gives [body] again *)
Lemma slash_idem text body eol :
  fmt_slash text = Some body -> forallb is_ws eol = true ->
  fmt_slash (render_slash body ++ eol) = Some body.
Proof.
  unfold fmt_slash. destruct (strip_prefix [SLASH; SLASH] text) as [t|]; [|discriminate].
  simpl. intros H He. inversion H; subst body. clear H.
  unfold render_slash, SLASH. simpl. f_equal.
  change (SP :: trim t ++ eol) with ([SP] ++ trim t ++ eol). apply trim_pad; auto.
Qed.

Lemma hash_idem text body eol :
  fmt_hash text = Some body -> forallb is_ws eol = true ->
  fmt_hash (render_hash body ++ eol) = Some body.
Proof.
  unfold fmt_hash. destruct (strip_prefix [HASH] text) as [t|]; [|discriminate].
  simpl. intros H He. inversion H; subst body. clear H.
  unfold render_hash, HASH. simpl. f_equal.
  change (SP :: trim t ++ eol) with ([SP] ++ trim t ++ eol). apply trim_pad; auto.
Qed.
