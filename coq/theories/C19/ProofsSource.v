(** C19 / C20 — source tie, lemmas: the translated kernels of Gen/GenFmt.v are the hand models
    of C19/Model.v, for all inputs. *)
From Coq Require Import List NArith Bool Lia.
From JrV Require Import C19.Model C19.Trivia C19.Comments Gen.GenFmt C19.ModelSource.
Import ListNotations.
Open Scope N_scope.

Lemma gen_cnb_go_eq : forall tt, gen_count_newlines_before_go tt = count_newlines_before tt.
Proof.
  induction tt as [|t r IH]; [reflexivity|].
  destruct t as [k text|text]; simpl; [destruct k|]; rewrite ?IH; reflexivity.
Qed.

Lemma gen_cnb_eq : forall tt, gen_count_newlines_before tt = count_newlines_before tt.
Proof. intros. unfold gen_count_newlines_before. apply gen_cnb_go_eq. Qed.

Lemma gen_cna_go_eq : forall tt, gen_count_newlines_after_go tt = count_newlines_after_rev tt.
Proof.
  induction tt as [|t r IH]; [reflexivity|].
  destruct t as [k text|text]; simpl; [destruct k|]; rewrite ?IH; reflexivity.
Qed.

Lemma gen_cna_eq : forall tt, gen_count_newlines_after tt = count_newlines_after tt.
Proof. intros. unfold gen_count_newlines_after, count_newlines_after. apply gen_cna_go_eq. Qed.

Lemma gen_should_start_eq : forall p tt, gen_should_start p tt = should_start p tt.
Proof.
  intros p tt. unfold gen_should_start, should_start.
  rewrite gen_cnb_eq. destruct p as [p|]; rewrite ?gen_cna_eq; reflexivity.
Qed.

Lemma gen_init_st_eq : forall trailing, gen_init_st trailing = init_st trailing.
Proof. reflexivity. Qed.

Lemma gen_step_eq : forall loose s it, gen_step loose s it = step loose s it.
Proof.
  intros loose [out cur next started had trailing] it.
  destruct it as [v|k text|text| |]; unfold gen_step, step; cbn [s_out s_cur s_next s_started s_had s_trailing].
  - (* INode *)
    destruct trailing as [t|].
    + destruct next as [|n0 nr]; [|reflexivity]. cbn [is_empty].
      rewrite gen_should_start_eq.
      destruct (should_start (option_map c_inline cur) t) as [a b].
      destruct cur; cbn [opt_list]; rewrite ?app_nil_r; reflexivity.
    + rewrite gen_should_start_eq.
      destruct (should_start (option_map c_inline cur) next) as [a b].
      destruct cur; cbn [opt_list]; rewrite ?app_nil_r; reflexivity.
  - (* ITriv *)
    destruct trailing as [t|]; [reflexivity|]. cbn [is_none negb].
    unfold contains_nl, push_inline.
    destruct started; destruct cur as [c|]; cbn [is_none orb];
      destruct (existsb (fun c0 : N => c0 =? NL) text) eqn:E; unfold NL in E; rewrite ?E;
      destruct k; reflexivity.
  - reflexivity.
  - destruct loose; [destruct had|]; reflexivity.
  - destruct loose; [destruct had|]; reflexivity.
Qed.

Lemma gen_finish_eq : forall s, gen_finish s = finish s.
Proof.
  intros [out cur next started had trailing]. unfold gen_finish, finish.
  cbn [s_out s_cur s_next]. rewrite !gen_should_start_eq.
  destruct cur; cbn [opt_list fst option_map]; rewrite ?app_nil_r; reflexivity.
Qed.

Lemma src_run_loop_eq : forall loose items s, src_run_loop loose s items = run_loop loose s items.
Proof.
  induction items as [|it r IH]; intros s; simpl; [reflexivity|].
  rewrite gen_step_eq. destruct (step loose s it); auto.
Qed.

Lemma src_children_eq : forall loose trailing items,
  src_children loose trailing items = children loose trailing items.
Proof.
  intros. unfold src_children, children. rewrite src_run_loop_eq, gen_init_st_eq.
  destruct (run_loop loose (init_st trailing) items) as [[s rest]|]; [|reflexivity].
  rewrite gen_finish_eq. reflexivity.
Qed.
