(** Statements of the C19 source-tie theorems, pinned. *)
From Coq Require Import List NArith Bool.
From JrV Require Import C19.Model C19.Comments Gen.GenFmt C19.ModelSource C19.PropertiesSource.
Import ListNotations.
Open Scope N_scope.

Check C19_model_is_translated_source_count_newlines :
  forall tt, gen_count_newlines_before tt = count_newlines_before tt
          /\ gen_count_newlines_after tt = count_newlines_after tt.
Check C19_model_is_translated_source_should_start :
  forall prev_inline tt, gen_should_start prev_inline tt = should_start prev_inline tt.
Check C19_model_is_translated_source_step :
  forall loose s it, gen_step loose s it = step loose s it.
Check C19_model_is_translated_source_children :
  forall loose trailing items, src_children loose trailing items = children loose trailing items.
Check C19_source_children_partition_lossless :
  forall items cs e, no_err items = true -> src_children false None items = Some (cs, e) ->
    collected (cs, e) = trivia_of items /\ map c_value cs = nodes_of items.
Check C19_source_children_partition_lossless_loose :
  forall items cs e, no_err items = true -> src_children true None items = Some (cs, e) ->
    exists pre post, items = pre ++ post
      /\ collected (cs, e) = trivia_of pre /\ map c_value cs = nodes_of pre.
Check C19_source_blank_lines_capped :
  forall prev_inline tt,
    let n := (count_newlines_before tt
              + match prev_inline with Some p => count_newlines_after p | None => 0 end)%nat in
    gen_should_start prev_inline tt = (Nat.leb 2 n, Nat.leb 1 n).
(* definitions pinned: the interpreter of the translated step is the plain loop *)
Check eq_refl : src_run_loop false (gen_init_st None) [] = Some (gen_init_st None, []).
Check eq_refl : gen_init_st None = mkSt [] None [] false false None.
