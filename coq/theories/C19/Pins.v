(** Statements of the C19 property theorems, pinned: weakening one breaks this file. *)
From Coq Require Import List NArith Bool.
From JrV Require Import C19.Model C19.Comments C19.TokenEq C19.Properties.
Import ListNotations.
Open Scope N_scope.

Check C19_children_partition_lossless :
  forall items cs e, no_err items = true -> children false None items = Some (cs, e) ->
    collected (cs, e) = trivia_of items /\ map c_value cs = nodes_of items.
Check C19_children_partition_lossless_loose :
  forall items cs e, no_err items = true -> children true None items = Some (cs, e) ->
    exists pre post, items = pre ++ post
      /\ collected (cs, e) = trivia_of pre /\ map c_value cs = nodes_of pre.
Check C19_children_order_with_error_refuted :
  exists items cs e, children false None items = Some (cs, e) /\ collected (cs, e) <> trivia_of items.
Check C19_comment_text_preserved :
  forall body o, fmt_ml ([SLASH; STAR] ++ body ++ [STAR; SLASH]) = Some o ->
    match o with
    | MLNothing => lines_of body = []
    | MLSingle b => exists l0, lines_of body = [l0] /\ b = trim l0
    | MLMulti doc ls => Forall2 cut (lines_of body) ls
    end.
Check C19_empty_block_comment_dropped_refuted :
  exists tok, fmt_ml tok = Some MLNothing /\ render_ml [] MLNothing = [].
Check C19_parse_depends_on_tokens :
  forall (is_trivia : N -> bool) (tree : Type) (P : list lexeme -> tree) (erase : tree -> tree),
    (forall l1 l2, map unspan l1 = map unspan l2 -> erase (P l1) = erase (P l2)) ->
    forall ls1 ls2,
      map unspan (nontrivia is_trivia ls1) = map unspan (nontrivia is_trivia ls2) ->
      erase (parse is_trivia tree P ls1) = erase (parse is_trivia tree P ls2).
Check C19_trivia_insertion_invisible :
  forall is_trivia a t b, forallb (fun l => is_trivia (lx_kind l)) t = true ->
    nontrivia is_trivia (a ++ t ++ b) = nontrivia is_trivia (a ++ b).
(** definitions pinned by evaluation *)
Check eq_refl : trivia_of [INode 1; ITriv Ws [32]; ISep; IErr [101]; IOther] = [TOk Ws [32]; TErr [101]].
Check eq_refl : is_gutter 42 = true.
Check eq_refl : is_gutter 97 = false.
Check eq_refl : is_gutter 11 = false.
Check eq_refl : common_ws_prefix [32;42;32;97] [32;42;98] = [32;42].
Check eq_refl : split_nl [97;10;10;98] = [[97]; []; [98]].
Check eq_refl : trim [32;9;97;32;98;10] = [97;32;98].
