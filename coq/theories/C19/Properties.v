(** C19 — property theorems only (formatting preserves the program: the two hand-written
    kernels and the token reduction).  Statements are pinned again in Pins.v. *)
From Coq Require Import List NArith Bool.
From JrV Require Import C19.Model C19.Trivia C19.Comments C19.TokenEq.
Import ListNotations.
Open Scope N_scope.

(** children.rs: for every item list without error elements (format() refuses inputs with
    syntax errors), the trivia collected into before/inline of all children and the ending
    comments, concatenated in output order, is exactly the input trivia in input order; and
    the children are exactly the input's child nodes in order. *)
Theorem C19_children_partition_lossless :
  forall items cs e,
    no_err items = true ->
    children false None items = Some (cs, e) ->
    collected (cs, e) = trivia_of items /\ map c_value cs = nodes_of items.
Proof. exact children_lossless. Qed.
Print Assumptions C19_children_partition_lossless.

(** the same for a `loose` call, about the prefix it consumes *)
Theorem C19_children_partition_lossless_loose :
  forall items cs e,
    no_err items = true ->
    children true None items = Some (cs, e) ->
    exists pre post, items = pre ++ post
      /\ collected (cs, e) = trivia_of pre /\ map c_value cs = nodes_of pre.
Proof. exact children_lossless_loose. Qed.
Print Assumptions C19_children_partition_lossless_loose.

(** finding (unreachable through format(), which refuses syntax errors): with an error
    element in the list the order is not kept *)
Theorem C19_children_order_with_error_refuted :
  exists items cs e, children false None items = Some (cs, e)
     /\ collected (cs, e) <> trivia_of items.
Proof. exact children_reorders_with_error. Qed.
Print Assumptions C19_children_order_with_error_refuted.

(** comments.rs, block comments: for EVERY text between the delimiters the printed lines are
    the input's non-blank-trimmed lines, one for one, each with only a prefix of ASCII
    whitespace and `*` removed (multi-line form) or trimmed (single-line form); *)
Theorem C19_comment_text_preserved :
  forall body o,
    fmt_ml ([SLASH; STAR] ++ body ++ [STAR; SLASH]) = Some o ->
    match o with
    | MLNothing => lines_of body = []
    | MLSingle b => exists l0, lines_of body = [l0] /\ b = trim l0
    | MLMulti doc ls => Forall2 cut (lines_of body) ls
    end.
Proof. exact fmt_ml_cut. Qed.
Print Assumptions C19_comment_text_preserved.

(** finding: a block comment without text is printed as nothing at all *)
Theorem C19_empty_block_comment_dropped_refuted :
  exists tok, fmt_ml tok = Some MLNothing /\ render_ml [] MLNothing = [].
Proof. exists [SLASH; STAR; SP; STAR; SLASH]. split; reflexivity. Qed.
Print Assumptions C19_empty_block_comment_dropped_refuted.

(** a parser that is handed only the non-trivia lexemes and uses positions only for position
    fields gives the same tree (positions erased) for two texts with the same non-trivia
    tokens; and trivia may be inserted anywhere without changing those tokens *)
Theorem C19_parse_depends_on_tokens :
  forall (is_trivia : N -> bool) (tree : Type) (P : list lexeme -> tree) (erase : tree -> tree),
    (forall l1 l2, map unspan l1 = map unspan l2 -> erase (P l1) = erase (P l2)) ->
    forall ls1 ls2,
      map unspan (nontrivia is_trivia ls1) = map unspan (nontrivia is_trivia ls2) ->
      erase (parse is_trivia tree P ls1) = erase (parse is_trivia tree P ls2).
Proof. exact parse_depends_on_tokens. Qed.
Print Assumptions C19_parse_depends_on_tokens.

Theorem C19_trivia_insertion_invisible :
  forall is_trivia a t b,
    forallb (fun l => is_trivia (lx_kind l)) t = true ->
    nontrivia is_trivia (a ++ t ++ b) = nontrivia is_trivia (a ++ b).
Proof. exact nontrivia_insert. Qed.
Print Assumptions C19_trivia_insertion_invisible.

(** non-vacuity *)
Example C19_nonvacuous_children :
  exists cs e, children false None
     [ITriv MLc [47;42;97;42;47]; INode 1; ITriv MLc [47;42;98;42;47]; ISep; ITriv Ws [10]; INode 2]
     = Some (cs, e) /\ length cs = 2%nat.
Proof. eexists. eexists. split; [vm_compute; reflexivity | reflexivity]. Qed.
Example C19_nonvacuous_comment :
  fmt_ml [47;42;10;32;42;32;97;10;32;42;32;98;10;32;42;47] = Some (MLMulti false [[97]; [98]]).
Proof. vm_compute. reflexivity. Qed.
