(** C17 — source tie: how the functions TRANSLATED from the working tree (Gen/GenLoc.v, written by
    translator/gens/locmap.py on every run) are compared with the hand model of Model.v.
    Definitions only.
      [to_cloc]       : the translated record (field list of `struct CodeLocation`) -> the model's record;
      [render_print]  : what the model's [print_loc] triple means as write! calls
                        (format string, arguments), the shape the translation of print_code_location produces. *)
From Coq Require Import String.
From Coq Require Import List NArith Bool.
From JrV Require Import C17.Model Gen.GenLoc.
Import ListNotations.
Open Scope N_scope.

Definition to_cloc (c : CodeLocation) : cloc :=
  mkloc (g_offset c) (g_line c) (g_column c) (g_line_start_offset c) (g_line_end_offset c).
Definition of_cloc (c : cloc) : CodeLocation :=
  set_offset (c_off c) (set_line (c_line c) (set_column (c_col c) (set_line_start_offset (c_ls c)
    (set_line_end_offset (c_le c) default_CodeLocation)))).

Definition render_print (p : N * N * option (option N * N)) : list (string * list N) :=
  match p with
  | (l, c, None) => [("{}:{}"%string, [l; c])]
  | (l, c1, Some (None, c2)) => [("{}:{}-{}"%string, [l; c1; c2])]
  | (l1, c1, Some (Some l2, c2)) => [("{}:{}-{}:{}"%string, [l1; c1; l2; c2])]
  end.

(** the translated mapper, seen through [to_cloc] *)
Definition src_offset_to_location (file offs : list N) : list cloc :=
  map to_cloc (gen_offset_to_location file offs).

(** the translated ImportSyntaxError branch composed with the translated mapper and the translated printer *)
Definition src_syntax_error_print (file : list N) (offset : N) : list (string * list N) :=
  let l := gen_syntax_error_location
             (fun o => nth 0%nat (gen_offset_to_location file [o]) default_CodeLocation) file offset in
  gen_print_code_location l l.
