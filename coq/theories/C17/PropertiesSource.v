(** C17 — source tie, property theorems.  Gen/GenLoc.v is written by translator/gens/locmap.py from
    crates/jrsonnet-ir/src/location.rs and crates/jrsonnet-evaluator/src/trace/mod.rs on every run,
    statement by statement (loops, comparisons with their operators, +1 / -1, literals); these theorems
    are re-checked against it.  `C17_model_is_translated_source_*` : the hand model of Model.v IS the
    translated code, for all inputs; `C17_source_*` : therefore the translated code meets the SPEC. *)
From Coq Require Import String.
From Coq Require Import List NArith Bool.
From JrV Require Import C17.Model C17.FixedProofs C17.Properties Gen.GenLoc C17.ModelSource C17.ProofsSource.
Import ListNotations.
Open Scope N_scope.

(** offset_to_location: for EVERY file (list of chars, any mix of 1-4 byte characters) and EVERY offset
    list (any length, order, duplicates, beyond the end), the function translated from location.rs gives
    exactly the hand model's answer, all five fields of every CodeLocation. *)
Theorem C17_model_is_translated_source_mapper :
  forall file offs, map to_cloc (gen_offset_to_location file offs) = offset_to_location Cur file offs.
Proof. exact source_offset_to_location. Qed.
Print Assumptions C17_model_is_translated_source_mapper.

(** print_code_location: the write! calls of the translated function (format string and arguments) are
    those of the model's [print_loc], for every pair of locations. *)
Theorem C17_model_is_translated_source_printer :
  forall s e, gen_print_code_location s e = render_print (print_loc (to_cloc s) (to_cloc e)).
Proof. exact source_print_code_location. Qed.
Print Assumptions C17_model_is_translated_source_printer.

(** JsFormat::write_trace: the two numbers printed are the model's [print_js] of the first location. *)
Theorem C17_model_is_translated_source_jsformat :
  forall locs, gen_js_args locs =
    [fst (print_js (to_cloc (nth 0%nat locs default_CodeLocation)));
     snd (print_js (to_cloc (nth 0%nat locs default_CodeLocation)))].
Proof. exact source_js_args. Qed.
Print Assumptions C17_model_is_translated_source_jsformat.

(** CompactFormat::write_trace, ImportSyntaxError branch (clamp to the last byte, map, +1 when clamped,
    print): translated branch o translated mapper o translated printer = the model's [syntax_error_print]. *)
Theorem C17_model_is_translated_source_syntax_error :
  forall file offset,
    src_syntax_error_print file offset = render_print (syntax_error_print Cur file offset).
Proof. exact source_syntax_error_print. Qed.
Print Assumptions C17_model_is_translated_source_syntax_error.

(** the TRANSLATED mapper meets the SPEC: for every file and every query of character-boundary offsets
    (any number, order, duplicates, end of file), answer i carries the offset, line = 1 + number of LF bytes
    before it, column = code points since the line start + 1 (+1: the printers subtract it), and the byte
    offset of the line start. *)
Theorem C17_source_loc_general :
  forall file offs i o,
    (forall o', In o' offs -> exists k, (k <= length file)%nat /\ o' = blen (firstn k file)) ->
    nth_error offs i = Some o ->
    let l := nth i (gen_offset_to_location file offs) default_CodeLocation in
    (g_offset l, g_line l, g_column l, g_line_start_offset l) =
    (o, spec_line (encode file) o, spec_col (encode file) o + 1, spec_line_start (encode file) o).
Proof. exact source_loc_general. Qed.
Print Assumptions C17_source_loc_general.

(** translated mapper + translated print_code_location: for a one-line span [a, b) the text written is one
    write! whose first two numbers are the specified line and the specified 1-based column of a. *)
Theorem C17_source_reported_position :
  forall file a b,
    boundary file a -> boundary file b ->
    spec_line (encode file) a = spec_line (encode file) b ->
    let locs := gen_offset_to_location file [a; b] in
    exists fmt rest,
      gen_print_code_location (nth 0 locs default_CodeLocation) (nth 1 locs default_CodeLocation)
      = [(fmt, spec_line (encode file) a :: spec_col (encode file) a :: rest)].
Proof. exact source_reported_position. Qed.
Print Assumptions C17_source_reported_position.

(** translated mapper + translated JsFormat arguments: `(path:LINE:COLUMN)` of the span start. *)
Theorem C17_source_jsformat_position :
  forall file a b,
    boundary file a -> boundary file b ->
    gen_js_args (gen_offset_to_location file (gen_js_query a b)) =
    [spec_line (encode file) a; spec_col (encode file) a].
Proof. exact source_jsformat_position. Qed.
Print Assumptions C17_source_jsformat_position.
