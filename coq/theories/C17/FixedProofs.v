(** C17 — lemmas, part 3: offset_to_location as it is in the code (model [Cur], /repo 6f9363a)
    meets the specification for every file and every query on character boundaries; the
    printers on top of it. *)
From Coq Require Import List Arith NArith ZArith Bool Lia Sorting.Sorted.
From JrV Require Import C17.Model C17.Proofs.
Import ListNotations.
Open Scope N_scope.

Ltac Zify.zify_post_hook ::= Z.div_mod_to_equations.
Local Arguments N.add : simpl never.
Local Arguments N.sub : simpl never.
Local Arguments N.of_nat : simpl never.
Local Arguments N.div : simpl never.
Local Arguments N.modulo : simpl never.

(* ------------------------------------------------------------------ UTF-8 bytes *)
Lemma start_low b : b < 128 -> is_start b = true.
Proof. unfold is_start. intros H. destruct (N.eqb_spec (b / 64) 2); auto. lia. Qed.
Lemma start_high b : 192 <= b -> is_start b = true.
Proof. unfold is_start. intros H. destruct (N.eqb_spec (b / 64) 2); auto. lia. Qed.
Lemma start_cont x : is_start (128 + x mod 64) = false.
Proof.
  unfold is_start. assert (H : x mod 64 < 64) by (apply N.mod_upper_bound; lia).
  generalize dependent (x mod 64). intros y H.
  destruct (N.eqb_spec ((128 + y) / 64) 2); auto. lia.
Qed.
Lemma nonl_high b : 128 <= b -> negb (b =? 10) = true.
Proof. intros H. destruct (N.eqb_spec b 10); auto. lia. Qed.

Lemma nonl_add a x : 11 <= a -> negb (a + x =? 10) = true.
Proof. intros H. destruct (N.eqb_spec (a + x) 10); auto. lia. Qed.

Lemma enc_len c : N.of_nat (length (enc c)) = clen c.
Proof. unfold enc, clen. destruct (c <? 128), (c <? 2048), (c <? 65536); reflexivity. Qed.

Lemma enc_starts c : length (filter is_start (enc c)) = 1%nat.
Proof.
  unfold enc. destruct (N.ltb_spec c 128); [|destruct (N.ltb_spec c 2048); [|destruct (N.ltb_spec c 65536)]];
    cbn [filter]; rewrite ?start_cont.
  - rewrite start_low by auto. reflexivity.
  - rewrite start_high by lia. reflexivity.
  - rewrite start_high by lia. reflexivity.
  - rewrite start_high by lia. reflexivity.
Qed.

Lemma enc_nonl c : c <> 10 -> forallb (fun b => negb (b =? 10)) (enc c) = true.
Proof.
  intros Hc. unfold enc.
  destruct (N.ltb_spec c 128); [|destruct (N.ltb_spec c 2048); [|destruct (N.ltb_spec c 65536)]];
    cbn [forallb]; rewrite ?nonl_add by lia; auto.
  destruct (N.eqb_spec c 10); [contradiction|reflexivity].
Qed.

Lemma count_nl_enc c : count_nl (enc c) = if c =? 10 then 1 else 0.
Proof.
  destruct (N.eqb_spec c 10) as [->|Hc]; [reflexivity|].
  pose proof (enc_nonl c Hc) as H. unfold count_nl.
  induction (enc c) as [|b l IH]; [reflexivity|]. cbn [forallb] in H. apply andb_prop in H. destruct H as [H1 H2].
  cbn [filter]. apply negb_true_iff in H1. rewrite H1. auto.
Qed.

Lemma encode_length w : N.of_nat (length (encode w)) = blen w.
Proof.
  induction w; [reflexivity|]. unfold encode in *. cbn [flat_map blen]. rewrite app_length, Nat2N.inj_add, IHw, enc_len. reflexivity.
Qed.

Lemma encode_snoc w c : encode (w ++ [c]) = encode w ++ enc c.
Proof. rewrite encode_app. unfold encode at 2. simpl. rewrite app_nil_r. reflexivity. Qed.

(* ------------------------------------------------------------------ items: char_indices *)
Lemma ci_snoc w : forall p c,
  char_indices_from p (w ++ [c]) = char_indices_from p w ++ [(p + blen w, c)].
Proof.
  induction w; intros p c; simpl.
  - f_equal. f_equal. lia.
  - f_equal. rewrite IHw. f_equal. f_equal. f_equal. lia.
Qed.

Lemma ci_ge cs : forall p, Forall (fun x => p <= x) (map fst (char_indices_from p cs)).
Proof.
  induction cs; intros p; simpl; constructor; [lia|].
  eapply Forall_impl; [|apply IHcs]. simpl; intros. pose proof (clen_pos a). lia.
Qed.

Lemma ci_sorted cs : forall p q, p + blen cs <= q ->
  StronglySorted N.lt (map fst (char_indices_from p cs ++ [(q, 32)])).
Proof.
  induction cs; intros p q H; simpl in *.
  - repeat constructor.
  - pose proof (clen_pos a). constructor; [apply IHcs; lia|].
    rewrite map_app, Forall_app. split.
    + eapply Forall_impl; [|apply (ci_ge cs (p + clen a))]. simpl; intros; lia.
    + repeat constructor. simpl. lia.
Qed.

Lemma ci_split cs : forall p k, (k < length cs)%nat ->
  char_indices_from p cs =
  char_indices_from p (firstn k cs) ++ (p + blen (firstn k cs), nth k cs 0) ::
  char_indices_from (p + blen (firstn (S k) cs)) (skipn (S k) cs).
Proof.
  induction cs; intros p [|k] H; simpl in *; try lia.
  - f_equal; [f_equal; lia|]. f_equal. lia.
  - f_equal. rewrite (IHcs (p + clen a) k) by lia. f_equal. f_equal; [f_equal; lia|]. f_equal. lia.
Qed.

Lemma last_seg_encode_le w : N.of_nat (length (last_seg (encode w))) <= blen w.
Proof. rewrite <- encode_length. pose proof (last_seg_length_le (encode w)). lia. Qed.

(** the loop state of the repaired code after walking ANY prefix is the specified one *)
Lemma scan_ci w :
  scan (1, 1, 0) (char_indices_from 0 w) =
  (1 + count_nl (encode w), 1 + N.of_nat (length (filter is_start (last_seg (encode w)))),
   blen w - N.of_nat (length (last_seg (encode w)))).
Proof.
  induction w as [|c w IH] using rev_ind.
  - reflexivity.
  - rewrite ci_snoc. unfold scan in *. rewrite fold_left_app, IH. cbn [fold_left step_st].
    rewrite encode_snoc, count_nl_app, count_nl_enc, blen_app. cbn [blen].
    pose proof (last_seg_encode_le w).
    destruct (N.eqb_spec c 10) as [->|Hc].
    + change (enc 10) with [10]. rewrite last_seg_snoc. cbn [N.eqb Pos.eqb filter length].
      f_equal; [f_equal; lia|]. change (clen 10) with 1. lia.
    + rewrite (last_seg_app_nonl _ _ (enc_nonl c Hc)). rewrite filter_app, !app_length, enc_starts.
      rewrite !Nat2N.inj_add, enc_len. f_equal; [f_equal; lia|lia].
Qed.

Definition boundary (file : list N) (o : N) : Prop :=
  exists k, (k <= length file)%nat /\ o = blen (firstn k file).

Lemma cur_items_split file k : (k <= length file)%nat ->
  exists c post, items_of Cur file =
                 char_indices_from 0 (firstn k file) ++ (blen (firstn k file), c) :: post.
Proof.
  intros Hk. unfold items_of.
  destruct (Nat.ltb_spec k (length file)) as [Hlt|Hge].
  - exists (nth k file 0). eexists. rewrite (ci_split file 0 k Hlt) at 1. rewrite <- app_assoc. simpl.
    reflexivity.
  - rewrite firstn_all2 by lia. exists 32, []. reflexivity.
Qed.

Lemma prefix_encode_boundary file k :
  prefix (encode file) (blen (firstn k file)) = encode (firstn k file).
Proof.
  unfold prefix.
  replace (encode file) with (encode (firstn k file) ++ encode (skipn k file))
    by (rewrite <- encode_app, firstn_skipn; reflexivity).
  rewrite <- encode_length, Nat2N.id. rewrite firstn_app, Nat.sub_diag. simpl.
  rewrite app_nil_r. apply firstn_all.
Qed.

Lemma cur_sorted file : StronglySorted N.lt (map fst (items_of Cur file)).
Proof. unfold items_of. apply ci_sorted. lia. Qed.

Lemma loc_general file offs i o :
  (forall o', In o' offs -> boundary file o') ->
  nth_error offs i = Some o ->
  core (nth i (offset_to_location Cur file offs) zero_loc) =
  (o, spec_line (encode file) o, spec_col (encode file) o + 1, spec_line_start (encode file) o).
Proof.
  intros Hb Hnth.
  assert (Hio : In o offs) by (eapply nth_error_In; eauto).
  destruct (Hb _ Hio) as (k & Hk & ->).
  destruct (cur_items_split file k Hk) as (c & post & Hsplit).
  rewrite (otl_spec Cur file offs i (blen (firstn k file)) (char_indices_from 0 (firstn k file)) c post); auto.
  - rewrite scan_ci. unfold rec_of, spec_line, spec_col, spec_line_start.
    rewrite prefix_encode_boundary. reflexivity.
  - intros H; discriminate.
  - apply cur_sorted.
  - intros o' Hi. destruct (Hb _ Hi) as (k' & Hk' & ->).
    destruct (cur_items_split file k' Hk') as (c' & post' & Hs').
    rewrite Hs'. rewrite map_app, in_app_iff. right. simpl. auto.
Qed.

(** non-vacuity: the design-round observation, repaired; duplicates; 1-4 byte characters *)
Example loc_general_example :
  let file := [233; 8364; 10; 128512; 97; 10; 98] in   (* "é€\n😀a\nb" *)
  (forall o', In o' [10; 5; 10; 13; 6; 0] -> boundary file o') /\
  map core (offset_to_location Cur file [10; 5; 10; 13; 6; 0]) =
  [(10, 2, 3, 6); (5, 1, 4, 0); (10, 2, 3, 6); (13, 3, 3, 12); (6, 2, 2, 6); (0, 1, 2, 0)].
Proof.
  split; [|vm_compute; reflexivity].
  intros o' H. simpl in H.
  destruct H as [<-|[<-|[<-|[<-|[<-|[<-|[]]]]]]].
  - exists 4%nat. split; [simpl; lia|reflexivity].
  - exists 2%nat. split; [simpl; lia|reflexivity].
  - exists 4%nat. split; [simpl; lia|reflexivity].
  - exists 7%nat. split; [simpl; lia|reflexivity].
  - exists 3%nat. split; [simpl; lia|reflexivity].
  - exists 0%nat. split; [simpl; lia|reflexivity].
Qed.

(* ------------------------------------------------------------------ mapper + printers *)
Lemma span_locs file a b :
  boundary file a -> boundary file b ->
  let locs := offset_to_location Cur file [a; b] in
  core (nth 0 locs zero_loc) = (a, spec_line (encode file) a, spec_col (encode file) a + 1, spec_line_start (encode file) a) /\
  core (nth 1 locs zero_loc) = (b, spec_line (encode file) b, spec_col (encode file) b + 1, spec_line_start (encode file) b).
Proof.
  intros Ha Hb locs.
  assert (H : forall o', In o' [a; b] -> boundary file o') by (intros o' [<-|[<-|[]]]; auto).
  split; [apply (loc_general file [a; b] 0 a H eq_refl)|apply (loc_general file [a; b] 1 b H eq_refl)].
Qed.

Lemma reported_position file a b :
  boundary file a -> boundary file b ->
  spec_line (encode file) a = spec_line (encode file) b ->
  let locs := offset_to_location Cur file [a; b] in
  let p := print_loc (nth 0 locs zero_loc) (nth 1 locs zero_loc) in
  printed_line p = spec_line (encode file) a /\ printed_col p = spec_col (encode file) a.
Proof.
  intros Ha Hb Hl locs p.
  destruct (span_locs file a b Ha Hb) as [H0 H1]. fold locs in H0, H1.
  unfold core in H0, H1. inversion H0. inversion H1.
  destruct (print_same_line (nth 0 locs zero_loc) (nth 1 locs zero_loc)) as [P1 P2].
  { unfold known_multiline. apply negb_false_iff. apply N.eqb_eq. congruence. }
  subst p. rewrite P1, P2. split; [congruence|]. rewrite H4. lia.
Qed.

Lemma jsformat_position file a b :
  boundary file a -> boundary file b ->
  let locs := offset_to_location Cur file [a; b] in
  print_js (nth 0 locs zero_loc) = (spec_line (encode file) a, spec_col (encode file) a).
Proof.
  intros Ha Hb locs. destruct (span_locs file a b Ha Hb) as [H0 _]. fold locs in H0.
  unfold core in H0. injection H0 as E1 E2 E3 E4. unfold print_js. rewrite E2, E3. f_equal. lia.
Qed.

(** non-vacuity: "// é\nerror \"é\"" , span of `error` = [6, 11) *)
Example reported_position_example :
  let file := [47; 47; 32; 233; 10; 101; 114; 114; 111; 114; 32; 34; 233; 34] in
  boundary file 6 /\ boundary file 11 /\
  let locs := offset_to_location Cur file [6; 11] in
  print_loc (nth 0 locs zero_loc) (nth 1 locs zero_loc) = (2, 1, Some (None, 7)) /\
  print_js (nth 0 locs zero_loc) = (2, 1).
Proof.
  split; [exists 5%nat; split; [simpl; lia|reflexivity]|].
  split; [exists 10%nat; split; [simpl; lia|reflexivity]|].
  vm_compute. split; reflexivity.
Qed.
