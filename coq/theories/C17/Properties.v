(** C17 — property theorems only.  Each is closed by [exact] of a lemma from Proofs.v /
    FixedProofs.v / SinkProofs.v and followed by [Print Assumptions]; statements are pinned
    again in Pins.v.  [Cur] is the transliteration of the code as it is (since /repo 6f9363a
    and 2fd7ca2); [Old] the transliteration of the code before, kept for the `_old_` lemmas. *)
From Coq Require Import List NArith Bool.
From JrV Require Import C17.Model C17.Proofs C17.SinkProofs C17.FixedProofs.
Import ListNotations.
Open Scope N_scope.

(** offset_to_location: for EVERY file — any mix of 1-4 byte characters — and EVERY query whose
    offsets are character boundaries (any number, any order, duplicates, end of file included),
    every answer carries the offset, the specified line (1 + newline bytes before it), the
    specified column (code points since the line start; +1, the printers subtract it) and the
    specified line start. *)
Theorem C17_loc_general :
  forall file offs i o,
    (forall o', In o' offs -> exists k, (k <= length file)%nat /\ o' = blen (firstn k file)) ->
    nth_error offs i = Some o ->
    core (nth i (offset_to_location Cur file offs) zero_loc) =
    (o, spec_line (encode file) o, spec_col (encode file) o + 1, spec_line_start (encode file) o).
Proof. exact loc_general. Qed.
Print Assumptions C17_loc_general.

(** print_code_location shows the start line and the 1-based start column of a one-line span *)
Theorem C17_print_span :
  forall s e, known_multiline s e = false ->
    printed_line (print_loc s e) = c_line s /\ printed_col (print_loc s e) = c_col s - 1.
Proof. exact print_same_line. Qed.
Print Assumptions C17_print_span.

(** FINDING C17-print-multiline-span: for a span over several lines the start column is never printed *)
Theorem C17_print_span_refuted :
  exists s e, known_multiline s e = true /\ c_col s <> c_col e /\
              printed_col (print_loc s e) <> c_col s - 1.
Proof. exact print_multiline_refuted. Qed.
Print Assumptions C17_print_span_refuted.

(** mapper + CompactFormat printer: the `L:C` of a trace line is the specified line and column
    of the first byte of the construct, whatever precedes it, for every one-line span
    (empty spans included) *)
Theorem C17_reported_position :
  forall file a b,
    boundary file a -> boundary file b ->
    spec_line (encode file) a = spec_line (encode file) b ->
    let locs := offset_to_location Cur file [a; b] in
    let p := print_loc (nth 0 locs zero_loc) (nth 1 locs zero_loc) in
    printed_line p = spec_line (encode file) a /\ printed_col p = spec_col (encode file) a.
Proof. exact reported_position. Qed.
Print Assumptions C17_reported_position.

(** mapper + JsFormat printer (libjsonnet trace format 1): line and column of the construct *)
Theorem C17_jsformat_position :
  forall file a b,
    boundary file a -> boundary file b ->
    let locs := offset_to_location Cur file [a; b] in
    print_js (nth 0 locs zero_loc) = (spec_line (encode file) a, spec_col (encode file) a).
Proof. exact jsformat_position. Qed.
Print Assumptions C17_jsformat_position.

(** the token loop over ANY one-token matcher honouring logos' contract tiles the input *)
Theorem C17_lex_tiles :
  forall (K : Type) (matcher : list N -> option (K * N)) input,
    matcher_ok matcher ->
    exists toks, lex_loop matcher (length input) 0 input = Some toks /\
                 tiles toks (N.of_nat (length input)).
Proof. exact (@lex_tiles). Qed.
Print Assumptions C17_lex_tiles.

(** a tiling token list reproduces the input: no byte lost, none twice *)
Theorem C17_tiles_concat :
  forall (K : Type) input (toks : list (K * N * N)),
    tiles toks (N.of_nat (length input)) ->
    concat (map (fun t => slice input (snd (fst t)) (snd t)) toks) = input.
Proof. intros K input toks H. exact (tiles_concat input toks 0 H). Qed.
Print Assumptions C17_tiles_concat.

(** Sink::finish, for EVERY lexeme list and EVERY event list that has a single root and as
    many Token events as there are non-trivia lexemes (the parser's invariant): no panic, and
    the leaves of the tree are exactly the lexemes, in order — the tree prints back the input. *)
Theorem C17_sink_lossless :
  forall (T : Type) (lx : list (bool * T)) (evs : list event),
    wf_events 0 false evs = true -> count_tokens evs = count_nontrivia lx ->
    sink lx evs = Some lx.
Proof. exact (@sink_lossless). Qed.
Print Assumptions C17_sink_lossless.

(* ---------------------------------------------------------------------------------------
   HISTORICAL: statements about [Old], the transliteration of offset_to_location BEFORE
   /repo 6f9363a.  They say why that commit was needed; nothing here is tied to the code. *)

(** was FINDING C17-loc-char-index-vs-byte-offset *)
Theorem C17_loc_old_general_refuted :
  exists file offs i o,
    NoDup offs /\ (forall o', In o' offs -> o' <= blen file) /\ nth_error offs i = Some o /\
    known_multibyte file offs = true /\
    c_line (nth i (offset_to_location Old file offs) zero_loc) <> spec_line (encode file) o.
Proof. exact loc_old_multibyte_refuted. Qed.
Print Assumptions C17_loc_old_general_refuted.

Theorem C17_loc_old_unmatched_refuted :
  exists file offs, NoDup offs /\ (forall o', In o' offs -> o' <= blen file) /\
    offset_to_location Old file offs = [zero_loc; zero_loc].
Proof. exact loc_old_unmatched_refuted. Qed.
Print Assumptions C17_loc_old_unmatched_refuted.

(** was FINDING C17-loc-duplicate-offsets *)
Theorem C17_loc_old_duplicates_refuted :
  exists file offs i o,
    forallb is_ascii file = true /\ (forall o', In o' offs -> o' <= blen file) /\
    nth_error offs i = Some o /\ known_dup offs = true /\
    c_line (nth i (offset_to_location Old file offs) zero_loc) <> spec_line (encode file) o.
Proof. exact loc_old_duplicates_refuted. Qed.
Print Assumptions C17_loc_old_duplicates_refuted.
