(** C17 — property theorems only.  Each is closed by [exact] of a lemma from Proofs.v and
    followed by [Print Assumptions]; statements are pinned again in Pins.v. *)
From Coq Require Import List NArith Bool.
From JrV Require Import C17.Model C17.Proofs C17.SinkProofs C17.FixedProofs.
Import ListNotations.
Open Scope N_scope.

(** offset_to_location AS IT IS in the code: for every file, every query (any number of byte
    offsets, any order) outside the two known classes — no non-ASCII character among the first
    max(offsets) characters, no offset twice — every answer carries the offset, the specified
    line, the specified column (+1, the printer subtracts it) and the specified line start.
    Non-ASCII text AFTER the last queried offset is allowed. *)
Theorem C17_loc_restricted :
  forall file offs i o,
    known_multibyte file offs = false -> known_dup offs = false ->
    (forall o', In o' offs -> o' <= blen file) ->
    nth_error offs i = Some o ->
    core (nth i (offset_to_location Cur file offs) zero_loc) =
    (o, spec_line (encode file) o, spec_col (encode file) o + 1, spec_line_start (encode file) o).
Proof. exact loc_cur_restricted. Qed.
Print Assumptions C17_loc_restricted.

Theorem C17_loc_ascii :
  forall file offs i o,
    forallb is_ascii file = true -> NoDup offs ->
    (forall o', In o' offs -> o' <= N.of_nat (length file)) ->
    nth_error offs i = Some o ->
    core (nth i (offset_to_location Cur file offs) zero_loc) =
    (o, spec_line file o, spec_col file o + 1, spec_line_start file o).
Proof. exact loc_cur_ascii_file. Qed.
Print Assumptions C17_loc_ascii.

(** FINDING C17-loc-char-index-vs-byte-offset: the unrestricted statement is false. *)
Theorem C17_loc_general_refuted :
  exists file offs i o,
    NoDup offs /\ (forall o', In o' offs -> o' <= blen file) /\ nth_error offs i = Some o /\
    known_multibyte file offs = true /\
    c_line (nth i (offset_to_location Cur file offs) zero_loc) <> spec_line (encode file) o.
Proof. exact loc_multibyte_refuted. Qed.
Print Assumptions C17_loc_general_refuted.

(** ... and a span behind enough multi-byte characters is not located at all (printed `L:0-L:0`). *)
Theorem C17_loc_unmatched_refuted :
  exists file offs, NoDup offs /\ (forall o', In o' offs -> o' <= blen file) /\
    offset_to_location Cur file offs = [zero_loc; zero_loc].
Proof. exact loc_multibyte_unmatched_refuted. Qed.
Print Assumptions C17_loc_unmatched_refuted.

(** FINDING C17-loc-duplicate-offsets *)
Theorem C17_loc_duplicates_refuted :
  exists file offs i o,
    forallb is_ascii file = true /\ (forall o', In o' offs -> o' <= blen file) /\
    nth_error offs i = Some o /\ known_dup offs = true /\
    c_line (nth i (offset_to_location Cur file offs) zero_loc) <> spec_line (encode file) o.
Proof. exact loc_duplicates_refuted. Qed.
Print Assumptions C17_loc_duplicates_refuted.

(** print_code_location shows the start line and the 1-based start column of a one-line span *)
Theorem C17_print_span :
  forall s e, known_multiline s e = false ->
    printed_line (print_loc s e) = c_line s /\ printed_col (print_loc s e) = c_col s - 1.
Proof. exact print_same_line. Qed.
Print Assumptions C17_print_span.

(** FINDING C17-print-multiline-span: for a span over several lines the start column is never printed *)
Theorem C17_print_span_refuted :
  exists s e, known_multiline s e = true /\ c_col s <> c_col e /\
              printed_col (print_loc s e) <> c_col s - 1.
Proof. exact print_multiline_refuted. Qed.
Print Assumptions C17_print_span_refuted.

(** mapper + printer: the `L:C` of a trace line is the specified line and column of the first
    byte of the construct *)
Theorem C17_reported_position :
  forall file a b,
    known_multibyte file [a; b] = false -> a <> b -> a <= blen file -> b <= blen file ->
    spec_line (encode file) a = spec_line (encode file) b ->
    let locs := offset_to_location Cur file [a; b] in
    let p := print_loc (nth 0 locs zero_loc) (nth 1 locs zero_loc) in
    printed_line p = spec_line (encode file) a /\ printed_col p = spec_col (encode file) a.
Proof. exact reported_position. Qed.
Print Assumptions C17_reported_position.

(** the token loop over ANY one-token matcher honouring logos' contract tiles the input *)
Theorem C17_lex_tiles :
  forall (K : Type) (matcher : list N -> option (K * N)) input,
    matcher_ok matcher ->
    exists toks, lex_loop matcher (length input) 0 input = Some toks /\
                 tiles toks (N.of_nat (length input)).
Proof. exact (@lex_tiles). Qed.
Print Assumptions C17_lex_tiles.

(** a tiling token list reproduces the input: no byte lost, none twice *)
Theorem C17_tiles_concat :
  forall (K : Type) input (toks : list (K * N * N)),
    tiles toks (N.of_nat (length input)) ->
    concat (map (fun t => slice input (snd (fst t)) (snd t)) toks) = input.
Proof. intros K input toks H. exact (tiles_concat input toks 0 H). Qed.
Print Assumptions C17_tiles_concat.

(** Sink::finish, for EVERY lexeme list and EVERY event list that has a single root and as
    many Token events as there are non-trivia lexemes (the parser's invariant): no panic, and
    the leaves of the tree are exactly the lexemes, in order — the tree prints back the input. *)
Theorem C17_sink_lossless :
  forall (T : Type) (lx : list (bool * T)) (evs : list event),
    wf_events 0 false evs = true -> count_tokens evs = count_nontrivia lx ->
    sink lx evs = Some lx.
Proof. exact (@sink_lossless). Qed.
Print Assumptions C17_sink_lossless.

(** The REPAIRED offset_to_location (fixes/C17-offset-to-location.diff; model [Fixed]): for every
    file — any mix of 1-4 byte characters — and every query whose offsets are character
    boundaries (duplicates, any order, end of file included), every answer is the specified
    one.  This is the theorem that is tied to the code once the fix has landed (the check
    detects which model the code follows). *)
Theorem C17_loc_fixed_general :
  forall file offs i o,
    (forall o', In o' offs -> exists k, (k <= length file)%nat /\ o' = blen (firstn k file)) ->
    nth_error offs i = Some o ->
    core (nth i (offset_to_location Fixed file offs) zero_loc) =
    (o, spec_line (encode file) o, spec_col (encode file) o + 1, spec_line_start (encode file) o).
Proof. exact loc_fixed_general. Qed.
Print Assumptions C17_loc_fixed_general.

(** FINDING C17-jsformat-column-plus-one: JsFormat (libjsonnet trace format 1) prints the right
    line but, for EVERY located frame, a column one larger than the column of the construct. *)
Theorem C17_jsformat_column_refuted :
  forall file a b,
    known_multibyte file [a; b] = false -> a <> b -> a <= blen file -> b <= blen file ->
    let locs := offset_to_location Cur file [a; b] in
    print_js (nth 0 locs zero_loc) = (spec_line (encode file) a, spec_col (encode file) a + 1).
Proof. exact jsformat_column. Qed.
Print Assumptions C17_jsformat_column_refuted.
