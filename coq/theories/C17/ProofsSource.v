(** C17 — source tie, lemmas: the translated functions of Gen/GenLoc.v equal the hand model. *)
From Coq Require Import String.
From Coq Require Import List NArith Bool Lia.
From JrV Require Import C17.Model C17.Proofs C17.FixedProofs Gen.GenLoc C17.ModelSource.
Import ListNotations.
Open Scope N_scope.

(* ---------------------------------------------------------------- library models = the model's helpers *)
Lemma char_len_clen : forall c, char_len_utf8 c = clen c.
Proof. reflexivity. Qed.
Lemma str_len_blen : forall s, str_len s = blen s.
Proof. induction s as [|c r IH]; [reflexivity|]. cbn [str_len blen]. now rewrite IH. Qed.
Lemma char_indices_eq : forall s p, str_char_indices_from p s = char_indices_from p s.
Proof. induction s as [|c r IH]; intros p; [reflexivity|]. cbn [str_char_indices_from char_indices_from]. now rewrite IH. Qed.
Lemma chars_enumerate_eq : forall s p, str_chars_enumerate_from p s = enumerate_from p s.
Proof. induction s as [|c r IH]; intros p; [reflexivity|]. cbn [str_chars_enumerate_from enumerate_from]. now rewrite IH. Qed.

Lemma to_of_cloc : forall c, to_cloc (of_cloc c) = c.
Proof. intros []. reflexivity. Qed.

Lemma map_vec_update : forall (f : CodeLocation -> CodeLocation) (f' : cloc -> cloc),
  (forall c, to_cloc (f c) = f' (to_cloc c)) ->
  forall l i, map to_cloc (vec_update i f l) = upd i f' (map to_cloc l).
Proof.
  intros f f' H. induction l as [|x r IH]; intros i; [destruct i; reflexivity|].
  destruct i; cbn [vec_update upd map]; [now rewrite H|now rewrite IH].
Qed.

Lemma upd_upd : forall {A} (f g : A -> A) l i, upd i f (upd i g l) = upd i (fun x => f (g x)) l.
Proof.
  intros A f g. induction l as [|x r IH]; intros i; [destruct i; reflexivity|].
  destruct i; cbn [upd]; [reflexivity|now rewrite IH].
Qed.
Lemma upd_ext : forall {A} (f g : A -> A), (forall x, f x = g x) -> forall l i, upd i f l = upd i g l.
Proof.
  intros A f g H. induction l as [|x r IH]; intros i; [destruct i; reflexivity|].
  destruct i; cbn [upd]; [now rewrite H|now rewrite IH].
Qed.

(* ---------------------------------------------------------------- offset_map construction *)
Lemma map_swap_combine : forall {A B} (a : list A) (b : list B),
  map (fun '(x, y) => (y, x)) (combine a b) = combine b a.
Proof.
  induction a as [|x a IH]; intros b; [destruct b; reflexivity|].
  destruct b; [reflexivity|]. cbn [combine map]. now rewrite IH.
Qed.
Lemma insert_ins : forall x l, insert_by_key (fun v : N * nat => fst v) x l = ins x l.
Proof. intros x. induction l as [|y r IH]; [reflexivity|]. cbn [insert_by_key ins]. now rewrite IH. Qed.
Lemma sort_eq : forall l, vec_sort_by_key (fun v : N * nat => fst v) l = fold_right ins [] l.
Proof.
  unfold vec_sort_by_key. induction l as [|x r IH]; [reflexivity|].
  cbn [fold_right]. rewrite IH. apply insert_ins.
Qed.

(* ---------------------------------------------------------------- the `for idx in ..` loops = set_le *)
Lemma loop3_set_le : forall idxs out pos,
  map to_cloc (gen_offset_to_location_loop3 idxs out pos) = set_le idxs pos (map to_cloc out).
Proof.
  induction idxs as [|i r IH]; intros out pos; [reflexivity|].
  cbn [gen_offset_to_location_loop3 set_le]. rewrite IH. f_equal.
  apply map_vec_update. intros []. reflexivity.
Qed.
Lemma loop4_set_le : forall idxs out fe,
  map to_cloc (gen_offset_to_location_loop4 idxs out fe) = set_le idxs fe (map to_cloc out).
Proof.
  induction idxs as [|i r IH]; intros out pos; [reflexivity|].
  cbn [gen_offset_to_location_loop4 set_le]. rewrite IH. f_equal.
  apply map_vec_update. intros []. reflexivity.
Qed.

(* ---------------------------------------------------------------- `while let Some(x) = offset_map.last()` = pop true *)
Lemma vec_last_rev_cons : forall {A} (x : A) l, vec_last (rev (x :: l)) = Some x.
Proof. intros. unfold vec_last. now rewrite rev_involutive. Qed.
Lemma vec_pop_rev_cons : forall {A} (x : A) l, vec_pop (rev (x :: l)) = rev l.
Proof. intros. unfold vec_pop. now rewrite rev_involutive. Qed.

Lemma loop2_pop : forall om fuel line col out pend ls pos omv' out' pend',
  (length om < fuel)%nat ->
  gen_offset_to_location_loop2 fuel line col (rev om) out pend ls pos = (omv', out', pend') ->
  exists om', omv' = rev om' /\
    pop true pos line col ls om pend (map to_cloc out) = (om', pend', map to_cloc out').
Proof.
  induction om as [|[o idx] om IH]; intros fuel line col out pend ls pos omv' out' pend' Hf H.
  - destruct fuel; [inversion Hf|]. cbn in H. injection H as <- <- <-. exists []. split; reflexivity.
  - destruct fuel; [inversion Hf|].
    cbn [gen_offset_to_location_loop2] in H. rewrite vec_last_rev_cons in H.
    cbn [pop fst snd] in *.
    destruct (N.eqb o pos) eqn:E; cbn [negb] in H.
    + rewrite vec_pop_rev_cons in H. apply IH in H; [|cbn [length] in Hf; lia].
      destruct H as [om' [-> H]]. exists om'. split; [reflexivity|].
      unfold vec_push in H. rewrite <- H. f_equal.
      rewrite (map_vec_update (fun c => set_line_start_offset ls c)
                 (fun c => mkloc (c_off c) (c_line c) (c_col c) ls (c_le c))) by (intros []; reflexivity).
      rewrite (map_vec_update (fun c => set_column col c)
                 (fun c => mkloc (c_off c) (c_line c) col (c_ls c) (c_le c))) by (intros []; reflexivity).
      rewrite (map_vec_update (fun c => set_line line c)
                 (fun c => mkloc (c_off c) line (c_col c) (c_ls c) (c_le c))) by (intros []; reflexivity).
      rewrite (map_vec_update (fun c => set_offset pos c)
                 (fun c => mkloc pos (c_line c) (c_col c) (c_ls c) (c_le c))) by (intros []; reflexivity).
      rewrite !upd_upd. apply upd_ext. intros []. reflexivity.
    + injection H as <- <- <-. exists ((o, idx) :: om). split; reflexivity.
Qed.

(* ---------------------------------------------------------------- the `for (pos, ch) in ..` loop = go true *)
Lemma loop1_go : forall items line col maxo om out pend ls l' c' omv' out' pend' ls',
  gen_offset_to_location_loop1 items line col maxo (rev om) out pend ls = (l', c', omv', out', pend', ls') ->
  go true items maxo line col ls om pend (map to_cloc out) = (pend', map to_cloc out').
Proof.
  induction items as [|[pos ch] rest IH]; intros line col maxo om out pend ls l' c' omv' out' pend' ls' H.
  - cbn in H. injection H as <- <- <- <- <- <-. reflexivity.
  - cbn [gen_offset_to_location_loop1] in H. cbn [go].
    destruct (gen_offset_to_location_loop2 (S (length (rev om))) line (N.add col 1) (rev om) out pend ls pos)
      as [[omv1 out1] pend1] eqn:E2.
    apply loop2_pop in E2; [|rewrite rev_length; lia].
    destruct E2 as [om1 [-> E2]]. rewrite E2.
    destruct (N.eqb ch 10).
    + rewrite <- loop3_set_le.
      destruct (N.eqb pos (N.add maxo 1)).
      * injection H as <- <- <- <- <- <-. reflexivity.
      * apply IH in H. exact H.
    + apply IH in H. exact H.
Qed.

(* ---------------------------------------------------------------- the function *)
Lemma map_to_cloc_repeat : forall n, map to_cloc (repeat default_CodeLocation n) = repeat zero_loc n.
Proof. induction n; [reflexivity|]. cbn [repeat map]. now rewrite IHn. Qed.

Lemma source_offset_to_location : forall file offs,
  src_offset_to_location file offs = offset_to_location Cur file offs.
Proof.
  intros file offs. unfold src_offset_to_location, gen_offset_to_location, offset_to_location.
  destruct offs as [|o0 offs']; [reflexivity|].
  cbn [slice_is_empty]. set (offs := o0 :: offs') in *.
  unfold vec_reverse, slice_enumerate, iter_max.
  rewrite (map_swap_combine (seq 0 (length offs)) offs), sort_eq.
  fold (sort_offsets offs).
  destruct (gen_offset_to_location_loop1 _ _ _ _ _ _ _ _) as [[[[[l' c'] omv'] out'] pend'] ls'] eqn:E.
  apply loop1_go in E. rewrite map_to_cloc_repeat in E.
  unfold str_char_indices in E. rewrite char_indices_eq, str_len_blen in E.
  cbn [multi_of items_of file_end_of]. rewrite E.
  rewrite loop4_set_le, str_len_blen. reflexivity.
Qed.

(* ---------------------------------------------------------------- printers *)
Lemma source_print_code_location : forall s e,
  gen_print_code_location s e = render_print (print_loc (to_cloc s) (to_cloc e)).
Proof.
  intros s e. unfold gen_print_code_location, print_loc, to_cloc. cbn [c_line c_col].
  destruct (N.eqb (g_line s) (g_line e)); [destruct (N.eqb (g_column s) (g_column e))|]; reflexivity.
Qed.

Lemma source_js_args : forall locs,
  gen_js_args locs = [fst (print_js (to_cloc (nth 0%nat locs default_CodeLocation)));
                      snd (print_js (to_cloc (nth 0%nat locs default_CodeLocation)))].
Proof. intros. reflexivity. Qed.

Lemma nth_map_to_cloc : forall l, to_cloc (nth 0%nat l default_CodeLocation) = nth 0%nat (map to_cloc l) zero_loc.
Proof. destruct l; reflexivity. Qed.

Lemma source_syntax_error_print : forall file offset,
  src_syntax_error_print file offset = render_print (syntax_error_print Cur file offset).
Proof.
  intros file offset. unfold src_syntax_error_print, syntax_error_print, gen_syntax_error_location.
  rewrite source_print_code_location, str_len_blen. f_equal.
  pose proof (source_offset_to_location file) as HS. unfold src_offset_to_location in HS.
  destruct (N.leb (blen file) offset).
  - rewrite <- HS.
    destruct (gen_offset_to_location file [N.sub (blen file) 1]) as [|l r]; reflexivity.
  - rewrite <- HS.
    destruct (gen_offset_to_location file [offset]) as [|l r]; reflexivity.
Qed.

(* ---------------------------------------------------------------- corollaries: translated code meets the SPEC *)
Lemma nth_map_to_cloc_i : forall i l, to_cloc (nth i l default_CodeLocation) = nth i (map to_cloc l) zero_loc.
Proof. intros i l. change zero_loc with (to_cloc default_CodeLocation). now rewrite map_nth. Qed.

Lemma source_loc_general :
  forall file offs i o,
    (forall o', In o' offs -> exists k, (k <= length file)%nat /\ o' = blen (firstn k file)) ->
    nth_error offs i = Some o ->
    let l := nth i (gen_offset_to_location file offs) default_CodeLocation in
    (g_offset l, g_line l, g_column l, g_line_start_offset l) =
    (o, spec_line (encode file) o, spec_col (encode file) o + 1, spec_line_start (encode file) o).
Proof.
  intros file offs i o Hb Hn l.
  pose proof (loc_general file offs i o Hb Hn) as H.
  rewrite <- source_offset_to_location in H. unfold src_offset_to_location in H.
  rewrite <- nth_map_to_cloc_i in H. exact H.
Qed.

Lemma source_reported_position :
  forall file a b,
    boundary file a -> boundary file b ->
    spec_line (encode file) a = spec_line (encode file) b ->
    let locs := gen_offset_to_location file [a; b] in
    exists fmt rest,
      gen_print_code_location (nth 0 locs default_CodeLocation) (nth 1 locs default_CodeLocation)
      = [(fmt, spec_line (encode file) a :: spec_col (encode file) a :: rest)].
Proof.
  intros file a b Ha Hb Hl locs.
  pose proof (reported_position file a b Ha Hb Hl) as H. cbv zeta in H.
  rewrite <- source_offset_to_location in H. unfold src_offset_to_location in H.
  rewrite <- !nth_map_to_cloc_i in H. fold locs in H.
  rewrite source_print_code_location.
  destruct (print_loc (to_cloc (nth 0 locs default_CodeLocation)) (to_cloc (nth 1 locs default_CodeLocation)))
    as [[l c] [[[l2|] c2]|]]; cbn [printed_line printed_col fst snd] in H; destruct H as [<- <-];
    cbn [render_print]; eexists; eexists; reflexivity.
Qed.

Lemma source_jsformat_position :
  forall file a b,
    boundary file a -> boundary file b ->
    gen_js_args (gen_offset_to_location file (gen_js_query a b)) =
    [spec_line (encode file) a; spec_col (encode file) a].
Proof.
  intros file a b Ha Hb.
  pose proof (jsformat_position file a b Ha Hb) as H. cbv zeta in H.
  rewrite <- source_offset_to_location in H. unfold src_offset_to_location in H.
  rewrite <- nth_map_to_cloc_i in H.
  rewrite source_js_args. unfold gen_js_query. rewrite H. reflexivity.
Qed.

(* ---------------------------------------------------------------- non-vacuity: multi-byte text *)
(** "é😀\n€x" = bytes 0..1 é, 2..5 😀, 6 LF, 7..9 €, 10 x; offsets at every character boundary, a duplicate,
    out of order, end of file *)
Example ex_mapper_multibyte :
  map to_cloc (gen_offset_to_location [233; 128512; 10; 8364; 120] [10; 2; 11; 2; 0; 7; 6])
  = [mkloc 10 2 3 7 11; mkloc 2 1 3 0 6; mkloc 11 2 4 7 11; mkloc 2 1 3 0 6; mkloc 0 1 2 0 6;
     mkloc 7 2 2 7 11; mkloc 6 1 4 0 6].
Proof. vm_compute. reflexivity. Qed.
Example ex_mapper_multibyte_is_model :
  offset_to_location Cur [233; 128512; 10; 8364; 120] [10; 2; 11; 2; 0; 7; 6]
  = [mkloc 10 2 3 7 11; mkloc 2 1 3 0 6; mkloc 11 2 4 7 11; mkloc 2 1 3 0 6; mkloc 0 1 2 0 6;
     mkloc 7 2 2 7 11; mkloc 6 1 4 0 6].
Proof. vm_compute. reflexivity. Qed.
(** CR LF: CR is an ordinary character of the line *)
Example ex_mapper_crlf :
  map to_cloc (gen_offset_to_location [97; 13; 10; 233; 13; 10] [2; 3; 5; 7])
  = [mkloc 2 1 4 0 2; mkloc 3 2 2 3 6; mkloc 5 2 3 3 6; mkloc 7 3 2 7 7].
Proof. vm_compute. reflexivity. Qed.
Example ex_boundary : boundary [233; 128512; 10; 8364; 120] 7 /\ boundary [233; 128512; 10; 8364; 120] 10.
Proof. split; [exists 3%nat|exists 4%nat]; split; (cbn; lia) || reflexivity. Qed.
Example ex_reported_multibyte :
  let locs := gen_offset_to_location [233; 128512; 10; 8364; 120] [7; 10] in
  gen_print_code_location (nth 0 locs default_CodeLocation) (nth 1 locs default_CodeLocation)
  = [("{}:{}-{}"%string, [2; 1; 3])].
Proof. vm_compute. reflexivity. Qed.
Example ex_js_multibyte :
  gen_js_args (gen_offset_to_location [233; 128512; 10; 8364; 120] (gen_js_query 10 11)) = [2; 2].
Proof. vm_compute. reflexivity. Qed.
(** syntax error at end of file: clamped to the last byte, column + 1 *)
Example ex_syntax_error_eof :
  src_syntax_error_print [233; 10; 120; 121] 5 = [("{}:{}"%string, [2; 3])]
  /\ src_syntax_error_print [233; 10; 120; 121] 3 = [("{}:{}"%string, [2; 1])].
Proof. vm_compute. split; reflexivity. Qed.
