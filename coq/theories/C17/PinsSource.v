(** Statements of the C17 source-tie theorems, pinned: weakening one breaks this file. *)
From Coq Require Import String.
From Coq Require Import List NArith Bool.
From JrV Require Import C17.Model C17.FixedProofs Gen.GenLoc C17.ModelSource C17.PropertiesSource.
Import ListNotations.
Open Scope N_scope.

Check C17_model_is_translated_source_mapper :
  forall file offs, map to_cloc (gen_offset_to_location file offs) = offset_to_location Cur file offs.
Check C17_model_is_translated_source_printer :
  forall s e, gen_print_code_location s e = render_print (print_loc (to_cloc s) (to_cloc e)).
Check C17_model_is_translated_source_jsformat :
  forall locs, gen_js_args locs =
    [fst (print_js (to_cloc (nth 0%nat locs default_CodeLocation)));
     snd (print_js (to_cloc (nth 0%nat locs default_CodeLocation)))].
Check C17_model_is_translated_source_syntax_error :
  forall file offset,
    gen_print_code_location
      (gen_syntax_error_location
         (fun o => nth 0%nat (gen_offset_to_location file [o]) default_CodeLocation) file offset)
      (gen_syntax_error_location
         (fun o => nth 0%nat (gen_offset_to_location file [o]) default_CodeLocation) file offset)
    = render_print (syntax_error_print Cur file offset).
Check C17_source_loc_general :
  forall file offs i o,
    (forall o', In o' offs -> exists k, (k <= length file)%nat /\ o' = blen (firstn k file)) ->
    nth_error offs i = Some o ->
    let l := nth i (gen_offset_to_location file offs) default_CodeLocation in
    (g_offset l, g_line l, g_column l, g_line_start_offset l) =
    (o, spec_line (encode file) o, spec_col (encode file) o + 1, spec_line_start (encode file) o).
Check C17_source_reported_position :
  forall file a b,
    (exists k, (k <= length file)%nat /\ a = blen (firstn k file)) ->
    (exists k, (k <= length file)%nat /\ b = blen (firstn k file)) ->
    spec_line (encode file) a = spec_line (encode file) b ->
    let locs := gen_offset_to_location file [a; b] in
    exists fmt rest,
      gen_print_code_location (nth 0 locs default_CodeLocation) (nth 1 locs default_CodeLocation)
      = [(fmt, spec_line (encode file) a :: spec_col (encode file) a :: rest)].
Check C17_source_jsformat_position :
  forall file a b,
    (exists k, (k <= length file)%nat /\ a = blen (firstn k file)) ->
    (exists k, (k <= length file)%nat /\ b = blen (firstn k file)) ->
    gen_js_args (gen_offset_to_location file [a; b]) =
    [spec_line (encode file) a; spec_col (encode file) a].

(** the comparison functions, pinned by value *)
Check eq_refl : to_cloc (mkCodeLocation 1 2 3 4 5) = mkloc (g_offset (mkCodeLocation 1 2 3 4 5)) 2 3 4 5.
Check eq_refl : render_print (7, 8, None) = [("{}:{}"%string, [7; 8])].
Check eq_refl : render_print (7, 8, Some (None, 9)) = [("{}:{}-{}"%string, [7; 8; 9])].
Check eq_refl : render_print (7, 8, Some (Some 6, 9)) = [("{}:{}-{}:{}"%string, [7; 8; 6; 9])].
(** the translated functions, pinned by value on multi-byte text (e-acute, emoji, LF, euro, x) *)
Check eq_refl : map to_cloc (gen_offset_to_location [233; 128512; 10; 8364; 120] [10; 2; 11; 2; 0; 7; 6])
  = [mkloc 10 2 3 7 11; mkloc 2 1 3 0 6; mkloc 11 2 4 7 11; mkloc 2 1 3 0 6; mkloc 0 1 2 0 6;
     mkloc 7 2 2 7 11; mkloc 6 1 4 0 6].
Check eq_refl : map to_cloc (gen_offset_to_location [104;101;108;108;111;32;119;111;114;108;100;10;95;95;95;95;95;95] [0; 14])
  = [mkloc 0 1 2 0 11; mkloc 14 2 4 12 18].
Check eq_refl : gen_print_code_location (mkCodeLocation 11 2 2 11 16) (mkCodeLocation 16 2 7 11 16)
  = [("{}:{}-{}"%string, [2; 1; 7])].
Check eq_refl : gen_js_args [mkCodeLocation 14 2 4 12 18; mkCodeLocation 15 2 5 12 18] = [2; 3].
