(** C17 — lemmas.  Part 1: offset_to_location (the code [Cur] and the pre-6f9363a
    transliteration [Old] share [go]); the [Old]-specific lemmas are historical. *)
From Coq Require Import List Arith NArith Bool Lia Sorting.Sorted Sorting.Permutation.
From JrV Require Import C17.Model.
Import ListNotations.
Open Scope N_scope.

(* ------------------------------------------------------------------ upd / set_le *)
Lemma upd_length {A} i (f : A -> A) l : length (upd i f l) = length l.
Proof. revert i; induction l; intros [|i]; simpl; auto. Qed.

Lemma upd_nth_same {A} i (f : A -> A) l d : (i < length l)%nat -> nth i (upd i f l) d = f (nth i l d).
Proof. revert i; induction l; intros [|i] H; simpl in *; try lia; auto. apply IHl; lia. Qed.

Lemma upd_nth_other {A} i j (f : A -> A) l d : i <> j -> nth j (upd i f l) d = nth j l d.
Proof. revert i j; induction l; intros [|i] [|j] H; simpl; auto; try congruence. Qed.

Lemma upd_core i j f l :
  (forall c, core (f c) = core c) -> core (nth j (upd i f l) zero_loc) = core (nth j l zero_loc).
Proof.
  intros Hf. revert i j; induction l; intros [|i] [|j]; simpl; auto.
Qed.

Lemma set_le_length idxs v out : length (set_le idxs v out) = length out.
Proof. revert out; induction idxs; intros; simpl; auto. rewrite IHidxs, upd_length; auto. Qed.

Lemma set_le_core idxs v out j :
  core (nth j (set_le idxs v out) zero_loc) = core (nth j out zero_loc).
Proof.
  revert out; induction idxs; intros; simpl; auto.
  rewrite IHidxs. apply upd_core. intros []; reflexivity.
Qed.

(* ------------------------------------------------------------------ pop *)
Definition osorted (multi : bool) (omap : list (N * nat)) : Prop :=
  StronglySorted (fun a b => if multi then fst a <= fst b else fst a < fst b) omap.

Lemma osorted_tail multi a l : osorted multi (a :: l) -> osorted multi l.
Proof. intros H; inversion H; auto. Qed.

Lemma osorted_gt multi pos a l :
  osorted multi (a :: l) -> pos < fst a -> Forall (fun e => pos < fst e) (a :: l).
Proof.
  intros H Hlt. inversion H; subst. constructor; auto.
  eapply Forall_impl; [|exact H3]. intros e He. destruct multi; simpl in He; lia.
Qed.

Lemma pop_spec multi pos line col ls : forall omap pend out om' pend' out',
  pop multi pos line col ls omap pend out = (om', pend', out') ->
  osorted multi omap ->
  Forall (fun e => pos <= fst e) omap ->
  NoDup (map snd omap) ->
  Forall (fun e => (snd e < length out)%nat) omap ->
  exists popped,
    omap = popped ++ om' /\
    Forall (fun e => fst e = pos) popped /\
    Forall (fun e => pos < fst e) om' /\
    length out' = length out /\
    (forall idx, In idx (map snd popped) -> core (nth idx out' zero_loc) = (pos, line, col, ls)) /\
    (forall idx, ~ In idx (map snd popped) -> nth idx out' zero_loc = nth idx out zero_loc).
Proof.
  induction omap as [|[o idx] om IH]; intros pend out om' pend' out' Hp Hs Hge Hnd Hb.
  - simpl in Hp. inversion Hp; subst. exists []. repeat split; auto. simpl; tauto.
  - simpl in Hp. destruct (o =? pos) eqn:E.
    + apply N.eqb_eq in E. subst o.
      inversion Hnd as [|? ? Hni Hnd']; subst.
      inversion Hb as [|? ? Hb1 Hb']; subst. simpl in Hb1.
      inversion Hge as [|? ? _ Hge']; subst.
      destruct multi.
      * specialize (IH _ _ _ _ _ Hp (osorted_tail _ _ _ Hs) Hge' Hnd').
        destruct IH as (popped & E1 & F1 & F2 & L & C1 & C2).
        { eapply Forall_impl; [|exact Hb']. intros e He. rewrite upd_length. exact He. }
        exists ((pos, idx) :: popped). split; [simpl; congruence|].
        split; [constructor; auto|]. split; [auto|].
        split; [rewrite L, upd_length; auto|]. split.
        -- intros j [Hj|Hj]; simpl in Hj.
           ++ subst j. destruct (in_dec Nat.eq_dec idx (map snd popped)) as [Hi|Hi]; [apply C1; auto|].
              rewrite C2 by auto. rewrite upd_nth_same by auto. reflexivity.
           ++ apply C1; auto.
        -- intros j Hj. simpl in Hj. rewrite C2 by tauto. apply upd_nth_other. tauto.
      * inversion Hp; subst. exists [(pos, idx)]. split; [reflexivity|].
        split; [constructor; auto|]. split.
        { inversion Hs; subst. eapply Forall_impl; [|exact H2]. simpl. intros; lia. }
        split; [apply upd_length|]. split.
        -- intros j [Hj|[]]. simpl in Hj; subst j. rewrite upd_nth_same by auto. reflexivity.
        -- intros j Hj. simpl in Hj. apply upd_nth_other. tauto.
    + inversion Hp; subst. exists []. split; [reflexivity|]. split; [constructor|].
      split.
      { apply N.eqb_neq in E. inversion Hge; subst. simpl in H1.
        eapply osorted_gt; eauto. simpl. lia. }
      repeat split; auto. simpl; tauto.
Qed.

(* ------------------------------------------------------------------ go *)
Lemma nodup_app_r {A} (l1 l2 : list A) : NoDup (l1 ++ l2) -> NoDup l2.
Proof. induction l1; simpl; auto. inversion 1; auto. Qed.

Lemma split_head (pos ch : N) rest pre (o c : N) post :
  (pos, ch) :: rest = pre ++ (o, c) :: post ->
  Forall (fun p => pos < p) (map fst rest) ->
  (o = pos /\ pre = []) \/
  (pos < o /\ exists pre', pre = (pos, ch) :: pre' /\ rest = pre' ++ (o, c) :: post).
Proof.
  intros H F. destruct pre as [|x pre'].
  - simpl in H. inversion H. left; auto.
  - simpl in H. inversion H; subst. right. split.
    + rewrite Forall_forall in F. apply F. rewrite map_app, in_app_iff. right. simpl; auto.
    + eexists; split; reflexivity.
Qed.

Lemma scan_cons st it pre : scan st (it :: pre) = scan (step_st st it) pre.
Proof. reflexivity. Qed.

Lemma go_spec multi : forall items maxo line col ls omap pend out pend' out',
  go multi items maxo line col ls omap pend out = (pend', out') ->
  StronglySorted N.lt (map fst items) ->
  osorted multi omap ->
  Forall (fun e => In (fst e) (map fst items)) omap ->
  NoDup (map snd omap) ->
  Forall (fun e => (snd e < length out)%nat) omap ->
  Forall (fun e => fst e <= maxo) omap ->
  length out' = length out /\
  (forall o idx pre c post, In (o, idx) omap -> items = pre ++ (o, c) :: post ->
     core (nth idx out' zero_loc) = rec_of o (scan (line, col, ls) pre)) /\
  (forall idx, ~ In idx (map snd omap) -> core (nth idx out' zero_loc) = core (nth idx out zero_loc)).
Proof.
  induction items as [|[pos ch] rest IH];
    intros maxo line col ls omap pend out pend' out' Hgo Hsi Hso Hin Hnd Hb Hmax.
  - simpl in Hgo. inversion Hgo; subst. split; auto. split; auto.
    intros o idx pre c post Hi. rewrite Forall_forall in Hin. destruct (Hin _ Hi).
  - simpl in Hgo. simpl in Hsi. inversion Hsi as [|? ? Hsr Hgt]; subst.
    destruct (pop multi pos line (col + 1) ls omap pend out) as [[om1 pend1] out1] eqn:Hpop.
    assert (Hge : Forall (fun e => pos <= fst e) omap).
    { eapply Forall_impl; [|exact Hin]. intros e [He|He]; simpl in *; [lia|].
      rewrite Forall_forall in Hgt. specialize (Hgt _ He). lia. }
    destruct (pop_spec _ _ _ _ _ _ _ _ _ _ _ Hpop Hso Hge Hnd Hb)
      as (popped & Eo & Fp & Fgt & L1 & C1 & C2).
    (* facts about om1 *)
    assert (Hso1 : osorted multi om1).
    { subst omap. clear - Hso. induction popped; simpl in *; auto. apply IHpopped. inversion Hso; auto. }
    assert (Hin1 : Forall (fun e => In (fst e) (map fst rest)) om1).
    { rewrite Forall_forall in *. intros e He.
      assert (Hi : In e omap) by (subst omap; apply in_or_app; auto).
      specialize (Hin _ Hi). specialize (Fgt _ He). simpl in Hin. destruct Hin; [lia|auto]. }
    assert (Hnd1 : NoDup (map snd om1)).
    { subst omap. rewrite map_app in Hnd. apply nodup_app_r in Hnd. auto. }
    assert (Hdisj : forall idx, In idx (map snd popped) -> ~ In idx (map snd om1)).
    { subst omap. rewrite map_app in Hnd. clear - Hnd. induction (map snd popped); simpl in *; [tauto|].
      inversion Hnd; subst. intros idx [H|H]; [subst; intro; apply H1; apply in_or_app; auto|auto]. }
    assert (Hmax1 : Forall (fun e => fst e <= maxo) om1).
    { subst omap. apply Forall_app in Hmax. tauto. }
    assert (Hbx : forall outx : list cloc, length outx = length out -> Forall (fun e => (snd e < length outx)%nat) om1).
    { intros outx Lx. subst omap. apply Forall_app in Hb. destruct Hb as [_ Hb].
      eapply Forall_impl; [|exact Hb]. intros e He. rewrite Lx. exact He. }
    (* the common continuation argument *)
    assert (Hcont : forall st' pendx (outx : list cloc) pend2,
      step_st (line, col, ls) (pos, ch) = st' ->
      length outx = length out ->
      (forall j, core (nth j outx zero_loc) = core (nth j out1 zero_loc)) ->
      go multi rest maxo (fst (fst st')) (snd (fst st')) (snd st') om1 pendx outx = (pend2, out') ->
      length out' = length out /\
      (forall o idx pre c post, In (o, idx) omap -> (pos, ch) :: rest = pre ++ (o, c) :: post ->
         core (nth idx out' zero_loc) = rec_of o (scan (line, col, ls) pre)) /\
      (forall idx, ~ In idx (map snd omap) -> core (nth idx out' zero_loc) = core (nth idx out zero_loc))).
    { intros [[l' c'] s'] pendx outx pend2 Hst Lx Cx Hgo2. simpl in Hgo2.
      destruct (IH _ _ _ _ _ _ _ _ _ Hgo2 Hsr Hso1 Hin1 Hnd1 (Hbx _ Lx) Hmax1) as (L2 & P2 & P3).
      split; [lia|]. split.
      - intros o idx pre c post Hi Hsplit.
        destruct (split_head _ _ _ _ _ _ _ Hsplit Hgt) as [[Eo' Epre]|[Hlt (pre' & Epre & Erest)]].
        + subst o pre. simpl.
          assert (Hip : In idx (map snd popped)).
          { subst omap. apply in_app_or in Hi. destruct Hi as [Hi|Hi].
            - apply (in_map snd) in Hi. exact Hi.
            - rewrite Forall_forall in Fgt. specialize (Fgt _ Hi). simpl in Fgt. lia. }
          rewrite P3 by (apply Hdisj; auto). rewrite Cx. apply C1; auto.
        + subst pre. rewrite scan_cons, Hst.
          assert (Hi1 : In (o, idx) om1).
          { subst omap. apply in_app_or in Hi. destruct Hi as [Hi|Hi]; auto.
            rewrite Forall_forall in Fp. specialize (Fp _ Hi). simpl in Fp. lia. }
          eapply P2; eauto.
      - intros idx Hni. assert (Hn1 : ~ In idx (map snd om1)).
        { intro; apply Hni. subst omap. rewrite map_app. apply in_or_app; auto. }
        assert (Hn2 : ~ In idx (map snd popped)).
        { intro; apply Hni. subst omap. rewrite map_app. apply in_or_app; auto. }
        rewrite P3 by auto. rewrite Cx. rewrite C2 by auto. reflexivity. }
    destruct (ch =? 10) eqn:Enl.
    + destruct (pos =? maxo + 1) eqn:Ebrk.
      * (* break: nothing can be left in the map *)
        apply N.eqb_eq in Ebrk. inversion Hgo; subst pend' out'.
        assert (om1 = []).
        { destruct om1 as [|e om1']; auto. inversion Fgt; subst. inversion Hmax1; subst. lia. }
        subst om1. rewrite app_nil_r in Eo. subst popped.
        split; [rewrite set_le_length; auto|]. split.
        -- intros o idx pre c post Hi Hsplit.
           destruct (split_head _ _ _ _ _ _ _ Hsplit Hgt) as [[Eo' Epre]|[Hlt _]].
           ++ subst o pre. simpl. rewrite set_le_core. apply C1. apply (in_map snd) in Hi. exact Hi.
           ++ rewrite Forall_forall in Fp. specialize (Fp _ Hi). simpl in Fp. lia.
        -- intros idx Hni. rewrite set_le_core. rewrite C2 by auto. reflexivity.
      * eapply (Hcont (line + 1, 1, pos + 1)); [simpl; rewrite Enl; reflexivity| | |exact Hgo].
        -- rewrite set_le_length; auto.
        -- intros j. apply set_le_core.
    + eapply (Hcont (line, col + 1, ls)); [simpl; rewrite Enl; reflexivity| | |exact Hgo]; auto.
Qed.

(* ------------------------------------------------------------------ sort_offsets *)
Lemma ins_perm x l : Permutation (ins x l) (x :: l).
Proof.
  induction l as [|y r IH]; simpl; auto.
  destruct (fst x <=? fst y); auto.
  eapply perm_trans; [apply perm_skip; exact IH|apply perm_swap].
Qed.

Lemma isort_perm l : Permutation (fold_right ins [] l) l.
Proof.
  induction l; simpl; auto. eapply perm_trans; [apply ins_perm|]. auto.
Qed.

Lemma ins_sorted_le x l : osorted true l -> osorted true (ins x l).
Proof.
  unfold osorted. induction l as [|y r IH]; simpl; intros H.
  - repeat constructor.
  - destruct (fst x <=? fst y) eqn:E.
    + apply N.leb_le in E. constructor; auto. inversion H; subst. constructor; auto.
      eapply Forall_impl; [|exact H3]. simpl. intros; lia.
    + apply N.leb_gt in E. inversion H; subst. constructor; auto.
      rewrite Forall_forall. intros e He.
      apply (Permutation_in _ (ins_perm x r)) in He. destruct He as [He|He].
      * subst. lia.
      * rewrite Forall_forall in H3. auto.
Qed.

Lemma ins_sorted_lt x l :
  osorted false l -> ~ In (fst x) (map fst l) -> osorted false (ins x l).
Proof.
  unfold osorted. induction l as [|y r IH]; simpl; intros H Hni.
  - repeat constructor.
  - destruct (fst x <=? fst y) eqn:E.
    + apply N.leb_le in E. constructor; auto. inversion H; subst.
      assert (fst x < fst y) by (assert (fst y <> fst x) by tauto; lia).
      constructor; auto.
      eapply Forall_impl; [|exact H3]. simpl. intros; lia.
    + apply N.leb_gt in E. inversion H; subst. constructor; [apply IH; auto|].
      rewrite Forall_forall. intros e He.
      apply (Permutation_in _ (ins_perm x r)) in He. destruct He as [He|He].
      * subst. lia.
      * rewrite Forall_forall in H3. auto.
Qed.

Lemma isort_sorted_le l : osorted true (fold_right ins [] l).
Proof. induction l; simpl; [constructor|apply ins_sorted_le; auto]. Qed.

Lemma isort_sorted_lt l : NoDup (map fst l) -> osorted false (fold_right ins [] l).
Proof.
  induction l; simpl; intros H; [constructor|]. inversion H; subst.
  apply ins_sorted_lt; auto.
  intro Hi. apply H2.
  apply (Permutation_in (l := map fst (fold_right ins [] l))); auto.
  apply Permutation_map. apply isort_perm.
Qed.

Lemma map_fst_combine {A B} (l1 : list A) (l2 : list B) :
  length l1 = length l2 -> map fst (combine l1 l2) = l1.
Proof. revert l2; induction l1; intros [|b l2] H; simpl in *; try lia; auto. f_equal. apply IHl1. lia. Qed.
Lemma map_snd_combine {A B} (l1 : list A) (l2 : list B) :
  length l1 = length l2 -> map snd (combine l1 l2) = l2.
Proof. revert l2; induction l1; intros [|b l2] H; simpl in *; try lia; auto. f_equal. apply IHl1. lia. Qed.

Lemma in_combine_seq {A} (l : list A) : forall s i x,
  nth_error l i = Some x -> In (x, (s + i)%nat) (combine l (seq s (length l))).
Proof.
  induction l; intros s [|i] x H; simpl in *; try discriminate.
  - inversion H; subst. left. f_equal. lia.
  - right. replace (s + S i)%nat with (S s + i)%nat by lia. apply IHl; auto.
Qed.

Lemma sort_offsets_sorted v offs :
  (multi_of v = false -> NoDup offs) -> osorted (multi_of v) (sort_offsets offs).
Proof.
  intros H. unfold sort_offsets. destruct (multi_of v).
  - apply isort_sorted_le.
  - apply isort_sorted_lt. rewrite map_fst_combine by (rewrite seq_length; auto). auto.
Qed.

Lemma max_ge offs o : In o offs -> o <= fold_right N.max 0 offs.
Proof. induction offs; simpl; intros []; subst; try lia. specialize (IHoffs H). lia. Qed.

(** the generic top-level statement both versions instantiate *)
Lemma otl_spec v file offs i o pre c post :
  (multi_of v = false -> NoDup offs) ->
  StronglySorted N.lt (map fst (items_of v file)) ->
  (forall o', In o' offs -> In o' (map fst (items_of v file))) ->
  nth_error offs i = Some o ->
  items_of v file = pre ++ (o, c) :: post ->
  core (nth i (offset_to_location v file offs) zero_loc) = rec_of o (scan (1, 1, 0) pre).
Proof.
  intros Hnd Hsorted Hpos Hnth Hsplit.
  unfold offset_to_location. destruct offs as [|o0 offs'] eqn:Eoffs; [destruct i; discriminate|].
  rewrite <- Eoffs in *. clear Eoffs o0 offs'.
  destruct (go (multi_of v) (items_of v file) (fold_right N.max 0 offs) 1 1 0 (sort_offsets offs) []
              (repeat zero_loc (length offs))) as [pend out] eqn:Hgo.
  rewrite set_le_core.
  assert (Hperm : Permutation (sort_offsets offs) (combine offs (seq 0 (length offs))))
    by apply isort_perm.
  destruct (go_spec _ _ _ _ _ _ _ _ _ _ _ Hgo Hsorted) as (_ & P2 & _).
  - apply sort_offsets_sorted; auto.
  - rewrite Forall_forall. intros [o' j] He. simpl. apply Hpos.
    apply (Permutation_in _ Hperm) in He. apply in_combine_l in He. auto.
  - apply (Permutation_NoDup (l := map snd (combine offs (seq 0 (length offs))))).
    + apply Permutation_map. apply Permutation_sym. auto.
    + rewrite map_snd_combine by (rewrite seq_length; auto). apply seq_NoDup.
  - rewrite Forall_forall. intros [o' j] He. simpl.
    apply (Permutation_in _ Hperm) in He. apply in_combine_r in He.
    apply in_seq in He. rewrite repeat_length. lia.
  - rewrite Forall_forall. intros [o' j] He. simpl.
    apply (Permutation_in _ Hperm) in He. apply in_combine_l in He. apply max_ge; auto.
  - eapply P2; [|exact Hsplit].
    apply (Permutation_in _ (Permutation_sym Hperm)).
    apply (in_combine_seq offs 0 i o Hnth).
Qed.

(* ------------------------------------------------------------------ spec helpers *)
Lemma last_seg_snoc l b : last_seg (l ++ [b]) = if b =? 10 then [] else last_seg l ++ [b].
Proof. unfold last_seg. rewrite fold_left_app. reflexivity. Qed.

Lemma last_seg_app_nonl m : forall l,
  forallb (fun b => negb (b =? 10)) m = true -> last_seg (l ++ m) = last_seg l ++ m.
Proof.
  induction m as [|b m IH] using rev_ind; intros l H.
  - rewrite !app_nil_r; auto.
  - rewrite forallb_app in H. apply andb_prop in H. destruct H as [H1 H2]. simpl in H2.
    rewrite app_assoc, last_seg_snoc. destruct (b =? 10); [discriminate|].
    rewrite IH by auto. rewrite app_assoc. reflexivity.
Qed.

Lemma last_seg_length_le l : (length (last_seg l) <= length l)%nat.
Proof.
  induction l using rev_ind; simpl; auto.
  rewrite last_seg_snoc, app_length. destruct (x =? 10); simpl; [lia|].
  rewrite app_length; simpl; lia.
Qed.

Lemma count_nl_app l m : count_nl (l ++ m) = count_nl l + count_nl m.
Proof. unfold count_nl. rewrite filter_app, app_length. lia. Qed.

Lemma forallb_firstn_le {A} (f : A -> bool) l : forall n m,
  (n <= m)%nat -> forallb f (firstn m l) = true -> forallb f (firstn n l) = true.
Proof.
  induction l; intros [|n] [|m] H Hf; simpl in *; auto; try lia.
  apply andb_prop in Hf. destruct Hf. rewrite H0. simpl. eapply IHl; [|eauto]. lia.
Qed.

Lemma is_start_ascii c : is_ascii c = true -> is_start c = true.
Proof.
  unfold is_ascii, is_start. intros H. apply N.ltb_lt in H.
  destruct (N.eqb_spec (c / 64) 2); auto.
  assert (c / 64 < 2) by (apply N.div_lt_upper_bound; lia). lia.
Qed.

Lemma encode_app a b : encode (a ++ b) = encode a ++ encode b.
Proof. unfold encode. apply flat_map_app. Qed.

Lemma encode_ascii w : forallb is_ascii w = true -> encode w = w.
Proof.
  induction w; simpl; auto. intros H. apply andb_prop in H. destruct H as [H1 H2].
  unfold enc. unfold is_ascii in H1. rewrite H1. simpl. f_equal. apply IHw; auto.
Qed.

Lemma blen_ascii w : forallb is_ascii w = true -> blen w = N.of_nat (length w).
Proof.
  induction w; simpl length; auto. intros H. simpl in H. apply andb_prop in H. destruct H as [H1 H2].
  simpl blen. unfold clen. unfold is_ascii in H1. rewrite H1. rewrite IHw by auto. lia.
Qed.

Lemma clen_pos c : 1 <= clen c.
Proof. unfold clen. destruct (c <? 128), (c <? 2048), (c <? 65536); lia. Qed.

Lemma blen_ge_length w : N.of_nat (length w) <= blen w.
Proof. induction w; simpl length; simpl blen; [lia|]. pose proof (clen_pos a). lia. Qed.

Lemma blen_app a b : blen (a ++ b) = blen a + blen b.
Proof. induction a; simpl; auto. rewrite IHa. lia. Qed.

(* ------------------------------------------------------------------ items: enumerate *)
Lemma enum_snoc w : forall p c,
  enumerate_from p (w ++ [c]) = enumerate_from p w ++ [(p + N.of_nat (length w), c)].
Proof.
  induction w; intros p c; simpl.
  - f_equal. f_equal. lia.
  - f_equal. rewrite IHw. f_equal. f_equal. f_equal. lia.
Qed.

Lemma enum_ge cs : forall p, Forall (fun x => p <= x) (map fst (enumerate_from p cs)).
Proof.
  induction cs; intros p; simpl; constructor; [lia|].
  eapply Forall_impl; [|apply IHcs]. simpl; intros; lia.
Qed.

Lemma enum_sorted cs : forall p q, p + N.of_nat (length cs) <= q ->
  StronglySorted N.lt (map fst (enumerate_from p cs ++ [(q, 32)])).
Proof.
  induction cs; intros p q H; simpl in *.
  - repeat constructor.
  - constructor; [apply IHcs; lia|].
    rewrite map_app, Forall_app. split.
    + eapply Forall_impl; [|apply (enum_ge cs (p + 1))]. simpl; intros; lia.
    + repeat constructor. simpl. lia.
Qed.

Lemma enum_split cs : forall p k, (k < length cs)%nat ->
  enumerate_from p cs =
  enumerate_from p (firstn k cs) ++ (p + N.of_nat k, nth k cs 0) ::
  enumerate_from (p + N.of_nat k + 1) (skipn (S k) cs).
Proof.
  induction cs; intros p [|k] H; simpl in *; try lia.
  - f_equal; [f_equal; lia|]. f_equal. lia.
  - f_equal. rewrite (IHcs (p + 1) k) by lia. f_equal. f_equal; [f_equal; lia|]. f_equal. lia.
Qed.

Local Arguments N.add : simpl never.
Local Arguments N.sub : simpl never.
Local Arguments N.of_nat : simpl never.
Local Arguments N.div : simpl never.

Lemma count_nl_one c : count_nl [c] = if c =? 10 then 1 else 0.
Proof. unfold count_nl. cbn [filter]. destruct (c =? 10); reflexivity. Qed.

(** the loop state after walking an ASCII prefix is the specified line / column / line start *)
Lemma scan_enum_ascii w : forallb is_ascii w = true ->
  scan (1, 1, 0) (enumerate_from 0 w) =
  (1 + count_nl w, 1 + N.of_nat (length (filter is_start (last_seg w))),
   N.of_nat (length w) - N.of_nat (length (last_seg w))).
Proof.
  induction w as [|c w IH] using rev_ind; intros H.
  - reflexivity.
  - rewrite forallb_app in H. apply andb_prop in H. destruct H as [H1 H2].
    simpl in H2. rewrite andb_true_r in H2.
    rewrite enum_snoc. unfold scan in *. rewrite fold_left_app, IH by auto. simpl.
    rewrite last_seg_snoc, count_nl_app, app_length, count_nl_one.
    pose proof (last_seg_length_le w).
    destruct (c =? 10) eqn:E; simpl.
    + f_equal; [f_equal; lia|lia].
    + rewrite filter_app, !app_length. simpl. rewrite (is_start_ascii _ H2). simpl.
      f_equal; [f_equal; lia|lia].
Qed.

(** what the CURRENT code computes for an offset whose preceding text is ASCII *)
Lemma old_items_split file o :
  forallb is_ascii (firstn (N.to_nat o) file) = true -> o <= blen file ->
  exists c post, items_of Old file = enumerate_from 0 (firstn (N.to_nat o) file) ++ (o, c) :: post
                 /\ N.of_nat (length (firstn (N.to_nat o) file)) = o.
Proof.
  intros Ha Hle. unfold items_of.
  destruct (Nat.ltb_spec (N.to_nat o) (length file)) as [Hlt|Hge].
  - exists (nth (N.to_nat o) file 0). eexists. split.
    + rewrite (enum_split file 0 (N.to_nat o) Hlt) at 1. rewrite <- app_assoc. simpl.
      f_equal. f_equal. f_equal. lia.
    + rewrite firstn_length. lia.
  - rewrite firstn_all2 in * by lia.
    rewrite (blen_ascii _ Ha) in *. exists 32, []. split; [|lia].
    f_equal. f_equal. f_equal. lia.
Qed.

Lemma prefix_encode_ascii file o :
  forallb is_ascii (firstn (N.to_nat o) file) = true ->
  N.of_nat (length (firstn (N.to_nat o) file)) = o ->
  prefix (encode file) o = firstn (N.to_nat o) file.
Proof.
  intros Ha Hl. unfold prefix.
  rewrite <- (firstn_skipn (N.to_nat o) file) at 1.
  rewrite encode_app, (encode_ascii _ Ha).
  rewrite firstn_app.
  replace (N.to_nat o - length (firstn (N.to_nat o) file))%nat with 0%nat by lia.
  simpl. rewrite app_nil_r. apply firstn_all2. lia.
Qed.

Lemma old_sorted file : StronglySorted N.lt (map fst (items_of Old file)).
Proof. unfold items_of. apply enum_sorted. pose proof (blen_ge_length file). lia. Qed.

Lemma loc_old_ascii_prefix file offs i o :
  NoDup offs ->
  forallb is_ascii (firstn (N.to_nat (fold_right N.max 0 offs)) file) = true ->
  (forall o', In o' offs -> o' <= blen file) ->
  nth_error offs i = Some o ->
  core (nth i (offset_to_location Old file offs) zero_loc) =
  (o, spec_line (encode file) o, spec_col (encode file) o + 1, spec_line_start (encode file) o).
Proof.
  intros Hnd Ha Hle Hnth.
  assert (Hpre : forall o', In o' offs -> forallb is_ascii (firstn (N.to_nat o') file) = true).
  { intros o' Hi. eapply forallb_firstn_le; [|exact Ha]. pose proof (max_ge _ _ Hi). lia. }
  assert (Hio : In o offs) by (eapply nth_error_In; eauto).
  destruct (old_items_split file o (Hpre _ Hio) (Hle _ Hio)) as (c & post & Hsplit & Hlen).
  rewrite (otl_spec Old file offs i o (enumerate_from 0 (firstn (N.to_nat o) file)) c post (fun _ => Hnd) (old_sorted file)); auto.
  - rewrite (scan_enum_ascii _ (Hpre _ Hio)). unfold rec_of, spec_line, spec_col, spec_line_start.
    rewrite (prefix_encode_ascii file o (Hpre _ Hio) Hlen). rewrite Hlen. reflexivity.
  - intros o' Hi. destruct (old_items_split file o' (Hpre _ Hi) (Hle _ Hi)) as (c' & post' & Hs' & _).
    rewrite Hs'. rewrite map_app, in_app_iff. right. simpl. auto.
Qed.

(* ------------------------------------------------------------------ known classes *)
Lemma nodupb_NoDup l : nodupb l = true -> NoDup l.
Proof.
  induction l; simpl; intros H; constructor.
  - apply andb_prop in H. destruct H as [H _]. intro Hi.
    assert (existsb (N.eqb a) l = true) by (apply existsb_exists; exists a; split; auto; apply N.eqb_refl).
    rewrite H0 in H. discriminate.
  - apply andb_prop in H. destruct H. auto.
Qed.

Lemma loc_old_restricted file offs i o :
  known_multibyte file offs = false -> known_dup offs = false ->
  (forall o', In o' offs -> o' <= blen file) ->
  nth_error offs i = Some o ->
  core (nth i (offset_to_location Old file offs) zero_loc) =
  (o, spec_line (encode file) o, spec_col (encode file) o + 1, spec_line_start (encode file) o).
Proof.
  unfold known_multibyte, known_dup. intros H1 H2. apply negb_false_iff in H1, H2.
  apply loc_old_ascii_prefix; auto. apply nodupb_NoDup; auto.
Qed.

Lemma loc_old_ascii_file file offs i o :
  forallb is_ascii file = true -> NoDup offs ->
  (forall o', In o' offs -> o' <= N.of_nat (length file)) ->
  nth_error offs i = Some o ->
  core (nth i (offset_to_location Old file offs) zero_loc) = (o, spec_line file o, spec_col file o + 1, spec_line_start file o).
Proof.
  intros Ha Hnd Hle Hn. rewrite <- (encode_ascii _ Ha) at 2 3 4.
  apply loc_old_ascii_prefix; auto.
  - rewrite <- (firstn_skipn (N.to_nat (fold_right N.max 0 offs)) file) in Ha.
    rewrite forallb_app in Ha. apply andb_prop in Ha. tauto.
  - intros o' Hi. rewrite (blen_ascii _ Ha). auto.
Qed.

Lemma loc_old_multibyte_refuted :
  exists file offs i o,
    NoDup offs /\ (forall o', In o' offs -> o' <= blen file) /\ nth_error offs i = Some o /\
    known_multibyte file offs = true /\
    c_line (nth i (offset_to_location Old file offs) zero_loc) <> spec_line (encode file) o.
Proof.
  (* "é\na\nb", byte offset 2 = the first newline (line 1); the code answers for character 2 *)
  exists [233; 10; 97; 10; 98], [2], 0%nat, 2. repeat split.
  - repeat constructor; simpl; tauto.
  - intros o' [H|[]]. subst. vm_compute. discriminate.
  - vm_compute. discriminate.
Qed.

Lemma loc_old_unmatched_refuted :
  exists file offs, NoDup offs /\ (forall o', In o' offs -> o' <= blen file) /\
    offset_to_location Old file offs = [zero_loc; zero_loc].
Proof.
  (* "ééééé\nerror" : span of `error` = bytes 11..16, the file has only 11 characters *)
  exists [233; 233; 233; 233; 233; 10; 101; 114; 114; 111; 114], [11; 16]. repeat split.
  - repeat constructor; simpl; intuition discriminate.
  - intros o' [H|[H|[]]]; subst; vm_compute; discriminate.
Qed.

Lemma loc_old_duplicates_refuted :
  exists file offs i o,
    forallb is_ascii file = true /\ (forall o', In o' offs -> o' <= blen file) /\
    nth_error offs i = Some o /\ known_dup offs = true /\
    c_line (nth i (offset_to_location Old file offs) zero_loc) <> spec_line (encode file) o.
Proof.
  exists [97; 98], [1; 1], 1%nat, 1. repeat split.
  - intros o' [H|[H|[]]]; subst; vm_compute; discriminate.
  - vm_compute. discriminate.
Qed.

(* ------------------------------------------------------------------ print_code_location *)
Lemma print_same_line s e :
  known_multiline s e = false ->
  printed_line (print_loc s e) = c_line s /\ printed_col (print_loc s e) = c_col s - 1.
Proof.
  unfold known_multiline, print_loc, printed_line, printed_col. intros H.
  apply negb_false_iff in H. rewrite H.
  destruct (c_col s =? c_col e) eqn:E; simpl; auto.
  apply N.eqb_eq in E. rewrite E. auto.
Qed.

Lemma print_multiline_refuted :
  exists s e, known_multiline s e = true /\ c_col s <> c_col e /\
              printed_col (print_loc s e) <> c_col s - 1.
Proof.
  exists (mkloc 2 1 4 0 5), (mkloc 8 2 3 6 9). vm_compute. repeat split; discriminate.
Qed.

(** end to end for one span [a, b): what the trace line shows *)
Lemma reported_position_old file a b :
  known_multibyte file [a; b] = false -> a <> b -> a <= blen file -> b <= blen file ->
  spec_line (encode file) a = spec_line (encode file) b ->
  let locs := offset_to_location Old file [a; b] in
  let p := print_loc (nth 0 locs zero_loc) (nth 1 locs zero_loc) in
  printed_line p = spec_line (encode file) a /\ printed_col p = spec_col (encode file) a.
Proof.
  intros Hk Hne Ha Hb Hl locs p.
  assert (Hd : known_dup [a; b] = false).
  { unfold known_dup. simpl. destruct (N.eqb_spec a b); [contradiction|reflexivity]. }
  assert (Hle : forall o', In o' [a; b] -> o' <= blen file) by (intros o' [H|[H|[]]]; subst; auto).
  pose proof (loc_old_restricted file [a; b] 0 a Hk Hd Hle eq_refl) as H0.
  pose proof (loc_old_restricted file [a; b] 1 b Hk Hd Hle eq_refl) as H1.
  fold locs in H0, H1. unfold core in H0, H1. inversion H0. inversion H1.
  destruct (print_same_line (nth 0 locs zero_loc) (nth 1 locs zero_loc)) as [P1 P2].
  { unfold known_multiline. apply negb_false_iff. apply N.eqb_eq. congruence. }
  subst p. rewrite P1, P2. split; [congruence|]. rewrite H4. lia.
Qed.

(* ------------------------------------------------------------------ tiling *)
Lemma lex_loop_tiles {K} (matcher : list N -> option (K * N)) :
  matcher_ok matcher ->
  forall fuel rest pos n, (length rest <= fuel)%nat -> pos + N.of_nat (length rest) = n ->
    exists toks, lex_loop matcher fuel pos rest = Some toks /\ tiles_from pos toks n.
Proof.
  intros Hok. induction fuel; intros rest pos n Hf Hn.
  - destruct rest; simpl in *; [|lia]. exists []. split; auto. simpl. lia.
  - destruct rest as [|b rest'].
    + exists []. split; auto. simpl in *. lia.
    + cbn [lex_loop].
      destruct (Hok (b :: rest')) as (k & len & Hm & Hpos & Hlen); [discriminate|].
      rewrite Hm.
      destruct (IHfuel (skipn (N.to_nat len) (b :: rest')) (pos + len) n) as (toks & Ht & Hti).
      * rewrite skipn_length. simpl length in *. lia.
      * rewrite skipn_length. lia.
      * rewrite Ht. eexists; split; [reflexivity|]. simpl. repeat split; auto; lia.
Qed.

Lemma lex_tiles {K} (matcher : list N -> option (K * N)) input :
  matcher_ok matcher ->
  exists toks, lex_loop matcher (length input) 0 input = Some toks /\
               tiles toks (N.of_nat (length input)).
Proof. intros H. apply lex_loop_tiles; auto. Qed.

Lemma tiles_fromb_ok {K} (toks : list (K * N * N)) : forall p n,
  tiles_fromb p toks n = true <-> tiles_from p toks n.
Proof.
  induction toks as [|[[k s] e] r IH]; intros p n; simpl.
  - apply N.eqb_eq.
  - rewrite !andb_true_iff, N.eqb_eq, N.ltb_lt, N.leb_le, IH. tauto.
Qed.

Lemma skipn_add {A} (l : list A) : forall a b, skipn (a + b) l = skipn a (skipn b l).
Proof.
  induction l as [|x l IHl]; intros a [|b]; simpl.
  - rewrite !skipn_nil; auto.
  - rewrite !skipn_nil; auto.
  - rewrite Nat.add_0_r. reflexivity.
  - rewrite Nat.add_succ_r. simpl. apply IHl.
Qed.

Lemma tiles_concat {K} (input : list N) (toks : list (K * N * N)) : forall p,
  tiles_from p toks (N.of_nat (length input)) ->
  concat (map (fun t => slice input (snd (fst t)) (snd t)) toks) = skipn (N.to_nat p) input.
Proof.
  induction toks as [|[[k s] e] r IH]; intros p H; simpl in *.
  - subst p. rewrite Nat2N.id. rewrite skipn_all. reflexivity.
  - destruct H as (Hs & Hlt & Hle & Hr). subst s. rewrite (IH _ Hr). unfold slice. cbn [fst snd].
    replace (N.to_nat e) with (N.to_nat (e - p) + N.to_nat p)%nat by lia.
    rewrite skipn_add. apply firstn_skipn.
Qed.

(* ------------------------------------------------------------------ non-vacuity *)
(** "local x = 1;\n  é" with span [15, 17) is outside the multi-byte class only if ...; take
    the ASCII-before case: text "// c\nerror \"é\"" , span of `error` = [5, 10). *)
Definition ex_file : list N := [47; 47; 32; 99; 10; 101; 114; 114; 111; 114; 32; 34; 233; 34].
Example loc_old_example :
  known_multibyte ex_file [5; 10] = false /\ known_dup [5; 10] = false /\
  (forall o', In o' [5; 10] -> o' <= blen ex_file) /\
  existsb (fun c => negb (is_ascii c)) ex_file = true /\
  map core (offset_to_location Old ex_file [5; 10]) = [(5, 2, 2, 5); (10, 2, 7, 5)].
Proof.
  repeat split; try (vm_compute; reflexivity).
  intros o' [H|[H|[]]]; subst; vm_compute; discriminate.
Qed.

Example reported_position_example :
  let locs := offset_to_location Old ex_file [5; 10] in
  print_loc (nth 0 locs zero_loc) (nth 1 locs zero_loc) = (2, 1, Some (None, 7)).
Proof. vm_compute. reflexivity. Qed.

Example lex_example :
  (* a matcher that eats one byte, or two when the first is 47 ('/') *)
  let m := fun rest : list N => match rest with
                                | [] => None
                                | 47 :: _ :: _ => Some (1%nat, 2)
                                | _ :: _ => Some (0%nat, 1)
                                end in
  matcher_ok m /\ lex_loop m 5 0 [47; 47; 32; 99; 10] = Some [(1%nat, 0, 2); (0%nat, 2, 3); (0%nat, 3, 4); (0%nat, 4, 5)].
Proof.
  split; [|reflexivity].
  intros rest Hne. destruct rest as [|b [|b2 r]]; [congruence| |].
  - exists 0%nat, 1. destruct b as [|p]; [|do 6 (try destruct p as [p|p|])]; repeat split; simpl; lia.
  - assert (Hl : 2 <= N.of_nat (length (b :: b2 :: r))) by (simpl length; lia).
    destruct (N.eq_dec b 47) as [->|Hn].
    + exists 1%nat, 2. repeat split; auto; lia.
    + exists 0%nat, 1. split; [|split; lia].
      destruct b as [|p]; auto. do 6 (try destruct p as [p|p|]); auto. congruence.
Qed.
