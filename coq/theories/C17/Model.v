(** C17 — source text is never lost and reported positions are accurate.

    IMPL-MODELS (transliterations, bugs included):
      - [offset_to_location] : crates/jrsonnet-ir/src/location.rs offset_to_location, with the
        iteration source as a parameter: [Cur] = the code as it is since /repo 6f9363a
        (`file.char_indices()`: BYTE positions, every equal offset popped, byte length as file
        end) — the IMPL-MODEL of record; [Old] = the transliteration of the code before that
        commit (`file.chars().enumerate()`: CHARACTER indices compared with BYTE offsets, one
        match per position), kept only for the `_old_` refutation lemmas;
      - [print_loc] : crates/jrsonnet-evaluator/src/trace/mod.rs print_code_location;
      - [lex_loop]  : the token loop of crates/jrsonnet-lexer/src/lex.rs over an abstract
        one-token matcher (logos' generated automaton + the text-block scanner);
      - [sink]      : crates/jrsonnet-rowan-parser/src/event.rs Sink::finish / token /
        skip_whitespace, as far as leaves are concerned.
    SPECS: [spec_line], [spec_col], [spec_line_start] over the BYTES of the file;
    [tiles] for token lists; "leaves = lexemes" for the sink.
    Definitions only; proofs in Proofs.v. *)
From Coq Require Import List NArith Bool.
Import ListNotations.
Open Scope N_scope.

(* ------------------------------------------------------------------ UTF-8 *)
(** code point -> UTF-8 bytes (Rust `char` is a Unicode scalar value, < 0x110000) *)
Definition clen (c : N) : N :=
  if c <? 128 then 1 else if c <? 2048 then 2 else if c <? 65536 then 3 else 4.

Definition enc (c : N) : list N :=
  if c <? 128 then [c]
  else if c <? 2048 then [192 + c / 64; 128 + c mod 64]
  else if c <? 65536 then [224 + c / 4096; 128 + (c / 64) mod 64; 128 + c mod 64]
  else [240 + c / 262144; 128 + (c / 4096) mod 64; 128 + (c / 64) mod 64; 128 + c mod 64].

Definition encode (s : list N) : list N := flat_map enc s.
Fixpoint blen (s : list N) : N := match s with [] => 0 | c :: r => clen c + blen r end.
Definition is_char (c : N) : bool := c <? 1114112.
Definition is_ascii (c : N) : bool := c <? 128.

(* ------------------------------------------------------------------ SPEC: positions *)
(** All positions are BYTE offsets into the UTF-8 text [bs], as carried by spans.
    line   = 1 + number of '\n' bytes before the offset;
    column = 1 + number of code points between the start of that line and the offset
             (a code point is counted at its first byte: every byte that is not 10xxxxxx);
    CR is an ordinary character. *)
Definition prefix (bs : list N) (o : N) : list N := firstn (N.to_nat o) bs.
(** text since the last newline *)
Definition last_seg (l : list N) : list N :=
  fold_left (fun acc b => if b =? 10 then [] else acc ++ [b]) l [].
Definition is_start (b : N) : bool := negb (b / 64 =? 2).
Definition count_nl (l : list N) : N := N.of_nat (length (filter (fun b => b =? 10) l)).

Definition spec_line (bs : list N) (o : N) : N := 1 + count_nl (prefix bs o).
Definition spec_line_start (bs : list N) (o : N) : N := o - N.of_nat (length (last_seg (prefix bs o))).
Definition spec_col (bs : list N) (o : N) : N :=
  1 + N.of_nat (length (filter is_start (last_seg (prefix bs o)))).

(* ------------------------------------------------------------------ IMPL: offset_to_location *)
Record cloc := mkloc { c_off : N; c_line : N; c_col : N; c_ls : N; c_le : N }.
Definition zero_loc : cloc := mkloc 0 0 0 0 0.
(** the fields the property speaks about (line_end_offset is only compared, not proved) *)
Definition core (c : cloc) : N * N * N * N := (c_off c, c_line c, c_col c, c_ls c).

Fixpoint upd {A} (i : nat) (f : A -> A) (l : list A) : list A :=
  match l, i with
  | [], _ => []
  | x :: r, O => f x :: r
  | x :: r, S j => x :: upd j f r
  end.

(** `offset_map`: (offset, index) pairs, stable sort by offset, reversed, consumed from the
    back with `last()`/`pop()`  ==  stable ascending order consumed from the front. *)
Fixpoint ins (x : N * nat) (l : list (N * nat)) : list (N * nat) :=
  match l with
  | [] => [x]
  | y :: r => if fst x <=? fst y then x :: l else y :: ins x r
  end.
Definition sort_offsets (offs : list N) : list (N * nat) :=
  fold_right ins [] (combine offs (seq 0 (length offs))).

Fixpoint set_le (idxs : list nat) (v : N) (out : list cloc) : list cloc :=
  match idxs with
  | [] => out
  | i :: r => set_le r v (upd i (fun c => mkloc (c_off c) (c_line c) (c_col c) (c_ls c) v) out)
  end.

(** [multi = true]  (the code): `while let Some(x) = offset_map.last() { if x.0 != pos as u32
                      {break} ...; offset_map.pop() }`;
    [multi = false] (before 6f9363a): `match offset_map.last() { Some(x) if x.0 == pos =>
                      {...; offset_map.pop()} _ => {} }`, one match per position. *)
Fixpoint pop (multi : bool) (pos line col ls : N) (omap : list (N * nat)) (pend : list nat)
         (out : list cloc) : list (N * nat) * list nat * list cloc :=
  match omap with
  | [] => ([], pend, out)
  | (o, idx) :: om' =>
      if o =? pos then
        let out' := upd idx (fun c => mkloc pos line col ls (c_le c)) out in
        if multi then pop multi pos line col ls om' (pend ++ [idx]) out'
        else (om', pend ++ [idx], out')
      else (omap, pend, out)
  end.

(** the `for (pos, ch) in ...` loop; [items] is the iterated sequence *)
Fixpoint go (multi : bool) (items : list (N * N)) (maxo line col ls : N)
         (omap : list (N * nat)) (pend : list nat) (out : list cloc) : list nat * list cloc :=
  match items with
  | [] => (pend, out)
  | (pos, ch) :: rest =>
      let col := col + 1 in
      let '(omap, pend, out) := pop multi pos line col ls omap pend out in
      if ch =? 10 then
        let out := set_le pend pos out in
        if pos =? maxo + 1 then ([], out)
        else go multi rest maxo (line + 1) 1 (pos + 1) omap [] out
      else go multi rest maxo line col ls omap pend out
  end.

(** `file.chars().enumerate()` : (character index, char) *)
Fixpoint enumerate_from (p : N) (cs : list N) : list (N * N) :=
  match cs with [] => [] | c :: r => (p, c) :: enumerate_from (p + 1) r end.
(** `file.char_indices()` : (byte offset, char) *)
Fixpoint char_indices_from (p : N) (cs : list N) : list (N * N) :=
  match cs with [] => [] | c :: r => (p, c) :: char_indices_from (p + clen c) r end.

Inductive version := Old | Cur.

(** `.chain(std::iter::once((file.len(), ' ')))` — file.len() is the BYTE length in both *)
Definition items_of (v : version) (file : list N) : list (N * N) :=
  match v with
  | Old => enumerate_from 0 file ++ [(blen file, 32)]
  | Cur => char_indices_from 0 file ++ [(blen file, 32)]
  end.
Definition multi_of (v : version) : bool := match v with Old => false | Cur => true end.
(** `let file_end = file.chars().count()` (Old) / `file.len()` (Cur) *)
Definition file_end_of (v : version) (file : list N) : N :=
  match v with Old => N.of_nat (length file) | Cur => blen file end.

Definition offset_to_location (v : version) (file : list N) (offs : list N) : list cloc :=
  match offs with
  | [] => []
  | _ =>
      let maxo := fold_right N.max 0 offs in
      let '(pend, out) := go (multi_of v) (items_of v file) maxo 1 1 0 (sort_offsets offs) []
                             (repeat zero_loc (length offs)) in
      set_le pend (file_end_of v file) out
  end.

(** What the loop state is after having walked [pre] — used to say what a match records. *)
Definition step_st (st : N * N * N) (it : N * N) : N * N * N :=
  let '(line, col, ls) := st in
  let '(pos, ch) := it in
  if ch =? 10 then (line + 1, 1, pos + 1) else (line, col + 1, ls).
Definition scan (st : N * N * N) (pre : list (N * N)) : N * N * N := fold_left step_st pre st.
Definition rec_of (o : N) (st : N * N * N) : N * N * N * N :=
  let '(line, col, ls) := st in (o, line, col + 1, ls).

(* ------------------------------------------------------------------ IMPL: print_code_location *)
(** returns (line_a, col_a, Some (line_b?, col_b)) i.e. the numbers printed:
    same line, same column : "{line}:{col}"           -> (l, c, None)
    same line              : "{line}:{c1}-{c2}"       -> (l, c1, Some (None, c2))
    otherwise              : "{l1}:{c1}-{l2}:{c2}"    -> (l1, c1, Some (Some l2, c2)) *)
Definition print_loc (s e : cloc) : N * N * option (option N * N) :=
  if c_line s =? c_line e then
    if c_col s =? c_col e then (c_line s, c_col e - 1, None)
    else (c_line s, c_col s - 1, Some (None, c_col e))
  else (c_line s, c_col e - 1, Some (Some (c_line s), c_col e)).
Definition printed_line (p : N * N * option (option N * N)) : N := fst (fst p).
Definition printed_col (p : N * N * option (option N * N)) : N := snd (fst p).

(** JsFormat::write_trace (since /repo 2fd7ca2):
    "    at {desc} ({path}:{line}:{column.saturating_sub(1)})" with start_end[0] *)
Definition print_js (s : cloc) : N * N := (c_line s, c_col s - 1).

(* ------------------------------------------------------------------ lexer loop / tiling *)
(** A token list [(kind, start, end)] tiles [0, n): non-empty tokens, contiguous from 0,
    ending at n.  (SPEC) *)
Fixpoint tiles_from {K} (p : N) (toks : list (K * N * N)) (n : N) : Prop :=
  match toks with
  | [] => p = n
  | (_, s, e) :: r => s = p /\ s < e /\ e <= n /\ tiles_from e r n
  end.
Definition tiles {K} (toks : list (K * N * N)) (n : N) : Prop := tiles_from 0 toks n.
(** the same as a boolean, for checking real token lists *)
Fixpoint tiles_fromb {K} (p : N) (toks : list (K * N * N)) (n : N) : bool :=
  match toks with
  | [] => p =? n
  | (_, s, e) :: r => (s =? p) && (s <? e) && (e <=? n) && tiles_fromb e r n
  end.

(** `Lexer::next` in a loop (`collect`): [matcher rest] is what logos (with the text-block
    callback having bumped) returns on the remaining input: a kind and a byte length, or
    [None] at end of input. *)
Fixpoint lex_loop {K} (matcher : list N -> option (K * N)) (fuel : nat) (pos : N) (rest : list N)
  : option (list (K * N * N)) :=
  match fuel with
  | O => match rest with [] => Some [] | _ => None end
  | S f =>
      match rest with
      | [] => Some []
      | _ =>
          match matcher rest with
          | None => Some []
          | Some (k, len) =>
              match lex_loop matcher f (pos + len) (skipn (N.to_nat len) rest) with
              | Some r => Some ((k, pos, pos + len) :: r)
              | None => None
              end
          end
      end
  end.
(** logos' contract: on non-empty input a token of 1..=remaining bytes is produced
    (unmatched input yields a one-character error token). *)
Definition matcher_ok {K} (matcher : list N -> option (K * N)) : Prop :=
  forall rest, rest <> [] ->
    exists k len, matcher rest = Some (k, len) /\ 0 < len /\ len <= N.of_nat (length rest).

(* ------------------------------------------------------------------ Sink *)
(** Events after forward-parent / wrapper chain resolution, as far as leaves are concerned:
    [EStart n]  : n >= 1 nodes opened (`kinds.len()`),
    [EFinish n] : n >= 1 nodes closed (1 + wrapper chain),
    [EToken], [ENoop]. *)
Inductive event := EStart (n : nat) | EToken | EFinish (n : nat) | ENoop.

Section Sink.
  Context {T : Type}.
  (** lexeme = (is_trivia, payload) *)
  Definition lexeme := (bool * T)%type.
  Record sstate := mkst { s_off : nat; s_depth : nat; s_eat : bool; s_leaves : list lexeme }.

  (** skip_whitespace: `while let Some(l) = lexemes.get(offset) { if !trivia {break}; token }` *)
  Fixpoint skip_ws (rest : list lexeme) (off : nat) (leaves : list lexeme) : nat * list lexeme :=
    match rest with
    | (true, t) :: r => skip_ws r (S off) (leaves ++ [(true, t)])
    | _ => (off, leaves)
    end.
  Definition do_skip (lx : list lexeme) (st : sstate) : sstate :=
    let '(o, l) := skip_ws (skipn (s_off st) lx) (s_off st) (s_leaves st) in
    mkst o (s_depth st) (s_eat st) l.

  Fixpoint open_nodes (lx : list lexeme) (n : nat) (st : sstate) : sstate :=
    match n with
    | O => st
    | S k =>
        let st1 := mkst (s_off st) (S (s_depth st)) (s_eat st) (s_leaves st) in
        let st2 := if Nat.eqb (s_depth st1) 1 then do_skip lx st1 else st1 in
        open_nodes lx k st2
    end.
  Fixpoint close_nodes (lx : list lexeme) (n : nat) (st : sstate) : sstate :=
    match n with
    | O => st
    | S k =>
        let st1 := if Nat.eqb (s_depth st) 1 then do_skip lx st else st in
        close_nodes lx k (mkst (s_off st1) (pred (s_depth st1)) (s_eat st1) (s_leaves st1))
    end.

  (** one event; [None] = `self.lexemes[self.offset]` out of bounds (panic) *)
  Definition sink_step (lx : list lexeme) (st : sstate) (ev : event) : option sstate :=
    match ev with
    | ENoop => Some st
    | EStart n =>
        let st1 := if Nat.eqb (s_depth st) 0 then st else do_skip lx st in
        let st2 := open_nodes lx n st1 in
        Some (mkst (s_off st2) (s_depth st2) false (s_leaves st2))
    | EToken =>
        let st1 := if s_eat st then do_skip lx st else st in
        match nth_error lx (s_off st1) with
        | None => None
        | Some l => Some (mkst (S (s_off st1)) (s_depth st1) true (s_leaves st1 ++ [l]))
        end
    | EFinish n =>
        let st2 := close_nodes lx n st in
        Some (mkst (s_off st2) (s_depth st2) true (s_leaves st2))
    end.
  Fixpoint sink_run (lx : list lexeme) (st : sstate) (evs : list event) : option sstate :=
    match evs with
    | [] => Some st
    | ev :: r => match sink_step lx st ev with Some st' => sink_run lx st' r | None => None end
    end.
  Definition sink (lx : list lexeme) (evs : list event) : option (list lexeme) :=
    match sink_run lx (mkst 0 0 false []) evs with
    | Some st => Some (s_leaves st)
    | None => None
    end.

  (** the parser's invariant: a single root — the first effective event opens nodes, the
      depth stays positive until the last effective event, which closes the root. *)
  Fixpoint wf_events (depth : nat) (started : bool) (evs : list event) : bool :=
    match evs with
    | [] => started && Nat.eqb depth 0
    | ENoop :: r => wf_events depth started r
    | EStart n :: r =>
        negb (Nat.eqb n 0) && (negb started || negb (Nat.eqb depth 0)) && wf_events (depth + n) true r
    | EToken :: r => negb (Nat.eqb depth 0) && wf_events depth started r
    | EFinish n :: r =>
        negb (Nat.eqb n 0) && Nat.leb n depth && wf_events (depth - n) started r
    end.
  Definition count_tokens (evs : list event) : nat :=
    length (filter (fun e => match e with EToken => true | _ => false end) evs).
  Definition count_nontrivia (lx : list lexeme) : nat :=
    length (filter (fun l => negb (fst l)) lx).
End Sink.

(* ------------------------------------------------------------------ known classes (findings) *)
(** classes of the OLD mapper (fixed in 6f9363a), used by the `_old_` lemmas only.
    C17-loc-char-index-vs-byte-offset: some non-ASCII character among the first [max offs]
    characters of the file. *)
Definition known_multibyte (file : list N) (offs : list N) : bool :=
  negb (forallb is_ascii (firstn (N.to_nat (fold_right N.max 0 offs)) file)).
(** C17-loc-duplicate-offsets: the same offset twice in one query. *)
Fixpoint nodupb (l : list N) : bool :=
  match l with [] => true | x :: r => negb (existsb (N.eqb x) r) && nodupb r end.
Definition known_dup (offs : list N) : bool := negb (nodupb offs).
(** C17-print-multiline-span *)
Definition known_multiline (s e : cloc) : bool := negb (c_line s =? c_line e).

(** the text a token covers *)
Definition slice (input : list N) (s e : N) : list N := firstn (N.to_nat (e - s)) (skipn (N.to_nat s) input).

(* ------------------------------------------------------------------ IMPL: syntax error line of write_trace *)
(** CompactFormat::write_trace, `ErrorKind::ImportSyntaxError` branch: clamp an offset at or
    beyond the end to the last byte, map it, add 1 to the column when clamped, print. *)
Definition syntax_error_print (v : version) (file : list N) (offset : N) : N * N * option (option N * N) :=
  let len := blen file in
  let is_eof := len <=? offset in
  let off := if is_eof then len - 1 else offset in
  match offset_to_location v file [off] with
  | l :: _ =>
      let l' := if is_eof then mkloc (c_off l) (c_line l) (c_col l + 1) (c_ls l) (c_le l) else l in
      print_loc l' l'
  | [] => (0, 0, None)
  end.
Definition full (c : cloc) : N * N * N * N * N := (c_off c, c_line c, c_col c, c_ls c, c_le c).
