(** Statements of the C17 property theorems, pinned: weakening one breaks this file. *)
From Coq Require Import List NArith Bool.
From JrV Require Import C17.Model C17.Properties.
Import ListNotations.
Open Scope N_scope.

Check C17_loc_restricted :
  forall file offs i o,
    known_multibyte file offs = false -> known_dup offs = false ->
    (forall o', In o' offs -> o' <= blen file) ->
    nth_error offs i = Some o ->
    core (nth i (offset_to_location Cur file offs) zero_loc) =
    (o, spec_line (encode file) o, spec_col (encode file) o + 1, spec_line_start (encode file) o).
Check C17_loc_ascii :
  forall file offs i o,
    forallb is_ascii file = true -> NoDup offs ->
    (forall o', In o' offs -> o' <= N.of_nat (length file)) ->
    nth_error offs i = Some o ->
    core (nth i (offset_to_location Cur file offs) zero_loc) =
    (o, spec_line file o, spec_col file o + 1, spec_line_start file o).
Check C17_loc_general_refuted :
  exists file offs i o,
    NoDup offs /\ (forall o', In o' offs -> o' <= blen file) /\ nth_error offs i = Some o /\
    known_multibyte file offs = true /\
    c_line (nth i (offset_to_location Cur file offs) zero_loc) <> spec_line (encode file) o.
Check C17_loc_unmatched_refuted :
  exists file offs, NoDup offs /\ (forall o', In o' offs -> o' <= blen file) /\
    offset_to_location Cur file offs = [zero_loc; zero_loc].
Check C17_loc_duplicates_refuted :
  exists file offs i o,
    forallb is_ascii file = true /\ (forall o', In o' offs -> o' <= blen file) /\
    nth_error offs i = Some o /\ known_dup offs = true /\
    c_line (nth i (offset_to_location Cur file offs) zero_loc) <> spec_line (encode file) o.
Check C17_print_span :
  forall s e, known_multiline s e = false ->
    printed_line (print_loc s e) = c_line s /\ printed_col (print_loc s e) = c_col s - 1.
Check C17_print_span_refuted :
  exists s e, known_multiline s e = true /\ c_col s <> c_col e /\
              printed_col (print_loc s e) <> c_col s - 1.
Check C17_reported_position :
  forall file a b,
    known_multibyte file [a; b] = false -> a <> b -> a <= blen file -> b <= blen file ->
    spec_line (encode file) a = spec_line (encode file) b ->
    let locs := offset_to_location Cur file [a; b] in
    let p := print_loc (nth 0 locs zero_loc) (nth 1 locs zero_loc) in
    printed_line p = spec_line (encode file) a /\ printed_col p = spec_col (encode file) a.
Check C17_lex_tiles :
  forall (K : Type) (matcher : list N -> option (K * N)) input,
    matcher_ok matcher ->
    exists toks, lex_loop matcher (length input) 0 input = Some toks /\
                 tiles toks (N.of_nat (length input)).
Check C17_tiles_concat :
  forall (K : Type) input (toks : list (K * N * N)),
    tiles toks (N.of_nat (length input)) ->
    concat (map (fun t => slice input (snd (fst t)) (snd t)) toks) = input.
Check C17_sink_lossless :
  forall (T : Type) (lx : list (bool * T)) (evs : list event),
    wf_events 0 false evs = true -> count_tokens evs = count_nontrivia lx ->
    sink lx evs = Some lx.
Check C17_loc_fixed_general :
  forall file offs i o,
    (forall o', In o' offs -> exists k, (k <= length file)%nat /\ o' = blen (firstn k file)) ->
    nth_error offs i = Some o ->
    core (nth i (offset_to_location Fixed file offs) zero_loc) =
    (o, spec_line (encode file) o, spec_col (encode file) o + 1, spec_line_start (encode file) o).
Check C17_jsformat_column_refuted :
  forall file a b,
    known_multibyte file [a; b] = false -> a <> b -> a <= blen file -> b <= blen file ->
    let locs := offset_to_location Cur file [a; b] in
    print_js (nth 0 locs zero_loc) = (spec_line (encode file) a, spec_col (encode file) a + 1).

(** definitions pinned by value: the Rust unit test of location.rs, the design-round
    observation, UTF-8 *)
Check eq_refl : map core (offset_to_location Cur
  [104;101;108;108;111;32;119;111;114;108;100;10;95;95;95;95;95;95] [0; 14]) = [(0, 1, 2, 0); (14, 2, 4, 12)].
Check eq_refl : enc 233 = [195; 169].
Check eq_refl : enc 128512 = [240; 159; 152; 128].
Check eq_refl : enc 8364 = [226; 130; 172].
Check eq_refl : (spec_line [195;169;10;97] 3, spec_col [195;169;10;97] 3, spec_col [195;169;10;97] 2) = (2, 1, 2).
Check eq_refl : print_loc (mkloc 11 2 2 11 16) zero_loc = (2, 0, Some (Some 2, 0)).
Check eq_refl : map core (offset_to_location Fixed [233; 233; 10; 97; 98] [5; 7; 5]) = [(5, 2, 2, 5); (7, 2, 4, 5); (5, 2, 2, 5)].
Check eq_refl : sink [(true, 0); (false, 1); (true, 2)] [EStart 1; EToken; EFinish 1] = Some [(true, 0); (false, 1); (true, 2)].
Check eq_refl : sink [(true, 0); (false, 1); (true, 2)] [EStart 1; EToken; EToken; EFinish 1] = None.
