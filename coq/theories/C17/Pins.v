(** Statements of the C17 property theorems, pinned: weakening one breaks this file. *)
From Coq Require Import List NArith Bool.
From JrV Require Import C17.Model C17.FixedProofs C17.Properties.
Import ListNotations.
Open Scope N_scope.

Check C17_loc_general :
  forall file offs i o,
    (forall o', In o' offs -> exists k, (k <= length file)%nat /\ o' = blen (firstn k file)) ->
    nth_error offs i = Some o ->
    core (nth i (offset_to_location Cur file offs) zero_loc) =
    (o, spec_line (encode file) o, spec_col (encode file) o + 1, spec_line_start (encode file) o).
Check C17_print_span :
  forall s e, known_multiline s e = false ->
    printed_line (print_loc s e) = c_line s /\ printed_col (print_loc s e) = c_col s - 1.
Check C17_print_span_refuted :
  exists s e, known_multiline s e = true /\ c_col s <> c_col e /\
              printed_col (print_loc s e) <> c_col s - 1.
Check C17_reported_position :
  forall file a b,
    (exists k, (k <= length file)%nat /\ a = blen (firstn k file)) ->
    (exists k, (k <= length file)%nat /\ b = blen (firstn k file)) ->
    spec_line (encode file) a = spec_line (encode file) b ->
    let locs := offset_to_location Cur file [a; b] in
    let p := print_loc (nth 0 locs zero_loc) (nth 1 locs zero_loc) in
    printed_line p = spec_line (encode file) a /\ printed_col p = spec_col (encode file) a.
Check C17_jsformat_position :
  forall file a b,
    (exists k, (k <= length file)%nat /\ a = blen (firstn k file)) ->
    (exists k, (k <= length file)%nat /\ b = blen (firstn k file)) ->
    let locs := offset_to_location Cur file [a; b] in
    print_js (nth 0 locs zero_loc) = (spec_line (encode file) a, spec_col (encode file) a).
Check C17_lex_tiles :
  forall (K : Type) (matcher : list N -> option (K * N)) input,
    matcher_ok matcher ->
    exists toks, lex_loop matcher (length input) 0 input = Some toks /\
                 tiles toks (N.of_nat (length input)).
Check C17_tiles_concat :
  forall (K : Type) input (toks : list (K * N * N)),
    tiles toks (N.of_nat (length input)) ->
    concat (map (fun t => slice input (snd (fst t)) (snd t)) toks) = input.
Check C17_sink_lossless :
  forall (T : Type) (lx : list (bool * T)) (evs : list event),
    wf_events 0 false evs = true -> count_tokens evs = count_nontrivia lx ->
    sink lx evs = Some lx.
Check C17_loc_old_general_refuted :
  exists file offs i o,
    NoDup offs /\ (forall o', In o' offs -> o' <= blen file) /\ nth_error offs i = Some o /\
    known_multibyte file offs = true /\
    c_line (nth i (offset_to_location Old file offs) zero_loc) <> spec_line (encode file) o.
Check C17_loc_old_unmatched_refuted :
  exists file offs, NoDup offs /\ (forall o', In o' offs -> o' <= blen file) /\
    offset_to_location Old file offs = [zero_loc; zero_loc].
Check C17_loc_old_duplicates_refuted :
  exists file offs i o,
    forallb is_ascii file = true /\ (forall o', In o' offs -> o' <= blen file) /\
    nth_error offs i = Some o /\ known_dup offs = true /\
    c_line (nth i (offset_to_location Old file offs) zero_loc) <> spec_line (encode file) o.

(** definitions pinned by value: the Rust unit test of location.rs, the design-round
    observation (now located), duplicates, UTF-8, printers, sink *)
Check eq_refl : map core (offset_to_location Cur
  [104;101;108;108;111;32;119;111;114;108;100;10;95;95;95;95;95;95] [0; 14]) = [(0, 1, 2, 0); (14, 2, 4, 12)].
Check eq_refl : map core (offset_to_location Cur [233; 233; 233; 233; 233; 10; 101; 114; 114; 111; 114] [11; 16])
  = [(11, 2, 2, 11); (16, 2, 7, 11)].
Check eq_refl : map core (offset_to_location Cur [233; 233; 10; 97; 98] [5; 7; 5]) = [(5, 2, 2, 5); (7, 2, 4, 5); (5, 2, 2, 5)].
Check eq_refl : offset_to_location Old [233; 233; 233; 233; 233; 10; 101; 114; 114; 111; 114] [11; 16] = [zero_loc; zero_loc].
Check eq_refl : enc 233 = [195; 169].
Check eq_refl : enc 128512 = [240; 159; 152; 128].
Check eq_refl : enc 8364 = [226; 130; 172].
Check eq_refl : (spec_line [195;169;10;97] 3, spec_col [195;169;10;97] 3, spec_col [195;169;10;97] 2) = (2, 1, 2).
Check eq_refl : print_loc (mkloc 11 2 2 11 16) (mkloc 16 2 7 11 16) = (2, 1, Some (None, 7)).
Check eq_refl : print_loc (mkloc 2 1 4 0 5) (mkloc 8 2 3 6 9) = (1, 2, Some (Some 1, 3)).
Check eq_refl : print_js (mkloc 14 2 4 12 18) = (2, 3).
Check eq_refl : sink [(true, 0); (false, 1); (true, 2)] [EStart 1; EToken; EFinish 1] = Some [(true, 0); (false, 1); (true, 2)].
Check eq_refl : sink [(true, 0); (false, 1); (true, 2)] [EStart 1; EToken; EToken; EFinish 1] = None.
