(** C17 — lemmas, part 2: the rowan Sink emits exactly the lexemes. *)
From Coq Require Import List Arith Bool Lia.
From JrV Require Import C17.Model.
Import ListNotations.

Section SinkProofs.
  Context {T : Type}.
  Notation lexeme := (@lexeme T).
  Notation sstate := (@sstate T).

  Definition hd_ok (todo : list lexeme) : Prop :=
    match todo with (true, _) :: _ => False | _ => True end.
  Definition all_trivia (ws : list lexeme) : Prop := Forall (fun l => fst l = true) ws.

  Lemma count_nontrivia_app (a b : list lexeme) :
    count_nontrivia (a ++ b) = count_nontrivia a + count_nontrivia b.
  Proof. unfold count_nontrivia. rewrite filter_app, app_length. reflexivity. Qed.

  Lemma count_nontrivia_trivia (ws : list lexeme) : all_trivia ws -> count_nontrivia ws = 0.
  Proof.
    induction 1 as [|[b t] r H _ IH]; auto. simpl in H. subst b. unfold count_nontrivia in *. simpl. auto.
  Qed.

  Lemma skip_ws_split : forall (rest pre : list lexeme),
    exists ws rest', rest = ws ++ rest' /\ all_trivia ws /\ hd_ok rest' /\
                     skip_ws rest (length pre) pre = (length (pre ++ ws), pre ++ ws).
  Proof.
    induction rest as [|[b t] r IH]; intros pre.
    - exists [], []. simpl. rewrite app_nil_r. repeat split; auto. constructor.
    - destruct b.
      + destruct (IH (pre ++ [(true, t)])) as (ws & rest' & E & A & H & S).
        exists ((true, t) :: ws), rest'. subst r. repeat split; auto.
        * constructor; auto.
        * simpl. rewrite app_length in S. simpl in S. rewrite Nat.add_1_r in S.
          rewrite S. rewrite <- !app_assoc. reflexivity.
      + exists [], ((false, t) :: r). simpl. rewrite app_nil_r. repeat split; auto. constructor.
  Qed.

  Lemma do_skip_spec (lx : list lexeme) (st : sstate) done todo :
    lx = done ++ todo -> s_off st = length done -> s_leaves st = done ->
    exists ws todo', todo = ws ++ todo' /\ all_trivia ws /\ hd_ok todo' /\
      do_skip lx st = mkst (length (done ++ ws)) (s_depth st) (s_eat st) (done ++ ws).
  Proof.
    intros E O L. unfold do_skip. rewrite O, L, E.
    rewrite skipn_app, skipn_all, Nat.sub_diag. simpl.
    destruct (skip_ws_split todo done) as (ws & todo' & E' & A & H & S).
    exists ws, todo'. rewrite S. auto.
  Qed.

  Lemma open_nodes_nz (lx : list lexeme) : forall n (st : sstate), s_depth st <> 0 ->
    open_nodes lx n st = mkst (s_off st) (s_depth st + n) (s_eat st) (s_leaves st).
  Proof.
    induction n; intros st H; simpl.
    - destruct st; simpl. f_equal. lia.
    - destruct (s_depth st) as [|d] eqn:E; [congruence|]. simpl.
      rewrite IHn; simpl; [|lia]. f_equal. lia.
  Qed.

  Lemma close_nodes_lt (lx : list lexeme) : forall n (st : sstate), n < s_depth st ->
    close_nodes lx n st = mkst (s_off st) (s_depth st - n) (s_eat st) (s_leaves st).
  Proof.
    induction n; intros st H; simpl.
    - destruct st; simpl. f_equal. lia.
    - destruct (s_depth st) as [|[|d]] eqn:E; try lia. cbn [Nat.eqb].
      rewrite IHn; cbn [s_off s_depth s_eat s_leaves]; rewrite E; cbn [pred]; [|lia]. f_equal.
  Qed.

  Lemma close_nodes_add (lx : list lexeme) : forall a b (st : sstate),
    close_nodes lx (a + b) st = close_nodes lx b (close_nodes lx a st).
  Proof. induction a; intros; simpl; auto. Qed.

  (** the invariant of Sink::finish *)
  Definition inv (lx : list lexeme) (st : sstate) (depth : nat) (started : bool) (evs : list event) : Prop :=
    exists done todo,
      lx = done ++ todo /\ s_off st = length done /\ s_leaves st = done /\ s_depth st = depth /\
      count_nontrivia todo = count_tokens evs /\
      (depth <> 0 -> started = true) /\
      (started = true -> s_eat st = false -> hd_ok todo) /\
      (started = true -> depth = 0 -> todo = []).

  Lemma count_tokens_cons ev evs :
    count_tokens (ev :: evs) = (match ev with EToken => 1 | _ => 0 end) + count_tokens evs.
  Proof. unfold count_tokens. simpl. destruct ev; reflexivity. Qed.

  Lemma wf_after_root : forall evs, wf_events 0 true evs = true -> count_tokens evs = 0.
  Proof.
    induction evs as [|[n| |n|] r IH]; simpl; intros H; auto.
    - apply andb_prop in H. destruct H as [H _]. apply andb_prop in H. destruct H as [_ H]. discriminate.
    - discriminate.
    - apply andb_prop in H. destruct H as [H _]. apply andb_prop in H. destruct H as [H1 H2].
      destruct n; simpl in *; discriminate.
  Qed.

  Lemma sink_run_lossless (lx : list lexeme) : forall evs (st : sstate) depth started,
    wf_events depth started evs = true -> inv lx st depth started evs ->
    exists st', sink_run lx st evs = Some st' /\ s_leaves st' = lx.
  Proof.
    induction evs as [|ev r IH]; intros st depth started Hwf (done & todo & E & O & L & D & C & S1 & S2 & S3).
    - simpl in *. apply andb_prop in Hwf. destruct Hwf as [Hs Hd]. apply Nat.eqb_eq in Hd.
      exists st. split; auto. rewrite L, E, (S3 Hs Hd), app_nil_r. reflexivity.
    - rewrite count_tokens_cons in C. destruct ev as [n| |n|].
      + (* EStart *)
        simpl in Hwf. apply andb_prop in Hwf. destruct Hwf as [Hwf Hr].
        apply andb_prop in Hwf. destruct Hwf as [Hn Hroot].
        destruct n as [|k]; [discriminate|]. clear Hn.
        cbn [sink_run sink_step].
        assert (Hgoal : exists ws todo', todo = ws ++ todo' /\ all_trivia ws /\ hd_ok todo' /\
                  open_nodes lx (S k) (if Nat.eqb (s_depth st) 0 then st else do_skip lx st) =
                  mkst (length (done ++ ws)) (depth + S k) (s_eat st) (done ++ ws)).
        { destruct (Nat.eqb_spec (s_depth st) 0) as [Z|NZ].
          - cbn [open_nodes]. rewrite Z. cbn [s_depth Nat.eqb].
            destruct (do_skip_spec lx (mkst (s_off st) 1 (s_eat st) (s_leaves st)) done todo E O L)
              as (ws & todo' & E' & A & H & Sk).
            exists ws, todo'. repeat split; auto. rewrite Sk. rewrite open_nodes_nz by (simpl; lia).
            simpl. f_equal. lia.
          - destruct (do_skip_spec lx st done todo E O L) as (ws & todo' & E' & A & H & Sk).
            exists ws, todo'. repeat split; auto. rewrite Sk. rewrite open_nodes_nz by (simpl; lia).
            simpl. f_equal. lia. }
        destruct Hgoal as (ws & todo' & E' & A & H & Sk). rewrite Sk. cbn [s_off s_depth s_leaves].
        apply (IH _ (depth + S k) true); auto.
        exists (done ++ ws), todo'. cbn [s_off s_depth s_leaves s_eat]. repeat split; auto.
        * subst todo. rewrite <- app_assoc. auto.
        * subst todo. rewrite count_nontrivia_app, (count_nontrivia_trivia _ A) in C. simpl in C. lia.
        * intros _ Hd. lia.
      + (* EToken *)
        simpl in Hwf. apply andb_prop in Hwf. destruct Hwf as [Hd Hr].
        apply negb_true_iff in Hd. apply Nat.eqb_neq in Hd. specialize (S1 Hd). subst started.
        cbn [sink_run sink_step].
        assert (Hgoal : exists ws todo', todo = ws ++ todo' /\ all_trivia ws /\ hd_ok todo' /\
                  (if s_eat st then do_skip lx st else st) =
                  mkst (length (done ++ ws)) depth (s_eat st) (done ++ ws)).
        { destruct (s_eat st) eqn:Ee.
          - destruct (do_skip_spec lx st done todo E O L) as (ws & todo' & E' & A & H & Sk).
            exists ws, todo'. repeat split; auto. rewrite Sk, D, Ee. reflexivity.
          - exists [], todo. rewrite app_nil_r. repeat split; auto; [constructor|].
            destruct st; simpl in *. subst. reflexivity. }
        destruct Hgoal as (ws & todo' & E' & A & H & Sk). rewrite Sk. cbn [s_off s_depth s_leaves s_eat].
        subst todo. rewrite count_nontrivia_app, (count_nontrivia_trivia _ A) in C. simpl in C.
        destruct todo' as [|[b t] todo'']; [unfold count_nontrivia in C; simpl in C; lia|].
        destruct b; [contradiction|].
        replace (nth_error lx (length (done ++ ws))) with (Some (false, t)).
        2:{ rewrite E. rewrite app_assoc. rewrite nth_error_app2 by lia. rewrite Nat.sub_diag. reflexivity. }
        apply (IH _ depth true); auto.
        exists ((done ++ ws) ++ [(false, t)]), todo''. cbn [s_off s_depth s_leaves s_eat]. repeat split; auto.
        * rewrite E. rewrite <- !app_assoc. reflexivity.
        * rewrite !app_length. simpl. lia.
        * unfold count_nontrivia in *. simpl in C. lia.
        * intros _ Hz. contradiction.
      + (* EFinish *)
        simpl in Hwf. apply andb_prop in Hwf. destruct Hwf as [Hwf Hr].
        apply andb_prop in Hwf. destruct Hwf as [Hn Hle].
        destruct n as [|k]; [discriminate|]. clear Hn. apply Nat.leb_le in Hle.
        assert (Hd : depth <> 0) by lia. specialize (S1 Hd). subst started.
        cbn [sink_run sink_step].
        destruct (Nat.eq_dec (S k) depth) as [Eq|Ne].
        * (* the root closes *)
          replace (S k) with (k + 1) by lia. rewrite close_nodes_add.
          rewrite (close_nodes_lt lx k st) by lia. cbn [close_nodes s_depth s_off s_eat s_leaves].
          replace (s_depth st - k) with 1 by lia. cbn [Nat.eqb].
          destruct (do_skip_spec lx (mkst (s_off st) 1 (s_eat st) (s_leaves st)) done todo E O L)
            as (ws & todo' & E' & A & H & Sk).
          rewrite Sk. cbn [s_off s_depth s_leaves s_eat pred].
          replace (depth - S k) with 0 in Hr by lia.
          pose proof (wf_after_root _ Hr) as Hz.
          subst todo. rewrite count_nontrivia_app, (count_nontrivia_trivia _ A) in C. simpl in C.
          assert (todo' = []).
          { destruct todo' as [|[b t] r']; auto. destruct b; [contradiction|].
            unfold count_nontrivia in C. simpl in C. lia. }
          subst todo'.
          apply (IH _ 0 true); auto.
          exists (done ++ ws), []. cbn [s_off s_depth s_leaves s_eat]. repeat split; auto;
            try (intros; (contradiction || discriminate)).
          rewrite E. rewrite <- app_assoc. reflexivity.
        * rewrite close_nodes_lt by lia. cbn [s_off s_depth s_leaves s_eat].
          apply (IH _ (depth - S k) true); auto.
          exists done, todo. cbn [s_off s_depth s_leaves s_eat]. repeat split; auto;
            try (intros; (discriminate || lia)).
      + (* ENoop *)
        simpl in Hwf. cbn [sink_run sink_step]. apply (IH _ depth started); auto.
        exists done, todo. repeat split; auto.
  Qed.

  Theorem sink_lossless (lx : list lexeme) (evs : list event) :
    wf_events 0 false evs = true -> count_tokens evs = count_nontrivia lx ->
    sink lx evs = Some lx.
  Proof.
    intros Hwf Hc. unfold sink.
    destruct (sink_run_lossless lx evs (mkst 0 0 false []) 0 false Hwf) as (st' & R & L).
    - exists [], lx. simpl. repeat split; auto; try congruence; try (intros; discriminate).
    - rewrite R, L. reflexivity.
  Qed.
End SinkProofs.

(** non-vacuity: `{ a: 1 } // c` — SOURCE_FILE( EXPR( OBJ( `{` ws FIELD( a `:` ws 1 ) ws `}` ) ) ws comment ) *)
Example sink_example :
  let lx := [(false, 1); (true, 2); (false, 3); (false, 4); (true, 5); (false, 6); (true, 7); (false, 8); (true, 9); (true, 10)] in
  let evs := [EStart 1; EStart 2; EToken; EStart 1; EToken; EToken; ENoop; EToken; EFinish 1; EToken; EFinish 2; EFinish 1] in
  wf_events 0 false evs = true /\ count_tokens evs = count_nontrivia lx /\ sink lx evs = Some lx.
Proof. vm_compute. repeat split. Qed.
