(** C02 — lemmas. *)
From Coq Require Import List ZArith NArith Bool Lia Sorted Permutation.
From JrV Require Import C02.Model.
Import ListNotations.

(* ------------------------------------------------------------------ *)
(** * saturating arithmetic *)
Lemma sat_add_small : forall a b, (a + b < usize_max)%N -> sat_add a b = (a + b)%N.
Proof. intros. unfold sat_add. apply N.min_l. lia. Qed.

Lemma eqb_of_nat_S : forall s, N.eqb (N.of_nat (S s)) 0 = false.
Proof. intros. apply N.eqb_neq. lia. Qed.

Lemma dec_of_nat_S : forall s, sat_dec (N.of_nat (S s)) = N.of_nat s.
Proof. intros. unfold sat_dec. lia. Qed.

Lemma omit_skip_S : forall p s, (N.to_nat p <= s)%nat -> (p + 1 < usize_max)%N ->
  sat_dec (N.max (N.of_nat (S s)) (sat_add p 1)) = N.of_nat s.
Proof. intros. rewrite sat_add_small by lia. unfold sat_dec. lia. Qed.

Lemma omit_skip_0 : forall p, (p + 1 < usize_max)%N ->
  sat_dec (N.max 0 (sat_add p 1)) = N.of_nat (N.to_nat p).
Proof. intros. rewrite sat_add_small by lia. unfold sat_dec. lia. Qed.

Lemma bind_assoc : forall {A B C} (r : res A) (f : A -> res B) (g : B -> res C),
  bind (bind r f) g = bind r (fun a => bind (f a) g).
Proof. intros. destruct r; reflexivity. Qed.

Lemma bind_ext : forall {A B} (r : res A) (f g : A -> res B),
  (forall a, f a = g a) -> bind r f = bind r g.
Proof. intros. destruct r; simpl; auto. Qed.

Lemma bind_ok_r : forall {A} (r : res A), bind r (fun a => Ok a) = r.
Proof. intros. destruct r; reflexivity. Qed.

(* ------------------------------------------------------------------ *)
Section WalkProofs.
Context {B V : Type}.
Variable ev : nat -> B -> res V.
Variable add : V -> V -> res V.

Definition small (rl : list (layer B)) : Prop := (N.of_nat (length rl) + 1 < usize_max)%N.

Lemma small_tail : forall (l : layer B) rl, small (l :: rl) -> small rl.
Proof. unfold small. intros. simpl length in H. lia. Qed.

Lemma laminar_len : forall n (rl : list (layer B)), laminar n rl -> (n <= length rl)%nat.
Proof.
  induction n; intros; simpl in *. lia.
  destruct rl; [contradiction|]. destruct H. apply IHn in H0. simpl. lia.
Qed.

Lemma wf_r_tail : forall (l : layer B) rl, wf_r (l :: rl) -> wf_r rl.
Proof. intros. destruct l; simpl in H; tauto. Qed.

Lemma wf_r_omit : forall om p (rl : list (layer B)), wf_r (LOmit om p :: rl) -> laminar (N.to_nat p) rl.
Proof. intros. simpl in H. tauto. Qed.

Lemma omit_fits : forall om p (rl : list (layer B)),
  wf_r (LOmit om p :: rl) -> small (LOmit om p :: rl) -> (p + 1 < usize_max)%N.
Proof.
  intros. apply wf_r_omit in H. apply laminar_len in H. unfold small in H0. simpl length in H0. lia.
Qed.

(** ** has_field_include_hidden: the skip counter hides exactly the next [s] layers *)
Lemma has_loop_spec : forall rl key, wf_r rl -> small rl ->
  forall s, laminar s rl -> has_loop rl key (N.of_nat s) = has_r rl key s.
Proof.
  induction rl as [|l below IH]; intros key Hwf Hsm s Hlam; [reflexivity|].
  pose proof (wf_r_tail _ _ Hwf) as Hwf'. pose proof (small_tail _ _ Hsm) as Hsm'.
  destruct s as [|s'].
  - change (N.of_nat 0) with 0%N. cbn [has_loop has_r].
    destruct l as [fs ls asr|om p]; cbn [has_field_include_hidden_core].
    + destruct (is_some (assoc key fs)); [reflexivity|].
      change (sat_dec 0) with (N.of_nat 0). apply IH; simpl; auto.
    + destruct (mem key om).
      * rewrite omit_skip_0 by (eapply omit_fits; eauto). apply IH; auto. eapply wf_r_omit; eauto.
      * change (sat_dec 0) with (N.of_nat 0). apply IH; simpl; auto.
  - cbn [has_loop has_r]. simpl in Hlam. destruct Hlam as [Hl Hlam].
    destruct l as [fs ls asr|om p]; cbn [has_field_include_hidden_core].
    + destruct (is_some (assoc key fs)); rewrite ?eqb_of_nat_S, dec_of_nat_S; apply IH; auto.
    + destruct (mem key om).
      * rewrite omit_skip_S; auto. eapply omit_fits; eauto.
      * rewrite dec_of_nat_S. apply IH; auto.
Qed.

(** ** field_visibility *)
Lemma vis_loop_spec : forall rl key, wf_r rl -> small rl ->
  forall s ex, laminar s rl ->
    vis_loop rl key ex (N.of_nat s) =
    match vis_r rl key s with
    | Some v => Some v
    | None => if ex then Some VisNormal else None
    end.
Proof.
  induction rl as [|l below IH]; intros key Hwf Hsm s ex Hlam; [reflexivity|].
  pose proof (wf_r_tail _ _ Hwf) as Hwf'. pose proof (small_tail _ _ Hsm) as Hsm'.
  destruct s as [|s'].
  - change (N.of_nat 0) with 0%N. cbn [vis_loop vis_r].
    destruct l as [fs ls asr|om p]; cbn [field_visibility_core].
    + destruct (assoc key fs) as [m|].
      * destruct (m_vis m); cbn [N.eqb]; try reflexivity.
        change (sat_dec 0) with (N.of_nat 0). rewrite IH by (simpl; auto).
        destruct (vis_r below key 0); reflexivity.
      * change (sat_dec 0) with (N.of_nat 0). apply IH; simpl; auto.
    + destruct (mem key om).
      * rewrite omit_skip_0 by (eapply omit_fits; eauto). apply IH; auto. eapply wf_r_omit; eauto.
      * change (sat_dec 0) with (N.of_nat 0). apply IH; simpl; auto.
  - cbn [vis_loop vis_r]. simpl in Hlam. destruct Hlam as [Hl Hlam].
    destruct l as [fs ls asr|om p]; cbn [field_visibility_core].
    + destruct (assoc key fs) as [m|].
      * destruct (m_vis m); rewrite ?eqb_of_nat_S, dec_of_nat_S; apply IH; auto.
      * rewrite dec_of_nat_S. apply IH; auto.
    + destruct (mem key om).
      * rewrite omit_skip_S; auto. eapply omit_fits; eauto.
      * rewrite dec_of_nat_S. apply IH; auto.
Qed.

(** ** has / visibility / lookup are mutually consistent in the spec *)
Lemma has_vis_r : forall rl key s, has_r rl key s = is_some (vis_r (B:=B) rl key s).
Proof.
  induction rl as [|l below IH]; intros; [reflexivity|].
  destruct s; cbn [has_r vis_r]; [|apply IH].
  destruct l as [fs ls asr|om p]; [|apply IH].
  destruct (assoc key fs) as [m|]; cbn [is_some]; [|apply IH].
  destruct (m_vis m); try reflexivity. destruct (vis_r below key 0); reflexivity.
Qed.

Lemma has_false_lookup_none : forall rl key s,
  has_r rl key s = false -> lookup_r ev add rl key s = Ok None.
Proof.
  induction rl as [|l below IH]; intros key s H; [reflexivity|].
  destruct s; cbn [has_r lookup_r] in *; [|apply IH; auto].
  destruct l as [fs ls asr|om p]; [|apply IH; auto].
  destruct (assoc key fs) as [m|]; cbn [is_some] in H; [discriminate|apply IH; auto].
Qed.

Lemma lookup_none_has_false : forall rl key s,
  lookup_r ev add rl key s = Ok None -> has_r rl key s = false.
Proof.
  induction rl as [|l below IH]; intros key s H; [reflexivity|].
  destruct s; cbn [has_r lookup_r] in *; [|apply IH; auto].
  destruct l as [fs ls asr|om p]; [|apply IH; auto].
  destruct (assoc key fs) as [m|]; cbn [is_some]; [|apply IH; auto].
  exfalso. destruct (m_add m && has_r below key 0).
  - destruct (ev (length below) (m_body m)); cbn [bind] in H; try discriminate.
    destruct (lookup_r ev add below key 0) as [[sv|]| |]; cbn [bind] in H; try discriminate.
    destruct (add sv a); cbn [bind] in H; discriminate.
  - destruct (ev (length below) (m_body m)); cbn [bind] in H; discriminate.
Qed.

(** ** get_idx_uncached *)
Definition enc (acc : list V) : option V * list V :=
  match acc with [] => (None, []) | a :: r => (Some a, r) end.

(** what is left to do once the read below [acc] (the `+:` values collected so far, newest
    first) has produced [o] *)
Definition finish_with (acc : list V) (o : option V) : res (option V) :=
  match o with
  | Some sv => bind (try_fold add sv (rev acc)) (fun v => Ok (Some v))
  | None => match rev acc with
            | [] => Ok None
            | init :: rest => bind (try_fold add init rest) (fun v => Ok (Some v))
            end
  end.

Lemma get_finish_done : forall acc,
  get_finish add (LDone (fst (enc acc)) (snd (enc acc))) = finish_with acc None.
Proof.
  intros [|a r]; [reflexivity|]. cbn [enc fst snd finish_with].
  destruct r as [|b r]; [reflexivity|]. cbn [get_finish].
  destruct (rev (a :: b :: r)) eqn:E; [|reflexivity].
  apply (f_equal (@length V)) in E. rewrite rev_length in E. discriminate.
Qed.

Lemma enc_snoc : forall acc v,
  enc (acc ++ [v]) = match acc with [] => (Some v, []) | a :: r => (Some a, r ++ [v]) end.
Proof. intros [|a r] v; reflexivity. Qed.

Lemma get_loop_spec : forall rl key, wf_r rl -> small rl ->
  forall s acc, laminar s rl ->
    bind (get_loop ev rl key (fst (enc acc)) (snd (enc acc)) (N.of_nat s)) (get_finish add)
    = bind (lookup_r ev add rl key s) (finish_with acc).
Proof.
  induction rl as [|l below IH]; intros key Hwf Hsm s acc Hlam.
  { cbn [get_loop lookup_r bind]. apply get_finish_done. }
  pose proof (wf_r_tail _ _ Hwf) as Hwf'. pose proof (small_tail _ _ Hsm) as Hsm'.
  destruct s as [|s'].
  - change (N.of_nat 0) with 0%N. cbn [get_loop lookup_r].
    destruct l as [fs ls asr|om p]; cbn [get_for_core N.eqb negb].
    + destruct (assoc key fs) as [m|].
      2:{ cbn [bind]. change (sat_dec 0) with (N.of_nat 0). apply IH; simpl; auto. }
      destruct (m_add m) eqn:Hadd; cbn [andb].
      * (* +: *)
        rewrite !bind_assoc.
        assert (Hstep : forall b,
          bind (get_loop ev below key (fst (enc (acc ++ [b]))) (snd (enc (acc ++ [b]))) (N.of_nat 0)) (get_finish add)
          = bind (if has_r below key 0
                  then bind (lookup_r ev add below key 0) (fun s =>
                         match s with
                         | Some s => bind (add s b) (fun v => Ok (Some v))
                         | None => Err ENoField
                         end)
                  else Ok (Some b)) (finish_with acc)).
        { intro b. rewrite IH by (simpl; auto).
          destruct (has_r below key 0) eqn:Hhas.
          - destruct (lookup_r ev add below key 0) as [[sv|]| |] eqn:Hl; cbn [bind]; try reflexivity.
            + cbn [finish_with]. rewrite rev_app_distr. cbn [rev app try_fold].
              rewrite !bind_assoc. reflexivity.
            + apply lookup_none_has_false in Hl. congruence.
          - rewrite has_false_lookup_none by auto. cbn [bind finish_with].
            rewrite rev_app_distr. reflexivity. }
        destruct (has_r below key 0) eqn:Hhas.
        -- rewrite bind_assoc. apply bind_ext. intro b. cbn [bind].
           specialize (Hstep b). rewrite enc_snoc in Hstep.
           destruct acc as [|a r]; cbn [enc fst snd] in *; exact Hstep.
        -- rewrite bind_assoc. apply bind_ext. intro b. cbn [bind].
           specialize (Hstep b). rewrite enc_snoc in Hstep.
           destruct acc as [|a r]; cbn [enc fst snd] in *; exact Hstep.
      * (* plain field: stop *)
        rewrite !bind_assoc. apply bind_ext. intro b. cbn [bind].
        destruct acc as [|a r]; cbn [enc fst snd bind].
        -- reflexivity.
        -- pose proof (get_finish_done (a :: r ++ [b])) as E. cbn [enc fst snd] in E. rewrite E.
           cbn [finish_with]. change (a :: r ++ [b]) with ((a :: r) ++ [b]).
           rewrite rev_app_distr. reflexivity.
    + destruct (mem key om); cbn [bind].
      * rewrite omit_skip_0 by (eapply omit_fits; eauto). apply IH; auto. eapply wf_r_omit; eauto.
      * change (sat_dec 0) with (N.of_nat 0). apply IH; simpl; auto.
  - cbn [get_loop lookup_r]. simpl in Hlam. destruct Hlam as [Hl Hlam].
    rewrite eqb_of_nat_S. cbn [negb].
    destruct l as [fs ls asr|om p]; cbn [get_for_core bind].
    + rewrite dec_of_nat_S. apply IH; auto.
    + destruct (mem key om); cbn [bind].
      * rewrite omit_skip_S; auto. eapply omit_fits; eauto.
      * rewrite dec_of_nat_S. apply IH; auto.
Qed.

Lemma finish_with_nil : forall o, finish_with [] o = Ok o.
Proof. intros [v|]; reflexivity. Qed.

Lemma get_loop_top : forall rl key, wf_r rl -> small rl ->
  bind (get_loop ev rl key None [] 0) (get_finish add) = lookup_r ev add rl key 0.
Proof.
  intros. pose proof (get_loop_spec rl key H H0 0 [] I) as E. cbn [enc fst snd] in E.
  change (N.of_nat 0) with 0%N in E. rewrite E.
  rewrite (bind_ext _ _ (fun o => Ok o)) by apply finish_with_nil. apply bind_ok_r.
Qed.

(* ------------------------------------------------------------------ *)
(** ** prefixes of a well-formed list are well formed *)
Lemma wf_r_app_r : forall (x y : list (layer B)), wf_r (x ++ y) -> wf_r y.
Proof. induction x; intros; simpl in *; auto. apply IHx. eapply wf_r_tail; eauto. Qed.

Lemma cores_upto_suffix : forall (cores : list (layer B)) upto,
  rev cores = rev (skipn upto cores) ++ cores_upto cores upto.
Proof.
  intros. unfold cores_upto. rewrite <- rev_app_distr. rewrite firstn_skipn. reflexivity.
Qed.

Lemma wf_upto : forall cores upto, wf (B:=B) cores ->
  wf_r (cores_upto cores upto) /\ small (cores_upto cores upto).
Proof.
  intros cores upto [Hw Hf]. split.
  - rewrite (cores_upto_suffix cores upto) in Hw. eapply wf_r_app_r; eauto.
  - unfold small, fits, cores_upto in *. rewrite rev_length.
    rewrite firstn_length. lia.
Qed.

Theorem get_refines : forall cores key upto, wf cores ->
  get_idx_walk ev add cores key upto = lookup_spec ev add cores key upto.
Proof.
  intros. destruct (wf_upto cores upto H). unfold get_idx_walk, lookup_spec. apply get_loop_top; auto.
Qed.

Theorem has_refines : forall cores key upto, wf (B:=B) cores ->
  has_field_include_hidden_idx cores key upto = has_spec cores key upto.
Proof.
  intros. destruct (wf_upto cores upto H). unfold has_field_include_hidden_idx, has_spec.
  apply (has_loop_spec _ key H0 H1 0 I).
Qed.

Theorem visibility_refines : forall cores key upto, wf (B:=B) cores ->
  field_visibility_idx cores key upto = vis_spec cores key upto.
Proof.
  intros. destruct (wf_upto cores upto H). unfold field_visibility_idx, vis_spec.
  pose proof (vis_loop_spec _ key H0 H1 0 false I) as E. change (N.of_nat 0) with 0%N in E.
  rewrite E. destruct (vis_r (cores_upto cores upto) key 0); reflexivity.
Qed.

(** `in`, objectHasAll, "f" in super, visibility and reads agree *)
Theorem has_field_agrees : forall cores key upto, wf cores ->
  has_field_include_hidden_idx cores key upto = is_some (field_visibility_idx cores key upto)
  /\ (has_field_include_hidden_idx cores key upto = false <-> get_idx_walk ev add cores key upto = Ok None).
Proof.
  intros. rewrite has_refines, visibility_refines, get_refines by auto.
  unfold has_spec, vis_spec, lookup_spec. split.
  - apply has_vis_r.
  - split; [apply has_false_lookup_none|apply lookup_none_has_false].
Qed.

End WalkProofs.

(* ================================================================== *)
(** * constructors: +, extension, objectRemoveKey *)
Section Constructors.
Context {B V : Type}.
Variable ev : nat -> B -> res V.
Variable add : V -> V -> res V.

Lemma laminar_app : forall n (x y : list (layer B)), laminar n x -> laminar n (x ++ y).
Proof.
  induction n; intros; simpl in *; auto.
  destruct x; [contradiction|]. simpl. destruct H. split; auto.
Qed.

Lemma wf_r_app : forall (x y : list (layer B)), wf_r x -> wf_r y -> wf_r (x ++ y).
Proof.
  induction x as [|l x IH]; intros; simpl in *; auto.
  destruct l; simpl in *.
  - destruct H. split; auto.
  - destruct H as (? & ? & ?). repeat split; auto. apply laminar_app; auto.
Qed.

Lemma laminar_all : forall (rl : list (layer B)), wf_r rl -> laminar (length rl) rl.
Proof.
  induction rl as [|l rl IH]; intros; simpl; auto.
  split; [|apply IH; eapply wf_r_tail; eauto].
  destruct l; auto. apply wf_r_omit in H. apply laminar_len in H. lia.
Qed.

(** (a + b) is well formed *)
Theorem extend_from_wf : forall (a b : list (layer B)),
  wf a -> wf b -> fits (extend_from a b) -> wf (extend_from a b).
Proof.
  unfold wf, extend_from. intros a b [Ha _] [Hb _] Hf. split; auto.
  rewrite rev_app_distr. apply wf_r_app; auto.
Qed.

(** a { fields } is well formed when the field names are distinct *)
Theorem push_layer_wf : forall (a : list (layer B)) fs ls asr,
  wf a -> NoDup (map fst fs) -> fits (push_layer a (LObj fs ls asr)) -> wf (push_layer a (LObj fs ls asr)).
Proof.
  unfold wf, push_layer. intros a fs ls asr [Ha _] Hn Hf. split; auto.
  rewrite rev_app_distr. simpl. auto.
Qed.

(** std.objectRemoveKey(o, k) is well formed *)
Theorem remove_key_wf : forall (o : list (layer B)) k,
  wf o -> fits (remove_key o k) -> wf (remove_key o k).
Proof.
  unfold wf, remove_key. intros o k [Ho _] Hf. split; auto.
  rewrite rev_app_distr. simpl. repeat split; auto.
  - constructor; [simpl; tauto|constructor].
  - rewrite Nat2N.id. rewrite <- (rev_length o). apply laminar_all; auto.
Qed.

Theorem extend_assoc : forall (a b c : list (layer B)),
  extend_from (extend_from a b) c = extend_from a (extend_from b c).
Proof. intros. unfold extend_from. symmetry. apply app_assoc. Qed.

(** hidden layers are skipped wholesale *)
Lemma lookup_r_skip : forall (rl : list (layer B)) key s,
  lookup_r ev add rl key s = lookup_r ev add (skipn s rl) key 0.
Proof.
  induction rl as [|l rl IH]; intros; destruct s; try reflexivity. simpl skipn. cbn [lookup_r]. apply IH.
Qed.
Lemma has_r_skip : forall (rl : list (layer B)) key s, has_r rl key s = has_r (skipn s rl) key 0.
Proof.
  induction rl as [|l rl IH]; intros; destruct s; try reflexivity. simpl skipn. cbn [has_r]. apply IH.
Qed.
Lemma vis_r_skip : forall (rl : list (layer B)) key s, vis_r rl key s = vis_r (skipn s rl) key 0.
Proof.
  induction rl as [|l rl IH]; intros; destruct s; try reflexivity. simpl skipn. cbn [vis_r]. apply IH.
Qed.

Lemma skipn_rev_app : forall (o sup : list (layer B)), skipn (length o) (rev o ++ rev sup) = rev sup.
Proof.
  intros. rewrite <- (rev_length o). rewrite skipn_app. rewrite skipn_all, Nat.sub_diag. reflexivity.
Qed.

Lemma mem_single : forall k, mem k [k] = true.
Proof. intros. unfold mem. simpl. rewrite N.eqb_refl. reflexivity. Qed.
Lemma mem_single_neq : forall f k, f <> k -> mem f [k] = false.
Proof. intros. unfold mem. simpl. apply N.eqb_neq in H. rewrite H. reflexivity. Qed.

Lemma upto_all : forall (cores : list (layer B)), cores_upto cores (length cores) = rev cores.
Proof. intros. unfold cores_upto. rewrite firstn_all. reflexivity. Qed.

Lemma rev_remove_key : forall (sup o : list (layer B)) k,
  rev (sup ++ remove_key o k) = LOmit [k] (N.of_nat (length o)) :: rev o ++ rev sup.
Proof. intros. unfold remove_key. rewrite !rev_app_distr. reflexivity. Qed.

(** sup + objectRemoveKey(o, k): k reads (and is visible) exactly as in sup alone *)
Theorem remove_key_hides : forall (sup o : list (layer B)) k,
  let r := sup ++ remove_key o k in
  lookup_spec ev add r k (length r) = lookup_spec ev add sup k (length sup)
  /\ has_spec r k (length r) = has_spec sup k (length sup)
  /\ vis_spec r k (length r) = vis_spec sup k (length sup).
Proof.
  intros. unfold lookup_spec, has_spec, vis_spec, r. rewrite !upto_all, rev_remove_key.
  cbn [lookup_r has_r vis_r]. rewrite mem_single, Nat2N.id.
  rewrite lookup_r_skip, has_r_skip, vis_r_skip, skipn_rev_app. auto.
Qed.

(** ... also seen through any layers stacked on top that do not themselves remove k *)
Definition no_omit_of (k : name) (l : layer B) : Prop :=
  match l with LOmit om _ => mem k om = false | LObj _ _ _ => True end.

Lemma above_congr : forall (X X' : list (layer B)) k,
  length X = length X' ->
  lookup_r ev add X k 0 = lookup_r ev add X' k 0 -> has_r X k 0 = has_r X' k 0 -> vis_r X k 0 = vis_r X' k 0 ->
  forall ra, Forall (no_omit_of k) ra ->
    lookup_r ev add (ra ++ X) k 0 = lookup_r ev add (ra ++ X') k 0
    /\ has_r (ra ++ X) k 0 = has_r (ra ++ X') k 0
    /\ vis_r (ra ++ X) k 0 = vis_r (ra ++ X') k 0.
Proof.
  intros X X' k Hlen Hl Hh Hv. induction ra as [|l ra IH]; intros HF; [auto|].
  inversion HF; subst. destruct (IH H2) as (IHl & IHh & IHv).
  simpl app. cbn [lookup_r has_r vis_r]. destruct l as [fs ls asr|om p].
  - rewrite IHl, IHh, IHv. rewrite !app_length, Hlen. auto.
  - simpl in H1. rewrite H1. auto.
Qed.

Definition blank : layer B := LObj [] [] [].

Lemma repeat_snoc : forall {A} (x : A) n, repeat x n ++ [x] = x :: repeat x n.
Proof. induction n; simpl; congruence. Qed.
Lemma rev_repeat : forall {A} (x : A) n, rev (repeat x n) = repeat x n.
Proof. induction n; simpl; auto. rewrite IHn. apply repeat_snoc. Qed.

Lemma lookup_blanks : forall n (rs : list (layer B)) k,
  lookup_r ev add (repeat blank n ++ rs) k 0 = lookup_r ev add rs k 0
  /\ has_r (repeat blank n ++ rs) k 0 = has_r rs k 0
  /\ vis_r (repeat blank n ++ rs) k 0 = vis_r rs k 0.
Proof. induction n; intros; simpl repeat; simpl app; cbn [lookup_r has_r vis_r blank assoc is_some]; auto. Qed.

(** the object produced by objectRemoveKey, under `sup` and with any `above` stacked on it,
    answers every lookup of k that starts above it as if its layers were empty *)
Theorem remove_key_invisible_above : forall (sup o above : list (layer B)) k,
  Forall (no_omit_of k) above ->
  let r := sup ++ remove_key o k ++ above in
  let r' := sup ++ repeat blank (S (length o)) ++ above in
  lookup_spec ev add r k (length r) = lookup_spec ev add r' k (length r')
  /\ has_spec r k (length r) = has_spec r' k (length r')
  /\ vis_spec r k (length r) = vis_spec r' k (length r').
Proof.
  intros sup o above k HF r r'. unfold lookup_spec, has_spec, vis_spec, r, r'. rewrite !upto_all.
  rewrite !app_assoc. rewrite (rev_app_distr _ above), (rev_app_distr _ above).
  apply above_congr.
  - rewrite !rev_length, !app_length. unfold remove_key. rewrite app_length, repeat_length. simpl. lia.
  - rewrite rev_remove_key. cbn [lookup_r]. rewrite mem_single, Nat2N.id, lookup_r_skip, skipn_rev_app.
    rewrite rev_app_distr, rev_repeat. symmetry. apply lookup_blanks.
  - rewrite rev_remove_key. cbn [has_r]. rewrite mem_single, Nat2N.id, has_r_skip, skipn_rev_app.
    rewrite rev_app_distr, rev_repeat. symmetry. apply lookup_blanks.
  - rewrite rev_remove_key. cbn [vis_r]. rewrite mem_single, Nat2N.id, vis_r_skip, skipn_rev_app.
    rewrite rev_app_distr, rev_repeat. symmetry. apply lookup_blanks.
  - apply Forall_rev. auto.
Qed.

(** every other name is untouched *)
Theorem remove_key_others : forall (o : list (layer B)) k f, f <> k ->
  let r := remove_key o k in
  lookup_spec ev add r f (length r) = lookup_spec ev add o f (length o)
  /\ has_spec r f (length r) = has_spec o f (length o)
  /\ vis_spec r f (length r) = vis_spec o f (length o).
Proof.
  intros o k f Hne r. unfold lookup_spec, has_spec, vis_spec, r. rewrite !upto_all.
  unfold remove_key. rewrite rev_app_distr. simpl app. cbn [lookup_r has_r vis_r].
  rewrite mem_single_neq by auto. auto.
Qed.

(** a later layer can re-introduce k; a `+:` there finds nothing to add to *)
Theorem remove_key_reintroduce : forall (o : list (layer B)) k m ls asr,
  let r := push_layer (remove_key o k) (LObj [(k, m)] ls asr) in
  lookup_spec ev add r k (length r) = bind (ev (S (length o)) (m_body m)) (fun b => Ok (Some b))
  /\ has_spec r k (length r) = true.
Proof.
  intros o k m ls asr r. unfold lookup_spec, has_spec, r. rewrite !upto_all.
  unfold push_layer, remove_key. rewrite !rev_app_distr. simpl app.
  cbn [lookup_r has_r assoc]. rewrite N.eqb_refl. cbn [is_some]. split; [|reflexivity].
  cbn [has_r]. rewrite mem_single, Nat2N.id. rewrite has_r_skip.
  rewrite <- (rev_length o), skipn_all. cbn [has_r]. rewrite andb_false_r.
  rewrite rev_length. simpl length. rewrite rev_length. reflexivity.
Qed.

End Constructors.

(* ================================================================== *)
(** * the boolean well-formedness check is sound *)
Section WfBool.
Context {B : Type}.

Lemma mem_In : forall k l, mem k l = true <-> In k l.
Proof.
  intros. unfold mem. rewrite existsb_exists. split.
  - intros (x & Hx & E). apply N.eqb_eq in E. subst. auto.
  - intros. exists k. split; auto. apply N.eqb_refl.
Qed.

Lemma nodupb_NoDup : forall l, nodupb l = true -> NoDup l.
Proof.
  induction l; simpl; intros; constructor.
  - apply andb_prop in H. destruct H. intro Hin. apply mem_In in Hin. rewrite Hin in H. discriminate.
  - apply IHl. apply andb_prop in H. tauto.
Qed.

Lemma laminarb_laminar : forall n (rl : list (layer B)), laminarb n rl = true -> laminar n rl.
Proof.
  induction n; intros; simpl in *; auto.
  destruct rl; [discriminate|]. apply andb_prop in H. destruct H. split; auto.
  destruct l; auto. apply Nat.leb_le. auto.
Qed.

Lemma wf_rb_wf_r : forall (rl : list (layer B)), wf_rb rl = true -> wf_r rl.
Proof.
  induction rl as [|l rl IH]; intros; simpl in *; auto.
  destruct l.
  - apply andb_prop in H. destruct H. split; auto. apply nodupb_NoDup; auto.
  - apply andb_prop in H. destruct H as [H H2]. apply andb_prop in H. destruct H.
    repeat split; auto. apply nodupb_NoDup; auto. apply laminarb_laminar; auto.
Qed.

Theorem wfb_wf : forall (cores : list (layer B)), wfb cores = true -> wf cores.
Proof.
  unfold wfb, wf, fits. intros. apply andb_prop in H. destruct H. split.
  - apply wf_rb_wf_r; auto.
  - apply N.ltb_lt; auto.
Qed.
End WfBool.

(* ================================================================== *)
(** * fields_visibility (single pass, omitted_until) = the per-field walk *)
Section FieldsVisibility.
Context {B : Type}.

Lemma assoc_upsert : forall out f k dflt g,
  assoc f (map_upsert out k dflt g) =
  if N.eqb f k then Some (g (match assoc k out with Some d => d | None => dflt end)) else assoc f out.
Proof.
  induction out as [|[k' d] r IH]; intros; simpl.
  - destruct (N.eqb f k); reflexivity.
  - destruct (N.eqb k k') eqn:E; simpl.
    + apply N.eqb_eq in E. subst k'. destruct (N.eqb f k); reflexivity.
    + rewrite IH. destruct (N.eqb f k) eqn:E2.
      * apply N.eqb_eq in E2. subst f. rewrite E. reflexivity.
      * reflexivity.
Qed.

Lemma upsert_keys : forall out k dflt g x,
  In x (map fst (map_upsert out k dflt g)) <-> x = k \/ In x (map fst out).
Proof.
  induction out as [|[k' d] r IH]; intros; simpl.
  - intuition.
  - destruct (N.eqb k k') eqn:E; simpl.
    + apply N.eqb_eq in E. subst. intuition.
    + rewrite IH. intuition.
Qed.

Lemma upsert_nodup : forall out k dflt g,
  NoDup (map fst out) -> NoDup (map fst (map_upsert out k dflt g)).
Proof.
  induction out as [|[k' d] r IH]; intros; simpl.
  - constructor; [simpl; tauto|constructor].
  - inversion H; subst. destruct (N.eqb k k') eqn:E; simpl.
    + constructor; auto.
    + constructor; auto. rewrite upsert_keys. intros [->|Hin]; [rewrite N.eqb_refl in E; discriminate|auto].
Qed.

Lemma assoc_not_in : forall {A} k (l : list (name * A)), ~ In k (map fst l) -> assoc k l = None.
Proof.
  induction l as [|[k' a] r IH]; intros; simpl; auto.
  destruct (N.eqb k k') eqn:E.
  - apply N.eqb_eq in E. subst. simpl in H. tauto.
  - apply IH. simpl in H. tauto.
Qed.

Definition dflt_of (oi : N) (o : option fvdata) : fvdata :=
  match o with Some d => d | None => FvData oi None end.

Lemma fold_layer_assoc : forall oi (evs : list (name * enum_ev)) out f,
  NoDup (map fst evs) ->
  assoc f (fold_left (fun o ke => map_upsert o (fst ke) (FvData oi None) (fun d => fv_step oi d (snd ke))) evs out)
  = match assoc f evs with
    | Some e => Some (fv_step oi (dflt_of oi (assoc f out)) e)
    | None => assoc f out
    end.
Proof.
  induction evs as [|[k e] r IH]; intros out f Hnd; [reflexivity|].
  inversion Hnd; subst. simpl fold_left. rewrite IH by auto. simpl assoc.
  rewrite assoc_upsert. destruct (N.eqb f k) eqn:E.
  - apply N.eqb_eq in E. subst f. rewrite (assoc_not_in k r) by auto. reflexivity.
  - reflexivity.
Qed.

Lemma fold_layer_nodup : forall oi (evs : list (name * enum_ev)) out,
  NoDup (map fst out) ->
  NoDup (map fst (fold_left (fun o ke => map_upsert o (fst ke) (FvData oi None) (fun d => fv_step oi d (snd ke))) evs out)).
Proof.
  induction evs; intros; simpl; auto. apply IHevs. apply upsert_nodup. auto.
Qed.

Definition layer_event (l : layer B) (f : name) : option enum_ev :=
  match field_visibility_core l f with
  | FVFound v => Some (EvNormal v)
  | FVOmit n => Some (EvOmit n)
  | FVNotFound => None
  end.

Lemma assoc_map_snd : forall {A C} (g : A -> C) f (l : list (name * A)),
  assoc f (map (fun km => (fst km, g (snd km))) l) = option_map g (assoc f l).
Proof.
  induction l as [|[k a] r IH]; simpl; auto. destruct (N.eqb f k); auto.
Qed.

Lemma assoc_map_const : forall {C} (c : C) f (l : list name),
  assoc f (map (fun k => (k, c)) l) = if mem f l then Some c else None.
Proof.
  induction l; simpl; auto. unfold mem in *. simpl. destruct (N.eqb f a); auto.
Qed.

Lemma enum_event : forall (l : layer B) f, assoc f (enum_fields_core l) = layer_event l f.
Proof.
  intros. unfold layer_event. destruct l as [fs ls asr|om n]; simpl.
  - rewrite (assoc_map_snd (fun m => EvNormal (m_vis m))). destruct (assoc f fs); reflexivity.
  - rewrite assoc_map_const. destruct (mem f om); reflexivity.
Qed.

Lemma enum_nodup : forall (l : layer B) rl, wf_r (l :: rl) -> NoDup (map fst (enum_fields_core l)).
Proof.
  intros. destruct l as [fs ls asr|om n]; simpl in *.
  - rewrite map_map. simpl. tauto.
  - rewrite map_map. simpl. rewrite map_id. tauto.
Qed.

(** the per-name state machine *)
Fixpoint fv_key (rl : list (layer B)) (f : name) (oi : N) (d : option fvdata) : option fvdata :=
  match rl with
  | [] => d
  | l :: below =>
      fv_key below f (sat_add oi 1)
             (match layer_event l f with
              | Some e => Some (fv_step oi (dflt_of oi d) e)
              | None => d
              end)
  end.

Lemma fv_loop_key : forall (rl : list (layer B)) f oi out, wf_r rl ->
  assoc f (fv_loop rl oi out) = fv_key rl f oi (assoc f out).
Proof.
  induction rl as [|l below IH]; intros; [reflexivity|].
  cbn [fv_loop fv_key]. rewrite IH by (eapply wf_r_tail; eauto). f_equal.
  unfold fv_layer. rewrite fold_layer_assoc by (eapply enum_nodup; eauto).
  rewrite enum_event. reflexivity.
Qed.

Lemma fv_loop_nodup : forall (rl : list (layer B)) oi out,
  NoDup (map fst out) -> NoDup (map fst (fv_loop rl oi out)).
Proof.
  induction rl; intros; simpl; auto. apply IHrl. apply fold_layer_nodup. auto.
Qed.

Definition final (o : option fvdata) : option vis :=
  match o with Some d => exists_visible d | None => None end.
Definition skipof (oi : N) (o : option fvdata) : N :=
  match o with Some d => (omitted_until d - oi)%N | None => 0%N end.

Lemma fv_key_spec : forall (rl : list (layer B)) f, wf_r rl ->
  forall oi d, (oi + N.of_nat (length rl) + 1 < usize_max)%N ->
    final (fv_key rl f oi d) =
    match final d with
    | Some VisHidden => Some VisHidden
    | Some VisUnhide => Some VisUnhide
    | Some VisNormal => vis_loop rl f true (skipof oi d)
    | None => vis_loop rl f false (skipof oi d)
    end.
Proof.
  induction rl as [|l below IH]; intros f Hwf oi d Hb.
  { cbn [fv_key vis_loop]. destruct (final d) as [[]|]; reflexivity. }
  pose proof (wf_r_tail _ _ Hwf) as Hwf'.
  simpl length in Hb.
  assert (Hoi : sat_add oi 1 = (oi + 1)%N) by (apply sat_add_small; lia).
  cbn [fv_key vis_loop]. rewrite IH by (auto; rewrite Hoi; lia). clear IH.
  unfold layer_event. destruct (field_visibility_core l f) as [v|n|] eqn:Hc.
  - (* a field *)
    rewrite Hoi.
    destruct d as [[ou ev]|]; cbn [dflt_of final skipof exists_visible omitted_until fv_step].
    + destruct v; destruct ev as [[]|]; cbn [is_some negb andb];
        destruct (N.leb ou oi) eqn:Hle; cbn [andb final skipof exists_visible omitted_until];
        try (apply N.leb_le in Hle); try (apply N.leb_gt in Hle);
        try (replace (N.eqb (ou - oi) 0) with true by (symmetry; apply N.eqb_eq; lia));
        try (replace (N.eqb (ou - oi) 0) with false by (symmetry; apply N.eqb_neq; lia));
        try reflexivity; unfold sat_dec; try (f_equal; lia).
    + destruct v; cbn [is_some negb andb]; rewrite N.leb_refl;
        cbn [andb final skipof exists_visible omitted_until N.eqb]; try reflexivity;
        unfold sat_dec; f_equal; lia.
  - (* an omission *)
    assert (Hn : (n <= N.of_nat (length below))%N).
    { destruct l as [fs ls asr|om p]; simpl in Hc.
      - destruct (assoc f fs); discriminate.
      - destruct (mem f om); [|discriminate]. inversion Hc; subst.
        apply wf_r_omit in Hwf. apply laminar_len in Hwf. lia. }
    rewrite Hoi. rewrite (sat_add_small n 1) by lia.
    destruct d as [[ou ev]|]; cbn [dflt_of final skipof exists_visible omitted_until fv_step].
    + rewrite (sat_add_small oi n) by lia. rewrite sat_add_small by lia.
      destruct ev as [[]|]; try reflexivity; unfold sat_dec; f_equal; lia.
    + rewrite (sat_add_small oi n) by lia. rewrite sat_add_small by lia.
      unfold sat_dec; f_equal; lia.
  - (* nothing *)
    rewrite Hoi. destruct (final d) as [[]|]; try reflexivity; unfold sat_dec; f_equal;
      destruct d as [[ou ev]|]; cbn [skipof omitted_until]; lia.
Qed.

Lemma assoc_retain : forall out f, NoDup (map fst out) -> assoc f (retain out) = final (assoc f out).
Proof.
  induction out as [|[k d] r IH]; intros f Hnd; [reflexivity|].
  inversion Hnd; subst. simpl. destruct (exists_visible d) as [v|] eqn:E; simpl.
  - destruct (N.eqb f k); auto.
  - destruct (N.eqb f k) eqn:E2.
    + apply N.eqb_eq in E2. subst f. rewrite IH by auto. rewrite (assoc_not_in k r) by auto.
      simpl. auto.
    + auto.
Qed.

Theorem fields_visibility_agrees : forall (cores : list (layer B)) f, wf cores ->
  assoc f (fields_visibility cores) = field_visibility_idx cores f (length cores).
Proof.
  intros cores f [Hw Hf]. unfold fields_visibility, field_visibility_idx.
  rewrite assoc_retain by (apply fv_loop_nodup; constructor).
  rewrite fv_loop_key by auto. rewrite fv_key_spec; auto.
  - simpl. unfold cores_upto. rewrite firstn_all. reflexivity.
  - unfold fits in Hf. rewrite rev_length. lia.
Qed.

Lemma retain_keys_nodup : forall out, NoDup (map fst out) -> NoDup (map fst (retain out)).
Proof.
  induction out as [|[k d] r IH]; intros; simpl; [constructor|].
  inversion H; subst. destruct (exists_visible d); simpl; auto.
  constructor; auto. intro Hin. apply H2.
  clear -Hin. induction r as [|[k' d'] r IH]; simpl in *; [tauto|].
  destruct (exists_visible d'); simpl in *; tauto.
Qed.

Theorem fields_visibility_nodup : forall (cores : list (layer B)),
  NoDup (map fst (fields_visibility cores)).
Proof. intros. apply retain_keys_nodup. apply fv_loop_nodup. constructor. Qed.

End FieldsVisibility.

(* ================================================================== *)
(** * non-vacuity: a 5-layer chain with +:, ::, :::, a removal layer and a re-introduction
      satisfies the hypotheses, and the theorems say something non-trivial about it *)
Section NonVacuity.
Let ev0 (sup : nat) (b : nat) : res (list nat) := Ok [b; sup].
Let add0 (a b : list nat) : res (list nat) := Ok (a ++ b).

(* {a:: 1, b: 7} + {a+::: 2} , objectRemoveKey(.., b) , + {a+: 3, b+: 4} + {c: 5} *)
Definition ex_cores : list (layer nat) :=
  [ LObj [(0%N, Member false VisHidden 1); (1%N, Member false VisNormal 7)] [] [];
    LObj [(0%N, Member true VisUnhide 2)] [] [];
    LOmit [1%N] 2;
    LObj [(0%N, Member true VisNormal 3); (1%N, Member true VisNormal 4)] [] [];
    LObj [(2%N, Member false VisNormal 5)] [] [] ].

Example ex_wf : wf ex_cores.
Proof. apply wfb_wf. vm_compute. reflexivity. Qed.

Example ex_get_a : get_idx_walk ev0 add0 ex_cores 0%N 5 = Ok (Some [1; 0; 2; 1; 3; 3]).
Proof. vm_compute. reflexivity. Qed.
Example ex_get_a_spec : lookup_spec ev0 add0 ex_cores 0%N 5 = Ok (Some [1; 0; 2; 1; 3; 3]).
Proof. rewrite <- get_refines by apply ex_wf. apply ex_get_a. Qed.
(* b was removed below layer 3, so b+: finds no super *)
Example ex_get_b : get_idx_walk ev0 add0 ex_cores 1%N 5 = Ok (Some [4; 3]).
Proof. vm_compute. reflexivity. Qed.
(* super.b seen from layer 2 (below the removal) still finds the original *)
Example ex_get_b_super : get_idx_walk ev0 add0 ex_cores 1%N 2 = Ok (Some [7; 0]).
Proof. vm_compute. reflexivity. Qed.
Example ex_vis : (field_visibility_idx ex_cores 0%N 5, field_visibility_idx ex_cores 0%N 1,
                  field_visibility_idx ex_cores 1%N 3, field_visibility_idx ex_cores 3%N 5)
                 = (Some VisUnhide, Some VisHidden, None, None).
Proof. vm_compute. reflexivity. Qed.
Example ex_fields : (fields_ex ex_cores false, fields_ex ex_cores true) = ([0; 1; 2]%N, [0; 1; 2]%N)
                    /\ fields_ex (firstn 3 ex_cores) true = [0%N].
Proof. vm_compute. auto. Qed.
Example ex_remove : remove_key (firstn 2 ex_cores) 1%N = firstn 3 ex_cores.
Proof. reflexivity. Qed.
End NonVacuity.

(* ================================================================== *)
(** * objectFields / objectFieldsAll: the sorted list of the single pass = the spec's list *)
Section FieldsEq.
Context {B : Type}.

Definition ssorted := StronglySorted N.lt.

Lemma In_insert : forall k l x, In x (insert_sorted k l) <-> x = k \/ In x l.
Proof.
  induction l as [|y r IH]; intros; simpl.
  - intuition.
  - destruct (N.leb k y); simpl; [intuition|]. rewrite IH. intuition.
Qed.

Lemma In_sort : forall l x, In x (sort_names l) <-> In x l.
Proof.
  induction l; intros; simpl; [tauto|]. rewrite In_insert, IHl. intuition.
Qed.

Lemma insert_ssorted : forall k l, ssorted l -> ~ In k l -> ssorted (insert_sorted k l).
Proof.
  induction l as [|y r IH]; intros Hs Hn; simpl.
  - constructor; constructor.
  - inversion Hs; subst. destruct (N.leb k y) eqn:E.
    + apply N.leb_le in E. assert (k < y)%N by (simpl in Hn; lia).
      constructor; auto. constructor; auto.
      rewrite Forall_forall in *. intros z Hz. specialize (H2 z Hz). lia.
    + apply N.leb_gt in E. constructor.
      * apply IH; auto. simpl in Hn. tauto.
      * rewrite Forall_forall in *. intros z Hz. apply In_insert in Hz. destruct Hz; subst; auto.
Qed.

Lemma sort_ssorted : forall l, NoDup l -> ssorted (sort_names l).
Proof.
  induction l; intros; simpl; [constructor|]. inversion H; subst.
  apply insert_ssorted; auto. rewrite In_sort. auto.
Qed.

Lemma ssorted_ext : forall l1 l2, ssorted l1 -> ssorted l2 ->
  (forall x, In x l1 <-> In x l2) -> l1 = l2.
Proof.
  induction l1 as [|a r1 IH]; intros l2 H1 H2 Hext.
  - destruct l2 as [|b r2]; auto. exfalso. apply (Hext b). simpl; auto.
  - destruct l2 as [|b r2]; [exfalso; apply (Hext a); simpl; auto|].
    inversion H1; subst. inversion H2; subst. rewrite Forall_forall in *.
    assert (a = b).
    { destruct (proj1 (Hext a) (or_introl eq_refl)) as [E|Hin]; auto.
      destruct (proj2 (Hext b) (or_introl eq_refl)) as [E|Hin2]; auto.
      specialize (H6 a Hin). specialize (H4 b Hin2). lia. }
    subst b. f_equal. apply IH; auto. intro x. split; intro Hx.
    + destruct (proj1 (Hext x) (or_intror Hx)); auto. subst x. specialize (H4 a Hx). lia.
    + destruct (proj2 (Hext x) (or_intror Hx)); auto. subst x. specialize (H6 a Hx). lia.
Qed.

Lemma In_dedup : forall l x, In x (dedup l) <-> In x l.
Proof.
  induction l; intros; simpl; [tauto|].
  destruct (mem a (dedup l)) eqn:E; simpl; rewrite IHl; [|tauto].
  apply mem_In in E. apply IHl in E. intuition. subst. auto.
Qed.

Lemma dedup_nodup : forall l, NoDup (dedup l).
Proof.
  induction l; simpl; [constructor|].
  destruct (mem a (dedup l)) eqn:E; auto. constructor; auto.
  intro Hin. apply mem_In in Hin. congruence.
Qed.

Lemma assoc_in_iff : forall {A} (l : list (name * A)) f v,
  NoDup (map fst l) -> (In (f, v) l <-> assoc f l = Some v).
Proof.
  induction l as [|[k a] r IH]; intros f v Hnd; simpl; [split; [tauto|discriminate]|].
  inversion Hnd; subst. destruct (N.eqb f k) eqn:E.
  - apply N.eqb_eq in E. subst k. split.
    + intros [Heq|Hin]; [congruence|]. exfalso. apply H1. apply in_map_iff. exists (f, v). auto.
    + intro Heq. inversion Heq. auto.
  - rewrite <- IH by auto. apply N.eqb_neq in E. split; [intros [Heq|]; [congruence|auto]|auto].
Qed.

Lemma nodup_map_filter : forall {A} (p : name * A -> bool) (l : list (name * A)),
  NoDup (map fst l) -> NoDup (map fst (filter p l)).
Proof.
  induction l as [|x r IH]; intros; simpl; [constructor|].
  inversion H; subst. destruct (p x); simpl; auto. constructor; auto.
  intro Hin. apply H2. apply in_map_iff in Hin. destruct Hin as (y & Hy & Hf).
  apply filter_In in Hf. apply in_map_iff. exists y. tauto.
Qed.

Lemma assoc_some_in : forall {A} (l : list (name * A)) f v, assoc f l = Some v -> In f (map fst l).
Proof.
  induction l as [|[k a] r IH]; simpl; intros; [discriminate|].
  destruct (N.eqb f k) eqn:E; [apply N.eqb_eq in E; auto|eauto].
Qed.

Lemma vis_r_in_names : forall (rl : list (layer B)) f s v,
  vis_r rl f s = Some v -> In f (flat_map layer_names rl).
Proof.
  induction rl as [|l rl IH]; intros f s v H; [discriminate|].
  simpl. apply in_or_app. destruct s; cbn [vis_r] in H; [|right; eauto].
  destruct l as [fs ls asr|om p]; cbn [layer_names].
  - destruct (assoc f fs) eqn:E; [left; eapply assoc_some_in; eauto|right; eauto].
  - destruct (mem f om) eqn:E; [left; apply mem_In; auto|right; eauto].
Qed.

Lemma all_names_rev : forall (cores : list (layer B)) f,
  In f (flat_map layer_names (rev cores)) <-> In f (all_names cores).
Proof.
  intros. unfold all_names. rewrite !in_flat_map. split; intros (l & Hl & Hf); exists l; split; auto.
  - apply in_rev; auto.
  - apply in_rev in Hl; auto.
Qed.

Theorem fields_refines : forall (cores : list (layer B)) hid, wf cores ->
  fields_ex cores hid = fields_spec cores hid.
Proof.
  intros cores hid Hwf. unfold fields_ex, fields_spec. apply ssorted_ext.
  - apply sort_ssorted. apply nodup_map_filter. apply fields_visibility_nodup.
  - apply sort_ssorted. apply NoDup_filter. apply dedup_nodup.
  - intro f. rewrite !In_sort. rewrite filter_In, In_dedup. rewrite in_map_iff. split.
    + intros ([f' v] & Hf & Hin). simpl in Hf. subst f'. apply filter_In in Hin. destruct Hin as [Hin Hc].
      apply assoc_in_iff in Hin; [|apply fields_visibility_nodup].
      rewrite fields_visibility_agrees, visibility_refines in Hin by auto.
      split.
      * apply all_names_rev. unfold vis_spec in Hin. rewrite upto_all in Hin. eapply vis_r_in_names; eauto.
      * rewrite Hin. exact Hc.
    + intros [_ Hp]. destruct (vis_spec cores f (length cores)) as [v|] eqn:E; [|discriminate].
      exists (f, v). split; auto. apply filter_In. split; auto.
      apply assoc_in_iff; [apply fields_visibility_nodup|].
      rewrite fields_visibility_agrees, visibility_refines by auto. auto.
Qed.

Theorem fields_sorted : forall (cores : list (layer B)) hid, StronglySorted N.lt (fields_ex cores hid).
Proof.
  intros. apply sort_ssorted. apply nodup_map_filter. apply fields_visibility_nodup.
Qed.

End FieldsEq.

(* ================================================================== *)
(** * the chain-program interpreter over the IMPL loops = the one over the SPEC recursion *)
Section Interp.

Lemma lookup_r_ext : forall {B V} (ev1 ev2 : nat -> B -> res V) add,
  (forall i b, ev1 i b = ev2 i b) ->
  forall rl f s, lookup_r ev1 add rl f s = lookup_r ev2 add rl f s.
Proof.
  intros B V ev1 ev2 add H. induction rl as [|l rl IH]; intros; [reflexivity|].
  destruct s; cbn [lookup_r]; [|apply IH].
  destruct l as [fs ls asr|om p]; [|apply IH].
  destruct (assoc f fs) as [m|]; [|apply IH].
  rewrite H. destruct (m_add m && has_r rl f 0); [|reflexivity].
  apply bind_ext. intro b. rewrite IH. reflexivity.
Qed.

Lemma ops_get_eq : forall (ev1 ev2 : nat -> clo -> res val), (forall i b, ev1 i b = ev2 i b) ->
  forall o f upto, o_get impl_ops ev1 o f upto = o_get spec_ops ev2 o f upto.
Proof.
  intros. cbn [o_get impl_ops spec_ops]. destruct (wfb o) eqn:E; [|reflexivity].
  rewrite get_refines by (apply wfb_wf; auto). unfold lookup_spec. apply lookup_r_ext. auto.
Qed.

Lemma ops_has_eq : forall o f upto, o_has impl_ops o f upto = o_has spec_ops o f upto.
Proof.
  intros. cbn [o_has impl_ops spec_ops]. destruct (wfb o) eqn:E; [|reflexivity].
  cbn [andb]. apply has_refines. apply wfb_wf; auto.
Qed.

Lemma ops_vis_eq : forall o f, o_vis impl_ops o f = o_vis spec_ops o f.
Proof.
  intros. cbn [o_vis impl_ops spec_ops]. destruct (wfb o) eqn:E; [|reflexivity].
  apply visibility_refines. apply wfb_wf; auto.
Qed.

Lemma ops_fields_eq : forall o hid, o_fields impl_ops o hid = o_fields spec_ops o hid.
Proof.
  intros. cbn [o_fields impl_ops spec_ops]. destruct (wfb o) eqn:E; [|reflexivity].
  apply fields_refines. apply wfb_wf; auto.
Qed.

Lemma mapM_ext : forall {A C} (f g : A -> res C) l, (forall a, f a = g a) -> mapM f l = mapM g l.
Proof.
  induction l; intros; simpl; auto. rewrite H. apply bind_ext. intro. rewrite IHl by auto. reflexivity.
Qed.

Variables evA evB : bool -> list frame -> expr -> res val.
Hypothesis Hev : forall g F e, evA g F e = evB g F e.

Lemma ev_clo_eq : forall g this sup c, ev_clo evA g this sup c = ev_clo evB g this sup c.
Proof. intros. destruct c. apply Hev. Qed.

Lemma run_assert_eq : forall this sup c, run_assert evA this sup c = run_assert evB this sup c.
Proof. intros. unfold run_assert. rewrite ev_clo_eq. reflexivity. Qed.

Lemma run_assertions_from_eq : forall this ls idx,
  run_assertions_from evA this idx ls = run_assertions_from evB this idx ls.
Proof.
  induction ls as [|l r IH]; intros; [reflexivity|]. cbn [run_assertions_from].
  rewrite IH. destruct l; [|reflexivity].
  rewrite (mapM_ext _ (run_assert evB this idx)) by apply run_assert_eq. reflexivity.
Qed.

Lemma run_assertions_eq : forall g this, run_assertions evA g this = run_assertions evB g this.
Proof. intros. unfold run_assertions. destruct g; auto. apply run_assertions_from_eq. Qed.

Lemma obj_get_eq : forall g this f upto,
  obj_get impl_ops evA g this f upto = obj_get spec_ops evB g this f upto.
Proof.
  intros. unfold obj_get. rewrite run_assertions_eq. apply bind_ext. intros _.
  apply ops_get_eq. intros. apply ev_clo_eq.
Qed.

Lemma obj_index_eq : forall g this f, obj_index impl_ops evA g this f = obj_index spec_ops evB g this f.
Proof. intros. unfold obj_index. rewrite obj_get_eq. reflexivity. Qed.

Lemma step_eq : forall g F e, step impl_ops evA g F e = step spec_ops evB g F e.
Proof.
  intros g F e. destruct e; cbn [step]; rewrite ?Hev; try reflexivity;
    try (apply bind_ext; intro; rewrite ?Hev; reflexivity).
  - destruct (nth_error F up) as [[this sup]|]; auto. apply obj_index_eq.
  - destruct (rev F) as [|[this sup] ?]; auto. apply obj_index_eq.
  - destruct F as [|[this sup] ?]; auto. destruct (Nat.eqb sup 0); auto.
    unfold or_no_field. rewrite obj_get_eq. reflexivity.
  - destruct F as [|[this sup] ?]; auto. rewrite ops_has_eq. reflexivity.
  - destruct (nth_error F up) as [[this sup]|]; auto. rewrite ops_has_eq. reflexivity.
  - destruct (nth_error F up) as [[this sup]|]; auto.
    destruct (nth_error this sup) as [[fs locals asr|]|]; auto.
    destruct (assoc l locals); auto. apply ev_clo_eq.
  - apply bind_ext. intros [| | |o]; auto. apply obj_index_eq.
  - apply bind_ext. intros [| | |o]; auto. rewrite ops_has_eq, ops_vis_eq. reflexivity.
Qed.

Variables mfA mfB : val -> res tree.
Hypothesis Hmf : forall v, mfA v = mfB v.

Lemma manifest_step_eq : forall v,
  manifest_step impl_ops evA mfA v = manifest_step spec_ops evB mfB v.
Proof.
  intros [| | |o]; cbn [manifest_step]; auto.
  rewrite run_assertions_eq. apply bind_ext. intros _. rewrite ops_fields_eq.
  erewrite mapM_ext; [reflexivity|]. intro f. cbv beta. rewrite obj_index_eq.
  apply bind_ext. intro. rewrite Hmf. reflexivity.
Qed.

End Interp.

Theorem eval_refines : forall n g F e, eval impl_ops n g F e = eval spec_ops n g F e.
Proof.
  induction n; intros; [reflexivity|]. cbn [eval]. apply step_eq. auto.
Qed.

Theorem manifest_refines : forall n v, manifest impl_ops n v = manifest spec_ops n v.
Proof.
  induction n; intros; [reflexivity|]. cbn [manifest]. apply manifest_step_eq; auto. apply eval_refines.
Qed.

Theorem run_probe_refines : forall n e ns, run_probe impl_ops n e ns = run_probe spec_ops n e ns.
Proof.
  intros. unfold run_probe. rewrite eval_refines. apply bind_ext. intros [| | |o]; auto.
  rewrite manifest_refines, !ops_fields_eq. f_equal. f_equal.
  - apply map_ext. intro f. rewrite (obj_index_eq _ _ (eval_refines n)).
    apply bind_ext. apply manifest_refines.
  - apply map_ext. intro f. rewrite ops_vis_eq. reflexivity.
  - apply map_ext. intro f. apply ops_has_eq.
Qed.
