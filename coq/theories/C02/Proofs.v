(** C02 — lemmas. *)
From Coq Require Import List ZArith NArith Bool Lia Sorted Permutation.
From JrV Require Import C02.Model.
Import ListNotations.

(* ------------------------------------------------------------------ *)
(** * saturating arithmetic *)
Lemma sat_add_small : forall a b, (a + b < usize_max)%N -> sat_add a b = (a + b)%N.
Proof. intros. unfold sat_add. apply N.min_l. lia. Qed.

Lemma eqb_of_nat_S : forall s, N.eqb (N.of_nat (S s)) 0 = false.
Proof. intros. apply N.eqb_neq. lia. Qed.

Lemma dec_of_nat_S : forall s, sat_dec (N.of_nat (S s)) = N.of_nat s.
Proof. intros. unfold sat_dec. lia. Qed.

Lemma omit_skip_S : forall p s, (N.to_nat p <= s)%nat -> (p + 1 < usize_max)%N ->
  sat_dec (N.max (N.of_nat (S s)) (sat_add p 1)) = N.of_nat s.
Proof. intros. rewrite sat_add_small by lia. unfold sat_dec. lia. Qed.

Lemma omit_skip_0 : forall p, (p + 1 < usize_max)%N ->
  sat_dec (N.max 0 (sat_add p 1)) = N.of_nat (N.to_nat p).
Proof. intros. rewrite sat_add_small by lia. unfold sat_dec. lia. Qed.

Lemma bind_assoc : forall {A B C} (r : res A) (f : A -> res B) (g : B -> res C),
  bind (bind r f) g = bind r (fun a => bind (f a) g).
Proof. intros. destruct r; reflexivity. Qed.

Lemma bind_ext : forall {A B} (r : res A) (f g : A -> res B),
  (forall a, f a = g a) -> bind r f = bind r g.
Proof. intros. destruct r; simpl; auto. Qed.

Lemma bind_ok_r : forall {A} (r : res A), bind r (fun a => Ok a) = r.
Proof. intros. destruct r; reflexivity. Qed.

(* ------------------------------------------------------------------ *)
Section WalkProofs.
Context {B V : Type}.
Variable ev : nat -> B -> res V.
Variable add : V -> V -> res V.

Definition small (rl : list (layer B)) : Prop := (N.of_nat (length rl) + 1 < usize_max)%N.

Lemma small_tail : forall (l : layer B) rl, small (l :: rl) -> small rl.
Proof. unfold small. intros. simpl length in H. lia. Qed.

Lemma laminar_len : forall n (rl : list (layer B)), laminar n rl -> (n <= length rl)%nat.
Proof.
  induction n; intros; simpl in *. lia.
  destruct rl; [contradiction|]. destruct H. apply IHn in H0. simpl. lia.
Qed.

Lemma wf_r_tail : forall (l : layer B) rl, wf_r (l :: rl) -> wf_r rl.
Proof. intros. destruct l; simpl in H; tauto. Qed.

Lemma wf_r_omit : forall om p (rl : list (layer B)), wf_r (LOmit om p :: rl) -> laminar (N.to_nat p) rl.
Proof. intros. simpl in H. tauto. Qed.

Lemma omit_fits : forall om p (rl : list (layer B)),
  wf_r (LOmit om p :: rl) -> small (LOmit om p :: rl) -> (p + 1 < usize_max)%N.
Proof.
  intros. apply wf_r_omit in H. apply laminar_len in H. unfold small in H0. simpl length in H0. lia.
Qed.

(** ** has_field_include_hidden: the skip counter hides exactly the next [s] layers *)
Lemma has_loop_spec : forall rl key, wf_r rl -> small rl ->
  forall s, laminar s rl -> has_loop rl key (N.of_nat s) = has_r rl key s.
Proof.
  induction rl as [|l below IH]; intros key Hwf Hsm s Hlam; [reflexivity|].
  pose proof (wf_r_tail _ _ Hwf) as Hwf'. pose proof (small_tail _ _ Hsm) as Hsm'.
  destruct s as [|s'].
  - change (N.of_nat 0) with 0%N. cbn [has_loop has_r].
    destruct l as [fs ls asr|om p]; cbn [has_field_include_hidden_core].
    + destruct (is_some (assoc key fs)); [reflexivity|].
      change (sat_dec 0) with (N.of_nat 0). apply IH; simpl; auto.
    + destruct (mem key om).
      * rewrite omit_skip_0 by (eapply omit_fits; eauto). apply IH; auto. eapply wf_r_omit; eauto.
      * change (sat_dec 0) with (N.of_nat 0). apply IH; simpl; auto.
  - cbn [has_loop has_r]. simpl in Hlam. destruct Hlam as [Hl Hlam].
    destruct l as [fs ls asr|om p]; cbn [has_field_include_hidden_core].
    + destruct (is_some (assoc key fs)); rewrite ?eqb_of_nat_S, dec_of_nat_S; apply IH; auto.
    + destruct (mem key om).
      * rewrite omit_skip_S; auto. eapply omit_fits; eauto.
      * rewrite dec_of_nat_S. apply IH; auto.
Qed.

(** ** field_visibility *)
Lemma vis_loop_spec : forall rl key, wf_r rl -> small rl ->
  forall s ex, laminar s rl ->
    vis_loop rl key ex (N.of_nat s) =
    match vis_r rl key s with
    | Some v => Some v
    | None => if ex then Some VisNormal else None
    end.
Proof.
  induction rl as [|l below IH]; intros key Hwf Hsm s ex Hlam; [reflexivity|].
  pose proof (wf_r_tail _ _ Hwf) as Hwf'. pose proof (small_tail _ _ Hsm) as Hsm'.
  destruct s as [|s'].
  - change (N.of_nat 0) with 0%N. cbn [vis_loop vis_r].
    destruct l as [fs ls asr|om p]; cbn [field_visibility_core].
    + destruct (assoc key fs) as [m|].
      * destruct (m_vis m); cbn [N.eqb]; try reflexivity.
        change (sat_dec 0) with (N.of_nat 0). rewrite IH by (simpl; auto).
        destruct (vis_r below key 0); reflexivity.
      * change (sat_dec 0) with (N.of_nat 0). apply IH; simpl; auto.
    + destruct (mem key om).
      * rewrite omit_skip_0 by (eapply omit_fits; eauto). apply IH; auto. eapply wf_r_omit; eauto.
      * change (sat_dec 0) with (N.of_nat 0). apply IH; simpl; auto.
  - cbn [vis_loop vis_r]. simpl in Hlam. destruct Hlam as [Hl Hlam].
    destruct l as [fs ls asr|om p]; cbn [field_visibility_core].
    + destruct (assoc key fs) as [m|].
      * destruct (m_vis m); rewrite ?eqb_of_nat_S, dec_of_nat_S; apply IH; auto.
      * rewrite dec_of_nat_S. apply IH; auto.
    + destruct (mem key om).
      * rewrite omit_skip_S; auto. eapply omit_fits; eauto.
      * rewrite dec_of_nat_S. apply IH; auto.
Qed.

(** ** has / visibility / lookup are mutually consistent in the spec *)
Lemma has_vis_r : forall rl key s, has_r rl key s = is_some (vis_r (B:=B) rl key s).
Proof.
  induction rl as [|l below IH]; intros; [reflexivity|].
  destruct s; cbn [has_r vis_r]; [|apply IH].
  destruct l as [fs ls asr|om p]; [|apply IH].
  destruct (assoc key fs) as [m|]; cbn [is_some]; [|apply IH].
  destruct (m_vis m); try reflexivity. destruct (vis_r below key 0); reflexivity.
Qed.

Lemma has_false_lookup_none : forall rl key s,
  has_r rl key s = false -> lookup_r ev add rl key s = Ok None.
Proof.
  induction rl as [|l below IH]; intros key s H; [reflexivity|].
  destruct s; cbn [has_r lookup_r] in *; [|apply IH; auto].
  destruct l as [fs ls asr|om p]; [|apply IH; auto].
  destruct (assoc key fs) as [m|]; cbn [is_some] in H; [discriminate|apply IH; auto].
Qed.

Lemma lookup_none_has_false : forall rl key s,
  lookup_r ev add rl key s = Ok None -> has_r rl key s = false.
Proof.
  induction rl as [|l below IH]; intros key s H; [reflexivity|].
  destruct s; cbn [has_r lookup_r] in *; [|apply IH; auto].
  destruct l as [fs ls asr|om p]; [|apply IH; auto].
  destruct (assoc key fs) as [m|]; cbn [is_some]; [|apply IH; auto].
  exfalso. destruct (m_add m && has_r below key 0).
  - destruct (ev (length below) (m_body m)); cbn [bind] in H; try discriminate.
    destruct (lookup_r ev add below key 0) as [[sv|]| |]; cbn [bind] in H; try discriminate.
    destruct (add sv a); cbn [bind] in H; discriminate.
  - destruct (ev (length below) (m_body m)); cbn [bind] in H; discriminate.
Qed.

(** ** get_idx_uncached *)
Definition enc (acc : list V) : option V * list V :=
  match acc with [] => (None, []) | a :: r => (Some a, r) end.

(** what is left to do once the read below [acc] (the `+:` values collected so far, newest
    first) has produced [o] *)
Definition finish_with (acc : list V) (o : option V) : res (option V) :=
  match o with
  | Some sv => bind (try_fold add sv (rev acc)) (fun v => Ok (Some v))
  | None => match rev acc with
            | [] => Ok None
            | init :: rest => bind (try_fold add init rest) (fun v => Ok (Some v))
            end
  end.

Lemma get_finish_done : forall acc,
  get_finish add (LDone (fst (enc acc)) (snd (enc acc))) = finish_with acc None.
Proof.
  intros [|a r]; [reflexivity|]. cbn [enc fst snd finish_with].
  destruct r as [|b r]; [reflexivity|]. cbn [get_finish].
  destruct (rev (a :: b :: r)) eqn:E; [|reflexivity].
  apply (f_equal (@length V)) in E. rewrite rev_length in E. discriminate.
Qed.

Lemma enc_snoc : forall acc v,
  enc (acc ++ [v]) = match acc with [] => (Some v, []) | a :: r => (Some a, r ++ [v]) end.
Proof. intros [|a r] v; reflexivity. Qed.

Lemma get_loop_spec : forall rl key, wf_r rl -> small rl ->
  forall s acc, laminar s rl ->
    bind (get_loop ev rl key (fst (enc acc)) (snd (enc acc)) (N.of_nat s)) (get_finish add)
    = bind (lookup_r ev add rl key s) (finish_with acc).
Proof.
  induction rl as [|l below IH]; intros key Hwf Hsm s acc Hlam.
  { cbn [get_loop lookup_r bind]. apply get_finish_done. }
  pose proof (wf_r_tail _ _ Hwf) as Hwf'. pose proof (small_tail _ _ Hsm) as Hsm'.
  destruct s as [|s'].
  - change (N.of_nat 0) with 0%N. cbn [get_loop lookup_r].
    destruct l as [fs ls asr|om p]; cbn [get_for_core N.eqb negb].
    + destruct (assoc key fs) as [m|].
      2:{ cbn [bind]. change (sat_dec 0) with (N.of_nat 0). apply IH; simpl; auto. }
      destruct (m_add m) eqn:Hadd; cbn [andb].
      * (* +: *)
        rewrite !bind_assoc.
        assert (Hstep : forall b,
          bind (get_loop ev below key (fst (enc (acc ++ [b]))) (snd (enc (acc ++ [b]))) (N.of_nat 0)) (get_finish add)
          = bind (if has_r below key 0
                  then bind (lookup_r ev add below key 0) (fun s =>
                         match s with
                         | Some s => bind (add s b) (fun v => Ok (Some v))
                         | None => Err ENoField
                         end)
                  else Ok (Some b)) (finish_with acc)).
        { intro b. rewrite IH by (simpl; auto).
          destruct (has_r below key 0) eqn:Hhas.
          - destruct (lookup_r ev add below key 0) as [[sv|]| |] eqn:Hl; cbn [bind]; try reflexivity.
            + cbn [finish_with]. rewrite rev_app_distr. cbn [rev app try_fold].
              rewrite !bind_assoc. reflexivity.
            + apply lookup_none_has_false in Hl. congruence.
          - rewrite has_false_lookup_none by auto. cbn [bind finish_with].
            rewrite rev_app_distr. reflexivity. }
        destruct (has_r below key 0) eqn:Hhas.
        -- rewrite bind_assoc. apply bind_ext. intro b. cbn [bind].
           specialize (Hstep b). rewrite enc_snoc in Hstep.
           destruct acc as [|a r]; cbn [enc fst snd] in *; exact Hstep.
        -- rewrite bind_assoc. apply bind_ext. intro b. cbn [bind].
           specialize (Hstep b). rewrite enc_snoc in Hstep.
           destruct acc as [|a r]; cbn [enc fst snd] in *; exact Hstep.
      * (* plain field: stop *)
        rewrite !bind_assoc. apply bind_ext. intro b. cbn [bind].
        destruct acc as [|a r]; cbn [enc fst snd bind].
        -- reflexivity.
        -- pose proof (get_finish_done (a :: r ++ [b])) as E. cbn [enc fst snd] in E. rewrite E.
           cbn [finish_with]. change (a :: r ++ [b]) with ((a :: r) ++ [b]).
           rewrite rev_app_distr. reflexivity.
    + destruct (mem key om); cbn [bind].
      * rewrite omit_skip_0 by (eapply omit_fits; eauto). apply IH; auto. eapply wf_r_omit; eauto.
      * change (sat_dec 0) with (N.of_nat 0). apply IH; simpl; auto.
  - cbn [get_loop lookup_r]. simpl in Hlam. destruct Hlam as [Hl Hlam].
    rewrite eqb_of_nat_S. cbn [negb].
    destruct l as [fs ls asr|om p]; cbn [get_for_core bind].
    + rewrite dec_of_nat_S. apply IH; auto.
    + destruct (mem key om); cbn [bind].
      * rewrite omit_skip_S; auto. eapply omit_fits; eauto.
      * rewrite dec_of_nat_S. apply IH; auto.
Qed.

Lemma finish_with_nil : forall o, finish_with [] o = Ok o.
Proof. intros [v|]; reflexivity. Qed.

Lemma get_loop_top : forall rl key, wf_r rl -> small rl ->
  bind (get_loop ev rl key None [] 0) (get_finish add) = lookup_r ev add rl key 0.
Proof.
  intros. pose proof (get_loop_spec rl key H H0 0 [] I) as E. cbn [enc fst snd] in E.
  change (N.of_nat 0) with 0%N in E. rewrite E.
  rewrite (bind_ext _ _ (fun o => Ok o)) by apply finish_with_nil. apply bind_ok_r.
Qed.

(* ------------------------------------------------------------------ *)
(** ** prefixes of a well-formed list are well formed *)
Lemma wf_r_app_r : forall (x y : list (layer B)), wf_r (x ++ y) -> wf_r y.
Proof. induction x; intros; simpl in *; auto. apply IHx. eapply wf_r_tail; eauto. Qed.

Lemma cores_upto_suffix : forall (cores : list (layer B)) upto,
  rev cores = rev (skipn upto cores) ++ cores_upto cores upto.
Proof.
  intros. unfold cores_upto. rewrite <- rev_app_distr. rewrite firstn_skipn. reflexivity.
Qed.

Lemma wf_upto : forall cores upto, wf (B:=B) cores ->
  wf_r (cores_upto cores upto) /\ small (cores_upto cores upto).
Proof.
  intros cores upto [Hw Hf]. split.
  - rewrite (cores_upto_suffix cores upto) in Hw. eapply wf_r_app_r; eauto.
  - unfold small, fits, cores_upto in *. rewrite rev_length.
    rewrite firstn_length. lia.
Qed.

Theorem get_refines : forall cores key upto, wf cores ->
  get_idx_walk ev add cores key upto = lookup_spec ev add cores key upto.
Proof.
  intros. destruct (wf_upto cores upto H). unfold get_idx_walk, lookup_spec. apply get_loop_top; auto.
Qed.

Theorem has_refines : forall cores key upto, wf (B:=B) cores ->
  has_field_include_hidden_idx cores key upto = has_spec cores key upto.
Proof.
  intros. destruct (wf_upto cores upto H). unfold has_field_include_hidden_idx, has_spec.
  apply (has_loop_spec _ key H0 H1 0 I).
Qed.

Theorem visibility_refines : forall cores key upto, wf (B:=B) cores ->
  field_visibility_idx cores key upto = vis_spec cores key upto.
Proof.
  intros. destruct (wf_upto cores upto H). unfold field_visibility_idx, vis_spec.
  pose proof (vis_loop_spec _ key H0 H1 0 false I) as E. change (N.of_nat 0) with 0%N in E.
  rewrite E. destruct (vis_r (cores_upto cores upto) key 0); reflexivity.
Qed.

(** `in`, objectHasAll, "f" in super, visibility and reads agree *)
Theorem has_field_agrees : forall cores key upto, wf cores ->
  has_field_include_hidden_idx cores key upto = is_some (field_visibility_idx cores key upto)
  /\ (has_field_include_hidden_idx cores key upto = false <-> get_idx_walk ev add cores key upto = Ok None).
Proof.
  intros. rewrite has_refines, visibility_refines, get_refines by auto.
  unfold has_spec, vis_spec, lookup_spec. split.
  - apply has_vis_r.
  - split; [apply has_false_lookup_none|apply lookup_none_has_false].
Qed.

End WalkProofs.
