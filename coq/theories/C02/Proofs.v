(** C02 — lemmas. *)
From Coq Require Import List ZArith NArith Bool Lia Sorted Permutation.
From JrV Require Import C02.Model.
Import ListNotations.

(* ------------------------------------------------------------------ *)
(** * saturating arithmetic *)
Lemma sat_add_small : forall a b, (a + b < usize_max)%N -> sat_add a b = (a + b)%N.
Proof. intros. unfold sat_add. apply N.min_l. lia. Qed.

Lemma eqb_of_nat_S : forall s, N.eqb (N.of_nat (S s)) 0 = false.
Proof. intros. apply N.eqb_neq. lia. Qed.

Lemma dec_of_nat_S : forall s, sat_dec (N.of_nat (S s)) = N.of_nat s.
Proof. intros. unfold sat_dec. lia. Qed.

Lemma omit_skip_S : forall p s, (N.to_nat p <= s)%nat -> (p + 1 < usize_max)%N ->
  sat_dec (N.max (N.of_nat (S s)) (sat_add p 1)) = N.of_nat s.
Proof. intros. rewrite sat_add_small by lia. unfold sat_dec. lia. Qed.

Lemma omit_skip_0 : forall p, (p + 1 < usize_max)%N ->
  sat_dec (N.max 0 (sat_add p 1)) = N.of_nat (N.to_nat p).
Proof. intros. rewrite sat_add_small by lia. unfold sat_dec. lia. Qed.

Lemma bind_assoc : forall {A B C} (r : res A) (f : A -> res B) (g : B -> res C),
  bind (bind r f) g = bind r (fun a => bind (f a) g).
Proof. intros. destruct r; reflexivity. Qed.

Lemma bind_ext : forall {A B} (r : res A) (f g : A -> res B),
  (forall a, f a = g a) -> bind r f = bind r g.
Proof. intros. destruct r; simpl; auto. Qed.

Lemma bind_ok_r : forall {A} (r : res A), bind r (fun a => Ok a) = r.
Proof. intros. destruct r; reflexivity. Qed.

(* ------------------------------------------------------------------ *)
Section WalkProofs.
Context {B V : Type}.
Variable ev : nat -> B -> res V.
Variable add : V -> V -> res V.

Definition small (rl : list (layer B)) : Prop := (N.of_nat (length rl) + 1 < usize_max)%N.

Lemma small_tail : forall (l : layer B) rl, small (l :: rl) -> small rl.
Proof. unfold small. intros. simpl length in H. lia. Qed.

Lemma laminar_len : forall n (rl : list (layer B)), laminar n rl -> (n <= length rl)%nat.
Proof.
  induction n; intros; simpl in *. lia.
  destruct rl; [contradiction|]. destruct H. apply IHn in H0. simpl. lia.
Qed.

Lemma wf_r_tail : forall (l : layer B) rl, wf_r (l :: rl) -> wf_r rl.
Proof. intros. destruct l; simpl in H; tauto. Qed.

Lemma wf_r_omit : forall om p (rl : list (layer B)), wf_r (LOmit om p :: rl) -> laminar (N.to_nat p) rl.
Proof. intros. simpl in H. tauto. Qed.

Lemma omit_fits : forall om p (rl : list (layer B)),
  wf_r (LOmit om p :: rl) -> small (LOmit om p :: rl) -> (p + 1 < usize_max)%N.
Proof.
  intros. apply wf_r_omit in H. apply laminar_len in H. unfold small in H0. simpl length in H0. lia.
Qed.

(** ** has_field_include_hidden: the skip counter hides exactly the next [s] layers *)
Lemma has_loop_spec : forall rl key, wf_r rl -> small rl ->
  forall s, laminar s rl -> has_loop rl key (N.of_nat s) = has_r rl key s.
Proof.
  induction rl as [|l below IH]; intros key Hwf Hsm s Hlam; [reflexivity|].
  pose proof (wf_r_tail _ _ Hwf) as Hwf'. pose proof (small_tail _ _ Hsm) as Hsm'.
  destruct s as [|s'].
  - change (N.of_nat 0) with 0%N. cbn [has_loop has_r].
    destruct l as [fs ls asr|om p]; cbn [has_field_include_hidden_core].
    + destruct (is_some (assoc key fs)); [reflexivity|].
      change (sat_dec 0) with (N.of_nat 0). apply IH; simpl; auto.
    + destruct (mem key om).
      * rewrite omit_skip_0 by (eapply omit_fits; eauto). apply IH; auto. eapply wf_r_omit; eauto.
      * change (sat_dec 0) with (N.of_nat 0). apply IH; simpl; auto.
  - cbn [has_loop has_r]. simpl in Hlam. destruct Hlam as [Hl Hlam].
    destruct l as [fs ls asr|om p]; cbn [has_field_include_hidden_core].
    + destruct (is_some (assoc key fs)); rewrite ?eqb_of_nat_S, dec_of_nat_S; apply IH; auto.
    + destruct (mem key om).
      * rewrite omit_skip_S; auto. eapply omit_fits; eauto.
      * rewrite dec_of_nat_S. apply IH; auto.
Qed.

(** ** field_visibility *)
Lemma vis_loop_spec : forall rl key, wf_r rl -> small rl ->
  forall s ex, laminar s rl ->
    vis_loop rl key ex (N.of_nat s) =
    match vis_r rl key s with
    | Some v => Some v
    | None => if ex then Some VisNormal else None
    end.
Proof.
  induction rl as [|l below IH]; intros key Hwf Hsm s ex Hlam; [reflexivity|].
  pose proof (wf_r_tail _ _ Hwf) as Hwf'. pose proof (small_tail _ _ Hsm) as Hsm'.
  destruct s as [|s'].
  - change (N.of_nat 0) with 0%N. cbn [vis_loop vis_r].
    destruct l as [fs ls asr|om p]; cbn [field_visibility_core].
    + destruct (assoc key fs) as [m|].
      * destruct (m_vis m); cbn [N.eqb]; try reflexivity.
        change (sat_dec 0) with (N.of_nat 0). rewrite IH by (simpl; auto).
        destruct (vis_r below key 0); reflexivity.
      * change (sat_dec 0) with (N.of_nat 0). apply IH; simpl; auto.
    + destruct (mem key om).
      * rewrite omit_skip_0 by (eapply omit_fits; eauto). apply IH; auto. eapply wf_r_omit; eauto.
      * change (sat_dec 0) with (N.of_nat 0). apply IH; simpl; auto.
  - cbn [vis_loop vis_r]. simpl in Hlam. destruct Hlam as [Hl Hlam].
    destruct l as [fs ls asr|om p]; cbn [field_visibility_core].
    + destruct (assoc key fs) as [m|].
      * destruct (m_vis m); rewrite ?eqb_of_nat_S, dec_of_nat_S; apply IH; auto.
      * rewrite dec_of_nat_S. apply IH; auto.
    + destruct (mem key om).
      * rewrite omit_skip_S; auto. eapply omit_fits; eauto.
      * rewrite dec_of_nat_S. apply IH; auto.
Qed.

(** ** has / visibility / lookup are mutually consistent in the spec *)
Lemma has_vis_r : forall rl key s, has_r rl key s = is_some (vis_r (B:=B) rl key s).
Proof.
  induction rl as [|l below IH]; intros; [reflexivity|].
  destruct s; cbn [has_r vis_r]; [|apply IH].
  destruct l as [fs ls asr|om p]; [|apply IH].
  destruct (assoc key fs) as [m|]; cbn [is_some]; [|apply IH].
  destruct (m_vis m); try reflexivity. destruct (vis_r below key 0); reflexivity.
Qed.

Lemma has_false_lookup_none : forall rl key s,
  has_r rl key s = false -> lookup_r ev add rl key s = Ok None.
Proof.
  induction rl as [|l below IH]; intros key s H; [reflexivity|].
  destruct s; cbn [has_r lookup_r] in *; [|apply IH; auto].
  destruct l as [fs ls asr|om p]; [|apply IH; auto].
  destruct (assoc key fs) as [m|]; cbn [is_some] in H; [discriminate|apply IH; auto].
Qed.

Lemma lookup_none_has_false : forall rl key s,
  lookup_r ev add rl key s = Ok None -> has_r rl key s = false.
Proof.
  induction rl as [|l below IH]; intros key s H; [reflexivity|].
  destruct s; cbn [has_r lookup_r] in *; [|apply IH; auto].
  destruct l as [fs ls asr|om p]; [|apply IH; auto].
  destruct (assoc key fs) as [m|]; cbn [is_some]; [|apply IH; auto].
  exfalso. destruct (m_add m && has_r below key 0).
  - destruct (ev (length below) (m_body m)); cbn [bind] in H; try discriminate.
    destruct (lookup_r ev add below key 0) as [[sv|]| |]; cbn [bind] in H; try discriminate.
    destruct (add sv a); cbn [bind] in H; discriminate.
  - destruct (ev (length below) (m_body m)); cbn [bind] in H; discriminate.
Qed.

(** ** get_idx_uncached *)
Definition enc (acc : list V) : option V * list V :=
  match acc with [] => (None, []) | a :: r => (Some a, r) end.

(** what is left to do once the read below [acc] (the `+:` values collected so far, newest
    first) has produced [o] *)
Definition finish_with (acc : list V) (o : option V) : res (option V) :=
  match o with
  | Some sv => bind (try_fold add sv (rev acc)) (fun v => Ok (Some v))
  | None => match rev acc with
            | [] => Ok None
            | init :: rest => bind (try_fold add init rest) (fun v => Ok (Some v))
            end
  end.

Lemma get_finish_done : forall acc,
  get_finish add (LDone (fst (enc acc)) (snd (enc acc))) = finish_with acc None.
Proof.
  intros [|a r]; [reflexivity|]. cbn [enc fst snd finish_with].
  destruct r as [|b r]; [reflexivity|]. cbn [get_finish].
  destruct (rev (a :: b :: r)) eqn:E; [|reflexivity].
  apply (f_equal (@length V)) in E. rewrite rev_length in E. discriminate.
Qed.

Lemma enc_snoc : forall acc v,
  enc (acc ++ [v]) = match acc with [] => (Some v, []) | a :: r => (Some a, r ++ [v]) end.
Proof. intros [|a r] v; reflexivity. Qed.

Lemma get_loop_spec : forall rl key, wf_r rl -> small rl ->
  forall s acc, laminar s rl ->
    bind (get_loop ev rl key (fst (enc acc)) (snd (enc acc)) (N.of_nat s)) (get_finish add)
    = bind (lookup_r ev add rl key s) (finish_with acc).
Proof.
  induction rl as [|l below IH]; intros key Hwf Hsm s acc Hlam.
  { cbn [get_loop lookup_r bind]. apply get_finish_done. }
  pose proof (wf_r_tail _ _ Hwf) as Hwf'. pose proof (small_tail _ _ Hsm) as Hsm'.
  destruct s as [|s'].
  - change (N.of_nat 0) with 0%N. cbn [get_loop lookup_r].
    destruct l as [fs ls asr|om p]; cbn [get_for_core N.eqb negb].
    + destruct (assoc key fs) as [m|].
      2:{ cbn [bind]. change (sat_dec 0) with (N.of_nat 0). apply IH; simpl; auto. }
      destruct (m_add m) eqn:Hadd; cbn [andb].
      * (* +: *)
        rewrite !bind_assoc.
        assert (Hstep : forall b,
          bind (get_loop ev below key (fst (enc (acc ++ [b]))) (snd (enc (acc ++ [b]))) (N.of_nat 0)) (get_finish add)
          = bind (if has_r below key 0
                  then bind (lookup_r ev add below key 0) (fun s =>
                         match s with
                         | Some s => bind (add s b) (fun v => Ok (Some v))
                         | None => Err ENoField
                         end)
                  else Ok (Some b)) (finish_with acc)).
        { intro b. rewrite IH by (simpl; auto).
          destruct (has_r below key 0) eqn:Hhas.
          - destruct (lookup_r ev add below key 0) as [[sv|]| |] eqn:Hl; cbn [bind]; try reflexivity.
            + cbn [finish_with]. rewrite rev_app_distr. cbn [rev app try_fold].
              rewrite !bind_assoc. reflexivity.
            + apply lookup_none_has_false in Hl. congruence.
          - rewrite has_false_lookup_none by auto. cbn [bind finish_with].
            rewrite rev_app_distr. reflexivity. }
        destruct (has_r below key 0) eqn:Hhas.
        -- rewrite bind_assoc. apply bind_ext. intro b. cbn [bind].
           specialize (Hstep b). rewrite enc_snoc in Hstep.
           destruct acc as [|a r]; cbn [enc fst snd] in *; exact Hstep.
        -- rewrite bind_assoc. apply bind_ext. intro b. cbn [bind].
           specialize (Hstep b). rewrite enc_snoc in Hstep.
           destruct acc as [|a r]; cbn [enc fst snd] in *; exact Hstep.
      * (* plain field: stop *)
        rewrite !bind_assoc. apply bind_ext. intro b. cbn [bind].
        destruct acc as [|a r]; cbn [enc fst snd bind].
        -- reflexivity.
        -- pose proof (get_finish_done (a :: r ++ [b])) as E. cbn [enc fst snd] in E. rewrite E.
           cbn [finish_with]. change (a :: r ++ [b]) with ((a :: r) ++ [b]).
           rewrite rev_app_distr. reflexivity.
    + destruct (mem key om); cbn [bind].
      * rewrite omit_skip_0 by (eapply omit_fits; eauto). apply IH; auto. eapply wf_r_omit; eauto.
      * change (sat_dec 0) with (N.of_nat 0). apply IH; simpl; auto.
  - cbn [get_loop lookup_r]. simpl in Hlam. destruct Hlam as [Hl Hlam].
    rewrite eqb_of_nat_S. cbn [negb].
    destruct l as [fs ls asr|om p]; cbn [get_for_core bind].
    + rewrite dec_of_nat_S. apply IH; auto.
    + destruct (mem key om); cbn [bind].
      * rewrite omit_skip_S; auto. eapply omit_fits; eauto.
      * rewrite dec_of_nat_S. apply IH; auto.
Qed.

Lemma finish_with_nil : forall o, finish_with [] o = Ok o.
Proof. intros [v|]; reflexivity. Qed.

Lemma get_loop_top : forall rl key, wf_r rl -> small rl ->
  bind (get_loop ev rl key None [] 0) (get_finish add) = lookup_r ev add rl key 0.
Proof.
  intros. pose proof (get_loop_spec rl key H H0 0 [] I) as E. cbn [enc fst snd] in E.
  change (N.of_nat 0) with 0%N in E. rewrite E.
  rewrite (bind_ext _ _ (fun o => Ok o)) by apply finish_with_nil. apply bind_ok_r.
Qed.

(* ------------------------------------------------------------------ *)
(** ** prefixes of a well-formed list are well formed *)
Lemma wf_r_app_r : forall (x y : list (layer B)), wf_r (x ++ y) -> wf_r y.
Proof. induction x; intros; simpl in *; auto. apply IHx. eapply wf_r_tail; eauto. Qed.

Lemma cores_upto_suffix : forall (cores : list (layer B)) upto,
  rev cores = rev (skipn upto cores) ++ cores_upto cores upto.
Proof.
  intros. unfold cores_upto. rewrite <- rev_app_distr. rewrite firstn_skipn. reflexivity.
Qed.

Lemma wf_upto : forall cores upto, wf (B:=B) cores ->
  wf_r (cores_upto cores upto) /\ small (cores_upto cores upto).
Proof.
  intros cores upto [Hw Hf]. split.
  - rewrite (cores_upto_suffix cores upto) in Hw. eapply wf_r_app_r; eauto.
  - unfold small, fits, cores_upto in *. rewrite rev_length.
    rewrite firstn_length. lia.
Qed.

Theorem get_refines : forall cores key upto, wf cores ->
  get_idx_walk ev add cores key upto = lookup_spec ev add cores key upto.
Proof.
  intros. destruct (wf_upto cores upto H). unfold get_idx_walk, lookup_spec. apply get_loop_top; auto.
Qed.

Theorem has_refines : forall cores key upto, wf (B:=B) cores ->
  has_field_include_hidden_idx cores key upto = has_spec cores key upto.
Proof.
  intros. destruct (wf_upto cores upto H). unfold has_field_include_hidden_idx, has_spec.
  apply (has_loop_spec _ key H0 H1 0 I).
Qed.

Theorem visibility_refines : forall cores key upto, wf (B:=B) cores ->
  field_visibility_idx cores key upto = vis_spec cores key upto.
Proof.
  intros. destruct (wf_upto cores upto H). unfold field_visibility_idx, vis_spec.
  pose proof (vis_loop_spec _ key H0 H1 0 false I) as E. change (N.of_nat 0) with 0%N in E.
  rewrite E. destruct (vis_r (cores_upto cores upto) key 0); reflexivity.
Qed.

(** `in`, objectHasAll, "f" in super, visibility and reads agree *)
Theorem has_field_agrees : forall cores key upto, wf cores ->
  has_field_include_hidden_idx cores key upto = is_some (field_visibility_idx cores key upto)
  /\ (has_field_include_hidden_idx cores key upto = false <-> get_idx_walk ev add cores key upto = Ok None).
Proof.
  intros. rewrite has_refines, visibility_refines, get_refines by auto.
  unfold has_spec, vis_spec, lookup_spec. split.
  - apply has_vis_r.
  - split; [apply has_false_lookup_none|apply lookup_none_has_false].
Qed.

End WalkProofs.

(* ================================================================== *)
(** * constructors: +, extension, objectRemoveKey *)
Section Constructors.
Context {B V : Type}.
Variable ev : nat -> B -> res V.
Variable add : V -> V -> res V.

Lemma laminar_app : forall n (x y : list (layer B)), laminar n x -> laminar n (x ++ y).
Proof.
  induction n; intros; simpl in *; auto.
  destruct x; [contradiction|]. simpl. destruct H. split; auto.
Qed.

Lemma wf_r_app : forall (x y : list (layer B)), wf_r x -> wf_r y -> wf_r (x ++ y).
Proof.
  induction x as [|l x IH]; intros; simpl in *; auto.
  destruct l; simpl in *.
  - destruct H. split; auto.
  - destruct H as (? & ? & ?). repeat split; auto. apply laminar_app; auto.
Qed.

Lemma laminar_all : forall (rl : list (layer B)), wf_r rl -> laminar (length rl) rl.
Proof.
  induction rl as [|l rl IH]; intros; simpl; auto.
  split; [|apply IH; eapply wf_r_tail; eauto].
  destruct l; auto. apply wf_r_omit in H. apply laminar_len in H. lia.
Qed.

(** (a + b) is well formed *)
Theorem extend_from_wf : forall (a b : list (layer B)),
  wf a -> wf b -> fits (extend_from a b) -> wf (extend_from a b).
Proof.
  unfold wf, extend_from. intros a b [Ha _] [Hb _] Hf. split; auto.
  rewrite rev_app_distr. apply wf_r_app; auto.
Qed.

(** a { fields } is well formed when the field names are distinct *)
Theorem push_layer_wf : forall (a : list (layer B)) fs ls asr,
  wf a -> NoDup (map fst fs) -> fits (push_layer a (LObj fs ls asr)) -> wf (push_layer a (LObj fs ls asr)).
Proof.
  unfold wf, push_layer. intros a fs ls asr [Ha _] Hn Hf. split; auto.
  rewrite rev_app_distr. simpl. auto.
Qed.

(** std.objectRemoveKey(o, k) is well formed *)
Theorem remove_key_wf : forall (o : list (layer B)) k,
  wf o -> fits (remove_key o k) -> wf (remove_key o k).
Proof.
  unfold wf, remove_key. intros o k [Ho _] Hf. split; auto.
  rewrite rev_app_distr. simpl. repeat split; auto.
  - constructor; [simpl; tauto|constructor].
  - rewrite Nat2N.id. rewrite <- (rev_length o). apply laminar_all; auto.
Qed.

Theorem extend_assoc : forall (a b c : list (layer B)),
  extend_from (extend_from a b) c = extend_from a (extend_from b c).
Proof. intros. unfold extend_from. symmetry. apply app_assoc. Qed.

(** hidden layers are skipped wholesale *)
Lemma lookup_r_skip : forall (rl : list (layer B)) key s,
  lookup_r ev add rl key s = lookup_r ev add (skipn s rl) key 0.
Proof.
  induction rl as [|l rl IH]; intros; destruct s; try reflexivity. simpl skipn. cbn [lookup_r]. apply IH.
Qed.
Lemma has_r_skip : forall (rl : list (layer B)) key s, has_r rl key s = has_r (skipn s rl) key 0.
Proof.
  induction rl as [|l rl IH]; intros; destruct s; try reflexivity. simpl skipn. cbn [has_r]. apply IH.
Qed.
Lemma vis_r_skip : forall (rl : list (layer B)) key s, vis_r rl key s = vis_r (skipn s rl) key 0.
Proof.
  induction rl as [|l rl IH]; intros; destruct s; try reflexivity. simpl skipn. cbn [vis_r]. apply IH.
Qed.

Lemma skipn_rev_app : forall (o sup : list (layer B)), skipn (length o) (rev o ++ rev sup) = rev sup.
Proof.
  intros. rewrite <- (rev_length o). rewrite skipn_app. rewrite skipn_all, Nat.sub_diag. reflexivity.
Qed.

Lemma mem_single : forall k, mem k [k] = true.
Proof. intros. unfold mem. simpl. rewrite N.eqb_refl. reflexivity. Qed.
Lemma mem_single_neq : forall f k, f <> k -> mem f [k] = false.
Proof. intros. unfold mem. simpl. apply N.eqb_neq in H. rewrite H. reflexivity. Qed.

Lemma upto_all : forall (cores : list (layer B)), cores_upto cores (length cores) = rev cores.
Proof. intros. unfold cores_upto. rewrite firstn_all. reflexivity. Qed.

Lemma rev_remove_key : forall (sup o : list (layer B)) k,
  rev (sup ++ remove_key o k) = LOmit [k] (N.of_nat (length o)) :: rev o ++ rev sup.
Proof. intros. unfold remove_key. rewrite !rev_app_distr. reflexivity. Qed.

(** sup + objectRemoveKey(o, k): k reads (and is visible) exactly as in sup alone *)
Theorem remove_key_hides : forall (sup o : list (layer B)) k,
  let r := sup ++ remove_key o k in
  lookup_spec ev add r k (length r) = lookup_spec ev add sup k (length sup)
  /\ has_spec r k (length r) = has_spec sup k (length sup)
  /\ vis_spec r k (length r) = vis_spec sup k (length sup).
Proof.
  intros. unfold lookup_spec, has_spec, vis_spec, r. rewrite !upto_all, rev_remove_key.
  cbn [lookup_r has_r vis_r]. rewrite mem_single, Nat2N.id.
  rewrite lookup_r_skip, has_r_skip, vis_r_skip, skipn_rev_app. auto.
Qed.

(** ... also seen through any layers stacked on top that do not themselves remove k *)
Definition no_omit_of (k : name) (l : layer B) : Prop :=
  match l with LOmit om _ => mem k om = false | LObj _ _ _ => True end.

Lemma above_congr : forall (X X' : list (layer B)) k,
  length X = length X' ->
  lookup_r ev add X k 0 = lookup_r ev add X' k 0 -> has_r X k 0 = has_r X' k 0 -> vis_r X k 0 = vis_r X' k 0 ->
  forall ra, Forall (no_omit_of k) ra ->
    lookup_r ev add (ra ++ X) k 0 = lookup_r ev add (ra ++ X') k 0
    /\ has_r (ra ++ X) k 0 = has_r (ra ++ X') k 0
    /\ vis_r (ra ++ X) k 0 = vis_r (ra ++ X') k 0.
Proof.
  intros X X' k Hlen Hl Hh Hv. induction ra as [|l ra IH]; intros HF; [auto|].
  inversion HF; subst. destruct (IH H2) as (IHl & IHh & IHv).
  simpl app. cbn [lookup_r has_r vis_r]. destruct l as [fs ls asr|om p].
  - rewrite IHl, IHh, IHv. rewrite !app_length, Hlen. auto.
  - simpl in H1. rewrite H1. auto.
Qed.

Definition blank : layer B := LObj [] [] [].

Lemma repeat_snoc : forall {A} (x : A) n, repeat x n ++ [x] = x :: repeat x n.
Proof. induction n; simpl; congruence. Qed.
Lemma rev_repeat : forall {A} (x : A) n, rev (repeat x n) = repeat x n.
Proof. induction n; simpl; auto. rewrite IHn. apply repeat_snoc. Qed.

Lemma lookup_blanks : forall n (rs : list (layer B)) k,
  lookup_r ev add (repeat blank n ++ rs) k 0 = lookup_r ev add rs k 0
  /\ has_r (repeat blank n ++ rs) k 0 = has_r rs k 0
  /\ vis_r (repeat blank n ++ rs) k 0 = vis_r rs k 0.
Proof. induction n; intros; simpl repeat; simpl app; cbn [lookup_r has_r vis_r blank assoc is_some]; auto. Qed.

(** the object produced by objectRemoveKey, under `sup` and with any `above` stacked on it,
    answers every lookup of k that starts above it as if its layers were empty *)
Theorem remove_key_invisible_above : forall (sup o above : list (layer B)) k,
  Forall (no_omit_of k) above ->
  let r := sup ++ remove_key o k ++ above in
  let r' := sup ++ repeat blank (S (length o)) ++ above in
  lookup_spec ev add r k (length r) = lookup_spec ev add r' k (length r')
  /\ has_spec r k (length r) = has_spec r' k (length r')
  /\ vis_spec r k (length r) = vis_spec r' k (length r').
Proof.
  intros sup o above k HF r r'. unfold lookup_spec, has_spec, vis_spec, r, r'. rewrite !upto_all.
  rewrite !app_assoc. rewrite (rev_app_distr _ above), (rev_app_distr _ above).
  apply above_congr.
  - rewrite !rev_length, !app_length. unfold remove_key. rewrite app_length, repeat_length. simpl. lia.
  - rewrite rev_remove_key. cbn [lookup_r]. rewrite mem_single, Nat2N.id, lookup_r_skip, skipn_rev_app.
    rewrite rev_app_distr, rev_repeat. symmetry. apply lookup_blanks.
  - rewrite rev_remove_key. cbn [has_r]. rewrite mem_single, Nat2N.id, has_r_skip, skipn_rev_app.
    rewrite rev_app_distr, rev_repeat. symmetry. apply lookup_blanks.
  - rewrite rev_remove_key. cbn [vis_r]. rewrite mem_single, Nat2N.id, vis_r_skip, skipn_rev_app.
    rewrite rev_app_distr, rev_repeat. symmetry. apply lookup_blanks.
  - apply Forall_rev. auto.
Qed.

(** every other name is untouched *)
Theorem remove_key_others : forall (o : list (layer B)) k f, f <> k ->
  let r := remove_key o k in
  lookup_spec ev add r f (length r) = lookup_spec ev add o f (length o)
  /\ has_spec r f (length r) = has_spec o f (length o)
  /\ vis_spec r f (length r) = vis_spec o f (length o).
Proof.
  intros o k f Hne r. unfold lookup_spec, has_spec, vis_spec, r. rewrite !upto_all.
  unfold remove_key. rewrite rev_app_distr. simpl app. cbn [lookup_r has_r vis_r].
  rewrite mem_single_neq by auto. auto.
Qed.

(** a later layer can re-introduce k; a `+:` there finds nothing to add to *)
Theorem remove_key_reintroduce : forall (o : list (layer B)) k m ls asr,
  let r := push_layer (remove_key o k) (LObj [(k, m)] ls asr) in
  lookup_spec ev add r k (length r) = bind (ev (S (length o)) (m_body m)) (fun b => Ok (Some b))
  /\ has_spec r k (length r) = true.
Proof.
  intros o k m ls asr r. unfold lookup_spec, has_spec, r. rewrite !upto_all.
  unfold push_layer, remove_key. rewrite !rev_app_distr. simpl app.
  cbn [lookup_r has_r assoc]. rewrite N.eqb_refl. cbn [is_some]. split; [|reflexivity].
  cbn [has_r]. rewrite mem_single, Nat2N.id. rewrite has_r_skip.
  rewrite <- (rev_length o), skipn_all. cbn [has_r]. rewrite andb_false_r.
  rewrite rev_length. simpl length. rewrite rev_length. reflexivity.
Qed.

End Constructors.

(* ================================================================== *)
(** * the boolean well-formedness check is sound *)
Section WfBool.
Context {B : Type}.

Lemma mem_In : forall k l, mem k l = true <-> In k l.
Proof.
  intros. unfold mem. rewrite existsb_exists. split.
  - intros (x & Hx & E). apply N.eqb_eq in E. subst. auto.
  - intros. exists k. split; auto. apply N.eqb_refl.
Qed.

Lemma nodupb_NoDup : forall l, nodupb l = true -> NoDup l.
Proof.
  induction l; simpl; intros; constructor.
  - apply andb_prop in H. destruct H. intro Hin. apply mem_In in Hin. rewrite Hin in H. discriminate.
  - apply IHl. apply andb_prop in H. tauto.
Qed.

Lemma laminarb_laminar : forall n (rl : list (layer B)), laminarb n rl = true -> laminar n rl.
Proof.
  induction n; intros; simpl in *; auto.
  destruct rl; [discriminate|]. apply andb_prop in H. destruct H. split; auto.
  destruct l; auto. apply Nat.leb_le. auto.
Qed.

Lemma wf_rb_wf_r : forall (rl : list (layer B)), wf_rb rl = true -> wf_r rl.
Proof.
  induction rl as [|l rl IH]; intros; simpl in *; auto.
  destruct l.
  - apply andb_prop in H. destruct H. split; auto. apply nodupb_NoDup; auto.
  - apply andb_prop in H. destruct H as [H H2]. apply andb_prop in H. destruct H.
    repeat split; auto. apply nodupb_NoDup; auto. apply laminarb_laminar; auto.
Qed.

Theorem wfb_wf : forall (cores : list (layer B)), wfb cores = true -> wf cores.
Proof.
  unfold wfb, wf, fits. intros. apply andb_prop in H. destruct H. split.
  - apply wf_rb_wf_r; auto.
  - apply N.ltb_lt; auto.
Qed.
End WfBool.
