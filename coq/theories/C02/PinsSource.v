(** Statements of the C02 source-tie theorems, pinned: weakening one breaks this file. *)
From Coq Require Import List ZArith NArith.
From JrV Require Import C02.Model C02.Proofs Gen.GenObj C02.ModelSource C02.ProofsSource C02.PropertiesSource.
Import ListNotations.

Check C02_model_is_translated_source_get :
  forall (B V : Type) (ev : nat -> B -> res V) (add : V -> V -> res V)
    (cores : list (layer B)) (key : name) (upto : nat),
    gen_get_idx_walk ev add cores key upto = get_idx_walk ev add cores key upto.
Check C02_model_is_translated_source_has :
  forall (B : Type) (cores : list (layer B)) (key : name) (upto : nat),
    gen_has_field_include_hidden_idx cores key upto = has_field_include_hidden_idx cores key upto.
Check C02_model_is_translated_source_visibility :
  forall (B : Type) (cores : list (layer B)) (key : name) (upto : nat),
    gen_field_visibility_idx cores key upto = field_visibility_idx cores key upto.
Check C02_model_is_translated_source_fields :
  forall (B : Type) (cores : list (layer B)) (include_hidden : bool),
    gen_fields_visibility cores = fields_visibility cores
    /\ gen_fields_ex cores include_hidden = fields_ex cores include_hidden.
Check C02_model_is_translated_source_constructors :
  forall (B : Type) (sup this : list (layer B)) (k : name),
    gen_extend_from sup this = extend_from sup this /\ gen_remove_key this k = remove_key this k.
Check C02_source_get_refines :
  forall (B V : Type) (ev : nat -> B -> res V) (add : V -> V -> res V)
    (cores : list (layer B)) (key : name) (upto : nat),
    wf cores -> gen_get_idx_walk ev add cores key upto = lookup_spec ev add cores key upto.
Check C02_source_has_refines :
  forall (B : Type) (cores : list (layer B)) (key : name) (upto : nat),
    wf cores -> gen_has_field_include_hidden_idx cores key upto = has_spec cores key upto.
Check C02_source_visibility_refines :
  forall (B : Type) (cores : list (layer B)) (key : name) (upto : nat),
    wf cores -> gen_field_visibility_idx cores key upto = vis_spec cores key upto.
Check C02_source_fields_refines :
  forall (B : Type) (cores : list (layer B)) (include_hidden : bool),
    wf cores -> gen_fields_ex cores include_hidden = fields_spec cores include_hidden.
Check C02_source_fields_visibility_agrees :
  forall (B : Type) (cores : list (layer B)) (f : name),
    wf cores -> assoc f (gen_fields_visibility cores) = gen_field_visibility_idx cores f (length cores).

(** definitions pinned: what the translated functions compute on a concrete four-layer list *)
Check eq_refl : gen_get_idx_walk ex_ev ex_add ex_cores 0%N 4 = Ok (Some 111%Z).
Check eq_refl : gen_get_idx_walk (fun _ (z : Z) => Ok [z]) (fun a b => Ok (a ++ b)) ex_cores 0%N 4
                = Ok (Some [1; 10; 100]%Z).
Check eq_refl : gen_get_idx_walk ex_ev ex_add ex_cores 1%N 3 = Ok None.
Check eq_refl : gen_has_field_include_hidden_idx ex_cores 1%N 3 = false.
Check eq_refl : gen_field_visibility_idx ex_cores 0%N 4 = Some VisHidden.
Check eq_refl : gen_fields_ex ex_cores false = [1%N].
Check eq_refl : gen_fields_ex ex_cores true = [0%N; 1%N].
Check eq_refl : gen_get_idx_walk_runs_assertions_first = true.
