(** C02 — the functions translated from obj/mod.rs + obj/oop.rs (Gen/GenObj.v) are the hand model. *)
From Coq Require Import List ZArith NArith Bool Lia.
From JrV Require Import C02.Model C02.Proofs Gen.GenObj C02.ModelSource.
Import ListNotations.
Open Scope N_scope.

Lemma g_sat_sub_1 : forall a, g_sat_sub a 1 = sat_dec a.
Proof. intros; unfold g_sat_sub, sat_dec; lia. Qed.

Section S.
Context {B V : Type}.
Variable ev : nat -> B -> res V.
Variable add : V -> V -> res V.

Lemma get_after_eq : forall fa st skip,
  gen_get_idx_walk_after add fa st skip = get_finish add (LDone fa st).
Proof.
  intros fa st skip. unfold gen_get_idx_walk_after, get_finish, g_last, g_is_empty.
  destruct fa as [f|].
  - destruct st as [|s st]; [reflexivity|].
    cbn [rev]. destruct (rev (f :: s :: st)) eqn:E; [|reflexivity].
    exfalso. apply (f_equal (@length V)) in E. rewrite rev_length in E. cbn in E. lia.
  - destruct st as [|s st]; [reflexivity|].
    destruct (rev (s :: st)) eqn:E; [|reflexivity].
    exfalso. apply (f_equal (@length V)) in E. rewrite rev_length in E. cbn in E. lia.
Qed.

Lemma get_loop_eq : forall rl key fa st skip,
  gen_get_idx_walk_loop ev add rl key fa st skip = bind (get_loop ev rl key fa st skip) (get_finish add).
Proof.
  induction rl as [|l below IH]; intros key fa st skip.
  - cbn [gen_get_idx_walk_loop get_loop bind]. apply get_after_eq.
  - cbn [gen_get_idx_walk_loop get_loop].
    destruct (get_for_core ev l key (length below) (negb (skip =? 0))) as [g|k|]; cbn [bind]; [|reflexivity|reflexivity].
    destruct g as [v|v|n|]; destruct fa as [f|]; cbn [g_is_none]; destruct (skip =? 0) eqn:E;
      cbv zeta; rewrite ?g_sat_sub_1, ?IH, ?get_after_eq; reflexivity.
Qed.

Lemma get_eq : forall cores key upto,
  gen_get_idx_walk ev add cores key upto = get_idx_walk ev add cores key upto.
Proof. intros. unfold gen_get_idx_walk, get_idx_walk, cores_upto. cbv zeta. apply get_loop_eq. Qed.

Lemma has_loop_eq : forall (rl : list (layer B)) key skip,
  gen_has_field_include_hidden_idx_loop rl key skip = has_loop rl key skip.
Proof.
  induction rl as [|l below IH]; intros key skip; [reflexivity|].
  cbn [gen_has_field_include_hidden_idx_loop has_loop]. cbv zeta.
  destruct (has_field_include_hidden_core l key); [destruct (skip =? 0)| |];
    rewrite ?g_sat_sub_1, ?IH; reflexivity.
Qed.

Lemma has_eq : forall (cores : list (layer B)) key upto,
  gen_has_field_include_hidden_idx cores key upto = has_field_include_hidden_idx cores key upto.
Proof. intros. unfold gen_has_field_include_hidden_idx, has_field_include_hidden_idx, cores_upto. cbv zeta. apply has_loop_eq. Qed.

Lemma vis_loop_eq : forall (rl : list (layer B)) key ex skip,
  gen_field_visibility_idx_loop rl key ex skip = vis_loop rl key ex skip.
Proof.
  induction rl as [|l below IH]; intros key ex skip; [reflexivity|].
  cbn [gen_field_visibility_idx_loop vis_loop]. cbv zeta.
  destruct (field_visibility_core l key) as [[]|n|]; destruct (skip =? 0);
    rewrite ?g_sat_sub_1, ?IH; reflexivity.
Qed.

Lemma vis_eq : forall (cores : list (layer B)) key upto,
  gen_field_visibility_idx cores key upto = field_visibility_idx cores key upto.
Proof. intros. unfold gen_field_visibility_idx, field_visibility_idx, cores_upto. cbv zeta. apply vis_loop_eq. Qed.

Lemma fv_step_eq : forall oi d e, gen_fv_step oi d e = fv_step oi d e.
Proof.
  intros oi [ou ev0] e. unfold gen_fv_step, fv_step. cbv zeta.
  destruct e as [[]|n]; cbn [omitted_until exists_visible]; try reflexivity;
    destruct ev0 as [[]|]; cbn [g_is_none is_some negb]; destruct (ou <=? oi); reflexivity.
Qed.

Lemma map_upsert_ext : forall (f g : fvdata -> fvdata) out k dflt,
  (forall d, f d = g d) -> map_upsert out k dflt f = map_upsert out k dflt g.
Proof.
  intros f g out k dflt H. induction out as [|[k' d] r IH]; cbn [map_upsert].
  - now rewrite H.
  - destruct (k =? k'); [now rewrite H | now rewrite IH].
Qed.

Lemma fold_left_ext : forall {A C} (f g : A -> C -> A) l a,
  (forall a b, f a b = g a b) -> fold_left f l a = fold_left g l a.
Proof. intros A C f g l. induction l as [|x l IH]; intros a H; cbn; [reflexivity|]. rewrite H. now apply IH. Qed.

Lemma fv_layer_eq : forall oi out (l : layer B), gen_fv_layer oi out l = fv_layer oi out l.
Proof.
  intros. unfold gen_fv_layer, fv_layer, gen_fv_default. apply fold_left_ext.
  intros a b. apply map_upsert_ext. intros d. apply fv_step_eq.
Qed.

Lemma fv_loop_eq : forall (rl : list (layer B)) oi out, gen_fv_loop rl oi out = fv_loop rl oi out.
Proof.
  induction rl as [|l below IH]; intros oi out; [reflexivity|].
  cbn [gen_fv_loop fv_loop]. cbv zeta. rewrite fv_layer_eq. unfold gen_fv_next. cbv zeta. apply IH.
Qed.

Lemma fields_visibility_eq : forall (cores : list (layer B)),
  gen_fields_visibility cores = fields_visibility cores.
Proof. intros. unfold gen_fields_visibility, fields_visibility. now rewrite fv_loop_eq. Qed.

Lemma fields_ex_eq : forall (cores : list (layer B)) hid, gen_fields_ex cores hid = fields_ex cores hid.
Proof. intros. unfold gen_fields_ex, fields_ex. now rewrite fields_visibility_eq. Qed.

Lemma extend_eq : forall (sup this : list (layer B)), gen_extend_from sup this = extend_from sup this.
Proof. reflexivity. Qed.

Lemma remove_key_eq : forall (o : list (layer B)) k, gen_remove_key o k = remove_key o k.
Proof. reflexivity. Qed.

(** corollaries: the translated functions refine the SPEC recursion *)
Lemma src_get_refines : forall cores key upto,
  wf cores -> gen_get_idx_walk ev add cores key upto = lookup_spec ev add cores key upto.
Proof. intros. rewrite get_eq. now apply get_refines. Qed.

Lemma src_has_refines : forall (cores : list (layer B)) key upto,
  wf cores -> gen_has_field_include_hidden_idx cores key upto = has_spec cores key upto.
Proof. intros. rewrite has_eq. now apply has_refines. Qed.

Lemma src_vis_refines : forall (cores : list (layer B)) key upto,
  wf cores -> gen_field_visibility_idx cores key upto = vis_spec cores key upto.
Proof. intros. rewrite vis_eq. now apply visibility_refines. Qed.

Lemma src_fields_refines : forall (cores : list (layer B)) hid,
  wf cores -> gen_fields_ex cores hid = fields_spec cores hid.
Proof. intros. rewrite fields_ex_eq. now apply fields_refines. Qed.

Lemma src_fields_visibility_agrees : forall (cores : list (layer B)) f,
  wf cores -> assoc f (gen_fields_visibility cores) = gen_field_visibility_idx cores f (length cores).
Proof. intros. rewrite fields_visibility_eq, vis_eq. now apply fields_visibility_agrees. Qed.
End S.

(** non-vacuity: a well-formed four-layer list (+: chain over a removal, hidden/unhide shadowing) on which
    the translated functions compute non-trivial answers *)
Example ex_cores_wf : wf ex_cores.
Proof. apply wfb_wf. vm_compute. reflexivity. Qed.
Example ex_get : gen_get_idx_walk ex_ev ex_add ex_cores 0 4 = Ok (Some 111%Z)
              /\ gen_get_idx_walk ex_ev ex_add ex_cores 1 4 = Ok (Some 7%Z)
              /\ gen_get_idx_walk ex_ev ex_add ex_cores 1 3 = Ok None
              /\ gen_get_idx_walk ex_ev ex_add ex_cores 1 2 = Ok (Some 5%Z)
              /\ gen_get_idx_walk ex_ev ex_add ex_cores 2 4 = Ok None.
Proof. vm_compute. repeat split. Qed.
Example ex_get_order :    (* + is not commutative on lists: the fold order is observable *)
  gen_get_idx_walk (fun _ (z : Z) => Ok [z]) (fun a b => Ok (a ++ b)) ex_cores 0 4 = Ok (Some [1; 10; 100]%Z).
Proof. vm_compute. reflexivity. Qed.
Example ex_has : gen_has_field_include_hidden_idx ex_cores 1 3 = false
              /\ gen_has_field_include_hidden_idx ex_cores 1 2 = true
              /\ gen_has_field_include_hidden_idx ex_cores 1 4 = true.
Proof. vm_compute. repeat split. Qed.
Example ex_vis : gen_field_visibility_idx ex_cores 0 4 = Some VisHidden
              /\ gen_field_visibility_idx ex_cores 0 3 = Some VisNormal
              /\ gen_field_visibility_idx ex_cores 1 4 = Some VisUnhide
              /\ gen_field_visibility_idx ex_cores 1 3 = None
              /\ gen_field_visibility_idx ex_cores 1 2 = Some VisHidden.
Proof. vm_compute. repeat split. Qed.
Example ex_fields : gen_fields_ex ex_cores false = [1] /\ gen_fields_ex ex_cores true = [0; 1]
                 /\ gen_fields_ex (firstn 3 ex_cores) true = [0].
Proof. vm_compute. repeat split. Qed.
Example ex_ctor : gen_remove_key (gen_extend_from [LObj [(0, Member false VisNormal 1%Z)] [] []]
                                                  [LObj [(1, Member false VisNormal 2%Z)] [] []]) 1
                  = [LObj [(0, Member false VisNormal 1%Z)] [] []; LObj [(1, Member false VisNormal 2%Z)] [] [];
                     LOmit [1] 2].
Proof. reflexivity. Qed.
