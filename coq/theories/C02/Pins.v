(** Statements of the C02 property theorems, pinned: weakening one breaks this file. *)
From Coq Require Import List ZArith NArith.
From JrV Require Import C02.Model C02.Proofs C02.Properties.
Import ListNotations.

Check C02_get_refines :
  forall (B V : Type) (ev : nat -> B -> res V) (add : V -> V -> res V)
    (cores : list (layer B)) (key : name) (upto : nat),
    wf cores -> get_idx_walk ev add cores key upto = lookup_spec ev add cores key upto.
Check C02_has_refines :
  forall (B : Type) (cores : list (layer B)) (key : name) (upto : nat),
    wf cores -> has_field_include_hidden_idx cores key upto = has_spec cores key upto.
Check C02_visibility_refines :
  forall (B : Type) (cores : list (layer B)) (key : name) (upto : nat),
    wf cores -> field_visibility_idx cores key upto = vis_spec cores key upto.
Check C02_has_field_agrees :
  forall (B V : Type) (ev : nat -> B -> res V) (add : V -> V -> res V)
    (cores : list (layer B)) (key : name) (upto : nat),
    wf cores ->
    has_field_include_hidden_idx cores key upto = is_some (field_visibility_idx cores key upto)
    /\ (has_field_include_hidden_idx cores key upto = false <-> get_idx_walk ev add cores key upto = Ok None).
Check C02_fields_visibility_agrees :
  forall (B : Type) (cores : list (layer B)) (f : name),
    wf cores -> assoc f (fields_visibility cores) = field_visibility_idx cores f (length cores).
Check C02_fields_visibility_nodup :
  forall (B : Type) (cores : list (layer B)), NoDup (map fst (fields_visibility cores)).
Check C02_extend_assoc :
  forall (B : Type) (a b c : list (layer B)),
    extend_from (extend_from a b) c = extend_from a (extend_from b c).
Check C02_extend_from_wf :
  forall (B : Type) (a b : list (layer B)),
    wf a -> wf b -> fits (extend_from a b) -> wf (extend_from a b).
Check C02_push_layer_wf :
  forall (B : Type) (a : list (layer B)) fs ls asr,
    wf a -> NoDup (map fst fs) -> fits (push_layer a (LObj fs ls asr)) -> wf (push_layer a (LObj fs ls asr)).
Check C02_remove_key_wf :
  forall (B : Type) (o : list (layer B)) (k : name),
    wf o -> fits (remove_key o k) -> wf (remove_key o k).
Check C02_wfb_sound :
  forall (B : Type) (cores : list (layer B)), wfb cores = true -> wf cores.
Check C02_remove_key_hides :
  forall (B V : Type) (ev : nat -> B -> res V) (add : V -> V -> res V)
    (sup o : list (layer B)) (k : name),
    let r := sup ++ remove_key o k in
    lookup_spec ev add r k (length r) = lookup_spec ev add sup k (length sup)
    /\ has_spec r k (length r) = has_spec sup k (length sup)
    /\ vis_spec r k (length r) = vis_spec sup k (length sup).
Check C02_remove_key_invisible_above :
  forall (B V : Type) (ev : nat -> B -> res V) (add : V -> V -> res V)
    (sup o above : list (layer B)) (k : name),
    Forall (no_omit_of k) above ->
    let r := sup ++ remove_key o k ++ above in
    let r' := sup ++ repeat blank (S (length o)) ++ above in
    lookup_spec ev add r k (length r) = lookup_spec ev add r' k (length r')
    /\ has_spec r k (length r) = has_spec r' k (length r')
    /\ vis_spec r k (length r) = vis_spec r' k (length r').
Check C02_remove_key_others :
  forall (B V : Type) (ev : nat -> B -> res V) (add : V -> V -> res V)
    (o : list (layer B)) (k f : name), f <> k ->
    let r := remove_key o k in
    lookup_spec ev add r f (length r) = lookup_spec ev add o f (length o)
    /\ has_spec r f (length r) = has_spec o f (length o)
    /\ vis_spec r f (length r) = vis_spec o f (length o).
Check C02_remove_key_reintroduce :
  forall (B V : Type) (ev : nat -> B -> res V) (add : V -> V -> res V)
    (o : list (layer B)) (k : name) (m : member B) ls asr,
    let r := push_layer (remove_key o k) (LObj [(k, m)] ls asr) in
    lookup_spec ev add r k (length r) = bind (ev (S (length o)) (m_body m)) (fun b => Ok (Some b))
    /\ has_spec r k (length r) = true.
Check C02_fields_refines :
  forall (B : Type) (cores : list (layer B)) (hid : bool),
    wf cores -> fields_ex cores hid = fields_spec cores hid.
Check C02_fields_sorted :
  forall (B : Type) (cores : list (layer B)) (hid : bool),
    Sorted.StronglySorted N.lt (fields_ex cores hid).
Check C02_eval_refines :
  forall n g F e, eval impl_ops n g F e = eval spec_ops n g F e.
Check C02_manifest_refines :
  forall n v, manifest impl_ops n v = manifest spec_ops n v.
Check C02_run_probe_refines :
  forall n e ns, run_probe impl_ops n e ns = run_probe spec_ops n e ns.

(** the definitions the statements rest on, pinned by evaluation (B = nat, V = list nat) *)
Definition pin_ev (sup : nat) (b : nat) : res (list nat) := Ok [b; sup].
Definition pin_add (a b : list nat) : res (list nat) := Ok (a ++ b).
Check eq_refl : lookup_spec pin_ev pin_add ex_cores 0%N 5 = Ok (Some [1; 0; 2; 1; 3; 3]).
Check eq_refl : lookup_spec pin_ev pin_add ex_cores 1%N 5 = Ok (Some [4; 3]).
Check eq_refl : lookup_spec pin_ev pin_add ex_cores 1%N 2 = Ok (Some [7; 0]).
Check eq_refl : lookup_spec pin_ev pin_add ex_cores 3%N 5 = Ok None.
Check eq_refl : vis_spec ex_cores 0%N 5 = Some VisUnhide.
Check eq_refl : vis_spec ex_cores 0%N 1 = Some VisHidden.
Check eq_refl : vis_spec ex_cores 1%N 3 = None.
Check eq_refl : has_spec ex_cores 1%N 3 = false.
Check eq_refl : has_spec ex_cores 1%N 2 = true.
Check eq_refl : wfb ex_cores = true.
Check eq_refl : wfb [LOmit [0%N] 1] = false.
Check eq_refl : wfb [LObj [(0%N, Member false VisNormal 1)] [] []; LOmit [0%N] 1; LObj [] [] []; LOmit [0%N] 2] = false.
Check eq_refl : usize_max = 18446744073709551615%N.
(* {a: [1]} + {a+: [2]} + {a+: [3], b: self.a, c:: super.a}: reads, fields, visibility *)
Definition pin_f (k : name) (a : bool) (v : vis) (e : expr) := (k, (a, v, e)).
Definition pin_prog := EAdd (EAdd (EObj [pin_f 0%N false VisNormal (ETag 1)] [] []) (EObj [pin_f 0%N true VisNormal (ETag 2)] [] []))
   (EObj [pin_f 0%N true VisNormal (ETag 3); pin_f 1%N false VisNormal (ESelfF 0 0%N); pin_f 2%N false VisHidden (ESuperF 0%N)] [] []).
Check eq_refl : run_probe spec_ops 20 pin_prog [0; 1; 2; 3]%N =
  Ok (Probe (Ok (TObj [(0%N, TArr [1; 2; 3]%Z); (1%N, TArr [1; 2; 3]%Z)]))
            [Ok (TArr [1; 2; 3]%Z); Ok (TArr [1; 2; 3]%Z); Ok (TArr [1; 2]%Z); Err ENoField]
            [0; 1]%N [0; 1; 2]%N [true; true; false; false] [true; true; true; false] 3).
Check eq_refl : run_probe spec_ops 20 (ERemove pin_prog 0%N) [0; 1]%N =
  Ok (Probe (Err ENoField) [Err ENoField; Err ENoField] [1]%N [1; 2]%N [false; true] [false; true] 4).
