(** C02 — reading the functions translated from the source text (Gen/GenObj.v, regenerated from
    obj/mod.rs + obj/oop.rs on every run) as statements about the hand model of Model.v.
    Definitions only. *)
From Coq Require Import List ZArith NArith Bool.
From JrV Require Import C02.Model Gen.GenObj.
Import ListNotations.
Open Scope N_scope.

(** ObjValue::fields_ex (without exp-preserve-order) over the translated fields_visibility:
    filter, collect, sort_unstable — the same wrapper as [fields_ex] in Model.v *)
Definition gen_fields_ex {B} (cores : list (layer B)) (include_hidden : bool) : list name :=
  sort_names (map fst (filter (fun kv => include_hidden || vis_visible (snd kv))
                              (gen_fields_visibility cores))).

(** std.objectRemoveKey(obj, key) through the translated builder step:
    ObjValueBuilder::with_super(obj) then with_fields_omitted({key}) *)
Definition gen_remove_key {B} (obj : list (layer B)) (key : name) : list (layer B) :=
  gen_with_fields_omitted obj [key].

(** a small instance used by the non-vacuity examples: bodies are numbers, + is addition *)
Definition ex_ev : nat -> Z -> res Z := fun _ z => Ok z.
Definition ex_add : Z -> Z -> res Z := fun a b => Ok (a + b)%Z.
Definition ex_cores : list (layer Z) :=
  [ LObj [(0, Member false VisNormal 1%Z); (1, Member false VisHidden 5%Z)] [] [];
    LObj [(0, Member true VisNormal 10%Z)] [] [];
    LOmit [1] 2;
    LObj [(0, Member true VisHidden 100%Z); (1, Member false VisUnhide 7%Z)] [] [] ].
