(** C02 — property theorems only.  Each is closed by [exact] of a lemma from Proofs.v and
    followed by [Print Assumptions]; statements are pinned again in Pins.v.
    Non-vacuity: Proofs.v, section NonVacuity ([ex_wf] etc.). *)
From Coq Require Import List ZArith NArith.
From JrV Require Import C02.Model C02.Proofs.
Import ListNotations.

(** Field reads: the get_idx_uncached loop (skip counter, first_add/add_stack, fold oldest first)
    equals the right-to-left layer recursion — every well-formed layer list, every name,
    every starting layer (upto = len is `self.f`, upto = i is `super.f` from layer i), every
    body-evaluation function and every `add` (not assumed associative or total). *)
Theorem C02_get_refines :
  forall (B V : Type) (ev : nat -> B -> res V) (add : V -> V -> res V)
    (cores : list (layer B)) (key : name) (upto : nat),
    wf cores -> get_idx_walk ev add cores key upto = lookup_spec ev add cores key upto.
Proof. exact @get_refines. Qed.
Print Assumptions C02_get_refines.

(** `in`, std.objectHasAll, "f" in super. *)
Theorem C02_has_refines :
  forall (B : Type) (cores : list (layer B)) (key : name) (upto : nat),
    wf cores -> has_field_include_hidden_idx cores key upto = has_spec cores key upto.
Proof. exact @has_refines. Qed.
Print Assumptions C02_has_refines.

(** `:` inherits, `::` hides, `:::` unhides, right-most explicit one wins; removal layers hide. *)
Theorem C02_visibility_refines :
  forall (B : Type) (cores : list (layer B)) (key : name) (upto : nat),
    wf cores -> field_visibility_idx cores key upto = vis_spec cores key upto.
Proof. exact @visibility_refines. Qed.
Print Assumptions C02_visibility_refines.

(** membership, visibility and reads are mutually consistent. *)
Theorem C02_has_field_agrees :
  forall (B V : Type) (ev : nat -> B -> res V) (add : V -> V -> res V)
    (cores : list (layer B)) (key : name) (upto : nat),
    wf cores ->
    has_field_include_hidden_idx cores key upto = is_some (field_visibility_idx cores key upto)
    /\ (has_field_include_hidden_idx cores key upto = false <-> get_idx_walk ev add cores key upto = Ok None).
Proof. exact @has_field_agrees. Qed.
Print Assumptions C02_has_field_agrees.

(** the single-pass map (omitted_until) behind objectFields*/manifest/== gives every name the
    visibility the per-field walk gives it. *)
Theorem C02_fields_visibility_agrees :
  forall (B : Type) (cores : list (layer B)) (f : name),
    wf cores -> assoc f (fields_visibility cores) = field_visibility_idx cores f (length cores).
Proof. exact @fields_visibility_agrees. Qed.
Print Assumptions C02_fields_visibility_agrees.

(** ... and lists every name once. *)
Theorem C02_fields_visibility_nodup :
  forall (B : Type) (cores : list (layer B)), NoDup (map fst (fields_visibility cores)).
Proof. exact @fields_visibility_nodup. Qed.
Print Assumptions C02_fields_visibility_nodup.

(** (a + b) + c and a + (b + c) are the same layer list, hence the same object. *)
Theorem C02_extend_assoc :
  forall (B : Type) (a b c : list (layer B)),
    extend_from (extend_from a b) c = extend_from a (extend_from b c).
Proof. exact @extend_assoc. Qed.
Print Assumptions C02_extend_assoc.

(** the constructors keep layer lists well formed *)
Theorem C02_extend_from_wf :
  forall (B : Type) (a b : list (layer B)),
    wf a -> wf b -> fits (extend_from a b) -> wf (extend_from a b).
Proof. exact @extend_from_wf. Qed.
Print Assumptions C02_extend_from_wf.

Theorem C02_push_layer_wf :
  forall (B : Type) (a : list (layer B)) fs ls asr,
    wf a -> NoDup (map fst fs) -> fits (push_layer a (LObj fs ls asr)) -> wf (push_layer a (LObj fs ls asr)).
Proof. exact @push_layer_wf. Qed.
Print Assumptions C02_push_layer_wf.

Theorem C02_remove_key_wf :
  forall (B : Type) (o : list (layer B)) (k : name),
    wf o -> fits (remove_key o k) -> wf (remove_key o k).
Proof. exact @remove_key_wf. Qed.
Print Assumptions C02_remove_key_wf.

(** the decidable check used by the executable model implies well-formedness *)
Theorem C02_wfb_sound :
  forall (B : Type) (cores : list (layer B)), wfb cores = true -> wf cores.
Proof. exact @wfb_wf. Qed.
Print Assumptions C02_wfb_sound.

(** sup + std.objectRemoveKey(o, k): k reads / exists / is visible exactly as in sup alone. *)
Theorem C02_remove_key_hides :
  forall (B V : Type) (ev : nat -> B -> res V) (add : V -> V -> res V)
    (sup o : list (layer B)) (k : name),
    let r := sup ++ remove_key o k in
    lookup_spec ev add r k (length r) = lookup_spec ev add sup k (length sup)
    /\ has_spec r k (length r) = has_spec sup k (length sup)
    /\ vis_spec r k (length r) = vis_spec sup k (length sup).
Proof. exact @remove_key_hides. Qed.
Print Assumptions C02_remove_key_hides.

(** with any layers stacked on top, every lookup of k that starts above the removal sees the
    removed object's layers as empty (so `k+:` above adds to sup's k, `k:` re-introduces it). *)
Theorem C02_remove_key_invisible_above :
  forall (B V : Type) (ev : nat -> B -> res V) (add : V -> V -> res V)
    (sup o above : list (layer B)) (k : name),
    Forall (no_omit_of k) above ->
    let r := sup ++ remove_key o k ++ above in
    let r' := sup ++ repeat blank (S (length o)) ++ above in
    lookup_spec ev add r k (length r) = lookup_spec ev add r' k (length r')
    /\ has_spec r k (length r) = has_spec r' k (length r')
    /\ vis_spec r k (length r) = vis_spec r' k (length r').
Proof. exact @remove_key_invisible_above. Qed.
Print Assumptions C02_remove_key_invisible_above.

(** every other name is untouched (late binding included: same bodies, same layer indices). *)
Theorem C02_remove_key_others :
  forall (B V : Type) (ev : nat -> B -> res V) (add : V -> V -> res V)
    (o : list (layer B)) (k f : name), f <> k ->
    let r := remove_key o k in
    lookup_spec ev add r f (length r) = lookup_spec ev add o f (length o)
    /\ has_spec r f (length r) = has_spec o f (length o)
    /\ vis_spec r f (length r) = vis_spec o f (length o).
Proof. exact @remove_key_others. Qed.
Print Assumptions C02_remove_key_others.

(** a later layer re-introduces k; even a `k+:` there finds nothing to add to. *)
Theorem C02_remove_key_reintroduce :
  forall (B V : Type) (ev : nat -> B -> res V) (add : V -> V -> res V)
    (o : list (layer B)) (k : name) (m : member B) ls asr,
    let r := push_layer (remove_key o k) (LObj [(k, m)] ls asr) in
    lookup_spec ev add r k (length r) = bind (ev (S (length o)) (m_body m)) (fun b => Ok (Some b))
    /\ has_spec r k (length r) = true.
Proof. exact @remove_key_reintroduce. Qed.
Print Assumptions C02_remove_key_reintroduce.

(** std.objectFields / objectFieldsAll (and the field order of manifestation and ==): the sorted
    list computed from the single-pass map is the sorted set of names the visibility spec defines
    (and, without `hidden`, does not hide). *)
Theorem C02_fields_refines :
  forall (B : Type) (cores : list (layer B)) (hid : bool),
    wf cores -> fields_ex cores hid = fields_spec cores hid.
Proof. exact @fields_refines. Qed.
Print Assumptions C02_fields_refines.

(** strictly increasing: sorted, no duplicates. *)
Theorem C02_fields_sorted :
  forall (B : Type) (cores : list (layer B)) (hid : bool),
    Sorted.StronglySorted N.lt (fields_ex cores hid).
Proof. exact @fields_sorted. Qed.
Print Assumptions C02_fields_sorted.

(** The executable chain-program interpreter (object literals, +, extension, objectRemoveKey,
    self/super/$ reads, `in`, object locals, asserts, nested objects) gives the same result —
    value, error kind or fuel exhaustion — over the IMPL loops and over the SPEC recursion, for
    every program, frame stack and fuel; unconditional, because both instantiations check
    [wfb] dynamically and C02_*_wf show the check never fails on constructed objects. *)
Theorem C02_eval_refines :
  forall n g F e, eval impl_ops n g F e = eval spec_ops n g F e.
Proof. exact eval_refines. Qed.
Print Assumptions C02_eval_refines.

Theorem C02_manifest_refines :
  forall n v, manifest impl_ops n v = manifest spec_ops n v.
Proof. exact manifest_refines. Qed.
Print Assumptions C02_manifest_refines.

(** everything the correspondence check asks of a program *)
Theorem C02_run_probe_refines :
  forall n e ns, run_probe impl_ops n e ns = run_probe spec_ops n e ns.
Proof. exact run_probe_refines. Qed.
Print Assumptions C02_run_probe_refines.

