(** C02 — object inheritance, late binding, visibility.  DEFINITIONS ONLY.

    Part 1  IMPL-MODEL of crates/jrsonnet-evaluator/src/obj/{mod,oop}.rs: an object is
            [cores : list layer] (left = oldest); the loops of [get_idx_uncached],
            [has_field_include_hidden_idx], [field_visibility_idx], [fields_visibility]
            are transliterated with their saturating [skip] counter, the
            [first_add]/[add_stack] accumulation and [omitted_until].
    Part 2  SPEC: right-to-left recursion over the layer list, written from the language
            definition (+: is [if f in super then super.f + e else e], [:] inherits
            visibility, [::] hides, [:::] unhides) and from the property's sentence about
            std.objectRemoveKey (the removal layer hides the [n] layers of its argument
            from every lookup of that name that starts above it).
    Part 3  a small fuelled interpreter for "chain programs" (object literals, [+],
            extension, objectRemoveKey, self/super/$ reads, object locals, asserts, nested
            objects), parameterised by the object operations, instantiated once with the
            IMPL loops and once with the SPEC recursion; this is what the correspondence
            check runs against the real code.

    Both parts 1 and 2 are parameterised by an abstract member-body evaluation function
    [ev : nat -> B -> res V] ([nat] = index of the defining layer = what `super` is bound
    to; `self` is the whole list and is fixed during one walk) and an abstract [add]. *)
From Coq Require Import List ZArith NArith Bool Lia.
Import ListNotations.

Definition name := N.

Inductive vis := VisNormal | VisHidden | VisUnhide.
Definition vis_visible (v : vis) : bool := match v with VisHidden => false | _ => true end.

Inductive errkind := ENoField | ENoSuper | EAssert | EType | EInternal.
Inductive res (A : Type) := Ok (a : A) | Err (k : errkind) | OutOfFuel.
Arguments Ok {A} a.
Arguments Err {A} k.
Arguments OutOfFuel {A}.

Definition bind {A C} (r : res A) (f : A -> res C) : res C :=
  match r with Ok a => f a | Err k => Err k | OutOfFuel => OutOfFuel end.

Record member (B : Type) := Member { m_add : bool; m_vis : vis; m_body : B }.
Arguments Member {B}.
Arguments m_add {B}.
Arguments m_vis {B}.
Arguments m_body {B}.

(** oop.rs OopObject (this_entries, assertion; object locals live in the member closures,
    kept here per layer) and mod.rs OmitFieldsCore (omit, prev_layers). *)
Inductive layer (B : Type) :=
| LObj (fields : list (name * member B)) (locals : list (name * B)) (asserts : list B)
| LOmit (omit : list name) (prev : N).
Arguments LObj {B}.
Arguments LOmit {B}.

Fixpoint assoc {A} (k : name) (l : list (name * A)) : option A :=
  match l with
  | [] => None
  | (k', a) :: r => if N.eqb k k' then Some a else assoc k r
  end.
Definition mem (k : name) (l : list name) : bool := existsb (N.eqb k) l.
Definition is_some {A} (o : option A) : bool := match o with Some _ => true | None => false end.

(** Saturating<usize> *)
Definition usize_max : N := 18446744073709551615.
Definition sat_add (a b : N) : N := N.min (a + b) usize_max.
Definition sat_dec (a : N) : N := N.pred a.

(* ================================================================== *)
(** * Part 1: IMPL-MODEL *)
Section Walk.
Context {B V : Type}.
Variable ev : nat -> B -> res V.
Variable add : V -> V -> res V.

Inductive get_for := GFinal (v : V) | GSuperPlus (v : V) | GOmit (n : N) | GNotFound.

(** OopObject::get_for_core / OmitFieldsCore::get_for_core *)
Definition get_for_core (l : layer B) (key : name) (sup : nat) (omit_only : bool) : res get_for :=
  match l with
  | LObj fs _ _ =>
      if omit_only then Ok GNotFound
      else match assoc key fs with
           | Some m => bind (ev sup (m_body m))
                         (fun v => Ok (if m_add m then GSuperPlus v else GFinal v))
           | None => Ok GNotFound
           end
  | LOmit om n => if mem key om then Ok (GOmit n) else Ok GNotFound
  end.

(** result of the `for` loop of get_idx_uncached: an early `return Ok(Some(val))`, or
    falling out of the loop (normally or by `break`) with first_add / add_stack *)
Inductive loop_out := LReturn (v : V) | LDone (first_add : option V) (add_stack : list V).

(** [rl] = cores[..core.idx] reversed (the loop iterates `.enumerate().rev()`); the index
    [sup] of the head is the number of layers below it. *)
Fixpoint get_loop (rl : list (layer B)) (key : name) (first_add : option V) (add_stack : list V)
         (skip : N) : res loop_out :=
  match rl with
  | [] => Ok (LDone first_add add_stack)
  | l :: below =>
      let sup := length below in
      bind (get_for_core l key sup (negb (N.eqb skip 0))) (fun g =>
        match g with
        | GFinal v =>
            match first_add with
            | None => if N.eqb skip 0 then Ok (LReturn v)
                      else get_loop below key first_add add_stack (sat_dec skip)
            | Some _ => if N.eqb skip 0 then Ok (LDone first_add (add_stack ++ [v]))  (* push; break *)
                        else get_loop below key first_add add_stack (sat_dec skip)
            end
        | GSuperPlus v =>
            if N.eqb skip 0 then
              match first_add with
              | None => get_loop below key (Some v) add_stack (sat_dec skip)
              | Some _ => get_loop below key first_add (add_stack ++ [v]) (sat_dec skip)
              end
            else get_loop below key first_add add_stack (sat_dec skip)
        | GOmit new_skip =>
            get_loop below key first_add add_stack (sat_dec (N.max skip (sat_add new_skip 1)))
        | GNotFound => get_loop below key first_add add_stack (sat_dec skip)
        end)
  end.

(** Iterator::try_fold *)
Fixpoint try_fold (init : V) (rest : list V) : res V :=
  match rest with
  | [] => Ok init
  | b :: r => bind (add init b) (fun a => try_fold a r)
  end.

(** the code after the loop *)
Definition get_finish (o : loop_out) : res (option V) :=
  match o with
  | LReturn v => Ok (Some v)
  | LDone None stack =>
      match rev stack with
      | [] => Ok None
      | v :: _ => Ok (Some v)               (* add_stack.pop() *)
      end
  | LDone (Some first) [] => Ok (Some first)
  | LDone (Some first) stack =>
      match rev (first :: stack) with        (* insert(0, first); into_iter().rev() *)
      | init :: rest => bind (try_fold init rest) (fun v => Ok (Some v))
      | [] => Err EInternal
      end
  end.

Definition cores_upto (cores : list (layer B)) (upto : nat) : list (layer B) :=
  rev (firstn upto cores).

(** get_idx_uncached without its leading run_assertions (added in Part 3) *)
Definition get_idx_walk (cores : list (layer B)) (key : name) (upto : nat) : res (option V) :=
  bind (get_loop (cores_upto cores upto) key None [] 0) get_finish.

Inductive hfih := HExists | HNotFound | HOmit (n : N).
Definition has_field_include_hidden_core (l : layer B) (key : name) : hfih :=
  match l with
  | LObj fs _ _ => if is_some (assoc key fs) then HExists else HNotFound
  | LOmit om n => if mem key om then HOmit n else HNotFound
  end.

Fixpoint has_loop (rl : list (layer B)) (key : name) (skip : N) : bool :=
  match rl with
  | [] => false
  | l :: below =>
      match has_field_include_hidden_core l key with
      | HExists => if N.eqb skip 0 then true else has_loop below key (sat_dec skip)
      | HOmit new_skip => has_loop below key (sat_dec (N.max skip (sat_add new_skip 1)))
      | HNotFound => has_loop below key (sat_dec skip)
      end
  end.
Definition has_field_include_hidden_idx (cores : list (layer B)) (key : name) (upto : nat) : bool :=
  has_loop (cores_upto cores upto) key 0.

Inductive fvis := FVFound (v : vis) | FVOmit (n : N) | FVNotFound.
Definition field_visibility_core (l : layer B) (key : name) : fvis :=
  match l with
  | LObj fs _ _ => match assoc key fs with Some m => FVFound (m_vis m) | None => FVNotFound end
  | LOmit om n => if mem key om then FVOmit n else FVNotFound
  end.

Fixpoint vis_loop (rl : list (layer B)) (key : name) (exists_ : bool) (skip : N) : option vis :=
  match rl with
  | [] => if exists_ then Some VisNormal else None
  | l :: below =>
      match field_visibility_core l key with
      | FVFound VisNormal =>
          vis_loop below key (if N.eqb skip 0 then true else exists_) (sat_dec skip)
      | FVFound v => if N.eqb skip 0 then Some v else vis_loop below key exists_ (sat_dec skip)
      | FVNotFound => vis_loop below key exists_ (sat_dec skip)
      | FVOmit new_skip => vis_loop below key exists_ (sat_dec (N.max skip (sat_add new_skip 1)))
      end
  end.
Definition field_visibility_idx (cores : list (layer B)) (key : name) (upto : nat) : option vis :=
  vis_loop (cores_upto cores upto) key false 0.

(** ObjValue::has_field *)
Definition has_field (cores : list (layer B)) (key : name) : bool :=
  match field_visibility_idx cores key (length cores) with
  | Some v => vis_visible v
  | None => false
  end.

(** fields_visibility: one pass, a map name -> FieldVisibilityData *)
Record fvdata := FvData { omitted_until : N; exists_visible : option vis }.
Inductive enum_ev := EvNormal (v : vis) | EvOmit (n : N).

Definition enum_fields_core (l : layer B) : list (name * enum_ev) :=
  match l with
  | LObj fs _ _ => map (fun km => (fst km, EvNormal (m_vis (snd km)))) fs
  | LOmit om n => map (fun k => (k, EvOmit n)) om
  end.

Definition fv_step (omit_index : N) (d : fvdata) (e : enum_ev) : fvdata :=
  match e with
  | EvOmit new_skip =>
      FvData (N.max (omitted_until d) (sat_add (sat_add omit_index new_skip) 1)) (exists_visible d)
  | EvNormal VisNormal =>
      if N.leb (omitted_until d) omit_index && negb (is_some (exists_visible d))
      then FvData (omitted_until d) (Some VisNormal) else d
  | EvNormal VisHidden =>
      if N.leb (omitted_until d) omit_index
      then FvData (omitted_until d)
                  (Some match exists_visible d with Some VisUnhide => VisUnhide | _ => VisHidden end)
      else d
  | EvNormal VisUnhide =>
      if N.leb (omitted_until d) omit_index
      then FvData (omitted_until d)
                  (Some match exists_visible d with Some VisHidden => VisHidden | _ => VisUnhide end)
      else d
  end.

(** out.entry(name).or_insert_with(default) then update *)
Fixpoint map_upsert (out : list (name * fvdata)) (k : name) (dflt : fvdata)
         (f : fvdata -> fvdata) : list (name * fvdata) :=
  match out with
  | [] => [(k, f dflt)]
  | (k', d) :: r => if N.eqb k k' then (k', f d) :: r else (k', d) :: map_upsert r k dflt f
  end.

Definition fv_layer (omit_index : N) (out : list (name * fvdata)) (l : layer B) :=
  fold_left (fun o ke => map_upsert o (fst ke) (FvData omit_index None) (fun d => fv_step omit_index d (snd ke)))
            (enum_fields_core l) out.

Fixpoint fv_loop (rl : list (layer B)) (omit_index : N) (out : list (name * fvdata)) :=
  match rl with
  | [] => out
  | l :: below => fv_loop below (sat_add omit_index 1) (fv_layer omit_index out l)
  end.

Fixpoint retain (out : list (name * fvdata)) : list (name * vis) :=
  match out with
  | [] => []
  | (k, d) :: r => match exists_visible d with Some v => (k, v) :: retain r | None => retain r end
  end.

Definition fields_visibility (cores : list (layer B)) : list (name * vis) :=
  retain (fv_loop (rev cores) 0 []).

Fixpoint insert_sorted (k : name) (l : list name) : list name :=
  match l with
  | [] => [k]
  | x :: r => if N.leb k x then k :: l else x :: insert_sorted k r
  end.
Definition sort_names (l : list name) : list name := fold_right insert_sorted [] l.

(** fields_ex (without exp-preserve-order): filter, collect, sort_unstable *)
Definition fields_ex (cores : list (layer B)) (include_hidden : bool) : list name :=
  sort_names (map fst (filter (fun kv => include_hidden || vis_visible (snd kv)) (fields_visibility cores))).

(* ================================================================== *)
(** * Part 2: SPEC
    [rl] is the layer list right-most first; [h] = how many of the next layers are hidden
    for this name by a removal above them. *)
Fixpoint has_r (rl : list (layer B)) (f : name) (h : nat) : bool :=
  match rl with
  | [] => false
  | l :: below =>
      match h with
      | S h' => has_r below f h'
      | O => match l with
             | LObj fs _ _ => if is_some (assoc f fs) then true else has_r below f 0
             | LOmit om n => has_r below f (if mem f om then N.to_nat n else 0)
             end
      end
  end.

Fixpoint vis_r (rl : list (layer B)) (f : name) (h : nat) : option vis :=
  match rl with
  | [] => None
  | l :: below =>
      match h with
      | S h' => vis_r below f h'
      | O => match l with
             | LObj fs _ _ =>
                 match assoc f fs with
                 | None => vis_r below f 0
                 | Some m =>
                     match m_vis m with
                     | VisNormal => match vis_r below f 0 with     (* `:` inherits *)
                                    | Some v => Some v
                                    | None => Some VisNormal
                                    end
                     | v => Some v                                  (* `::` / `:::` decide *)
                     end
                 end
             | LOmit om n => vis_r below f (if mem f om then N.to_nat n else 0)
             end
      end
  end.

(** A read.  Plain field: its body with super = the layers below.  `f+: e` is
    `if "f" in super then super.f + e else e`.  The body is evaluated before `super.f`;
    operand order is observable only through WHICH of several failures is reported, which
    the property does not speak about. *)
Fixpoint lookup_r (rl : list (layer B)) (f : name) (h : nat) : res (option V) :=
  match rl with
  | [] => Ok None
  | l :: below =>
      match h with
      | S h' => lookup_r below f h'
      | O => match l with
             | LObj fs _ _ =>
                 match assoc f fs with
                 | None => lookup_r below f 0
                 | Some m =>
                     let sup := length below in
                     if m_add m && has_r below f 0 then
                       bind (ev sup (m_body m)) (fun b =>
                       bind (lookup_r below f 0) (fun s =>
                         match s with
                         | Some s => bind (add s b) (fun v => Ok (Some v))
                         | None => Err ENoField
                         end))
                     else bind (ev sup (m_body m)) (fun b => Ok (Some b))
                 end
             | LOmit om n => lookup_r below f (if mem f om then N.to_nat n else 0)
             end
      end
  end.

Definition lookup_spec (cores : list (layer B)) (f : name) (upto : nat) : res (option V) :=
  lookup_r (cores_upto cores upto) f 0.
Definition has_spec (cores : list (layer B)) (f : name) (upto : nat) : bool :=
  has_r (cores_upto cores upto) f 0.
Definition vis_spec (cores : list (layer B)) (f : name) (upto : nat) : option vis :=
  vis_r (cores_upto cores upto) f 0.

(** every name a layer list mentions *)
Definition layer_names (l : layer B) : list name :=
  match l with LObj fs _ _ => map fst fs | LOmit om _ => om end.
Definition all_names (cores : list (layer B)) : list name := flat_map layer_names cores.

Definition dedup (l : list name) : list name :=
  fold_right (fun x acc => if mem x acc then acc else x :: acc) [] l.

(** std.objectFields / objectFieldsAll: the sorted set of names whose visibility is defined
    (and, for objectFields, not hidden) *)
Definition fields_spec (cores : list (layer B)) (include_hidden : bool) : list name :=
  sort_names
    (filter (fun f => match vis_spec cores f (length cores) with
                      | Some v => include_hidden || vis_visible v
                      | None => false
                      end)
            (dedup (all_names cores))).

(* ------------------------------------------------------------------ *)
(** well-formed layer lists: field names of a layer are distinct (hash-map keys) and a
    removal layer's range lies inside the list and is laminar (ranges nest or are disjoint —
    true of everything the constructors below can build). *)
Fixpoint laminar (n : nat) (below : list (layer B)) : Prop :=
  match n with
  | O => True
  | S n' => match below with
            | [] => False
            | l :: b => match l with LOmit _ p => (N.to_nat p <= n')%nat | LObj _ _ _ => True end /\ laminar n' b
            end
  end.

Fixpoint wf_r (rl : list (layer B)) : Prop :=
  match rl with
  | [] => True
  | LObj fs _ _ :: below => NoDup (map fst fs) /\ wf_r below
  | LOmit om n :: below => NoDup om /\ laminar (N.to_nat n) below /\ wf_r below
  end.

Definition fits (cores : list (layer B)) : Prop := (2 * N.of_nat (length cores) + 2 < usize_max)%N.
Definition wf (cores : list (layer B)) : Prop := wf_r (rev cores) /\ fits cores.

(** boolean versions, used by the interpreter as a dynamic check *)
Fixpoint nodupb (l : list name) : bool :=
  match l with [] => true | x :: r => negb (mem x r) && nodupb r end.
Fixpoint laminarb (n : nat) (below : list (layer B)) : bool :=
  match n with
  | O => true
  | S n' => match below with
            | [] => false
            | l :: b => match l with LOmit _ p => Nat.leb (N.to_nat p) n' | LObj _ _ _ => true end && laminarb n' b
            end
  end.
Fixpoint wf_rb (rl : list (layer B)) : bool :=
  match rl with
  | [] => true
  | LObj fs _ _ :: below => nodupb (map fst fs) && wf_rb below
  | LOmit om n :: below => nodupb om && laminarb (N.to_nat n) below && wf_rb below
  end.
Definition wfb (cores : list (layer B)) : bool :=
  wf_rb (rev cores) && N.ltb (2 * N.of_nat (length cores) + 2) usize_max.

(* ------------------------------------------------------------------ *)
(** the three ways the code builds layer lists *)
(** evaluate_add_op (Obj, Obj) -> v2.extend_from(v1) *)
Definition extend_from (sup this : list (layer B)) : list (layer B) := sup ++ this.
(** ObjValueBuilder::with_super + commit of a non-empty OopObject (`a { ... }`) *)
Definition push_layer (sup : list (layer B)) (l : layer B) : list (layer B) := sup ++ [l].
(** builtin_object_remove_key: with_super(obj).with_fields_omitted({key}) *)
Definition remove_key (obj : list (layer B)) (key : name) : list (layer B) :=
  obj ++ [LOmit [key] (N.of_nat (length obj))].

End Walk.

Arguments GFinal {V}.
Arguments GSuperPlus {V}.
Arguments GOmit {V}.
Arguments GNotFound {V}.
Arguments LReturn {V}.
Arguments LDone {V}.

(* ================================================================== *)
(** * Part 3: chain programs *)
Inductive expr :=
| ENum (z : Z)
| ETag (z : Z)                         (* the one-element array [z]; + is not commutative on these *)
| EBool (b : bool)
| EAdd (a b : expr)
| EEq (a b : expr)
| ESelfF (up : nat) (f : name)         (* self.f ; up > 0: the self of the up-th enclosing object *)
| EDollarF (f : name)                  (* $.f *)
| ESuperF (f : name)                   (* super.f *)
| EInSuper (f : name)                  (* "f" in super *)
| EInSelf (up : nat) (f : name)        (* "f" in self *)
| ELocal (up : nat) (l : name)         (* an object-level local of the up-th enclosing object *)
| EIdx (e : expr) (f : name)           (* e.f *)
| EObj (fs : list (name * (bool * vis * expr))) (locals : list (name * expr)) (asserts : list expr)
| EExt (base : expr) (fs : list (name * (bool * vis * expr))) (locals : list (name * expr))
       (asserts : list expr)           (* base { ... } *)
| ERemove (e : expr) (k : name)        (* std.objectRemoveKey(e, k) *)
| EHas (e : expr) (f : name) (hidden : bool)   (* std.objectHasEx / `in` (hidden = true) *)
.

(** a member body / local / assert with the frames it was created in; a frame is
    (this, index of the defining layer) *)
Inductive clo := Clo (F : list (list (layer clo) * nat)) (e : expr).
Definition frame : Type := list (layer clo) * nat.
Definition obj := list (layer clo).

Inductive val := VNum (z : Z) | VBool (b : bool) | VArr (l : list Z) | VObj (o : obj).

Inductive tree := TNum (z : Z) | TBool (b : bool) | TArr (l : list Z) | TObj (fs : list (name * tree)).

(** evaluate_add_op on the value kinds used here *)
Definition val_add (a b : val) : res val :=
  match a, b with
  | VNum x, VNum y => Ok (VNum (x + y))
  | VArr x, VArr y => Ok (VArr (x ++ y))
  | VObj x, VObj y => Ok (VObj (extend_from x y))
  | _, _ => Err EType
  end.

(** the object operations the interpreter is parameterised by *)
Record ops := Ops {
  o_get : (nat -> clo -> res val) -> obj -> name -> nat -> res (option val);
  o_has : obj -> name -> nat -> bool;         (* includes hidden *)
  o_vis : obj -> name -> option vis;
  o_fields : obj -> bool -> list name }.

Definition impl_ops : ops :=
  Ops (fun ev o f upto => if wfb o then get_idx_walk ev val_add o f upto else Err EInternal)
      (fun o f upto => wfb o && has_field_include_hidden_idx o f upto)
      (fun o f => if wfb o then field_visibility_idx o f (length o) else None)
      (fun o hid => if wfb o then fields_ex o hid else []).

Definition spec_ops : ops :=
  Ops (fun ev o f upto => if wfb o then lookup_spec ev val_add o f upto else Err EInternal)
      (fun o f upto => wfb o && has_spec o f upto)
      (fun o f => if wfb o then vis_spec o f (length o) else None)
      (fun o hid => if wfb o then fields_spec o hid else []).

Fixpoint mapM {A C} (f : A -> res C) (l : list A) : res (list C) :=
  match l with
  | [] => Ok []
  | a :: r => bind (f a) (fun c => bind (mapM f r) (fun cs => Ok (c :: cs)))
  end.

Fixpoint list_eqb {A} (eqb : A -> A -> bool) (a b : list A) : bool :=
  match a, b with
  | [], [] => true
  | x :: a', y :: b' => eqb x y && list_eqb eqb a' b'
  | _, _ => false
  end.

(** ObjValueBuilder::commit pushes the new OopObject only when it has a field or an assertion *)
Definition mk_layers (F : list frame) (fs : list (name * (bool * vis * expr)))
           (locals : list (name * expr)) (asserts : list expr) : obj :=
  match fs, asserts with
  | [], [] => []
  | _, _ => [LObj (map (fun kf => (fst kf, Member (fst (fst (snd kf))) (snd (fst (snd kf))) (Clo F (snd (snd kf))))) fs)
                  (map (fun kl => (fst kl, Clo F (snd kl))) locals)
                  (map (Clo F) asserts)]
  end.

Section Step.
Variable OP : ops.
(** the evaluator one fuel unit down: guard -> frames -> expr -> result.  [guard] = an
    object-assertion run is in progress (RUNNING_ASSERTIONS non-empty): reads do not start
    another assertion run.  (The real set is keyed by object identity; the model collapses
    it to one flag, exact as long as at most one object with assertions is being read.) *)
Variable ev : bool -> list frame -> expr -> res val.

Definition ev_clo (guard : bool) (this : obj) (sup : nat) (c : clo) : res val :=
  match c with Clo F e => ev guard ((this, sup) :: F) e end.

Definition run_assert (this : obj) (sup : nat) (c : clo) : res unit :=
  bind (ev_clo true this sup c) (fun v =>
    match v with
    | VBool true => Ok tt
    | VBool false => Err EAssert
    | _ => Err EType
    end).

Fixpoint run_assertions_from (this : obj) (idx : nat) (ls : list (layer clo)) : res unit :=
  match ls with
  | [] => Ok tt
  | l :: r =>
      bind (match l with
            | LObj _ _ asserts => bind (mapM (run_assert this idx) asserts) (fun _ => Ok tt)
            | LOmit _ _ => Ok tt
            end)
           (fun _ => run_assertions_from this (S idx) r)
  end.
Definition run_assertions (guard : bool) (this : obj) : res unit :=
  if guard then Ok tt else run_assertions_from this 0 this.

(** get_idx_uncached *)
Definition obj_get (guard : bool) (this : obj) (f : name) (upto : nat) : res (option val) :=
  bind (run_assertions guard this) (fun _ => o_get OP (ev_clo guard this) this f upto).

Definition or_no_field (r : res (option val)) : res val :=
  bind r (fun o => match o with Some v => Ok v | None => Err ENoField end).

Definition obj_index (guard : bool) (this : obj) (f : name) : res val :=
  or_no_field (obj_get guard this f (length this)).

(** val.rs equals, on what both sides evaluate to *)
Definition prim_equals (a b : val) : option bool :=
  match a, b with
  | VNum x, VNum y => Some (Z.eqb x y)
  | VBool x, VBool y => Some (Bool.eqb x y)
  | VArr x, VArr y => Some (list_eqb Z.eqb x y)
  | VObj _, VObj _ => None
  | _, _ => Some false
  end.

Definition step (guard : bool) (F : list frame) (e : expr) : res val :=
  match e with
  | ENum z => Ok (VNum z)
  | ETag z => Ok (VArr [z])
  | EBool b => Ok (VBool b)
  | EAdd a b => bind (ev guard F a) (fun x => bind (ev guard F b) (fun y => val_add x y))
  | EEq a b => bind (ev guard F a) (fun x => bind (ev guard F b) (fun y =>
                 match prim_equals x y with Some r => Ok (VBool r) | None => Err EInternal end))
  | ESelfF up f => match nth_error F up with
                   | Some (this, _) => obj_index guard this f
                   | None => Err EInternal
                   end
  | EDollarF f => match rev F with
                  | (this, _) :: _ => obj_index guard this f
                  | [] => Err EInternal
                  end
  | ESuperF f => match F with
                 | (this, sup) :: _ =>
                     if Nat.eqb sup 0 then Err ENoSuper
                     else or_no_field (obj_get guard this f sup)
                 | [] => Err EInternal
                 end
  | EInSuper f => match F with
                  | (this, sup) :: _ => Ok (VBool (o_has OP this f sup))
                  | [] => Err EInternal
                  end
  | EInSelf up f => match nth_error F up with
                    | Some (this, _) => Ok (VBool (o_has OP this f (length this)))
                    | None => Err EInternal
                    end
  | ELocal up l => match nth_error F up with
                   | Some (this, sup) =>
                       match nth_error this sup with
                       | Some (LObj _ locals _) =>
                           match assoc l locals with
                           | Some c => ev_clo guard this sup c
                           | None => Err EInternal
                           end
                       | _ => Err EInternal
                       end
                   | None => Err EInternal
                   end
  | EIdx e f => bind (ev guard F e) (fun v =>
                  match v with VObj o => obj_index guard o f | _ => Err EType end)
  | EObj fs locals asserts => Ok (VObj (mk_layers F fs locals asserts))
  | EExt base fs locals asserts =>
      bind (ev guard F base) (fun v =>
        match v with
        | VObj o => Ok (VObj (o ++ mk_layers F fs locals asserts))
        | _ => Err EType
        end)
  | ERemove e k => bind (ev guard F e) (fun v =>
                     match v with VObj o => Ok (VObj (remove_key o k)) | _ => Err EType end)
  | EHas e f hidden =>
      bind (ev guard F e) (fun v =>
        match v with
        | VObj o => Ok (VBool (if hidden then o_has OP o f (length o)
                               else match o_vis OP o f with Some v => vis_visible v | None => false end))
        | _ => Err EType
        end)
  end.

(** manifestation (manifest.rs): run_assertions, then every visible field in sorted order *)
Variable mf : val -> res tree.
Definition manifest_step (v : val) : res tree :=
  match v with
  | VNum z => Ok (TNum z)
  | VBool b => Ok (TBool b)
  | VArr l => Ok (TArr l)
  | VObj o =>
      bind (run_assertions false o) (fun _ =>
      bind (mapM (fun f => bind (obj_index false o f) (fun v => bind (mf v) (fun t => Ok (f, t))))
                 (o_fields OP o false))
           (fun fs => Ok (TObj fs)))
  end.
End Step.

Fixpoint eval (OP : ops) (n : nat) : bool -> list frame -> expr -> res val :=
  match n with
  | O => fun _ _ _ => OutOfFuel
  | S n' => step OP (eval OP n')
  end.

Fixpoint manifest (OP : ops) (n : nat) : val -> res tree :=
  match n with
  | O => fun _ => OutOfFuel
  | S n' => manifest_step OP (eval OP n') (manifest OP n')
  end.

(** What the correspondence check asks about a program [e] that denotes an object, over the
    probe names [ns]: manifestation; each field read (hidden ones too); objectFields,
    objectFieldsAll; objectHas, objectHasAll / `in` for each name; number of layers. *)
Record probe := Probe {
  p_manifest : res tree;
  p_reads : list (res tree);
  p_fields : list name;
  p_fields_all : list name;
  p_has : list bool;
  p_has_all : list bool;
  p_layers : nat }.

Definition run_probe (OP : ops) (n : nat) (e : expr) (ns : list name) : res probe :=
  bind (eval OP n false [] e) (fun v =>
    match v with
    | VObj o =>
        Ok (Probe (manifest OP n v)
                  (map (fun f => bind (obj_index OP (eval OP n) false o f) (manifest OP n)) ns)
                  (o_fields OP o false) (o_fields OP o true)
                  (map (fun f => match o_vis OP o f with Some v => vis_visible v | None => false end) ns)
                  (map (fun f => o_has OP o f (length o)) ns)
                  (length o))
    | _ => Err EType
    end).
