(** C02 — property theorems tying the hand model (Model.v) to the source text: every function named
    [gen_*] is regenerated from crates/jrsonnet-evaluator/src/obj/{mod,oop}.rs by
    translator/gens/objwalk.py on every run (Gen/GenObj.v).  Each theorem is closed by [exact] of a
    lemma from ProofsSource.v, followed by [Print Assumptions]; statements are pinned in PinsSource.v. *)
From Coq Require Import List ZArith NArith.
From JrV Require Import C02.Model C02.Proofs Gen.GenObj C02.ModelSource C02.ProofsSource.
Import ListNotations.

(** get_idx_uncached (loop over the cores in reverse, GetFor arms, skip counter, first_add / add_stack,
    the fold after the loop) as written in mod.rs is the model's walk: all layer lists, names, start
    indices, member evaluation functions and additions. *)
Theorem C02_model_is_translated_source_get :
  forall (B V : Type) (ev : nat -> B -> res V) (add : V -> V -> res V)
    (cores : list (layer B)) (key : name) (upto : nat),
    gen_get_idx_walk ev add cores key upto = get_idx_walk ev add cores key upto.
Proof. exact @get_eq. Qed.
Print Assumptions C02_model_is_translated_source_get.

(** has_field_include_hidden_idx as written in mod.rs is the model's. *)
Theorem C02_model_is_translated_source_has :
  forall (B : Type) (cores : list (layer B)) (key : name) (upto : nat),
    gen_has_field_include_hidden_idx cores key upto = has_field_include_hidden_idx cores key upto.
Proof. exact @has_eq. Qed.
Print Assumptions C02_model_is_translated_source_has.

(** field_visibility_idx as written in mod.rs is the model's. *)
Theorem C02_model_is_translated_source_visibility :
  forall (B : Type) (cores : list (layer B)) (key : name) (upto : nat),
    gen_field_visibility_idx cores key upto = field_visibility_idx cores key upto.
Proof. exact @vis_eq. Qed.
Print Assumptions C02_model_is_translated_source_visibility.

(** fields_visibility (default entry, the closure's match on EnumFields, omitted_until arithmetic, the
    omit_index update, retain) as written in mod.rs is the model's, and so is fields_ex over it. *)
Theorem C02_model_is_translated_source_fields :
  forall (B : Type) (cores : list (layer B)) (include_hidden : bool),
    gen_fields_visibility cores = fields_visibility cores
    /\ gen_fields_ex cores include_hidden = fields_ex cores include_hidden.
Proof. exact (fun B cores hid => conj (fields_visibility_eq cores) (fields_ex_eq cores hid)). Qed.
Print Assumptions C02_model_is_translated_source_fields.

(** extend_from (order of the two `cores.extend`) and with_fields_omitted (prev_layers = number of
    committed cores) as written are the model's constructors. *)
Theorem C02_model_is_translated_source_constructors :
  forall (B : Type) (sup this : list (layer B)) (k : name),
    gen_extend_from sup this = extend_from sup this /\ gen_remove_key this k = remove_key this k.
Proof. exact (fun B sup this k => conj (extend_eq sup this) (remove_key_eq this k)). Qed.
Print Assumptions C02_model_is_translated_source_constructors.

(** Corollaries: the code as written refines the SPEC recursion on every well-formed layer list. *)
Theorem C02_source_get_refines :
  forall (B V : Type) (ev : nat -> B -> res V) (add : V -> V -> res V)
    (cores : list (layer B)) (key : name) (upto : nat),
    wf cores -> gen_get_idx_walk ev add cores key upto = lookup_spec ev add cores key upto.
Proof. exact @src_get_refines. Qed.
Print Assumptions C02_source_get_refines.

Theorem C02_source_has_refines :
  forall (B : Type) (cores : list (layer B)) (key : name) (upto : nat),
    wf cores -> gen_has_field_include_hidden_idx cores key upto = has_spec cores key upto.
Proof. exact @src_has_refines. Qed.
Print Assumptions C02_source_has_refines.

Theorem C02_source_visibility_refines :
  forall (B : Type) (cores : list (layer B)) (key : name) (upto : nat),
    wf cores -> gen_field_visibility_idx cores key upto = vis_spec cores key upto.
Proof. exact @src_vis_refines. Qed.
Print Assumptions C02_source_visibility_refines.

Theorem C02_source_fields_refines :
  forall (B : Type) (cores : list (layer B)) (include_hidden : bool),
    wf cores -> gen_fields_ex cores include_hidden = fields_spec cores include_hidden.
Proof. exact @src_fields_refines. Qed.
Print Assumptions C02_source_fields_refines.

Theorem C02_source_fields_visibility_agrees :
  forall (B : Type) (cores : list (layer B)) (f : name),
    wf cores -> assoc f (gen_fields_visibility cores) = gen_field_visibility_idx cores f (length cores).
Proof. exact @src_fields_visibility_agrees. Qed.
Print Assumptions C02_source_fields_visibility_agrees.
