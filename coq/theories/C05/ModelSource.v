(** C05 source tie — definitions.

    Gen/GenJson.v holds [gen_manifest_json_ex_buf], the statement-by-statement translation of
    manifest_json_ex_buf (crates/jrsonnet-evaluator/src/manifest.rs) made by
    translator/gens/jsonwriter.py from the working tree on every run: the Rust function threads two
    mutable strings, `buf` and `cur_padding`, and so does the translation, which returns
    [Some (buf, cur_padding)] after the call or [None] for `Err`.  The hand model [wr] of Model.v instead
    RETURNS the appended text and passes the padding down.  [src_result] is the bridge between the two
    shapes: what the imperative function must leave behind when the hand model says [r]. *)
From Coq Require Import List NArith Bool.
From JrV Require Import C05.Model.
Import ListNotations.
Open Scope N_scope.

(** buffer = old buffer ++ the model's text, cur_padding restored to what it was *)
Definition src_result (buf cur : bytes) (r : option bytes) : option (bytes * bytes) :=
  match r with
  | Some out => Some (buf ++ out, cur)
  | None => None
  end.

(** the ToStringFormat / std.manifestJson paths expressed with a format record *)
Definition src_paths (fmts : list opts) (v : jval) (f : opts -> jval -> option bytes) : list (option bytes) :=
  map (fun o => f o v) fmts.

(** sample values for the non-vacuity examples: nested empty and non-empty containers *)
Definition sample_nested : jval :=
  JObj [([97], JArr [JNum [49]; JArr []; JObj []; JStr [34; 10]]);
        ([98], JObj [([99], JArr [JBool true; JNull])]);
        ([100], JArr [JArr [JArr []]])].
