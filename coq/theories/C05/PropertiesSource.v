(** C05 source tie — property theorems only.  [gen_*] are the definitions of Gen/GenJson.v, which
    translator/gens/jsonwriter.py regenerates from crates/jrsonnet-evaluator/src/manifest.rs on every run
    (manifest_json_ex_buf statement by statement, manifest_json_ex, the JsonFormat constructors). *)
From Coq Require Import List NArith Bool.
From JrV Require Import Gen.GenEscape Gen.GenJson C05.Model C05.Proofs C05.ModelSource C05.ProofsSource.
Import ListNotations.
Open Scope N_scope.

(** For ALL value trees, ALL format records (any mode, padding, newline, key_val_sep), ALL buffer contents
    and ALL initial paddings: the translated manifest_json_ex_buf leaves behind exactly buffer ++ the text of
    the hand model [wr] and the initial cur_padding (the truncate restores it), and fails exactly when [wr]
    does.  A change of a pushed text, of the order of pushes, of the `i != 0` separators, of an
    empty-container arm, of the padding growth or of the truncate makes this theorem fail. *)
Theorem C05_model_is_translated_source_writer :
  forall o v buf cur, gen_manifest_json_ex_buf o v buf cur = src_result buf cur (wr o cur v).
Proof. exact ps_writer. Qed.
Print Assumptions C05_model_is_translated_source_writer.

(** manifest_json_ex (fresh buffer, fresh padding) is the model's [manifest]. *)
Theorem C05_model_is_translated_source_entry :
  forall o v, gen_manifest_json_ex o v = manifest o v.
Proof. exact ps_entry. Qed.
Print Assumptions C05_model_is_translated_source_entry.

(** The translated constructors JsonFormat::default / minify / std_to_string_helper / cli(n) for every n /
    std_to_json(indent, newline, key_val_sep) for all arguments are the model's format constants (which
    Model.v builds from the presets of Gen/GenEscape.v: two independent readings of the same source). *)
Theorem C05_model_is_translated_source_formats :
  gen_fmt_default = fmt_default /\ gen_fmt_minify = fmt_minify /\
  gen_fmt_std_to_string_helper = fmt_to_string /\
  (forall n, gen_fmt_cli n = fmt_cli n) /\
  (forall i n k, gen_fmt_std_to_json i n k = fmt_std i n k).
Proof. exact ps_formats. Qed.
Print Assumptions C05_model_is_translated_source_formats.

(** The translated writer only appends to the buffer and hands cur_padding back unchanged. *)
Theorem C05_source_padding_restored :
  forall o v buf cur buf' cur', gen_manifest_json_ex_buf o v buf cur = Some (buf', cur') ->
    cur' = cur /\ exists out, buf' = buf ++ out /\ wr o cur v = Some out.
Proof. exact ps_padding_restored. Qed.
Print Assumptions C05_source_padding_restored.

(** C05_writer_read_back for the translated code: every text the translated manifest_json_ex produces with
    whitespace padding/newline and a ws ":" ws separator is RFC 8259 JSON that reads back as the same tree. *)
Theorem C05_source_writer_read_back :
  forall o v out, opts_ok o = true -> nums_ok v = true -> gen_manifest_json_ex o v = Some out ->
    json_read out = Some v.
Proof. exact ps_read_back. Qed.
Print Assumptions C05_source_writer_read_back.

(** ... in particular with every translated constructor. *)
Theorem C05_source_constructors_read_back :
  forall v, nums_ok v = true ->
  (forall out, gen_manifest_json_ex gen_fmt_default v = Some out -> json_read out = Some v) /\
  (forall out, gen_manifest_json_ex gen_fmt_minify v = Some out -> json_read out = Some v) /\
  (forall out, gen_manifest_json_ex gen_fmt_std_to_string_helper v = Some out -> json_read out = Some v) /\
  (forall n out, gen_manifest_json_ex (gen_fmt_cli n) v = Some out -> json_read out = Some v) /\
  (forall i n k out, all_ws i = true -> all_ws n = true -> kvsep_ok k = true ->
     gen_manifest_json_ex (gen_fmt_std_to_json i n k) v = Some out -> json_read out = Some v).
Proof. exact ps_ctor_read_back. Qed.
Print Assumptions C05_source_constructors_read_back.

(** The translated writer rejects exactly the values that contain a function. *)
Theorem C05_source_function_rejected :
  forall o v, (has_fun v = true -> gen_manifest_json_ex o v = None) /\
              (has_fun v = false -> exists out, gen_manifest_json_ex o v = Some out).
Proof. exact ps_function. Qed.
Print Assumptions C05_source_function_rejected.
