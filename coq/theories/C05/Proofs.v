(** C05 — lemmas.  Part 1: the table and the escaper.  Part 2: writer / reader. *)
From Coq Require Import List NArith Bool Arith Lia.
From JrV Require Import Gen.GenEscape C05.Model.
Import ListNotations.
Open Scope N_scope.

Ltac b2p :=
  repeat match goal with
  | H : _ && _ = true |- _ => apply andb_true_iff in H; destruct H
  | H : _ || _ = true |- _ => apply orb_true_iff in H; destruct H
  | H : _ || _ = false |- _ => apply orb_false_iff in H; destruct H
  | H : negb _ = true |- _ => apply negb_true_iff in H
  | H : negb _ = false |- _ => apply negb_false_iff in H
  | H : (_ =? _) = true |- _ => apply N.eqb_eq in H
  | H : (_ =? _) = false |- _ => apply N.eqb_neq in H
  | H : (_ <=? _) = true |- _ => apply N.leb_le in H
  | H : (_ <=? _) = false |- _ => apply N.leb_gt in H
  | H : (_ <? _) = true |- _ => apply N.ltb_lt in H
  | H : (_ <? _) = false |- _ => apply N.ltb_ge in H
  end.

Ltac neqb := apply N.eqb_neq; lia.

(* ------------------------------------------------------------------ the table, all 256 entries *)

Lemma table_ok_true : table_ok = true.
Proof. vm_compute. reflexivity. Qed.

Lemma table_len : length escape_table = 256%nat.
Proof.
  pose proof table_ok_true as H. unfold table_ok in H.
  apply andb_true_iff in H. destruct H as [H _]. now apply Nat.eqb_eq in H.
Qed.

Lemma entry_ok_all : forall b, entry_ok b = true.
Proof.
  intro b. destruct (N.ltb_spec b 256) as [Hlt | Hge].
  - pose proof table_ok_true as H. unfold table_ok in H.
    apply andb_true_iff in H. destruct H as [_ H].
    rewrite forallb_forall in H. apply H.
    replace b with (N.of_nat (N.to_nat b)) by apply N2Nat.id.
    apply in_map. apply in_seq. lia.
  - unfold entry_ok, tbl. rewrite nth_overflow by (rewrite table_len; lia).
    cbn [N.eqb]. apply andb_true_iff. split; [apply andb_true_iff; split|].
    + apply N.leb_le. lia.
    + apply negb_true_iff. neqb.
    + apply negb_true_iff. neqb.
Qed.

(** unescaped bytes are legal raw characters of a JSON string *)
Lemma entry_raw : forall b, tbl b = 0 -> 32 <= b /\ b <> 34 /\ b <> 92.
Proof.
  intros b Hb. pose proof (entry_ok_all b) as H. unfold entry_ok in H. rewrite Hb in H.
  cbn [N.eqb] in H. b2p. auto.
Qed.

(** escaped bytes: the arm exists, the byte is ASCII, the sequence is printable ASCII and spells it *)
Lemma entry_esc : forall b, tbl b <> 0 ->
  exists sq, esc_seq b (tbl b) = Some sq /\ b < 128 /\
             forallb printable_ascii sq = true /\ seq_decodes sq b = true.
Proof.
  intros b Hb. pose proof (entry_ok_all b) as H. unfold entry_ok in H.
  apply N.eqb_neq in Hb. rewrite Hb in H.
  destruct (esc_seq b (tbl b)) as [sq|]; [|discriminate].
  exists sq. b2p. auto.
Qed.

Lemma esc1_raw : forall b, tbl b = 0 -> esc1 b = [b].
Proof. intros b H. unfold esc1. rewrite H. reflexivity. Qed.

Lemma esc1_esc : forall b sq, tbl b <> 0 -> esc_seq b (tbl b) = Some sq -> esc1 b = sq.
Proof. intros b sq H E. unfold esc1. apply N.eqb_neq in H. rewrite H, E. reflexivity. Qed.

(* ------------------------------------------------------------------ list slicing *)

Lemma skipn_S_tail : forall (A : Type) i (l : list A) b r, skipn i l = b :: r -> skipn (S i) l = r.
Proof.
  induction i; intros l b r H.
  - cbn in H. subst l. reflexivity.
  - destruct l; [discriminate|]. cbn in H. cbn [skipn]. eapply IHi. exact H.
Qed.

Lemma firstn_snoc : forall (A : Type) k (l : list A) b r,
  skipn k l = b :: r -> firstn (S k) l = firstn k l ++ [b].
Proof.
  induction k; intros l b r H.
  - cbn in H. subst l. reflexivity.
  - destruct l as [|a l]; [discriminate|]. cbn in H.
    change (firstn (S (S k)) (a :: l)) with (a :: firstn (S k) l).
    rewrite (IHk l b r H). reflexivity.
Qed.

Lemma skipn_skipn' : forall (A : Type) y x (l : list A), skipn x (skipn y l) = skipn (x + y) l.
Proof.
  induction y; intros x l.
  - rewrite Nat.add_0_r. reflexivity.
  - rewrite Nat.add_succ_r. destruct l as [|a l].
    + cbn [skipn]. destruct x; reflexivity.
    + cbn [skipn]. apply IHy.
Qed.

Lemma slice_snoc : forall all start i b r,
  (start <= i)%nat -> skipn i all = b :: r -> slice all start (S i) = slice all start i ++ [b].
Proof.
  intros all start i b r Hle H. unfold slice.
  replace (S i - start)%nat with (S (i - start)) by lia.
  apply firstn_snoc with (r := r).
  rewrite skipn_skipn'. replace (i - start + start)%nat with i by lia. exact H.
Qed.

Lemma slice_empty : forall all i, slice all i i = [].
Proof. intros. unfold slice. rewrite Nat.sub_diag. reflexivity. Qed.

Lemma slice_to_end : forall all start i, skipn i all = [] -> slice all start i = skipn start all.
Proof.
  intros all start i H. unfold slice. apply firstn_all2.
  rewrite skipn_length.
  assert (length all <= i)%nat.
  { destruct (le_lt_dec (length all) i); [assumption|].
    assert (length (skipn i all) = length all - i)%nat by apply skipn_length.
    rewrite H in H0. cbn in H0. lia. }
  lia.
Qed.

(* ------------------------------------------------------------------ the loop is the plain map *)

Lemma esc_loop_spec : forall rest all i start buf,
  skipn i all = rest -> (start <= i)%nat ->
  esc_loop all rest i start buf = Some (buf ++ slice all start i ++ flat_map esc1 rest ++ [34]).
Proof.
  induction rest as [|b rest IH]; intros all i start buf Hsk Hle.
  - cbn [esc_loop flat_map]. rewrite (slice_to_end _ _ _ Hsk).
    destruct (Nat.eqb start (length all)) eqn:E.
    + apply Nat.eqb_eq in E. rewrite E, skipn_all. reflexivity.
    + rewrite <- app_assoc. reflexivity.
  - cbn [esc_loop flat_map].
    pose proof (skipn_S_tail _ _ _ _ _ Hsk) as Hsk'.
    destruct (tbl b =? 0) eqn:E.
    + apply N.eqb_eq in E. rewrite (IH all (S i) start buf Hsk') by lia.
      rewrite (slice_snoc _ _ _ _ _ Hle Hsk), (esc1_raw _ E).
      rewrite <- !app_assoc. reflexivity.
    + apply N.eqb_neq in E. destruct (entry_esc b E) as (sq & Hsq & _).
      rewrite Hsq, (esc1_esc _ _ E Hsq).
      rewrite (IH all (S i) (S i) _ Hsk') by lia.
      rewrite slice_empty. cbn [app].
      destruct (Nat.ltb start i) eqn:L.
      * rewrite <- !app_assoc. reflexivity.
      * apply Nat.ltb_ge in L. assert (start = i) by lia. subst start.
        rewrite slice_empty. cbn [app]. rewrite <- !app_assoc. reflexivity.
Qed.

Lemma escape_buf_is_ref : forall bs buf, escape_buf bs buf = Some (buf ++ escape_ref bs).
Proof.
  intros bs buf. unfold escape_buf, escape_ref.
  rewrite (esc_loop_spec bs bs 0 0 (buf ++ [34])) by (reflexivity || lia).
  rewrite slice_empty. cbn [app]. rewrite <- app_assoc. reflexivity.
Qed.

Lemma escape_is_ref : forall bs, escape bs = Some (escape_ref bs).
Proof. intro bs. unfold escape. rewrite escape_buf_is_ref. reflexivity. Qed.

(* ------------------------------------------------------------------ reading an escaped string back *)

Lemma seq_decodes_read : forall sq b r,
  seq_decodes sq b = true -> read_str (sq ++ r) = prepend [b] (read_str r).
Proof.
  intros sq b r H. unfold seq_decodes in H.
  destruct sq as [|c0 [|c1 [|c2 [|c3 [|c4 [|c5 [|c6 sq]]]]]]]; try discriminate.
  - (* two bytes *)
    apply andb_true_iff in H. destruct H as [H H3]. apply andb_true_iff in H. destruct H as [H1 H2].
    apply N.eqb_eq in H1. subst c0. apply negb_true_iff in H2.
    destruct (simple_esc c1) as [c|] eqn:Es; [|discriminate]. apply N.eqb_eq in H3. subst c.
    cbn [app read_str]. change (92 =? 34) with false. change (92 =? 92) with true. cbv iota.
    rewrite H2, Es. reflexivity.
  - (* \u hex4 *)
    apply andb_true_iff in H. destruct H as [H H3]. apply andb_true_iff in H. destruct H as [H1 H2].
    apply N.eqb_eq in H1. apply N.eqb_eq in H2. subst c0 c1.
    destruct (hex4 c2 c3 c4 c5) as [cp|] eqn:Eh; [|discriminate].
    apply andb_true_iff in H3. destruct H3 as [H3 H4]. apply N.eqb_eq in H3. apply N.ltb_lt in H4. subst cp.
    cbn [app read_str]. change (92 =? 34) with false. change (92 =? 92) with true.
    change (117 =? 117) with true. cbv iota. rewrite Eh.
    assert (Hh : is_high b = false).
    { unfold is_high. apply andb_false_iff. left. apply N.leb_gt. lia. }
    assert (Hl : is_low b = false).
    { unfold is_low. apply andb_false_iff. left. apply N.leb_gt. lia. }
    rewrite Hh, Hl. unfold utf8_enc. apply N.ltb_lt in H4. rewrite H4. reflexivity.
Qed.

Lemma read_raw : forall b r, 32 <= b -> b <> 34 -> b <> 92 ->
  read_str (b :: r) = prepend [b] (read_str r).
Proof.
  intros b r H1 H2 H3. cbn [read_str].
  apply N.eqb_neq in H2. apply N.eqb_neq in H3. rewrite H2, H3.
  assert (E : (b <? 32) = false) by (apply N.ltb_ge; lia). rewrite E. reflexivity.
Qed.

Lemma read_esc1 : forall b r, read_str (esc1 b ++ r) = prepend [b] (read_str r).
Proof.
  intros b r. destruct (N.eq_dec (tbl b) 0) as [E|E].
  - rewrite (esc1_raw _ E). destruct (entry_raw _ E) as (H1 & H2 & H3).
    cbn [app]. apply read_raw; assumption.
  - destruct (entry_esc _ E) as (sq & Hsq & _ & _ & Hd).
    rewrite (esc1_esc _ _ E Hsq). apply seq_decodes_read. exact Hd.
Qed.

Lemma read_str_escaped : forall bs rest,
  read_str (flat_map esc1 bs ++ 34 :: rest) = Some (bs, rest).
Proof.
  induction bs as [|b bs IH]; intro rest.
  - reflexivity.
  - cbn [flat_map]. rewrite <- app_assoc, read_esc1, IH. reflexivity.
Qed.

Lemma unescape_escape_ref : forall bs, json_unescape (escape_ref bs) = Some bs.
Proof.
  intro bs. unfold json_unescape, escape_ref. change (34 =? 34) with true. cbv iota.
  rewrite read_str_escaped. reflexivity.
Qed.

(* ------------------------------------------------------------------ what the output consists of *)

Lemma esc1_no_control : forall b, Forall (fun c => 32 <= c) (esc1 b).
Proof.
  intro b. destruct (N.eq_dec (tbl b) 0) as [E|E].
  - rewrite (esc1_raw _ E). destruct (entry_raw _ E) as (H1 & _). constructor; [assumption|constructor].
  - destruct (entry_esc _ E) as (sq & Hsq & _ & Hp & _). rewrite (esc1_esc _ _ E Hsq).
    apply Forall_forall. intros c Hc. rewrite forallb_forall in Hp. specialize (Hp c Hc).
    unfold printable_ascii in Hp. b2p. assumption.
Qed.

Lemma escape_ref_no_control : forall bs, Forall (fun c => 32 <= c) (escape_ref bs).
Proof.
  intro bs. unfold escape_ref. constructor; [lia|]. apply Forall_app. split.
  - induction bs as [|b bs IH]; [constructor|]. cbn [flat_map]. apply Forall_app. split; [apply esc1_no_control|exact IH].
  - constructor; [lia|constructor].
Qed.

Definition high (c : N) : bool := 128 <=? c.

Lemma esc1_high : forall b, filter high (esc1 b) = filter high [b].
Proof.
  intro b. destruct (N.eq_dec (tbl b) 0) as [E|E].
  - rewrite (esc1_raw _ E). reflexivity.
  - destruct (entry_esc _ E) as (sq & Hsq & Hb & Hp & _). rewrite (esc1_esc _ _ E Hsq).
    cbn [filter]. assert (Hh : high b = false) by (unfold high; apply N.leb_gt; lia). rewrite Hh.
    rewrite forallb_forall in Hp. clear Hsq.
    induction sq as [|c sq IH]; [reflexivity|]. cbn [filter].
    assert (Hc : high c = false).
    { specialize (Hp c (or_introl eq_refl)). unfold printable_ascii in Hp. b2p. unfold high. apply N.leb_gt. lia. }
    rewrite Hc. apply IH. intros x Hx. apply Hp. right. exact Hx.
Qed.

Lemma escape_ref_high : forall bs, filter high (escape_ref bs) = filter high bs.
Proof.
  intro bs. unfold escape_ref. cbn [filter]. change (high 34) with false. cbv iota.
  rewrite filter_app. cbn [filter]. change (high 34) with false. cbv iota. rewrite app_nil_r.
  induction bs as [|b bs IH]; [reflexivity|].
  cbn [flat_map]. rewrite filter_app, esc1_high, IH. cbn [filter]. destruct (high b); reflexivity.
Qed.

(* ------------------------------------------------------------------ UTF-8 *)

Lemma utf8_ascii_app : forall p r, Forall (fun c => c < 128) p -> utf8 r -> utf8 (p ++ r).
Proof.
  induction p as [|c p IH]; intros r Hp Hr; [exact Hr|].
  inversion Hp; subst. cbn [app]. apply utf8_ascii; [assumption|]. apply IH; assumption.
Qed.

Lemma mb_seq_high : forall s, mb_seq s = true -> Forall (fun c => 128 <= c) s.
Proof.
  intros s H. unfold mb_seq, in_rng, is_tail, in_rng in H.
  destruct s as [|a [|b [|c [|d [|e s]]]]]; try discriminate.
  - b2p. repeat constructor; lia.
  - repeat (apply orb_true_iff in H; destruct H as [H|H]); b2p; repeat constructor; lia.
  - repeat (apply orb_true_iff in H; destruct H as [H|H]); b2p; repeat constructor; lia.
Qed.

Lemma esc1_ascii : forall b, b < 128 -> Forall (fun c => c < 128) (esc1 b).
Proof.
  intros b Hb. destruct (N.eq_dec (tbl b) 0) as [E|E].
  - rewrite (esc1_raw _ E). constructor; [assumption|constructor].
  - destruct (entry_esc _ E) as (sq & Hsq & _ & Hp & _). rewrite (esc1_esc _ _ E Hsq).
    apply Forall_forall. intros c Hc. rewrite forallb_forall in Hp. specialize (Hp c Hc).
    unfold printable_ascii in Hp. b2p. lia.
Qed.

Lemma flat_map_high : forall s, Forall (fun c => 128 <= c) s -> flat_map esc1 s = s.
Proof.
  induction s as [|c s IH]; intro H; [reflexivity|]. inversion H; subst.
  cbn [flat_map]. rewrite IH by assumption.
  destruct (N.eq_dec (tbl c) 0) as [E|E].
  - rewrite (esc1_raw _ E). reflexivity.
  - destruct (entry_esc _ E) as (sq & _ & Hc & _). lia.
Qed.

Lemma utf8_flat_map : forall bs r, utf8 bs -> utf8 r -> utf8 (flat_map esc1 bs ++ r).
Proof.
  intros bs r H. revert r. induction H as [|b t Hb Ht IH|s t Hs Ht IH]; intros r Hr.
  - exact Hr.
  - cbn [flat_map]. rewrite <- app_assoc. apply utf8_ascii_app; [apply esc1_ascii; assumption|]. apply IH. exact Hr.
  - rewrite flat_map_app, (flat_map_high s (mb_seq_high s Hs)), <- app_assoc.
    apply utf8_multi; [assumption|]. apply IH. exact Hr.
Qed.

Lemma escape_ref_utf8 : forall bs, utf8 bs -> utf8 (escape_ref bs).
Proof.
  intros bs H. unfold escape_ref. apply utf8_ascii; [lia|].
  apply utf8_flat_map; [exact H|]. apply utf8_ascii; [lia|constructor].
Qed.

(* ================================================================== Part 2: writer / reader *)

Section jval_ind2.
  Variable P : jval -> Prop.
  Hypothesis Hnull : P JNull.
  Hypothesis Hbool : forall b, P (JBool b).
  Hypothesis Hnum : forall t, P (JNum t).
  Hypothesis Hstr : forall s, P (JStr s).
  Hypothesis Harr : forall xs, Forall P xs -> P (JArr xs).
  Hypothesis Hobj : forall fs, Forall (fun kv => P (snd kv)) fs -> P (JObj fs).
  Hypothesis Hfun : P JFun.
  Fixpoint jval_ind2 (v : jval) : P v :=
    match v with
    | JNull => Hnull
    | JBool b => Hbool b
    | JNum t => Hnum t
    | JStr s => Hstr s
    | JArr xs =>
        Harr xs ((fix go (l : list jval) : Forall P l :=
                    match l with
                    | [] => Forall_nil P
                    | x :: r => Forall_cons x (jval_ind2 x) (go r)
                    end) xs)
    | JObj fs =>
        Hobj fs ((fix go (l : list (bytes * jval)) : Forall (fun kv => P (snd kv)) l :=
                    match l with
                    | [] => Forall_nil _
                    | kv :: r => Forall_cons kv (jval_ind2 (snd kv)) (go r)
                    end) fs)
    | JFun => Hfun
    end.
End jval_ind2.

(** the element / field loops of [wr] as stand-alone functions *)
Fixpoint wr_items (o : opts) (cur' : bytes) (first : bool) (xs : list jval) : option bytes :=
  match xs with
  | [] => Some []
  | x :: xs' =>
      match wr o cur' x, wr_items o cur' false xs' with
      | Some bx, Some br => Some (comma first ++ sep_before o cur' first ++ bx ++ br)
      | _, _ => None
      end
  end.

Fixpoint wr_fields (o : opts) (cur' : bytes) (first : bool) (fs : list (bytes * jval)) : option bytes :=
  match fs with
  | [] => Some []
  | (k, x) :: fs' =>
      match escape k, wr o cur' x, wr_fields o cur' false fs' with
      | Some bk, Some bx, Some br =>
          Some (comma first ++ sep_before o cur' first ++ bk ++ o_kvsep o ++ bx ++ br)
      | _, _, _ => None
      end
  end.

Lemma wr_arr : forall o cur xs,
  wr o cur (JArr xs) =
  match wr_items o (cur ++ o_padding o) true xs with
  | Some body => Some ([91] ++ body ++ closing o cur (is_nil xs) ++ [93])
  | None => None
  end.
Proof.
  intros o cur xs. cbn [wr].
  match goal with
  | |- match ?F true xs with _ => _ end = _ =>
      assert (E : forall l first, F first l = wr_items o (cur ++ o_padding o) first l)
  end.
  { induction l as [|x l IH]; intro first; [reflexivity|].
    cbn [wr_items]. rewrite <- IH. reflexivity. }
  rewrite E. reflexivity.
Qed.

Lemma wr_obj : forall o cur fs,
  wr o cur (JObj fs) =
  match wr_fields o (cur ++ o_padding o) true fs with
  | Some body => Some ([123] ++ body ++ closing o cur (is_nil fs) ++ [125])
  | None => None
  end.
Proof.
  intros o cur fs. cbn [wr].
  match goal with
  | |- match ?F true fs with _ => _ end = _ =>
      assert (E : forall l first, F first l = wr_fields o (cur ++ o_padding o) first l)
  end.
  { induction l as [|[k x] l IH]; intro first; [reflexivity|].
    cbn [wr_fields]. rewrite <- IH. reflexivity. }
  rewrite E. reflexivity.
Qed.

(* ------------------------------------------------------------------ whitespace *)

Lemma all_ws_app : forall a b, all_ws (a ++ b) = all_ws a && all_ws b.
Proof. intros. unfold all_ws. apply forallb_app. Qed.

Lemma skip_ws_ws : forall w s, all_ws w = true -> skip_ws (w ++ s) = skip_ws s.
Proof.
  induction w as [|c w IH]; intros s H; [reflexivity|].
  cbn [all_ws forallb] in H. apply andb_true_iff in H. destruct H as [Hc Hw].
  cbn [app skip_ws]. rewrite Hc. apply IH. exact Hw.
Qed.

Lemma skip_ws_head : forall c t, is_ws c = false -> skip_ws (c :: t) = c :: t.
Proof. intros c t H. cbn [skip_ws]. rewrite H. reflexivity. Qed.

Lemma skip_ws_split : forall l, exists w, l = w ++ skip_ws l /\ all_ws w = true.
Proof.
  induction l as [|c l (w & E & Hw)].
  - exists []. split; reflexivity.
  - cbn [skip_ws]. destruct (is_ws c) eqn:Hc.
    + exists (c :: w). split; [cbn [app]; f_equal; exact E|].
      cbn [all_ws forallb]. rewrite Hc. exact Hw.
    + exists []. split; reflexivity.
Qed.

Lemma kvsep_split : forall kv, kvsep_ok kv = true ->
  exists w1 w2, kv = w1 ++ 58 :: w2 /\ all_ws w1 = true /\ all_ws w2 = true.
Proof.
  intros kv H. unfold kvsep_ok in H. destruct (skip_ws_split kv) as (w & E & Hw).
  destruct (skip_ws kv) as [|c r]; [discriminate|].
  apply andb_true_iff in H. destruct H as [Hc Hr]. apply N.eqb_eq in Hc. subst c.
  exists w, r. auto.
Qed.

Lemma opts_ok_parts : forall o, opts_ok o = true ->
  all_ws (o_padding o) = true /\ all_ws (o_newline o) = true /\ kvsep_ok (o_kvsep o) = true.
Proof. intros o H. unfold opts_ok in H. b2p. auto. Qed.

Lemma sep_ws : forall o cur first, opts_ok o = true -> all_ws cur = true ->
  all_ws (sep_before o cur first) = true.
Proof.
  intros o cur first Ho Hc. destruct (opts_ok_parts o Ho) as (_ & Hn & _).
  unfold sep_before. destruct (o_mtype o).
  - rewrite all_ws_app, Hn, Hc. reflexivity.
  - rewrite all_ws_app, Hn, Hc. reflexivity.
  - destruct first; reflexivity.
  - reflexivity.
Qed.

Lemma closing_ws : forall o cur e, opts_ok o = true -> all_ws cur = true ->
  all_ws (closing o cur e) = true.
Proof.
  intros o cur e Ho Hc. destruct (opts_ok_parts o Ho) as (_ & Hn & _).
  unfold closing. destruct (o_mtype o), e; rewrite ?all_ws_app, ?Hn, ?Hc; reflexivity.
Qed.

(* ------------------------------------------------------------------ numbers *)

Lemma digit_num_char : forall b, is_digit b = true -> is_num_char b = true.
Proof. intros b H. unfold is_num_char. rewrite H. reflexivity. Qed.

Lemma digit19_num_char : forall b, is_digit19 b = true -> is_num_char b = true.
Proof.
  intros b H. apply digit_num_char. unfold is_digit19 in H. unfold is_digit. b2p.
  apply andb_true_iff. split; apply N.leb_le; lia.
Qed.

Lemma num_step_char : forall s b s', num_step s b = Some s' -> is_num_char b = true.
Proof.
  intros s b s' H.
  destruct s; cbn [num_step] in H;
    repeat match type of H with
           | (if ?c then _ else _) = _ => destruct c eqn:?; cbv iota in H
           end; try discriminate;
    try (apply digit_num_char; assumption);
    try (apply digit19_num_char; assumption);
    b2p; subst; reflexivity.
Qed.

Lemma num_run_chars : forall tok s, num_run s tok = true -> forallb is_num_char tok = true.
Proof.
  induction tok as [|b tok IH]; intros s H; [reflexivity|].
  cbn [num_run] in H. destruct (num_step s b) as [s'|] eqn:E; [|discriminate].
  cbn [forallb]. rewrite (num_step_char _ _ _ E). apply (IH s'). exact H.
Qed.

Lemma span_num_app : forall tok rest,
  forallb is_num_char tok = true ->
  match rest with [] => True | c :: _ => is_num_char c = false end ->
  span_num (tok ++ rest) = (tok, rest).
Proof.
  induction tok as [|b tok IH]; intros rest Ht Hr.
  - cbn [app]. destruct rest as [|c r]; [reflexivity|]. cbn [span_num]. rewrite Hr. reflexivity.
  - cbn [forallb] in Ht. apply andb_true_iff in Ht. destruct Ht as [Hb Ht].
    cbn [app span_num]. rewrite Hb, (IH rest Ht Hr). reflexivity.
Qed.

(** first character of a value text *)
Definition vstart (c : N) : bool :=
  (c =? 110) || (c =? 116) || (c =? 102) || (c =? 34) || (c =? 91) || (c =? 123) || (c =? 45) || is_digit c.

Lemma num_ok_head : forall tok, num_ok tok = true -> exists c t, tok = c :: t /\ ((c =? 45) || is_digit c = true).
Proof.
  intros [|c t] H; [discriminate|]. exists c, t. split; [reflexivity|].
  unfold num_ok in H. cbn [num_run num_step] in H.
  destruct (c =? 45) eqn:E1; [reflexivity|]. cbn [orb].
  unfold is_digit. destruct (c =? 48) eqn:E2.
  - apply N.eqb_eq in E2. subst c. reflexivity.
  - destruct (is_digit19 c) eqn:E3; [|discriminate].
    unfold is_digit19 in E3. b2p. apply andb_true_iff. split; apply N.leb_le; lia.
Qed.

Lemma vstart_facts : forall c, vstart c = true -> is_ws c = false /\ c <> 93 /\ c <> 125.
Proof.
  intros c H. unfold vstart, is_digit in H. unfold is_ws.
  repeat (apply orb_true_iff in H; destruct H as [H|H]); b2p; subst;
    (split; [try reflexivity | split; try lia]);
    repeat (apply orb_false_iff; split); try neqb.
Qed.

Lemma ws_not_num : forall c, is_ws c = true -> is_num_char c = false.
Proof.
  intros c H. unfold is_ws in H. unfold is_num_char, is_digit.
  repeat (apply orb_true_iff in H; destruct H as [H|H]); b2p; subst; reflexivity.
Qed.

Lemma wr_head : forall o cur v out, nums_ok v = true -> wr o cur v = Some out ->
  exists c t, out = c :: t /\ vstart c = true.
Proof.
  intros o cur v out Hn H. destruct v.
  - inversion H. eexists _, _. split; reflexivity.
  - destruct b; inversion H; eexists _, _; split; reflexivity.
  - cbn [wr] in H. inversion H; subst. cbn [nums_ok] in Hn.
    destruct (num_ok_head _ Hn) as (c & t & E & Hc). exists c, t. split; [assumption|].
    unfold vstart. apply orb_true_iff in Hc. destruct Hc as [Hc|Hc]; rewrite Hc; repeat rewrite orb_true_r; reflexivity.
  - cbn [wr] in H. rewrite escape_is_ref in H. inversion H. eexists _, _. split; reflexivity.
  - rewrite wr_arr in H. destruct (wr_items _ _ _ _); inversion H. eexists _, _. split; reflexivity.
  - rewrite wr_obj in H. destruct (wr_fields _ _ _ _); inversion H. eexists _, _. split; reflexivity.
  - discriminate.
Qed.

(* ------------------------------------------------------------------ fuel *)

Fixpoint need (v : jval) : nat :=
  match v with
  | JArr xs => S ((fix go (l : list jval) : nat := match l with [] => O | x :: r => S (need x + go r) end) xs)
  | JObj fs => S ((fix go (l : list (bytes * jval)) : nat :=
                     match l with [] => O | kv :: r => S (need (snd kv) + go r) end) fs)
  | _ => 1%nat
  end.

Fixpoint need_elems (l : list jval) : nat := match l with [] => O | x :: r => S (need x + need_elems r) end.
Fixpoint need_membs (l : list (bytes * jval)) : nat :=
  match l with [] => O | kv :: r => S (need (snd kv) + need_membs r) end.

Lemma need_arr : forall xs, need (JArr xs) = S (need_elems xs).
Proof. intro xs. reflexivity. Qed.

Lemma need_obj : forall fs, need (JObj fs) = S (need_membs fs).
Proof. intro fs. reflexivity. Qed.

(* ------------------------------------------------------------------ the reader inverts the writer *)

Definition delim (rest : bytes) : Prop :=
  match rest with [] => True | c :: _ => is_num_char c = false end.

Definition RB (o : opts) (v : jval) : Prop :=
  forall cur out rest f,
    all_ws cur = true -> nums_ok v = true -> wr o cur v = Some out ->
    (need v <= f)%nat -> delim rest ->
    read_value f (out ++ rest) = Some (v, rest).

Lemma delim_ws_then : forall w c rest, all_ws w = true -> is_num_char c = false -> delim (w ++ c :: rest).
Proof.
  intros [|a w] c rest Hw Hc; cbn [app delim]; [exact Hc|].
  cbn [all_ws forallb] in Hw. apply andb_true_iff in Hw. destruct Hw as [Ha _]. apply ws_not_num. exact Ha.
Qed.

Lemma read_elems_wr : forall o cur', opts_ok o = true -> all_ws cur' = true ->
  forall xs x bx br close rest f,
    RB o x -> Forall (RB o) xs ->
    nums_ok x = true -> forallb nums_ok xs = true ->
    wr o cur' x = Some bx -> wr_items o cur' false xs = Some br ->
    all_ws close = true ->
    (need_elems (x :: xs) <= f)%nat ->
    read_elems f (bx ++ br ++ close ++ 93 :: rest) = Some (x :: xs, rest).
Proof.
  intros o cur' Ho Hcur. induction xs as [|x2 xs IH];
    intros x bx br close rest f HRx HRxs Hnx Hnxs Hwx Hwi Hcl Hf.
  - cbn [wr_items] in Hwi. inversion Hwi; subst br. cbn [app].
    cbn [need_elems] in Hf. destruct f as [|f']; [lia|]. cbn [read_elems].
    rewrite (HRx cur' bx (close ++ 93 :: rest) f' Hcur Hnx Hwx) by first [lia | apply delim_ws_then; [assumption|reflexivity]].
    rewrite (skip_ws_ws close _ Hcl). rewrite skip_ws_head by reflexivity.
    change (93 =? 44) with false. change (93 =? 93) with true. reflexivity.
  - cbn [wr_items] in Hwi.
    destruct (wr o cur' x2) as [bx2|] eqn:Hw2; [|discriminate].
    case_eq (wr_items o cur' false xs); [intros br2 Hwi2 | intro Hwi2]; rewrite Hwi2 in Hwi; [|discriminate].
    inversion Hwi; subst br. clear Hwi.
    cbn [forallb] in Hnxs. apply andb_true_iff in Hnxs. destruct Hnxs as [Hn2 Hnxs].
    inversion HRxs as [|? ? HR2 HRxs']; subst.
    cbn [need_elems] in Hf. destruct f as [|f']; [lia|]. cbn [read_elems].
    cbn [comma app]. repeat rewrite <- app_assoc.
    rewrite (HRx cur' bx _ f' Hcur Hnx Hwx) by first [lia | reflexivity].
    rewrite skip_ws_head by reflexivity. change (44 =? 44) with true. cbv iota.
    rewrite (skip_ws_ws _ _ (sep_ws o cur' false Ho Hcur)).
    destruct (wr_head _ _ _ _ Hn2 Hw2) as (c & t & Ebx2 & Hc).
    destruct (vstart_facts _ Hc) as (Hws & _).
    rewrite Ebx2. cbn [app]. rewrite skip_ws_head by exact Hws.
    change (c :: t ++ br2 ++ close ++ 93 :: rest) with ((c :: t) ++ br2 ++ close ++ 93 :: rest).
    rewrite <- Ebx2.
    rewrite (IH x2 bx2 br2 close rest f' HR2 HRxs' Hn2 Hnxs Hw2 Hwi2 Hcl) by (cbn [need_elems] in *; lia).
    reflexivity.
Qed.

Lemma escape_ref_app : forall k R, escape_ref k ++ R = 34 :: flat_map esc1 k ++ 34 :: R.
Proof. intros. unfold escape_ref. cbn [app]. rewrite <- app_assoc. reflexivity. Qed.

Lemma read_members_wr : forall o cur', opts_ok o = true -> all_ws cur' = true ->
  forall fs k x bx br close rest f,
    RB o x -> Forall (fun kv => RB o (snd kv)) fs ->
    nums_ok x = true -> forallb (fun kv => nums_ok (snd kv)) fs = true ->
    wr o cur' x = Some bx -> wr_fields o cur' false fs = Some br ->
    all_ws close = true ->
    (need_membs ((k, x) :: fs) <= f)%nat ->
    read_members f (escape_ref k ++ o_kvsep o ++ bx ++ br ++ close ++ 125 :: rest) = Some ((k, x) :: fs, rest).
Proof.
  intros o cur' Ho Hcur.
  destruct (opts_ok_parts o Ho) as (_ & _ & Hkv).
  destruct (kvsep_split _ Hkv) as (w1 & w2 & Ekv & Hww1 & Hww2).
  induction fs as [|[k2 x2] fs IH];
    intros k x bx br close rest f HRx HRfs Hnx Hnfs Hwx Hwf Hcl Hf.
  - cbn [wr_fields] in Hwf. inversion Hwf; subst br. cbn [app].
    cbn [need_membs snd] in Hf. destruct f as [|f']; [lia|]. cbn [read_members].
    unfold escape_ref. cbn [app]. change (34 =? 34) with true. cbv iota.
    rewrite <- app_assoc. cbn [app]. rewrite read_str_escaped.
    rewrite Ekv. rewrite <- !app_assoc. rewrite (skip_ws_ws w1 _ Hww1). cbn [app].
    rewrite skip_ws_head by reflexivity. change (58 =? 58) with true. cbv iota.
    rewrite (skip_ws_ws w2 _ Hww2).
    destruct (wr_head _ _ _ _ Hnx Hwx) as (c & t & Ebx & Hc).
    destruct (vstart_facts _ Hc) as (Hws & _).
    rewrite Ebx. cbn [app]. rewrite skip_ws_head by exact Hws.
    change (c :: t ++ close ++ 125 :: rest) with ((c :: t) ++ close ++ 125 :: rest). rewrite <- Ebx.
    rewrite (HRx cur' bx (close ++ 125 :: rest) f' Hcur Hnx Hwx) by first [lia | apply delim_ws_then; [assumption|reflexivity]].
    rewrite (skip_ws_ws close _ Hcl). rewrite skip_ws_head by reflexivity.
    change (125 =? 44) with false. change (125 =? 125) with true. reflexivity.
  - cbn [wr_fields] in Hwf. rewrite escape_is_ref in Hwf.
    destruct (wr o cur' x2) as [bx2|] eqn:Hw2; [|discriminate].
    case_eq (wr_fields o cur' false fs); [intros br2 Hwf2 | intro Hwf2]; rewrite Hwf2 in Hwf; [|discriminate].
    inversion Hwf; subst br. clear Hwf.
    cbn [forallb snd] in Hnfs. apply andb_true_iff in Hnfs. destruct Hnfs as [Hn2 Hnfs].
    inversion HRfs as [|? ? HR2 HRfs']; subst. cbn [snd] in HR2.
    cbn [need_membs snd] in Hf. destruct f as [|f']; [lia|]. cbn [read_members].
    unfold escape_ref at 1. cbn [app]. change (34 =? 34) with true. cbv iota.
    rewrite <- app_assoc. cbn [app]. rewrite read_str_escaped.
    rewrite Ekv at 1. rewrite <- !app_assoc. rewrite (skip_ws_ws w1 _ Hww1). cbn [app].
    rewrite skip_ws_head by reflexivity. change (58 =? 58) with true. cbv iota.
    rewrite (skip_ws_ws w2 _ Hww2).
    destruct (wr_head _ _ _ _ Hnx Hwx) as (c & t & Ebx & Hc).
    destruct (vstart_facts _ Hc) as (Hws & _).
    rewrite Ebx. cbn [app]. rewrite skip_ws_head by exact Hws.
    match goal with |- context [read_value f' (c :: t ++ ?R)] =>
      change (c :: t ++ R) with ((c :: t) ++ R) end.
    rewrite <- Ebx. cbn [comma]. cbn [app].
    rewrite (HRx cur' bx _ f' Hcur Hnx Hwx) by first [lia | reflexivity].
    rewrite skip_ws_head by reflexivity. change (44 =? 44) with true. cbv iota.
    rewrite (skip_ws_ws _ _ (sep_ws o cur' false Ho Hcur)).
    rewrite skip_ws_head by reflexivity.
    repeat rewrite <- app_assoc. cbn [app]. repeat rewrite <- app_assoc.
    rewrite <- escape_ref_app.
    rewrite (IH k2 x2 bx2 br2 close rest f' HR2 HRfs' Hn2 Hnfs Hw2 Hwf2 Hcl) by (cbn [need_membs snd] in *; lia).
    reflexivity.
Qed.

Lemma head_not : forall c, vstart c = true -> (c =? 93) = false /\ (c =? 125) = false.
Proof.
  intros c H. destruct (vstart_facts _ H) as (_ & H1 & H2). split; apply N.eqb_neq; assumption.
Qed.

(** the main induction: for every whitespace-parameterised format the reader gives the value back *)
Lemma read_wr : forall o, opts_ok o = true -> forall v, RB o v.
Proof.
  intros o Ho. destruct (opts_ok_parts o Ho) as (Hpad & Hnl & Hkv).
  induction v using jval_ind2; unfold RB; intros cur out rest f Hcur Hn Hw Hf Hd.
  - (* null *)
    cbn [wr] in Hw. inversion Hw; subst out. destruct f as [|f']; [cbn [need] in Hf; lia|]. reflexivity.
  - (* bool *)
    destruct f as [|f']; [cbn [need] in Hf; lia|].
    destruct b; cbn [wr] in Hw; inversion Hw; subst out; reflexivity.
  - (* number *)
    cbn [wr] in Hw. inversion Hw; subst out. cbn [nums_ok] in Hn.
    destruct f as [|f']; [cbn [need] in Hf; lia|].
    destruct (num_ok_head _ Hn) as (c & t' & E & Hc).
    pose proof (num_run_chars _ _ Hn) as Hchars.
    pose proof (span_num_app t rest Hchars Hd) as Hspan.
    rewrite E in *. cbn [app read_value].
    assert (Hnc : is_num_char c = true).
    { cbn [forallb] in Hchars. apply andb_true_iff in Hchars. tauto. }
    assert (E1 : (c =? 110) = false /\ (c =? 116) = false /\ (c =? 102) = false /\
                 (c =? 34) = false /\ (c =? 91) = false /\ (c =? 123) = false).
    { unfold is_digit in Hc. apply orb_true_iff in Hc. destruct Hc as [Hc|Hc]; b2p; repeat split; neqb. }
    destruct E1 as (-> & -> & -> & -> & -> & ->). rewrite Hnc.
    cbn [app] in Hspan. rewrite Hspan, Hn. reflexivity.
  - (* string *)
    cbn [wr] in Hw. rewrite escape_is_ref in Hw. inversion Hw; subst out.
    destruct f as [|f']; [cbn [need] in Hf; lia|].
    rewrite escape_ref_app. cbn [read_value].
    change (34 =? 110) with false. change (34 =? 116) with false. change (34 =? 102) with false.
    change (34 =? 34) with true. cbv iota. rewrite read_str_escaped. reflexivity.
  - (* array *)
    rewrite wr_arr in Hw. rewrite need_arr in Hf.
    destruct (wr_items o (cur ++ o_padding o) true xs) as [body|] eqn:Hb; [|discriminate].
    inversion Hw; subst out. clear Hw.
    destruct f as [|f']; [lia|].
    assert (Hcur' : all_ws (cur ++ o_padding o) = true) by (rewrite all_ws_app, Hcur, Hpad; reflexivity).
    cbn [app read_value].
    change (91 =? 110) with false. change (91 =? 116) with false. change (91 =? 102) with false.
    change (91 =? 34) with false. change (91 =? 91) with true. cbv iota.
    destruct xs as [|x xs].
    + cbn [wr_items] in Hb. inversion Hb; subst body. cbn [app is_nil].
      rewrite <- app_assoc. rewrite (skip_ws_ws _ _ (closing_ws o cur true Ho Hcur)).
      cbn [app]. rewrite skip_ws_head by reflexivity. change (93 =? 93) with true. reflexivity.
    + cbn [wr_items] in Hb.
      destruct (wr o (cur ++ o_padding o) x) as [bx|] eqn:Hwx; [|discriminate].
      destruct (wr_items o (cur ++ o_padding o) false xs) as [br|] eqn:Hwi; [|discriminate].
      inversion Hb; subst body. clear Hb. cbn [comma app is_nil].
      cbn [nums_ok forallb] in Hn. apply andb_true_iff in Hn. destruct Hn as [Hnx Hnxs].
      inversion H as [|? ? HRx HRxs]; subst.
      repeat rewrite <- app_assoc.
      rewrite (skip_ws_ws _ _ (sep_ws o _ true Ho Hcur')).
      destruct (wr_head _ _ _ _ Hnx Hwx) as (c & t & Ebx & Hc).
      destruct (vstart_facts _ Hc) as (Hws & _). destruct (head_not _ Hc) as (Hc93 & _).
      rewrite Ebx. cbn [app]. rewrite skip_ws_head by exact Hws. rewrite Hc93.
      match goal with |- context [read_elems f' (c :: t ++ ?R)] =>
        change (c :: t ++ R) with ((c :: t) ++ R) end.
      rewrite <- Ebx. cbn [app].
      change ([93] ++ rest) with (93 :: rest).
      rewrite (read_elems_wr o _ Ho Hcur' xs x bx br (closing o cur false) rest f' HRx HRxs Hnx Hnxs Hwx Hwi
                 (closing_ws o cur false Ho Hcur)) by lia.
      reflexivity.
  - (* object *)
    rewrite wr_obj in Hw. rewrite need_obj in Hf.
    destruct (wr_fields o (cur ++ o_padding o) true fs) as [body|] eqn:Hb; [|discriminate].
    inversion Hw; subst out. clear Hw.
    destruct f as [|f']; [lia|].
    assert (Hcur' : all_ws (cur ++ o_padding o) = true) by (rewrite all_ws_app, Hcur, Hpad; reflexivity).
    cbn [app read_value].
    change (123 =? 110) with false. change (123 =? 116) with false. change (123 =? 102) with false.
    change (123 =? 34) with false. change (123 =? 91) with false. change (123 =? 123) with true. cbv iota.
    destruct fs as [|[k x] fs].
    + cbn [wr_fields] in Hb. inversion Hb; subst body. cbn [app is_nil].
      rewrite <- app_assoc. rewrite (skip_ws_ws _ _ (closing_ws o cur true Ho Hcur)).
      cbn [app]. rewrite skip_ws_head by reflexivity. change (125 =? 125) with true. reflexivity.
    + cbn [wr_fields] in Hb. rewrite escape_is_ref in Hb.
      destruct (wr o (cur ++ o_padding o) x) as [bx|] eqn:Hwx; [|discriminate].
      destruct (wr_fields o (cur ++ o_padding o) false fs) as [br|] eqn:Hwf; [|discriminate].
      inversion Hb; subst body. clear Hb. cbn [comma app is_nil].
      cbn [nums_ok forallb snd] in Hn. apply andb_true_iff in Hn. destruct Hn as [Hnx Hnfs].
      inversion H as [|? ? HRx HRfs]; subst. cbn [snd] in HRx.
      repeat rewrite <- app_assoc.
      rewrite (skip_ws_ws _ _ (sep_ws o _ true Ho Hcur')).
      cbn [app]. repeat rewrite <- app_assoc. cbn [app].
      rewrite skip_ws_head by reflexivity.
      change (34 =? 125) with false. cbv iota.
      rewrite <- escape_ref_app. repeat rewrite <- app_assoc.
      rewrite (read_members_wr o _ Ho Hcur' fs k x bx br (closing o cur false) rest f' HRx HRfs Hnx Hnfs Hwx Hwf
                 (closing_ws o cur false Ho Hcur)) by (cbn [need_membs snd] in *; lia).
      reflexivity.
  - (* function *)
    discriminate.
Qed.

(* ------------------------------------------------------------------ fuel suffices *)

Definition LenNeed (o : opts) (v : jval) : Prop :=
  forall cur out, nums_ok v = true -> wr o cur v = Some out -> (need v + 2 <= 3 * length out)%nat.

Lemma items_need : forall o cur' xs, Forall (LenNeed o) xs ->
  forall first body, forallb nums_ok xs = true -> wr_items o cur' first xs = Some body ->
  (need_elems xs <= 3 * length body)%nat.
Proof.
  intros o cur'. induction xs as [|x xs IH]; intros HF first body Hn Hw.
  - cbn [need_elems]. lia.
  - cbn [wr_items] in Hw.
    destruct (wr o cur' x) as [bx|] eqn:E1; [|discriminate].
    destruct (wr_items o cur' false xs) as [br|] eqn:E2; [|discriminate].
    inversion Hw; subst body. inversion HF as [|? ? Hx Hxs]; subst.
    cbn [forallb] in Hn. apply andb_true_iff in Hn. destruct Hn as [Hnx Hnxs].
    pose proof (Hx cur' bx Hnx E1). pose proof (IH Hxs false br Hnxs E2).
    cbn [need_elems]. rewrite !app_length. lia.
Qed.

Lemma fields_need : forall o cur' fs, Forall (fun kv => LenNeed o (snd kv)) fs ->
  forall first body, forallb (fun kv => nums_ok (snd kv)) fs = true -> wr_fields o cur' first fs = Some body ->
  (need_membs fs <= 3 * length body)%nat.
Proof.
  intros o cur'. induction fs as [|[k x] fs IH]; intros HF first body Hn Hw.
  - cbn [need_membs]. lia.
  - cbn [wr_fields] in Hw. rewrite escape_is_ref in Hw.
    destruct (wr o cur' x) as [bx|] eqn:E1; [|discriminate].
    destruct (wr_fields o cur' false fs) as [br|] eqn:E2; [|discriminate].
    inversion Hw; subst body. inversion HF as [|? ? Hx Hxs]; subst. cbn [snd] in Hx.
    cbn [forallb snd] in Hn. apply andb_true_iff in Hn. destruct Hn as [Hnx Hnxs].
    pose proof (Hx cur' bx Hnx E1). pose proof (IH Hxs false br Hnxs E2).
    cbn [need_membs snd]. repeat (rewrite app_length || cbn [length app]). lia.
Qed.

Lemma wr_len_need : forall o v, LenNeed o v.
Proof.
  intro o. induction v using jval_ind2; unfold LenNeed; intros cur out Hn Hw.
  - inversion Hw; subst. cbn. lia.
  - destruct b; inversion Hw; subst; cbn; lia.
  - cbn [wr] in Hw. inversion Hw; subst. cbn [nums_ok] in Hn.
    destruct (num_ok_head _ Hn) as (c & t' & E & _). subst. cbn [need length]. lia.
  - cbn [wr] in Hw. rewrite escape_is_ref in Hw. inversion Hw; subst.
    unfold escape_ref. cbn [need]. repeat (rewrite app_length || cbn [length app]). lia.
  - rewrite wr_arr in Hw. destruct (wr_items o (cur ++ o_padding o) true xs) as [body|] eqn:E; [|discriminate].
    inversion Hw; subst. cbn [nums_ok] in Hn. pose proof (items_need o _ xs H true body Hn E).
    rewrite need_arr. repeat (rewrite app_length || cbn [length app]). lia.
  - rewrite wr_obj in Hw. destruct (wr_fields o (cur ++ o_padding o) true fs) as [body|] eqn:E; [|discriminate].
    inversion Hw; subst. cbn [nums_ok] in Hn. pose proof (fields_need o _ fs H true body Hn E).
    rewrite need_obj. repeat (rewrite app_length || cbn [length app]). lia.
  - discriminate.
Qed.

Lemma read_back : forall o v out,
  opts_ok o = true -> nums_ok v = true -> manifest o v = Some out -> json_read out = Some v.
Proof.
  intros o v out Ho Hn Hw. unfold manifest in Hw. unfold json_read.
  destruct (wr_head _ _ _ _ Hn Hw) as (c & t & E & Hc). destruct (vstart_facts _ Hc) as (Hws & _).
  pose proof (wr_len_need o v [] out Hn Hw) as Hlen.
  pose proof (read_wr o Ho v [] out [] (3 * length out + 3)%nat eq_refl Hn Hw) as H.
  rewrite app_nil_r in H.
  assert (Hs : skip_ws out = out) by (rewrite E; apply skip_ws_head; exact Hws).
  rewrite Hs, H by (try lia; exact I). reflexivity.
Qed.

(* ------------------------------------------------------------------ functions are rejected, everything else is written *)

Definition FunIff (o : opts) (v : jval) : Prop := forall cur, wr o cur v = None <-> has_fun v = true.

Lemma items_fun : forall o cur' xs, Forall (FunIff o) xs ->
  forall first, wr_items o cur' first xs = None <-> existsb has_fun xs = true.
Proof.
  intros o cur'. induction xs as [|x xs IH]; intros HF first; cbn [wr_items existsb].
  - split; discriminate.
  - inversion HF as [|? ? Hx Hxs]; subst. specialize (IH Hxs false). destruct (Hx cur') as [A B].
    destruct (wr o cur' x) as [bx|] eqn:E1.
    + assert (Hf : has_fun x = false).
      { destruct (has_fun x); [specialize (B eq_refl); discriminate | reflexivity]. }
      rewrite Hf. cbn [orb].
      destruct (wr_items o cur' false xs) as [br|] eqn:E2.
      * split; [discriminate|]. intro K. apply IH in K. discriminate.
      * split; [intros _; apply IH; reflexivity | reflexivity].
    + rewrite (A eq_refl). split; reflexivity.
Qed.

Lemma fields_fun : forall o cur' fs, Forall (fun kv => FunIff o (snd kv)) fs ->
  forall first, wr_fields o cur' first fs = None <-> existsb (fun kv => has_fun (snd kv)) fs = true.
Proof.
  intros o cur'. induction fs as [|[k x] fs IH]; intros HF first; cbn [wr_fields existsb snd].
  - split; discriminate.
  - inversion HF as [|? ? Hx Hxs]; subst. cbn [snd] in Hx. specialize (IH Hxs false). destruct (Hx cur') as [A B].
    rewrite escape_is_ref.
    destruct (wr o cur' x) as [bx|] eqn:E1.
    + assert (Hf : has_fun x = false).
      { destruct (has_fun x); [specialize (B eq_refl); discriminate | reflexivity]. }
      rewrite Hf. cbn [orb].
      destruct (wr_fields o cur' false fs) as [br|] eqn:E2.
      * split; [discriminate|]. intro K. apply IH in K. discriminate.
      * split; [intros _; apply IH; reflexivity | reflexivity].
    + rewrite (A eq_refl). split; reflexivity.
Qed.

Lemma wr_fun : forall o v, FunIff o v.
Proof.
  intro o. induction v using jval_ind2; unfold FunIff; intro cur.
  - split; discriminate.
  - destruct b; split; discriminate.
  - split; discriminate.
  - cbn [wr has_fun]. rewrite escape_is_ref. split; discriminate.
  - rewrite wr_arr. cbn [has_fun]. rewrite <- (items_fun o (cur ++ o_padding o) xs H true).
    destruct (wr_items o (cur ++ o_padding o) true xs); split; try discriminate; reflexivity.
  - rewrite wr_obj. cbn [has_fun]. rewrite <- (fields_fun o (cur ++ o_padding o) fs H true).
    destruct (wr_fields o (cur ++ o_padding o) true fs); split; try discriminate; reflexivity.
  - split; reflexivity.
Qed.

(* ------------------------------------------------------------------ the concrete formats are within the theorem's scope *)

Lemma all_ws_rep : forall n u, all_ws u = true -> all_ws (rep_bytes n u) = true.
Proof. induction n; intros u H; [reflexivity|]. cbn [rep_bytes]. rewrite all_ws_app, H, (IHn u H). reflexivity. Qed.

Lemma fmt_cli_ok : forall n, opts_ok (fmt_cli n) = true.
Proof.
  destruct n as [|n]; [vm_compute; reflexivity|].
  unfold fmt_cli, opts_ok. cbn [preset_cli o_padding o_newline o_kvsep].
  rewrite (all_ws_rep (S n) preset_cli_unit) by (vm_compute; reflexivity).
  vm_compute. reflexivity.
Qed.

Lemma fmt_std_ok : forall i n k, all_ws i = true -> all_ws n = true -> kvsep_ok k = true ->
  opts_ok (fmt_std i n k) = true.
Proof. intros i n k Hi Hn Hk. unfold fmt_std, opts_ok. cbn [o_padding o_newline o_kvsep]. rewrite Hi, Hn, Hk. reflexivity. Qed.

Lemma fixed_formats_ok :
  forallb opts_ok [fmt_default; fmt_minify; fmt_to_string; fmt_std_default] = true.
Proof. vm_compute. reflexivity. Qed.

(* ------------------------------------------------------------------ statements as they appear in Properties.v *)

Lemma p_table : Nat.eqb (length escape_table) 256 && forallb entry_ok (map N.of_nat (seq 0 256)) = true.
Proof. exact table_ok_true. Qed.

Lemma p_escape_impl_is_map : forall bs buf,
  escape_buf bs buf = Some (buf ++ 34 :: flat_map esc1 bs ++ [34]).
Proof. intros. rewrite escape_buf_is_ref. reflexivity. Qed.

Lemma p_escape_roundtrip : forall bs,
  exists out, escape bs = Some out /\ json_unescape out = Some bs /\
              Forall (fun c => 32 <= c) out /\ hd 0 out = 34 /\ last out 0 = 34.
Proof.
  intro bs. exists (escape_ref bs). split; [apply escape_is_ref|].
  split; [apply unescape_escape_ref|]. split; [apply escape_ref_no_control|].
  split; [reflexivity|]. unfold escape_ref.
  change (34 :: flat_map esc1 bs ++ [34]) with ((34 :: flat_map esc1 bs) ++ [34]). apply last_last.
Qed.

Lemma p_escape_utf8 : forall bs out, escape bs = Some out ->
  filter (fun c => 128 <=? c) out = filter (fun c => 128 <=? c) bs /\ (utf8 bs -> utf8 out).
Proof.
  intros bs out H. rewrite escape_is_ref in H. inversion H; subst. split.
  - apply escape_ref_high.
  - apply escape_ref_utf8.
Qed.

Lemma p_function_rejected : forall v ex, has_fun v = true ->
  forall r, In r (all_paths v ex) -> r = None.
Proof.
  intros v ex Hf r Hin.
  assert (W : forall o, manifest o v = None) by (intro o; unfold manifest; apply wr_fun; exact Hf).
  assert (T : to_string_format v = None) by (destruct v; try discriminate; apply W).
  assert (S : val_to_string v = None) by (destruct v; try discriminate; apply T).
  unfold all_paths in Hin. apply in_app_or in Hin. destruct Hin as [Hin|Hin].
  - cbn [In] in Hin.
    repeat (destruct Hin as [Hin|Hin]; [subst r; first [apply W | exact T | exact S]|]). contradiction.
  - apply in_map_iff in Hin. destruct Hin as ([[i n] k] & E & _). subst r. apply W.
Qed.

Lemma p_writer_total : forall o cur v, has_fun v = false -> exists out, wr o cur v = Some out.
Proof.
  intros o cur v H. destruct (wr o cur v) as [out|] eqn:E; [eauto|].
  apply wr_fun in E. congruence.
Qed.

Definition ex_ok (e : bytes * bytes * bytes) : bool :=
  let '(i, n, k) := e in all_ws i && all_ws n && kvsep_ok k.

Lemma p_all_paths_read_back : forall v ex,
  nums_ok v = true -> (forall s, v <> JStr s) -> forallb ex_ok ex = true ->
  forall out, In (Some out) (all_paths v ex) -> json_read out = Some v.
Proof.
  intros v ex Hn Hs Hex out Hin.
  assert (R : forall o, opts_ok o = true -> manifest o v = Some out -> json_read out = Some v)
    by (intros o Ho Hm; exact (read_back o v out Ho Hn Hm)).
  pose proof fixed_formats_ok as F. cbn [forallb] in F. b2p.
  assert (T : to_string_format v = Some out -> json_read out = Some v).
  { destruct v; try (apply R; assumption). exfalso. eapply Hs. reflexivity. }
  assert (S : val_to_string v = Some out -> json_read out = Some v).
  { destruct v; exact T. }
  unfold all_paths in Hin. apply in_app_or in Hin. destruct Hin as [Hin|Hin].
  - cbn [In] in Hin.
    destruct Hin as [E|Hin]; [apply (R fmt_default); assumption|].
    destruct Hin as [E|Hin]; [apply (R fmt_minify); assumption|].
    destruct Hin as [E|Hin]; [apply (R (fmt_cli 0)); [apply fmt_cli_ok|assumption]|].
    destruct Hin as [E|Hin]; [apply (R (fmt_cli 1)); [apply fmt_cli_ok|assumption]|].
    destruct Hin as [E|Hin]; [apply (R (fmt_cli 2)); [apply fmt_cli_ok|assumption]|].
    destruct Hin as [E|Hin]; [apply (R (fmt_cli 3)); [apply fmt_cli_ok|assumption]|].
    destruct Hin as [E|Hin]; [apply (R (fmt_cli 4)); [apply fmt_cli_ok|assumption]|].
    destruct Hin as [E|Hin]; [apply T; assumption|].
    destruct Hin as [E|Hin]; [apply S; assumption|].
    destruct Hin as [E|Hin]; [apply (R fmt_std_default); assumption|]. contradiction.
  - apply in_map_iff in Hin. destruct Hin as ([[i n] k] & E & Hi).
    rewrite forallb_forall in Hex. specialize (Hex _ Hi). unfold ex_ok in Hex. b2p.
    apply (R (fmt_std i n k)); [apply fmt_std_ok; assumption|assumption].
Qed.

Lemma p_cli_read_back : forall n v out,
  nums_ok v = true -> manifest (fmt_cli n) v = Some out -> json_read out = Some v.
Proof. intros n v out Hn Hm. exact (read_back _ v out (fmt_cli_ok n) Hn Hm). Qed.

Lemma p_to_string_raw : forall s, val_to_string (JStr s) = Some s /\ to_string_format (JStr s) = Some s.
Proof. intro s. split; reflexivity. Qed.

Lemma p_keys : forall o fs out,
  opts_ok o = true -> nums_ok (JObj fs) = true -> manifest o (JObj fs) = Some out ->
  exists v', json_read out = Some v' /\ keys_of v' = map fst fs /\
             (ascending (map fst fs) = true -> ascending (keys_of v') = true).
Proof.
  intros o fs out Ho Hn Hm. exists (JObj fs). split; [exact (read_back o _ out Ho Hn Hm)|].
  split; [reflexivity|]. intro H. exact H.
Qed.
