(** C05 — JSON manifestation is well-formed and faithful.

    IMPL-MODEL: byte-level transliteration of crates/jrsonnet-evaluator/src/manifest.rs:
    [esc_loop]/[escape_buf] = escape_string_json_buf (table walk with the `start` flush index,
    `unreachable!()` = [None]); [wr] = manifest_json_ex_buf for the four formatting modes with
    arbitrary padding / newline / key_val_sep and the hand-threaded [cur_padding];
    [to_string_format] = ToStringFormat, [val_to_string] = Val::to_string.
    The table, the escape arms and the JsonFormat presets come from Gen/GenEscape.v, which the
    translator regenerates from the working tree on every run.

    SPEC: [json_read], an RFC 8259 reader written from the RFC (value grammar, insignificant
    whitespace, every string escape incl. surrogate pairs, the number grammar as a DFA), and
    [utf8] = RFC 3629 well-formedness.  Numbers are opaque tokens constrained by the grammar.

    Definitions only; proofs live in Proofs.v. *)
From Coq Require Import List NArith Bool Arith.
From JrV Require Import Gen.GenEscape.
Import ListNotations.
Open Scope N_scope.

Definition bytes := list N.

(** Values as the writer sees them: an object is the sequence of (name, value) pairs that
    [ObjValue::iter] yields (visible fields in the order C02's [fields] lists them). *)
Inductive jval :=
| JNull
| JBool (b : bool)
| JNum (tok : bytes)          (* the text `write!(buf, "{n}")` produces; opaque *)
| JStr (s : bytes)            (* UTF-8 bytes *)
| JArr (xs : list jval)
| JObj (fs : list (bytes * jval))
| JFun.

(* ------------------------------------------------------------------ IMPL-MODEL: escaper *)

Definition tbl (b : N) : N := nth (N.to_nat b) escape_table 0.
Definition hexd (n : N) : N := nth (N.to_nat n) hex_digits 0.

(** `match escape { BB|TT|.. => [b'\\', escape], UU => \u00XX, _ => unreachable!() }` *)
Definition esc_seq (b e : N) : option bytes :=
  if existsb (N.eqb e) esc_short then Some [92; e]
  else if e =? esc_u then Some (esc_u_prefix ++ [hexd (N.shiftr b 4); hexd (N.land b 15)])
  else None.

(** `&bytes[s..e]` *)
Definition slice (all : bytes) (s e : nat) : bytes := firstn (e - s) (skipn s all).

(** the `for (i, &byte) in bytes.iter().enumerate()` loop and the tail flush; [rest] is the
    part of [all] not yet visited, [i] its index, [start] the first byte not yet copied. *)
Fixpoint esc_loop (all rest : bytes) (i start : nat) (buf : bytes) : option bytes :=
  match rest with
  | [] =>
      if Nat.eqb start (length all) then Some (buf ++ [34])
      else Some ((buf ++ skipn start all) ++ [34])
  | b :: rest' =>
      let e := tbl b in
      if e =? 0 then esc_loop all rest' (S i) start buf
      else
        let buf1 := if Nat.ltb start i then buf ++ slice all start i else buf in
        match esc_seq b e with
        | None => None
        | Some sq => esc_loop all rest' (S i) (S i) (buf1 ++ sq)
        end
  end.

Definition escape_buf (value buf : bytes) : option bytes := esc_loop value value 0 0 (buf ++ [34]).
Definition escape (value : bytes) : option bytes := escape_buf value [].

(* ------------------------------------------------------------------ IMPL-MODEL: writer *)

Inductive mtype := Manifest | Std | ToString | Minify.

Record opts := mkOpts { o_mtype : mtype; o_padding : bytes; o_newline : bytes; o_kvsep : bytes }.

(** what is pushed before an element / field (after the `,`) *)
Definition sep_before (o : opts) (cur : bytes) (first : bool) : bytes :=
  match o_mtype o with
  | Manifest | Std => o_newline o ++ cur
  | ToString => if first then [] else [32]
  | Minify => []
  end.

(** what is pushed between the last element and the closing bracket; [cur] is the padding
    after `truncate(old_len)` *)
Definition closing (o : opts) (cur : bytes) (empty : bool) : bytes :=
  match o_mtype o with
  | Manifest => if empty then [32] else o_newline o ++ cur
  | ToString => if empty then [32] else []
  | Std => (if empty then o_newline o else []) ++ o_newline o ++ cur
  | Minify => []
  end.

Definition comma (first : bool) : bytes := if first then [] else [44].

Definition is_nil {A} (l : list A) : bool := match l with [] => true | _ => false end.

(** manifest_json_ex_buf: [Some] the bytes appended to [buf], [None] = `bail!`/panic. *)
Fixpoint wr (o : opts) (cur : bytes) (v : jval) : option bytes :=
  match v with
  | JBool true => Some [116; 114; 117; 101]
  | JBool false => Some [102; 97; 108; 115; 101]
  | JNull => Some [110; 117; 108; 108]
  | JStr s => escape s
  | JNum tok => Some tok
  | JArr xs =>
      let cur' := cur ++ o_padding o in
      let fix items (first : bool) (xs : list jval) : option bytes :=
        match xs with
        | [] => Some []
        | x :: xs' =>
            match wr o cur' x, items false xs' with
            | Some bx, Some br => Some (comma first ++ sep_before o cur' first ++ bx ++ br)
            | _, _ => None
            end
        end in
      match items true xs with
      | Some body => Some ([91] ++ body ++ closing o cur (is_nil xs) ++ [93])
      | None => None
      end
  | JObj fs =>
      let cur' := cur ++ o_padding o in
      let fix fields (first : bool) (fs : list (bytes * jval)) : option bytes :=
        match fs with
        | [] => Some []
        | (k, x) :: fs' =>
            match escape k, wr o cur' x, fields false fs' with
            | Some bk, Some bx, Some br =>
                Some (comma first ++ sep_before o cur' first ++ bk ++ o_kvsep o ++ bx ++ br)
            | _, _, _ => None
            end
        end in
      match fields true fs with
      | Some body => Some ([123] ++ body ++ closing o cur (is_nil fs) ++ [125])
      | None => None
      end
  | JFun => None
  end.

Definition manifest (o : opts) (v : jval) : option bytes := wr o [] v.

Definition mtype_of (n : N) : mtype :=
  if n =? 0 then Manifest else if n =? 1 then Std else if n =? 2 then ToString else Minify.

Definition opts_of (p : N * list N * list N * list N) : opts :=
  let '(m, pad, nl, kv) := p in mkOpts (mtype_of m) pad nl kv.

Definition fmt_default : opts := opts_of preset_default.
Definition fmt_minify : opts := opts_of preset_minify.
Definition fmt_to_string : opts := opts_of preset_to_string.
Fixpoint rep_bytes (n : nat) (u : bytes) : bytes := match n with O => [] | S n' => u ++ rep_bytes n' u end.
(** JsonFormat::cli(n) *)
Definition fmt_cli (n : nat) : opts :=
  match n with
  | O => fmt_minify
  | _ => let '(m, _, nl, kv) := preset_cli in mkOpts (mtype_of m) (rep_bytes n preset_cli_unit) nl kv
  end.
(** JsonFormat::std_to_json(indent, newline, key_val_sep) = std.manifestJsonEx *)
Definition fmt_std (indent newline kvsep : bytes) : opts := mkOpts (mtype_of preset_std_mtype) indent newline kvsep.
(** std.manifestJson *)
Definition fmt_std_default : opts := fmt_std std_manifest_json_indent std_default_newline std_default_kvsep.

(** ToStringFormat::manifest_buf *)
Definition to_string_format (v : jval) : option bytes :=
  match v with
  | JStr s => Some s
  | _ => manifest fmt_to_string v
  end.

(** Val::to_string (std.toString, string concatenation with a non-string) *)
Definition val_to_string (v : jval) : option bytes :=
  match v with
  | JBool true => Some [116; 114; 117; 101]
  | JBool false => Some [102; 97; 108; 115; 101]
  | JNull => Some [110; 117; 108; 108]
  | JStr s => Some s
  | _ => to_string_format v
  end.

Fixpoint has_fun (v : jval) : bool :=
  match v with
  | JFun => true
  | JArr xs => existsb has_fun xs
  | JObj fs => existsb (fun kv => has_fun (snd kv)) fs
  | _ => false
  end.

(* ------------------------------------------------------------------ SPEC: RFC 8259 reader *)

Definition is_ws (b : N) : bool := (b =? 32) || (b =? 10) || (b =? 13) || (b =? 9).

Fixpoint skip_ws (bs : bytes) : bytes :=
  match bs with
  | b :: r => if is_ws b then skip_ws r else bs
  | [] => []
  end.

(** number = [ minus ] int [ frac ] [ exp ]  as a DFA *)
Inductive nst := NStart | NMinus | NZero | NInt | NDot | NFrac | NExp | NSign | NExpD.

Definition is_digit (b : N) : bool := (48 <=? b) && (b <=? 57).
Definition is_digit19 (b : N) : bool := (49 <=? b) && (b <=? 57).

Definition num_step (s : nst) (b : N) : option nst :=
  match s with
  | NStart => if b =? 45 then Some NMinus else if b =? 48 then Some NZero
              else if is_digit19 b then Some NInt else None
  | NMinus => if b =? 48 then Some NZero else if is_digit19 b then Some NInt else None
  | NZero => if b =? 46 then Some NDot else if (b =? 101) || (b =? 69) then Some NExp else None
  | NInt => if is_digit b then Some NInt else if b =? 46 then Some NDot
            else if (b =? 101) || (b =? 69) then Some NExp else None
  | NDot => if is_digit b then Some NFrac else None
  | NFrac => if is_digit b then Some NFrac else if (b =? 101) || (b =? 69) then Some NExp else None
  | NExp => if (b =? 43) || (b =? 45) then Some NSign else if is_digit b then Some NExpD else None
  | NSign => if is_digit b then Some NExpD else None
  | NExpD => if is_digit b then Some NExpD else None
  end.

Definition num_accept (s : nst) : bool :=
  match s with NZero | NInt | NFrac | NExpD => true | _ => false end.

Fixpoint num_run (s : nst) (bs : bytes) : bool :=
  match bs with
  | [] => num_accept s
  | b :: r => match num_step s b with Some s' => num_run s' r | None => false end
  end.

Definition num_ok (tok : bytes) : bool := num_run NStart tok.

(** characters that can occur in a number token; the reader takes the maximal run *)
Definition is_num_char (b : N) : bool :=
  is_digit b || (b =? 45) || (b =? 43) || (b =? 46) || (b =? 101) || (b =? 69).

Fixpoint span_num (bs : bytes) : bytes * bytes :=
  match bs with
  | b :: r => if is_num_char b then let '(t, r') := span_num r in (b :: t, r') else ([], bs)
  | [] => ([], [])
  end.

Definition hexval (b : N) : option N :=
  if is_digit b then Some (b - 48)
  else if (97 <=? b) && (b <=? 102) then Some (b - 87)
  else if (65 <=? b) && (b <=? 70) then Some (b - 55)
  else None.

Definition hex4 (a b c d : N) : option N :=
  match hexval a, hexval b, hexval c, hexval d with
  | Some x, Some y, Some z, Some w => Some (x * 4096 + y * 256 + z * 16 + w)
  | _, _, _, _ => None
  end.

(** RFC 3629 encoder *)
Definition utf8_enc (c : N) : bytes :=
  if c <? 128 then [c]
  else if c <? 2048 then [192 + c / 64; 128 + c mod 64]
  else if c <? 65536 then [224 + c / 4096; 128 + (c / 64) mod 64; 128 + c mod 64]
  else [240 + c / 262144; 128 + (c / 4096) mod 64; 128 + (c / 64) mod 64; 128 + c mod 64].

Definition is_high (c : N) : bool := (55296 <=? c) && (c <=? 56319).
Definition is_low (c : N) : bool := (56320 <=? c) && (c <=? 57343).

(** backslash followed by one of: quote, backslash, slash, b f n r t *)
Definition simple_esc (e : N) : option N :=
  if e =? 34 then Some 34 else if e =? 92 then Some 92 else if e =? 47 then Some 47
  else if e =? 98 then Some 8 else if e =? 102 then Some 12 else if e =? 110 then Some 10
  else if e =? 114 then Some 13 else if e =? 116 then Some 9 else None.

Definition prepend (p : bytes) (r : option (bytes * bytes)) : option (bytes * bytes) :=
  match r with Some (s, rest) => Some (p ++ s, rest) | None => None end.

(** the characters of a string after the opening quote, up to and including the closing
    quote: the decoded UTF-8 bytes and the remaining input *)
Fixpoint read_str (bs : bytes) : option (bytes * bytes) :=
  match bs with
  | [] => None
  | b :: r =>
      if b =? 34 then Some ([], r)
      else if b =? 92 then
        match r with
        | [] => None
        | e :: r1 =>
            if e =? 117 then
              match r1 with
              | h1 :: h2 :: h3 :: h4 :: r2 =>
                  match hex4 h1 h2 h3 h4 with
                  | None => None
                  | Some cp =>
                      if is_high cp then
                        match r2 with
                        | b1 :: b2 :: g1 :: g2 :: g3 :: g4 :: r3 =>
                            if (b1 =? 92) && (b2 =? 117) then
                              match hex4 g1 g2 g3 g4 with
                              | Some lo =>
                                  if is_low lo
                                  then prepend (utf8_enc (65536 + (cp - 55296) * 1024 + (lo - 56320)))
                                               (read_str r3)
                                  else None
                              | None => None
                              end
                            else None
                        | _ => None
                        end
                      else if is_low cp then None
                      else prepend (utf8_enc cp) (read_str r2)
                  end
              | _ => None
              end
            else
              match simple_esc e with
              | Some c => prepend [c] (read_str r1)
              | None => None
              end
        end
      else if b <? 32 then None
      else prepend [b] (read_str r)
  end.

(** a complete JSON string text -> its content *)
Definition json_unescape (bs : bytes) : option bytes :=
  match bs with
  | q :: r => if q =? 34 then match read_str r with Some (s, []) => Some s | _ => None end else None
  | [] => None
  end.

Definition lit (w : bytes) (v : jval) (bs : bytes) : option (jval * bytes) :=
  if forallb (fun p => fst p =? snd p) (combine w (firstn (length w) bs)) && (length w <=? length bs)%nat
  then Some (v, skipn (length w) bs) else None.

(** value / elements / members; [bs] has no leading whitespace.  Fuel bounds the nesting. *)
Fixpoint read_value (f : nat) (bs : bytes) {struct f} : option (jval * bytes) :=
  match f with
  | O => None
  | S f' =>
      match bs with
      | [] => None
      | b :: r =>
          if b =? 110 then lit [117; 108; 108] JNull r
          else if b =? 116 then lit [114; 117; 101] (JBool true) r
          else if b =? 102 then lit [97; 108; 115; 101] (JBool false) r
          else if b =? 34 then
            match read_str r with Some (s, r') => Some (JStr s, r') | None => None end
          else if b =? 91 then
            match skip_ws r with
            | [] => None
            | c :: r2 =>
                if c =? 93 then Some (JArr [], r2)
                else match read_elems f' (c :: r2) with
                     | Some (xs, r') => Some (JArr xs, r')
                     | None => None
                     end
            end
          else if b =? 123 then
            match skip_ws r with
            | [] => None
            | c :: r2 =>
                if c =? 125 then Some (JObj [], r2)
                else match read_members f' (c :: r2) with
                     | Some (fs, r') => Some (JObj fs, r')
                     | None => None
                     end
            end
          else if is_num_char b then
            let '(tok, r') := span_num bs in
            if num_ok tok then Some (JNum tok, r') else None
          else None
      end
  end
with read_elems (f : nat) (bs : bytes) {struct f} : option (list jval * bytes) :=
  match f with
  | O => None
  | S f' =>
      match read_value f' bs with
      | None => None
      | Some (x, r) =>
          match skip_ws r with
          | [] => None
          | c :: r1 =>
              if c =? 44 then
                match read_elems f' (skip_ws r1) with
                | Some (xs, r') => Some (x :: xs, r')
                | None => None
                end
              else if c =? 93 then Some ([x], r1)
              else None
          end
      end
  end
with read_members (f : nat) (bs : bytes) {struct f} : option (list (bytes * jval) * bytes) :=
  match f with
  | O => None
  | S f' =>
      match bs with
      | [] => None
      | q :: r =>
          if q =? 34 then
            match read_str r with
            | None => None
            | Some (k, r1) =>
                match skip_ws r1 with
                | [] => None
                | c :: r2 =>
                    if c =? 58 then
                      match read_value f' (skip_ws r2) with
                      | None => None
                      | Some (x, r3) =>
                          match skip_ws r3 with
                          | [] => None
                          | d :: r4 =>
                              if d =? 44 then
                                match read_members f' (skip_ws r4) with
                                | Some (fs, r') => Some ((k, x) :: fs, r')
                                | None => None
                                end
                              else if d =? 125 then Some ([(k, x)], r4)
                              else None
                          end
                      end
                    else None
                end
            end
          else None
      end
  end.

(** JSON-text = ws value ws.  Fuel bounds the nesting; three units per input byte are ample. *)
Definition json_read (bs : bytes) : option jval :=
  match read_value (3 * length bs + 3) (skip_ws bs) with
  | Some (v, r) => match skip_ws r with [] => Some v | _ => None end
  | None => None
  end.

(* ------------------------------------------------------------------ escaper: reference form and table conditions *)

(** what one input byte turns into, read off the table *)
Definition esc1 (b : N) : bytes :=
  let e := tbl b in
  if e =? 0 then [b] else match esc_seq b e with Some s => s | None => [] end.

(** the escaper as a plain map over the bytes (no indices, no flushing) *)
Definition escape_ref (bs : bytes) : bytes := 34 :: flat_map esc1 bs ++ [34].

(** [sq] is an RFC 8259 escape spelling of the single byte [b] *)
Definition seq_decodes (sq : bytes) (b : N) : bool :=
  match sq with
  | [bs; e] =>
      (bs =? 92) && negb (e =? 117) && match simple_esc e with Some c => c =? b | None => false end
  | [bs; u; h1; h2; h3; h4] =>
      (bs =? 92) && (u =? 117)
      && match hex4 h1 h2 h3 h4 with Some cp => (cp =? b) && (cp <? 128) | None => false end
  | _ => false
  end.

Definition printable_ascii (c : N) : bool := (32 <=? c) && (c <? 127).

(** the decidable condition on one table entry that the general theorems need:
    unescaped bytes are legal raw string characters; escaped bytes are ASCII, their arm exists
    (no `unreachable!()`), and the sequence is a printable-ASCII spelling of that byte *)
Definition entry_ok (b : N) : bool :=
  let e := tbl b in
  if e =? 0 then (32 <=? b) && negb (b =? 34) && negb (b =? 92)
  else match esc_seq b e with
       | Some sq => (b <? 128) && forallb printable_ascii sq && seq_decodes sq b
       | None => false
       end.

Definition table_ok : bool :=
  Nat.eqb (length escape_table) 256 && forallb entry_ok (map N.of_nat (seq 0 256)).

(* ------------------------------------------------------------------ SPEC: side conditions *)

(** every number token in the value obeys the RFC grammar *)
Fixpoint nums_ok (v : jval) : bool :=
  match v with
  | JNum tok => num_ok tok
  | JArr xs => forallb nums_ok xs
  | JObj fs => forallb (fun kv => nums_ok (snd kv)) fs
  | _ => true
  end.

Definition all_ws (bs : bytes) : bool := forallb is_ws bs.

(** key_val_sep = ws ":" ws *)
Definition kvsep_ok (kv : bytes) : bool :=
  match skip_ws kv with
  | c :: r => (c =? 58) && all_ws r
  | [] => false
  end.

(** the formatting parameters for which the property speaks ("any whitespace indent") *)
Definition opts_ok (o : opts) : bool :=
  all_ws (o_padding o) && all_ws (o_newline o) && kvsep_ok (o_kvsep o).

(** RFC 3629 well-formed byte sequences (table 3-7 of Unicode / the RFC's ABNF) *)
Definition in_rng (lo hi b : N) : bool := (lo <=? b) && (b <=? hi).
Definition is_tail (b : N) : bool := in_rng 128 191 b.

Definition mb_seq (s : bytes) : bool :=
  match s with
  | [a; b] => in_rng 194 223 a && is_tail b
  | [a; b; c] =>
      ((a =? 224) && in_rng 160 191 b && is_tail c)
      || (in_rng 225 236 a && is_tail b && is_tail c)
      || ((a =? 237) && in_rng 128 159 b && is_tail c)
      || (in_rng 238 239 a && is_tail b && is_tail c)
  | [a; b; c; d] =>
      ((a =? 240) && in_rng 144 191 b && is_tail c && is_tail d)
      || (in_rng 241 243 a && is_tail b && is_tail c && is_tail d)
      || ((a =? 244) && in_rng 128 143 b && is_tail c && is_tail d)
  | _ => false
  end.

Inductive utf8 : bytes -> Prop :=
| utf8_nil : utf8 []
| utf8_ascii b r : b < 128 -> utf8 r -> utf8 (b :: r)
| utf8_multi s r : mb_seq s = true -> utf8 r -> utf8 (s ++ r).

(** executable UTF-8 validity (used by the correspondence and pinned against [utf8]) *)
Fixpoint utf8_check (f : nat) (bs : bytes) : bool :=
  match f with
  | O => is_nil bs
  | S f' =>
      match bs with
      | [] => true
      | a :: r =>
          if a <? 128 then utf8_check f' r
          else match r with
               | b :: r2 =>
                   if mb_seq [a; b] then utf8_check f' r2
                   else match r2 with
                        | c :: r3 =>
                            if mb_seq [a; b; c] then utf8_check f' r3
                            else match r3 with
                                 | d :: r4 => if mb_seq [a; b; c; d] then utf8_check f' r4 else false
                                 | [] => false
                                 end
                        | [] => false
                        end
               | [] => false
               end
      end
  end.

(** ascending byte-wise (= code point) order of object names *)
Fixpoint bytes_lt (a b : bytes) : bool :=
  match a, b with
  | [], [] => false
  | [], _ :: _ => true
  | _ :: _, [] => false
  | x :: a', y :: b' => if x <? y then true else if y <? x then false else bytes_lt a' b'
  end.

Fixpoint ascending (ks : list bytes) : bool :=
  match ks with
  | a :: ((b :: _) as r) => bytes_lt a b && ascending r
  | _ => true
  end.

Definition keys_of (v : jval) : list bytes :=
  match v with JObj fs => map fst fs | _ => [] end.

(* ------------------------------------------------------------------ correspondence entry point *)

(** (length, sum, sum of prefix sums) of a text: the correspondence compares these instead of
    printing every byte (Coq's parser/printer is the bottleneck); a mismatch is re-run in full. *)
Definition digest (bs : bytes) : N * N * N :=
  let '(a, c) := fold_left (fun '(a, c) b => let a' := a + b + 1 in (a', c + a')) bs (0, 0) in
  (N.of_nat (length bs), a, c).
Definition odigest (o : option bytes) : option (N * N * N) :=
  match o with Some bs => Some (digest bs) | None => None end.

(** every producing path of one value, in the order props/c05.py expects *)
Definition all_paths (v : jval) (ex : list (bytes * bytes * bytes)) : list (option bytes) :=
  [manifest fmt_default v; manifest fmt_minify v;
   manifest (fmt_cli 0) v; manifest (fmt_cli 1) v; manifest (fmt_cli 2) v; manifest (fmt_cli 3) v;
   manifest (fmt_cli 4) v;
   to_string_format v; val_to_string v; manifest fmt_std_default v]
  ++ map (fun '(i, n, k) => manifest (fmt_std i n k) v) ex.
