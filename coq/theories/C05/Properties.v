(** C05 — property theorems only.  Each is closed by [exact] of a lemma from Proofs.v and
    followed by [Print Assumptions]; statements are pinned again in Pins.v. *)
From Coq Require Import List NArith Bool.
From JrV Require Import Gen.GenEscape C05.Model C05.Proofs.
Import ListNotations.
Open Scope N_scope.

(** The regenerated ESCAPE table satisfies the decidable side conditions of the general
    theorems, entry by entry (finite domain: 256 entries, bound in the statement):
    unescaped bytes are legal raw JSON string characters; escaped bytes are ASCII, their match
    arm exists (no `unreachable!()`), and the emitted sequence is a printable-ASCII RFC 8259
    spelling of exactly that byte. *)
Theorem C05_escape_table_ok :
  Nat.eqb (length escape_table) 256 && forallb entry_ok (map N.of_nat (seq 0 256)) = true.
Proof. exact p_table. Qed.
Print Assumptions C05_escape_table_ok.

(** The index-and-flush loop of escape_string_json_buf is a plain per-byte map, for every byte
    list and every buffer content: never panics, appends quote ++ map ++ quote. *)
Theorem C05_escape_impl_is_map :
  forall bs buf, escape_buf bs buf = Some (buf ++ 34 :: flat_map esc1 bs ++ [34]).
Proof. exact p_escape_impl_is_map. Qed.
Print Assumptions C05_escape_impl_is_map.

(** For EVERY byte list (not only valid UTF-8): the RFC 8259 string reader gives the input
    back, the output is quote-delimited and contains no control byte. *)
Theorem C05_escape_roundtrip :
  forall bs, exists out, escape bs = Some out /\ json_unescape out = Some bs /\
                         Forall (fun c => 32 <= c) out /\ hd 0 out = 34 /\ last out 0 = 34.
Proof. exact p_escape_roundtrip. Qed.
Print Assumptions C05_escape_roundtrip.

(** The obligation of the `unsafe` byte view: bytes >= 0x80 pass through unchanged and in
    order, and well-formed UTF-8 in gives well-formed UTF-8 out. *)
Theorem C05_escape_preserves_utf8 :
  forall bs out, escape bs = Some out ->
    filter (fun c => 128 <=? c) out = filter (fun c => 128 <=? c) bs /\ (utf8 bs -> utf8 out).
Proof. exact p_escape_utf8. Qed.
Print Assumptions C05_escape_preserves_utf8.

(** For every value, every formatting mode, every whitespace padding / newline and every
    key_val_sep of the shape ws ":" ws: the RFC 8259 reader reads the emitted text back as the
    same value (structure, string bytes, number tokens, member order). *)
Theorem C05_writer_read_back :
  forall o v out, opts_ok o = true -> nums_ok v = true -> manifest o v = Some out ->
    json_read out = Some v.
Proof. exact read_back. Qed.
Print Assumptions C05_writer_read_back.

(** JsonFormat::cli(n) for every n. *)
Theorem C05_cli_read_back :
  forall n v out, nums_ok v = true -> manifest (fmt_cli n) v = Some out -> json_read out = Some v.
Proof. exact p_cli_read_back. Qed.
Print Assumptions C05_cli_read_back.

(** All producing paths with the presets read from the source (default, minify, cli 0..4,
    ToStringFormat, Val::to_string, std.manifestJson, std.manifestJsonEx with whitespace
    options) denote the same value. *)
Theorem C05_all_paths_read_back :
  forall v ex, nums_ok v = true -> (forall s, v <> JStr s) -> forallb ex_ok ex = true ->
    forall out, In (Some out) (all_paths v ex) -> json_read out = Some v.
Proof. exact p_all_paths_read_back. Qed.
Print Assumptions C05_all_paths_read_back.

(** std.toString / ToStringFormat print a top-level string as is. *)
Theorem C05_to_string_raw :
  forall s, val_to_string (JStr s) = Some s /\ to_string_format (JStr s) = Some s.
Proof. exact p_to_string_raw. Qed.
Print Assumptions C05_to_string_raw.

(** A value containing a function is rejected by every path; anything else is written. *)
Theorem C05_function_rejected :
  forall v ex, has_fun v = true -> forall r, In r (all_paths v ex) -> r = None.
Proof. exact p_function_rejected. Qed.
Print Assumptions C05_function_rejected.

Theorem C05_writer_total :
  forall o cur v, has_fun v = false -> exists out, wr o cur v = Some out.
Proof. exact p_writer_total. Qed.
Print Assumptions C05_writer_total.

(** The object text lists exactly the names ObjValue::iter yields, in that order; so ascending
    visible names in (C02's [fields]) give ascending names out. *)
Theorem C05_keys_preserved :
  forall o fs out, opts_ok o = true -> nums_ok (JObj fs) = true -> manifest o (JObj fs) = Some out ->
    exists v', json_read out = Some v' /\ keys_of v' = map fst fs /\
               (ascending (map fst fs) = true -> ascending (keys_of v') = true).
Proof. exact p_keys. Qed.
Print Assumptions C05_keys_preserved.
