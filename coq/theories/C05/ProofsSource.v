(** C05 source tie — proofs: the translated writer of Gen/GenJson.v equals the hand model. *)
From Coq Require Import List NArith Bool Arith Lia.
From JrV Require Import Gen.GenEscape Gen.GenJson C05.Model C05.Proofs C05.ModelSource.
Import ListNotations.
Open Scope N_scope.

Lemma firstn_len_app : forall (A : Type) (a b : list A), firstn (length a) (a ++ b) = a.
Proof. induction a as [|x a IH]; intro b; [reflexivity|]. cbn [length app firstn]. rewrite IH. reflexivity. Qed.

Definition Tie (o : opts) (v : jval) : Prop :=
  forall buf cur, gen_manifest_json_ex_buf o v buf cur = src_result buf cur (wr o cur v).

Ltac list_eq := repeat rewrite <- app_assoc; cbn [app]; try reflexivity.

Lemma tie_all : forall o v, Tie o v.
Proof.
  intro o. induction v using jval_ind2; unfold Tie; intros buf cur.
  - reflexivity.
  - destruct b; reflexivity.
  - reflexivity.
  - cbn [gen_manifest_json_ex_buf wr]. unfold escape. rewrite !escape_buf_is_ref. reflexivity.
  - (* arrays *)
    rewrite wr_arr. cbn [gen_manifest_json_ex_buf].
    match goal with
    | |- match ?F 0%nat xs ?b ?c false with _ => _ end = _ =>
        assert (E : forall l, Forall (Tie o) l -> forall i b0 had,
                   F i l b0 c had =
                   match wr_items o c (Nat.eqb i 0) l with
                   | Some body => Some (b0 ++ body, c, had || negb (is_nil l))
                   | None => None
                   end)
    end.
    { induction l as [|x l IH]; intros HF i b0 had.
      - cbn [wr_items is_nil negb]. rewrite app_nil_r, orb_false_r. reflexivity.
      - inversion HF as [|? ? Hx Hl]; subst. cbn [wr_items is_nil negb]. rewrite orb_true_r.
        destruct (Nat.eqb i 0) eqn:Ei; cbn [negb];
          destruct (o_mtype o) eqn:Em; unfold sep_before, comma; rewrite Em;
          rewrite Hx; destruct (wr o (cur ++ o_padding o) x) as [bx|]; cbn [src_result]; try reflexivity;
          rewrite (IH Hl); cbn [Nat.eqb orb];
          destruct (wr_items o (cur ++ o_padding o) false l) as [br|]; try reflexivity;
          f_equal; f_equal; f_equal; list_eq. }
    rewrite (E xs H). cbn [Nat.eqb].
    destruct (wr_items o (cur ++ o_padding o) true xs) as [body|]; [|reflexivity].
    rewrite firstn_len_app. unfold closing.
    destruct xs; cbn [is_nil negb orb]; destruct (o_mtype o); cbn [src_result];
      f_equal; f_equal; list_eq.
  - (* objects *)
    rewrite wr_obj. cbn [gen_manifest_json_ex_buf].
    match goal with
    | |- match ?F 0%nat fs ?b ?c false with _ => _ end = _ =>
        assert (E : forall l, Forall (fun kv => Tie o (snd kv)) l -> forall i b0 had,
                   F i l b0 c had =
                   match wr_fields o c (Nat.eqb i 0) l with
                   | Some body => Some (b0 ++ body, c, had || negb (is_nil l))
                   | None => None
                   end)
    end.
    { induction l as [|[k x] l IH]; intros HF i b0 had.
      - cbn [wr_fields is_nil negb]. rewrite app_nil_r, orb_false_r. reflexivity.
      - inversion HF as [|? ? Hx Hl]; subst. cbn [snd] in Hx. cbn [wr_fields is_nil negb]. rewrite orb_true_r.
        rewrite escape_is_ref.
        destruct (Nat.eqb i 0) eqn:Ei; cbn [negb];
          destruct (o_mtype o) eqn:Em; unfold sep_before, comma; rewrite Em;
          rewrite escape_buf_is_ref;
          rewrite Hx; destruct (wr o (cur ++ o_padding o) x) as [bx|]; cbn [src_result]; try reflexivity;
          rewrite (IH Hl); cbn [Nat.eqb orb];
          destruct (wr_fields o (cur ++ o_padding o) false l) as [br|]; try reflexivity;
          f_equal; f_equal; f_equal; list_eq. }
    rewrite (E fs H). cbn [Nat.eqb].
    destruct (wr_fields o (cur ++ o_padding o) true fs) as [body|]; [|reflexivity].
    rewrite firstn_len_app. unfold closing.
    destruct fs; cbn [is_nil negb orb]; destruct (o_mtype o); cbn [src_result];
      f_equal; f_equal; list_eq.
  - reflexivity.
Qed.

(* ------------------------------------------------------------------ statements as they appear in PropertiesSource.v *)

Lemma ps_writer : forall o v buf cur,
  gen_manifest_json_ex_buf o v buf cur = src_result buf cur (wr o cur v).
Proof. intros o v. exact (tie_all o v). Qed.

Lemma ps_entry : forall o v, gen_manifest_json_ex o v = manifest o v.
Proof.
  intros o v. unfold gen_manifest_json_ex, manifest. rewrite ps_writer.
  destruct (wr o [] v); reflexivity.
Qed.

Lemma ps_formats :
  gen_fmt_default = fmt_default /\ gen_fmt_minify = fmt_minify /\
  gen_fmt_std_to_string_helper = fmt_to_string /\
  (forall n, gen_fmt_cli n = fmt_cli n) /\
  (forall i n k, gen_fmt_std_to_json i n k = fmt_std i n k).
Proof.
  repeat split.
  - destruct n as [|n]; reflexivity.
Qed.

Lemma ps_padding_restored : forall o v buf cur buf' cur',
  gen_manifest_json_ex_buf o v buf cur = Some (buf', cur') ->
  cur' = cur /\ exists out, buf' = buf ++ out /\ wr o cur v = Some out.
Proof.
  intros o v buf cur buf' cur' H. rewrite ps_writer in H.
  destruct (wr o cur v) as [out|]; [|discriminate]. cbn [src_result] in H. inversion H; subst.
  split; [reflexivity|]. exists out. split; reflexivity.
Qed.

Lemma ps_read_back : forall o v out,
  opts_ok o = true -> nums_ok v = true -> gen_manifest_json_ex o v = Some out -> json_read out = Some v.
Proof. intros o v out Ho Hn H. rewrite ps_entry in H. exact (read_back o v out Ho Hn H). Qed.

Lemma ps_ctor_read_back : forall v, nums_ok v = true ->
  (forall out, gen_manifest_json_ex gen_fmt_default v = Some out -> json_read out = Some v) /\
  (forall out, gen_manifest_json_ex gen_fmt_minify v = Some out -> json_read out = Some v) /\
  (forall out, gen_manifest_json_ex gen_fmt_std_to_string_helper v = Some out -> json_read out = Some v) /\
  (forall n out, gen_manifest_json_ex (gen_fmt_cli n) v = Some out -> json_read out = Some v) /\
  (forall i n k out, all_ws i = true -> all_ws n = true -> kvsep_ok k = true ->
     gen_manifest_json_ex (gen_fmt_std_to_json i n k) v = Some out -> json_read out = Some v).
Proof.
  intros v Hn. destruct ps_formats as (Ed & Em & Et & Ec & Es).
  repeat split.
  - intros out H. apply (ps_read_back gen_fmt_default); auto.
  - intros out H. apply (ps_read_back gen_fmt_minify); auto.
  - intros out H. apply (ps_read_back gen_fmt_std_to_string_helper); auto.
  - intros n out H. apply (ps_read_back (gen_fmt_cli n)); auto. rewrite Ec. apply fmt_cli_ok.
  - intros i n k out Hi Hnl Hk H. apply (ps_read_back (gen_fmt_std_to_json i n k)); auto.
    rewrite Es. apply fmt_std_ok; assumption.
Qed.

Lemma ps_function : forall o v,
  (has_fun v = true -> gen_manifest_json_ex o v = None) /\
  (has_fun v = false -> exists out, gen_manifest_json_ex o v = Some out).
Proof.
  intros o v. rewrite ps_entry. unfold manifest. split.
  - intro H. apply (proj2 (wr_fun o v [])). exact H.
  - intro H. exact (p_writer_total o [] v H).
Qed.
