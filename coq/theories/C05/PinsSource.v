(** Statements of the C05 source-tie theorems, pinned; non-vacuity examples (nested value, every mode) and
    the translated definitions pinned by evaluation. *)
From Coq Require Import List NArith Bool.
From JrV Require Import Gen.GenEscape Gen.GenJson C05.Model C05.Proofs C05.ModelSource C05.ProofsSource
  C05.PropertiesSource.
Import ListNotations.
Open Scope N_scope.

Check C05_model_is_translated_source_writer :
  forall o v buf cur, gen_manifest_json_ex_buf o v buf cur = src_result buf cur (wr o cur v).
Check C05_model_is_translated_source_entry :
  forall o v, gen_manifest_json_ex o v = manifest o v.
Check C05_model_is_translated_source_formats :
  gen_fmt_default = fmt_default /\ gen_fmt_minify = fmt_minify /\
  gen_fmt_std_to_string_helper = fmt_to_string /\
  (forall n, gen_fmt_cli n = fmt_cli n) /\
  (forall i n k, gen_fmt_std_to_json i n k = fmt_std i n k).
Check C05_source_padding_restored :
  forall o v buf cur buf' cur', gen_manifest_json_ex_buf o v buf cur = Some (buf', cur') ->
    cur' = cur /\ exists out, buf' = buf ++ out /\ wr o cur v = Some out.
Check C05_source_writer_read_back :
  forall o v out, opts_ok o = true -> nums_ok v = true -> gen_manifest_json_ex o v = Some out ->
    json_read out = Some v.
Check C05_source_constructors_read_back :
  forall v, nums_ok v = true ->
  (forall out, gen_manifest_json_ex gen_fmt_default v = Some out -> json_read out = Some v) /\
  (forall out, gen_manifest_json_ex gen_fmt_minify v = Some out -> json_read out = Some v) /\
  (forall out, gen_manifest_json_ex gen_fmt_std_to_string_helper v = Some out -> json_read out = Some v) /\
  (forall n out, gen_manifest_json_ex (gen_fmt_cli n) v = Some out -> json_read out = Some v) /\
  (forall i n k out, all_ws i = true -> all_ws n = true -> kvsep_ok k = true ->
     gen_manifest_json_ex (gen_fmt_std_to_json i n k) v = Some out -> json_read out = Some v).
Check C05_source_function_rejected :
  forall o v, (has_fun v = true -> gen_manifest_json_ex o v = None) /\
              (has_fun v = false -> exists out, gen_manifest_json_ex o v = Some out).

(** the bridge definition, pinned *)
Check eq_refl : src_result [1] [2] (Some [3]) = Some ([1; 3], [2]).
Check eq_refl : src_result [1] [2] None = None.

(** [[], {"a": {}}, 1] through the TRANSLATED writer in every mode: minify `[[],{"a":{}},1]`,
    to-string `[[ ], {"a": { }}, 1]`, manifest (cli 1) with `[ ]` / `{ }`, std (tab, CRLF, " :") with the
    doubled newline in empty containers *)
Definition pin_v : jval := JArr [JArr []; JObj [([97], JObj [])]; JNum [49]].
Check eq_refl : gen_manifest_json_ex gen_fmt_minify pin_v
  = Some [91; 91; 93; 44; 123; 34; 97; 34; 58; 123; 125; 125; 44; 49; 93].
Check eq_refl : gen_manifest_json_ex gen_fmt_std_to_string_helper pin_v
  = Some [91; 91; 32; 93; 44; 32; 123; 34; 97; 34; 58; 32; 123; 32; 125; 125; 44; 32; 49; 93].
Check eq_refl : gen_manifest_json_ex (gen_fmt_cli 1) pin_v
  = Some [91; 10; 32; 91; 32; 93; 44; 10; 32; 123; 10; 32; 32; 34; 97; 34;
          58; 32; 123; 32; 125; 10; 32; 125; 44; 10; 32; 49; 10; 93].
Check eq_refl : gen_manifest_json_ex (gen_fmt_std_to_json [9] [13; 10] [32; 58]) pin_v
  = Some [91; 13; 10; 9; 91; 13; 10; 13; 10; 9; 93; 44; 13; 10; 9; 123; 13;
          10; 9; 9; 34; 97; 34; 32; 58; 123; 13; 10; 13; 10; 9; 9; 125; 13;
          10; 9; 125; 44; 13; 10; 9; 49; 13; 10; 93].
(** non-empty initial buffer and padding: appended after `x`, indentation continues from the tab, and the
    padding comes back as the tab *)
Check eq_refl : gen_manifest_json_ex_buf gen_fmt_default (JArr [JArr []]) [120] [9]
  = Some ([120; 91; 10; 9; 32; 32; 32; 32; 91; 32; 93; 10; 9; 93], [9]).

(** non-vacuity: a nested value (objects in arrays in objects, empty and non-empty containers, a string
    that needs escaping) is written by the translated code with every constructor, the hypotheses of the
    read-back theorems hold, and the text reads back *)
Example C05_source_nonvacuous :
  Forall (fun o => opts_ok o = true /\ nums_ok sample_nested = true /\ has_fun sample_nested = false /\
                   exists out, gen_manifest_json_ex o sample_nested = Some out /\ Nat.ltb 40 (length out) = true /\
                               json_read out = Some sample_nested)
         [gen_fmt_default; gen_fmt_minify; gen_fmt_std_to_string_helper; gen_fmt_cli 0; gen_fmt_cli 3;
          gen_fmt_std_to_json [9] [13; 10] [32; 58; 32]].
Proof.
  repeat (apply Forall_cons); try apply Forall_nil;
    (split; [vm_compute; reflexivity|]; split; [vm_compute; reflexivity|]; split; [vm_compute; reflexivity|];
     eexists; split; [vm_compute; reflexivity|]; split; vm_compute; reflexivity).
Qed.

(** the rejecting side of C05_source_function_rejected is inhabited *)
Example C05_source_function_example :
  has_fun (JArr [JObj [([97], JFun)]]) = true /\
  gen_manifest_json_ex gen_fmt_default (JArr [JObj [([97], JFun)]]) = None /\
  gen_manifest_json_ex_buf gen_fmt_minify (JArr [JNull; JFun]) [] [] = None.
Proof. repeat split. Qed.
