(** Statements of the C05 property theorems, pinned: weakening one breaks this file.
    Followed by non-vacuity examples and definitions pinned by evaluation. *)
From Coq Require Import List NArith Bool.
From JrV Require Import Gen.GenEscape C05.Model C05.Proofs C05.Properties.
Import ListNotations.
Open Scope N_scope.

Check C05_escape_table_ok :
  Nat.eqb (length escape_table) 256 && forallb entry_ok (map N.of_nat (seq 0 256)) = true.
Check C05_escape_impl_is_map :
  forall bs buf, escape_buf bs buf = Some (buf ++ 34 :: flat_map esc1 bs ++ [34]).
Check C05_escape_roundtrip :
  forall bs, exists out, escape bs = Some out /\ json_unescape out = Some bs /\
                         Forall (fun c => 32 <= c) out /\ hd 0 out = 34 /\ last out 0 = 34.
Check C05_escape_preserves_utf8 :
  forall bs out, escape bs = Some out ->
    filter (fun c => 128 <=? c) out = filter (fun c => 128 <=? c) bs /\ (utf8 bs -> utf8 out).
Check C05_writer_read_back :
  forall o v out, opts_ok o = true -> nums_ok v = true -> manifest o v = Some out ->
    json_read out = Some v.
Check C05_cli_read_back :
  forall n v out, nums_ok v = true -> manifest (fmt_cli n) v = Some out -> json_read out = Some v.
Check C05_all_paths_read_back :
  forall v ex, nums_ok v = true -> (forall s, v <> JStr s) -> forallb ex_ok ex = true ->
    forall out, In (Some out) (all_paths v ex) -> json_read out = Some v.
Check C05_to_string_raw :
  forall s, val_to_string (JStr s) = Some s /\ to_string_format (JStr s) = Some s.
Check C05_function_rejected :
  forall v ex, has_fun v = true -> forall r, In r (all_paths v ex) -> r = None.
Check C05_writer_total :
  forall o cur v, has_fun v = false -> exists out, wr o cur v = Some out.
Check C05_keys_preserved :
  forall o fs out, opts_ok o = true -> nums_ok (JObj fs) = true -> manifest o (JObj fs) = Some out ->
    exists v', json_read out = Some v' /\ keys_of v' = map fst fs /\
               (ascending (map fst fs) = true -> ascending (keys_of v') = true).

(** ---- non-vacuity: the hypotheses are satisfiable by non-trivial instances *)
Definition ex_val : jval :=
  JObj [([97], JArr [JNum [45; 49; 46; 53; 101; 43; 50]; JStr [34; 10; 195; 169; 92; 0]; JArr []; JObj []]);
        ([98; 34], JBool true); ([240; 159; 152; 128], JNull)].
Definition ex_opts : opts := mkOpts Std [32; 9] [13; 10] [9; 58; 10].

Example ex_opts_ok : opts_ok ex_opts = true. Proof. reflexivity. Qed.
Example ex_nums_ok : nums_ok ex_val = true. Proof. reflexivity. Qed.
Example ex_written : exists out, manifest ex_opts ex_val = Some out /\ (100 < length out)%nat.
Proof. eexists. split; [vm_compute; reflexivity|]. vm_compute. repeat constructor. Qed.
Example ex_read_back : forall out, manifest ex_opts ex_val = Some out -> json_read out = Some ex_val.
Proof. intros out H. exact (C05_writer_read_back ex_opts ex_val out ex_opts_ok ex_nums_ok H). Qed.
Example ex_paths : forallb ex_ok [([9], [10], [58]); ([], [], [32; 58; 32])] = true /\
                   length (all_paths ex_val [([9], [10], [58]); ([], [], [32; 58; 32])]) = 12%nat /\
                   forallb (fun r => match r with Some _ => true | None => false end)
                           (all_paths ex_val [([9], [10], [58]); ([], [], [32; 58; 32])]) = true.
Proof. vm_compute. repeat split; reflexivity. Qed.
Example ex_fun : has_fun (JArr [JNum [49]; JObj [([97], JFun)]]) = true /\
                 manifest fmt_default (JArr [JNum [49]; JObj [([97], JFun)]]) = None.
Proof. split; reflexivity. Qed.
Example ex_utf8 : utf8 [97; 195; 169; 226; 128; 168; 240; 159; 152; 128; 34].
Proof.
  apply utf8_ascii; [reflexivity|]. apply (utf8_multi [195; 169]); [reflexivity|].
  apply (utf8_multi [226; 128; 168]); [reflexivity|]. apply (utf8_multi [240; 159; 152; 128]); [reflexivity|].
  apply utf8_ascii; [reflexivity|]. constructor.
Qed.
Example ex_keys : ascending (map fst [([97], JNull); ([98; 34], JNull); ([240; 159; 152; 128], JNull)]) = true.
Proof. reflexivity. Qed.

(** ---- the definitions the statements rest on, pinned by evaluation *)
(* escaper: controls, quote, backslash, DEL raw, high bytes raw *)
Check eq_refl : escape [0; 31; 32; 127; 128; 34; 92; 8; 9; 10; 12; 13; 47] =
  Some [34; 92;117;48;48;48;48; 92;117;48;48;49;102; 32; 127; 128; 92;34; 92;92; 92;98; 92;116; 92;110; 92;102; 92;114; 47; 34].
(* reader: escapes incl. surrogate pair, solidus; rejects raw control, lone surrogate, bad numbers *)
Check eq_refl : json_unescape [34; 92;117;100;56;51;100; 92;117;100;101;48;48; 92;47; 34] = Some [240; 159; 152; 128; 47].
Check eq_refl : json_unescape [34; 10; 34] = None.
Check eq_refl : json_unescape [34; 92;117;100;56;48;48; 34] = None.
Check eq_refl : json_read [32; 91; 49; 44; 32; 123; 34; 97; 34; 58; 110; 117; 108; 108; 125; 93; 10] =
  Some (JArr [JNum [49]; JObj [([97], JNull)]]).
Check eq_refl : map num_ok [[48]; [45; 48]; [49; 48; 46; 53]; [49; 101; 43; 53]; [48; 49]; [49; 46]; [46; 53]; [45]; [43; 49]; []]
  = [true; true; true; true; false; false; false; false; false; false].
Check eq_refl : json_read [91; 49; 44; 93] = None.
Check eq_refl : json_read [49; 32; 50] = None.
(* the four modes on the same value *)
Check eq_refl : manifest fmt_minify (JObj [([97], JArr [JNum [49]; JArr []]); ([98], JObj [])]) =
  Some [123; 34;97;34; 58; 91; 49; 44; 91; 93; 93; 44; 34;98;34; 58; 123; 125; 125].
Check eq_refl : manifest fmt_to_string (JObj [([97], JArr [JNum [49]; JArr []]); ([98], JObj [])]) =
  Some [123; 34;97;34; 58;32; 91; 49; 44;32; 91;32;93; 93; 44;32; 34;98;34; 58;32; 123;32;125; 125].
Check eq_refl : manifest (fmt_cli 1) (JArr [JNum [49]; JArr []]) = Some [91; 10;32; 49; 44; 10;32; 91;32;93; 10; 93].
Check eq_refl : manifest (fmt_std [32] [10] [58]) (JArr [JNum [49]; JArr []]) = Some [91; 10;32; 49; 44; 10;32; 91;10;10;32;93; 10; 93].
Check eq_refl : utf8_check 20 [97; 195; 169; 240; 159; 152; 128] = true.
Check eq_refl : utf8_check 20 [237; 160; 128] = false.
Check eq_refl : utf8_check 20 [192; 128] = false.
