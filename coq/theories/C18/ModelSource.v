(** C18 — source tie, definitions only: the operation machine assembled from the TRANSLATED
    functions of crates/jrsonnet-interner/src/{inner,lib}.rs (Gen/GenIntern.v, regenerated from
    the working tree on every run by translator/gens/internsm.py).

    Only the dispatch "which API call an operation of the history is" is written here (it is
    the harness's vocabulary: `jrharness intern` performs exactly these calls); everything the
    calls DO comes from Gen.GenIntern. *)
From Coq Require Import List NArith Bool Arith.
From JrV Require Import C18.Model C18.SourceVocab Gen.GenIntern.
Import ListNotations.

(** the refcount field is 31 bits wide: every count a header can hold is below [refcnt_lim] *)
Definition rc_fits (h : heap) : Prop := Forall (fun al => (a_rc al < refcnt_lim)%N) h.

Definition gen_handle_drop (k : kind) := match k with KStr => gen_handle_drop_str | KBytes => gen_handle_drop_bytes end.
Definition gen_handle_clone (k : kind) := match k with KStr => gen_handle_clone_str | KBytes => gen_handle_clone_bytes end.

Definition src_step (s : state) (o : op) : option state :=
  let h := st_heap s in
  let sl := st_slots s in
  match o with
  | OInternBytes c =>                                  (* intern_bytes(c) *)
    match gen_intern_bytes h (st_next s) c with
    | Some (h', nx, a) => Some (mkState h' (sl ++ [Some (KBytes, a)]) nx)
    | None => None
    end
  | OInternStr c =>                                    (* intern_str(c) for a Rust &str *)
    if valid_utf8 c then
      match gen_intern_str h (st_next s) c with
      | Some (h', nx, a) => Some (mkState h' (sl ++ [Some (KStr, a)]) nx)
      | None => None
      end
    else Some s
  | OClone i =>                                        (* slots[i].clone() *)
    match nth_error sl i with
    | Some (Some (k, a)) => with_heap s (gen_handle_clone k h a) (sl ++ [Some (k, a)])
    | _ => Some s
    end
  | ODrop i =>                                         (* drop(slots[i]) *)
    match nth_error sl i with
    | Some (Some (k, a)) => with_heap s (gen_handle_drop k h a) (set_nth i None sl)
    | _ => Some s
    end
  | OCastBytes i =>                                    (* IStr::cast_bytes *)
    match nth_error sl i with
    | Some (Some (KStr, a)) => with_heap s (gen_cast_bytes h a) (set_nth i (Some (KBytes, a)) sl)
    | _ => Some s
    end
  | OCastStr i =>                                      (* IBytes::cast_str *)
    match nth_error sl i with
    | Some (Some (KBytes, a)) =>
      match gen_cast_str h a with
      | Some (h', true) => Some (mkState h' (set_nth i (Some (KStr, a)) sl) (st_next s))
      | Some (h', false) => Some (mkState h' (set_nth i None sl) (st_next s))
      | None => None
      end
    | _ => Some s
    end
  | OHandover => Some s                                (* exit_thread; reenter_thread: the map is moved out and back *)
  end.

Fixpoint src_run (s : state) (ops : list op) : option state :=
  match ops with
  | [] => Some s
  | o :: r => match src_step s o with Some s' => src_run s' r | None => None end
  end.
