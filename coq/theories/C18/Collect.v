(** C18 — the cycle collector's criterion on an abstract object graph.

    Objects carry a reference count [rc] = references from outside the tracked space
    (stack, thread-locals: [ext]) + owning edges from tracked objects.  A collection
    subtracts, for every tracked object, the edges its [Trace] impl reports ([traced]);
    objects left with a positive number ([gc_ref]) are externally referenced, they and
    everything traced from them are kept ([marked]), the rest is released ([collected]).
    This is jrsonnet-gcmodule's algorithm seen from outside; it is tied to the real
    collector only by the tracked-count measurements of the correspondence check. *)
From Coq Require Import List Arith Lia.
Import ListNotations.

Section Collect.
  Variable node : Type.
  Variable node_eq_dec : forall a b : node, {a = b} + {a <> b}.
  Variable nodes : list node.                 (* the thread's object space *)
  Variable owns : node -> list node.          (* owning Cc edges, with multiplicity *)
  Variable traced : node -> list node.        (* edges visited by Trace::trace *)
  Variable ext : node -> nat.                 (* references held outside the object space *)

  Definition in_edges (E : node -> list node) (x : node) : nat :=
    list_sum (map (fun n => count_occ node_eq_dec (E n) x) nodes).
  Definition rc (x : node) : nat := ext x + in_edges owns x.
  Definition gc_ref (x : node) : nat := rc x - in_edges traced x.

  Inductive marked : node -> Prop :=
  | m_seed x : In x nodes -> 0 < gc_ref x -> marked x
  | m_step x y : marked x -> In y (traced x) -> marked y.
  Definition collected (x : node) : Prop := In x nodes /\ ~ marked x.

  (** what the program can still reach *)
  Inductive reachable : node -> Prop :=
  | r_root x : In x nodes -> 0 < ext x -> reachable x
  | r_own x y : reachable x -> In y (owns x) -> reachable y.

  Hypothesis owns_closed : forall n y, In n nodes -> In y (owns n) -> In y nodes.

  Lemma reachable_in x : reachable x -> In x nodes.
  Proof. induction 1; eauto. Qed.

  Lemma sum_le (f g : node -> nat) (l : list node) :
    (forall n, In n l -> f n <= g n) -> list_sum (map f l) <= list_sum (map g l).
  Proof.
    unfold list_sum. induction l as [|a l IH]; intros H; cbn [map fold_right]; [lia|].
    pose proof (H a (or_introl eq_refl)). assert (forall n, In n l -> f n <= g n) by (intros; apply H; right; auto).
    specialize (IH H1). lia.
  Qed.

  Lemma sum_lt (f g : node -> nat) (l : list node) x :
    (forall n, In n l -> f n <= g n) -> In x l -> f x < g x ->
    list_sum (map f l) < list_sum (map g l).
  Proof.
    pose proof (sum_le f g) as SL. unfold list_sum in *.
    induction l as [|a l IH]; intros H HI Hx; [contradiction|]. cbn [map fold_right].
    pose proof (H a (or_introl eq_refl)).
    assert (H1 : forall n, In n l -> f n <= g n) by (intros; apply H; right; auto).
    destruct HI as [->|HI].
    - pose proof (SL l H1). lia.
    - specialize (IH H1 HI Hx). lia.
  Qed.

  (** traced edges = owning edges: the criterion sees exactly the outside references *)
  Section Exact.
    Hypothesis trace_exact : forall n, In n nodes -> traced n = owns n.

    Lemma in_edges_exact x : in_edges traced x = in_edges owns x.
    Proof.
      unfold in_edges. f_equal. apply map_ext_in. intros n Hn. rewrite trace_exact; auto.
    Qed.

    Lemma gc_ref_exact x : gc_ref x = ext x.
    Proof. unfold gc_ref, rc. rewrite in_edges_exact. lia. Qed.

    Lemma marked_reachable x : marked x -> reachable x.
    Proof.
      induction 1 as [x Hx Hg|x y Hm IH Hy].
      - apply r_root; auto. rewrite gc_ref_exact in Hg. exact Hg.
      - eapply r_own; eauto. rewrite <- trace_exact; auto. apply reachable_in; auto.
    Qed.

    Lemma reachable_marked x : reachable x -> marked x.
    Proof.
      induction 1 as [x Hx He|x y Hr IH Hy].
      - apply m_seed; auto. rewrite gc_ref_exact. exact He.
      - eapply m_step; eauto. rewrite trace_exact; auto. apply reachable_in; auto.
    Qed.

    (** every unreachable object — in particular every member of a garbage cycle — is
        released, and no reachable object is *)
    Lemma collect_reclaims x : In x nodes -> (collected x <-> ~ reachable x).
    Proof.
      intros Hx. unfold collected. split.
      - intros [_ Hn] Hr. apply Hn, reachable_marked, Hr.
      - intros Hn. split; auto. intros Hm. apply Hn, marked_reachable, Hm.
    Qed.
  End Exact.

  (** under-tracing (some owning edges not reported, e.g. `#[trace(skip)]`) *)
  Section Under.
    Hypothesis trace_under :
      forall n z, In n nodes -> count_occ node_eq_dec (traced n) z <= count_occ node_eq_dec (owns n) z.

    Lemma in_edges_under x : in_edges traced x <= in_edges owns x.
    Proof. unfold in_edges. apply sum_le. intros n Hn. apply trace_under; auto. Qed.

    (** the target of an owning edge that is not traced is never released, garbage or not:
        a cycle through a skipped field leaks *)
    Lemma skipped_edge_leaks x y :
      In x nodes -> In y nodes ->
      count_occ node_eq_dec (traced x) y < count_occ node_eq_dec (owns x) y -> marked y.
    Proof.
      intros Hx Hy Hlt. apply m_seed; auto. unfold gc_ref, rc.
      assert (in_edges traced y < in_edges owns y); [|lia].
      unfold in_edges.
      apply (sum_lt (fun n => count_occ node_eq_dec (traced n) y)
                    (fun n => count_occ node_eq_dec (owns n) y) nodes x); auto.
    Qed.

    (** but it is safe: a reachable object is never released *)
    Lemma collect_safe x : reachable x -> marked x.
    Proof.
      induction 1 as [x Hx He|x y Hr IH Hy].
      - apply m_seed; auto. unfold gc_ref, rc. pose proof (in_edges_under x). lia.
      - pose proof (reachable_in _ Hr) as Hx.
        destruct (in_dec node_eq_dec y (traced x)) as [Ht|Ht].
        + eapply m_step; eauto.
        + apply (skipped_edge_leaks x y); eauto.
          rewrite (proj1 (count_occ_not_In node_eq_dec (traced x) y) Ht).
          apply count_occ_In. exact Hy.
    Qed.
  End Under.
End Collect.

(** * Non-vacuity: a garbage 2-cycle next to a live chain *)
Definition ex_nodes : list nat := [0; 1; 2; 3].
Definition ex_owns (n : nat) : list nat :=
  match n with 0 => [1] | 1 => [0] | 2 => [3] | _ => [] end.   (* 0 <-> 1 garbage; 2 -> 3 live *)
Definition ex_ext (n : nat) : nat := match n with 2 => 1 | _ => 0 end.
(** the same graph with the edge 0 -> 1 behind a skipped field *)
Definition ex_traced_skip (n : nat) : list nat :=
  match n with 1 => [0] | 2 => [3] | _ => [] end.

Lemma ex_closed : forall n y, In n ex_nodes -> In y (ex_owns n) -> In y ex_nodes.
Proof.
  intros n y Hn Hy. unfold ex_nodes in *. cbn in Hn.
  destruct Hn as [<-|[<-|[<-|[<-|[]]]]]; cbn in Hy; intuition (subst; cbn; auto).
Qed.

Lemma ex_reach_only x : reachable nat ex_nodes ex_owns ex_ext x -> x = 2 \/ x = 3.
Proof.
  induction 1 as [x Hx He|x y Hr IH Hy].
  - unfold ex_ext in He. destruct x as [|[|[|x]]]; lia.
  - destruct IH as [E|E]; subst x; cbn in Hy; intuition.
Qed.

Example ex_cycle_collected :
  collected nat Nat.eq_dec ex_nodes ex_owns ex_owns ex_ext 0 /\
  collected nat Nat.eq_dec ex_nodes ex_owns ex_owns ex_ext 1 /\
  ~ collected nat Nat.eq_dec ex_nodes ex_owns ex_owns ex_ext 3.
Proof.
  assert (E : forall n, In n ex_nodes -> ex_owns n = ex_owns n) by reflexivity.
  repeat split.
  - cbn; auto.
  - intros Hm. apply (marked_reachable nat Nat.eq_dec ex_nodes ex_owns ex_owns ex_ext ex_closed E) in Hm.
    apply ex_reach_only in Hm. lia.
  - cbn; auto.
  - intros Hm. apply (marked_reachable nat Nat.eq_dec ex_nodes ex_owns ex_owns ex_ext ex_closed E) in Hm.
    apply ex_reach_only in Hm. lia.
  - intros [_ Hn]. apply Hn.
    apply (reachable_marked nat Nat.eq_dec ex_nodes ex_owns ex_owns ex_ext ex_closed E).
    eapply r_own; [apply r_root with (x := 2); cbn; auto|]. cbn. auto.
Qed.

Example ex_skip_leaks : marked nat Nat.eq_dec ex_nodes ex_owns ex_traced_skip ex_ext 1.
Proof.
  apply (skipped_edge_leaks nat Nat.eq_dec ex_nodes ex_owns ex_traced_skip ex_ext) with (x := 0).
  - intros n z Hn. cbn in Hn. destruct Hn as [<-|[<-|[<-|[<-|[]]]]]; cbn; try lia.
    all: repeat (destruct (Nat.eq_dec _ _)); lia.
  - cbn; auto.
  - cbn; auto.
  - cbn. lia.
Qed.
