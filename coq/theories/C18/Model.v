(** C18 — interned strings stay canonical (interner part).

    IMPL-MODEL: the counting discipline of crates/jrsonnet-interner/src/{lib,inner}.rs:
    a heap of allocations {address, bytes, refcount, utf8 flag}, a thread-local pool that
    is looked up BY CONTENT (hash + slice equality, as hashbrown does through
    [Borrow<[u8]>]), handles that are bare addresses, [Inner::clone]/[Inner::drop] that
    adjust the count by hand, [maybe_unpool] with its `strong_count <= 2` test and its
    `assert!(pool.is_empty())`, the utf8 flag cache of [check_utf8], and the temporaries
    that [cast_bytes]/[cast_str]/[intern_str] create and drop.  [None] models a crash
    (use after free, refcount underflow / overflow assertion, the issue-113 assertion).
    Memory layout and aliasing of the unsafe code are NOT modelled.

    SPEC: a list of slots holding (kind, content); equality is content equality, the pool
    is the set of distinct live contents.

    Definitions only; proofs are in Proofs.v. *)
From Coq Require Import List NArith Bool Arith.
Import ListNotations.

Definition bytes := list N.
(** byte-string equality: a boolean test (what the VM runs) and the decision built on it;
    the two small lemmas live here because the definition of [bytes_eq_dec] needs them *)
Fixpoint bytes_eqb (a b : bytes) : bool :=
  match a, b with
  | [], [] => true
  | x :: a', y :: b' => (x =? y)%N && bytes_eqb a' b'
  | _, _ => false
  end.
Lemma bytes_eqb_true a b : bytes_eqb a b = true -> a = b.
Proof.
  revert b. induction a as [|x a IH]; intros [|y b] H; cbn in H; try discriminate; auto.
  apply andb_true_iff in H. destruct H as [H1 H2]. apply N.eqb_eq in H1. f_equal; auto.
Qed.
Lemma bytes_eqb_false a b : bytes_eqb a b = false -> a <> b.
Proof.
  intros H E. subst b. induction a as [|x a IH]; cbn in H; [discriminate|].
  rewrite N.eqb_refl in H. cbn in H. auto.
Qed.
Definition bytes_eq_dec (a b : bytes) : {a = b} + {a <> b} :=
  match bytes_eqb a b as r return bytes_eqb a b = r -> {a = b} + {a <> b} with
  | true => fun H => left (bytes_eqb_true a b H)
  | false => fun H => right (bytes_eqb_false a b H)
  end eq_refl.

(** ** UTF-8 well-formedness (RFC 3629 / Unicode table 3-7) — what [str::from_utf8] accepts *)
Definition in_range (lo hi b : N) : bool := ((lo <=? b) && (b <=? hi))%N.
Definition cont (b : N) : bool := in_range 128 191 b.

Fixpoint valid_utf8 (l : bytes) : bool :=
  match l with
  | [] => true
  | b0 :: r0 =>
    if (b0 <=? 127)%N then valid_utf8 r0
    else if in_range 194 223 b0 then
      match r0 with
      | b1 :: r1 => cont b1 && valid_utf8 r1
      | _ => false
      end
    else if in_range 224 239 b0 then
      match r0 with
      | b1 :: b2 :: r2 =>
        (if (b0 =? 224)%N then in_range 160 191 b1
         else if (b0 =? 237)%N then in_range 128 159 b1
         else cont b1) && cont b2 && valid_utf8 r2
      | _ => false
      end
    else if in_range 240 244 b0 then
      match r0 with
      | b1 :: b2 :: b3 :: r3 =>
        (if (b0 =? 240)%N then in_range 144 191 b1
         else if (b0 =? 244)%N then in_range 128 143 b1
         else cont b1) && cont b2 && cont b3 && valid_utf8 r3
      | _ => false
      end
    else false
  end.

(** ** IMPL-MODEL *)
Inductive kind := KStr | KBytes.

(** One allocation made by [Inner::new_raw]: header {size, utf8|refcnt} + bytes.  [a_pooled]
    says whether the thread's POOL map currently holds a key pointing at it. *)
Record alloc := mkAlloc {
  a_addr : N; a_data : bytes; a_rc : N; a_utf8 : bool; a_pooled : bool }.
Definition heap := list alloc.
Notation handle := (kind * N)%type (only parsing).

Record state := mkState {
  st_heap : heap;
  st_slots : list (option handle);   (* the handles the client holds; None = dropped *)
  st_next : N }.                     (* allocator: next fresh address *)

Definition init : state := mkState [] [] 0%N.

Definition lookup (h : heap) (a : N) : option alloc := find (fun x => (a_addr x =? a)%N) h.
Definition upd (h : heap) (a : N) (f : alloc -> alloc) : heap :=
  map (fun x => if (a_addr x =? a)%N then f x else x) h.
Definition del (h : heap) (a : N) : heap := filter (fun x => negb (a_addr x =? a)%N) h.
Definition set_rc (n : N) (al : alloc) := mkAlloc (a_addr al) (a_data al) n (a_utf8 al) (a_pooled al).
Definition set_utf8 (al : alloc) := mkAlloc (a_addr al) (a_data al) (a_rc al) true (a_pooled al).
Definition set_unpooled (al : alloc) := mkAlloc (a_addr al) (a_data al) (a_rc al) (a_utf8 al) false.

(** `pool.raw_entry_mut().from_key(bytes)` / `pool.remove(inner)`: the entry whose bytes are
    equal (hash and Eq of [Inner] go through the slice). *)
Definition pool_find (h : heap) (c : bytes) : option alloc :=
  find (fun x => a_pooled x && bytes_eqb (a_data x) c) h.

(** REFCNT_MASK = 2^31 - 1; `set_refcnt` asserts `cnt & UTF8_MASK == 0`. *)
Definition refcnt_lim : N := (2 ^ 31)%N.

(** [Inner::clone] *)
Definition inner_clone (h : heap) (a : N) : option heap :=
  match lookup h a with
  | None => None                                        (* use after free *)
  | Some al =>
    if (refcnt_lim <=? a_rc al + 1)%N then None         (* set_refcnt assertion *)
    else Some (upd h a (set_rc (a_rc al + 1)))
  end.

(** [Drop for Inner]: `refcnt() - 1` (overflow-checked), dealloc at zero *)
Definition inner_drop (h : heap) (a : N) : option heap :=
  match lookup h a with
  | None => None
  | Some al =>
    if (a_rc al =? 0)%N then None                       (* underflow *)
    else if (a_rc al - 1 =? 0)%N then Some (del h a)
    else Some (upd h a (set_rc (a_rc al - 1)))
  end.

(** [maybe_unpool]: `if strong_count <= 2 { pool.remove(inner) ... assert!(pool.is_empty()) }`;
    removing the key drops the pool's [Inner]. *)
Definition maybe_unpool (h : heap) (a : N) : option heap :=
  match lookup h a with
  | None => None
  | Some al =>
    if (a_rc al <=? 2)%N then
      match pool_find h (a_data al) with
      | Some p => inner_drop (upd h (a_addr p) set_unpooled) (a_addr p)
      | None => if existsb a_pooled h then None else Some h
      end
    else Some h
  end.

(** [Drop for IStr] / [Drop for IBytes], then the field's [Drop for Inner] *)
Definition handle_drop (h : heap) (a : N) : option heap :=
  match maybe_unpool h a with
  | Some h' => inner_drop h' a
  | None => None
  end.

(** [intern_bytes]: returns heap, allocator state and the address of the new handle *)
Definition intern_raw (h : heap) (next : N) (c : bytes) : option (heap * N * N) :=
  match pool_find h c with
  | Some p =>
    match inner_clone h (a_addr p) with
    | Some h' => Some (h', next, a_addr p)
    | None => None
    end
  | None =>
    match inner_clone (mkAlloc next c 1 false true :: h) next with
    | Some h' => Some (h', (next + 1)%N, next)
    | None => None
    end
  end.

(** a consuming conversion `K2(self.0.clone())` followed by the drop of [self] *)
Definition reclone (h : heap) (a : N) : option heap :=
  match inner_clone h a with
  | Some h' => handle_drop h' a
  | None => None
  end.

Fixpoint set_nth {A} (i : nat) (x : A) (l : list A) : list A :=
  match l, i with
  | [], _ => []
  | _ :: r, O => x :: r
  | y :: r, S i' => y :: set_nth i' x r
  end.

Inductive op :=
| OInternBytes (c : bytes)     (* intern_bytes(c)            -> new slot *)
| OInternStr (c : bytes)       (* intern_str(c), c valid UTF-8 (a Rust &str); otherwise no-op *)
| OClone (i : nat)             (* slots[i].clone()           -> new slot *)
| ODrop (i : nat)              (* drop(slots[i]) *)
| OCastBytes (i : nat)         (* IStr::cast_bytes, in place *)
| OCastStr (i : nat)           (* IBytes::cast_str, in place; None consumes the handle *)
| OHandover.                   (* interop::exit_thread immediately followed by reenter_thread *)

Definition with_heap (s : state) (r : option heap) (sl : list (option handle)) : option state :=
  match r with
  | Some h' => Some (mkState h' sl (st_next s))
  | None => None
  end.

(** An op that does not apply (dead slot, wrong kind, non-UTF-8 `&str`) is a no-op. *)
Definition impl_step (s : state) (o : op) : option state :=
  let h := st_heap s in
  let sl := st_slots s in
  match o with
  | OInternBytes c =>
    match intern_raw h (st_next s) c with
    | Some (h', nx, a) => Some (mkState h' (sl ++ [Some (KBytes, a)]) nx)
    | None => None
    end
  | OInternStr c =>
    if valid_utf8 c then
      (* unsafe { intern_bytes(str.as_bytes()).cast_str_unchecked() } *)
      match intern_raw h (st_next s) c with
      | Some (h1, nx, a) =>
        match reclone (upd h1 a set_utf8) a with
        | Some h2 => Some (mkState h2 (sl ++ [Some (KStr, a)]) nx)
        | None => None
        end
      | None => None
      end
    else Some s
  | OClone i =>
    match nth_error sl i with
    | Some (Some (k, a)) => with_heap s (inner_clone h a) (sl ++ [Some (k, a)])
    | _ => Some s
    end
  | ODrop i =>
    match nth_error sl i with
    | Some (Some (_, a)) => with_heap s (handle_drop h a) (set_nth i None sl)
    | _ => Some s
    end
  | OCastBytes i =>
    match nth_error sl i with
    | Some (Some (KStr, a)) => with_heap s (reclone h a) (set_nth i (Some (KBytes, a)) sl)
    | _ => Some s
    end
  | OCastStr i =>
    match nth_error sl i with
    | Some (Some (KBytes, a)) =>
      match lookup h a with
      | None => None
      | Some al =>
        (* Inner::check_utf8: cached flag, else validate and cache a positive answer *)
        if a_utf8 al then with_heap s (reclone h a) (set_nth i (Some (KStr, a)) sl)
        else if valid_utf8 (a_data al)
        then with_heap s (reclone (upd h a set_utf8) a) (set_nth i (Some (KStr, a)) sl)
        else with_heap s (handle_drop h a) (set_nth i None sl)
      end
    | _ => Some s
    end
  | OHandover =>
    (* exit_thread takes the map (leaving an empty one), reenter_thread puts it back and
       drops the empty one: no allocation changes pool membership *)
    Some s
  end.

Fixpoint impl_run (s : state) (ops : list op) : option state :=
  match ops with
  | [] => Some s
  | o :: r => match impl_step s o with Some s' => impl_run s' r | None => None end
  end.

(** ** SPEC *)
Definition sstate := list (option (kind * bytes)).

Definition spec_step (t : sstate) (o : op) : sstate :=
  match o with
  | OInternBytes c => t ++ [Some (KBytes, c)]
  | OInternStr c => if valid_utf8 c then t ++ [Some (KStr, c)] else t
  | OClone i => match nth_error t i with Some (Some x) => t ++ [Some x] | _ => t end
  | ODrop i => match nth_error t i with Some (Some _) => set_nth i None t | _ => t end
  | OCastBytes i =>
    match nth_error t i with Some (Some (KStr, c)) => set_nth i (Some (KBytes, c)) t | _ => t end
  | OCastStr i =>
    match nth_error t i with
    | Some (Some (KBytes, c)) => set_nth i (if valid_utf8 c then Some (KStr, c) else None) t
    | _ => t
    end
  | OHandover => t
  end.

Definition spec_run (ops : list op) : sstate := fold_left spec_step ops [].

(** live contents / number of distinct live contents = what the pool must hold *)
Definition live_contents (t : sstate) : list bytes :=
  flat_map (fun o => match o with Some (_, c) => [c] | None => [] end) t.
Definition spec_pool_len (t : sstate) : nat := length (nodup bytes_eq_dec (live_contents t)).
Definition spec_eq (t : sstate) (i j : nat) : option bool :=
  match nth_error t i, nth_error t j with
  | Some (Some (_, c1)), Some (Some (_, c2)) => Some (bytes_eqb c1 c2)
  | _, _ => None
  end.

(** ** Observables of the impl-model *)
Definition data_of (h : heap) (a : N) : bytes :=
  match lookup h a with Some al => a_data al | None => [] end.
Definition rc_of (h : heap) (a : N) : N :=
  match lookup h a with Some al => a_rc al | None => 0%N end.
Definition pool_len (s : state) : nat := length (filter a_pooled (st_heap s)).
(** handle equality is pointer equality ([Inner::ptr_eq]) *)
Definition impl_eq (s : state) (i j : nat) : option bool :=
  match nth_error (st_slots s) i, nth_error (st_slots s) j with
  | Some (Some (_, a1)), Some (Some (_, a2)) => Some (a1 =? a2)%N
  | _, _ => None
  end.
(** abstraction: what each live handle dereferences to *)
Definition abs (s : state) : sstate :=
  map (fun o => match o with Some (k, a) => Some (k, data_of (st_heap s) a) | None => None end)
      (st_slots s).

(** the addresses held by the client's live handles, and how many handles point at [a] *)
Definition refs_of (sl : list (option handle)) : list N :=
  flat_map (fun o => match o with Some (_, a) => [a] | None => [] end) sl.
Definition cnt (refs : list N) (a : N) : nat := count_occ N.eq_dec refs a.
Definition handles_on (s : state) (a : N) : nat := cnt (refs_of (st_slots s)) a.

(** histories short enough for the 31-bit counter (each op adds at most one handle and a
    conversion holds one temporary) *)
Definition short (ops : list op) : Prop := (N.of_nat (length ops) + 3 < refcnt_lim)%N.

(** ** Flat numeric observations for the correspondence check *)
Definition kind_code (k : kind) : N := match k with KStr => 1%N | KBytes => 2%N end.

Fixpoint first_idx {A} (p : A -> bool) (l : list A) (i : N) : N :=
  match l with
  | [] => i
  | x :: r => if p x then i else first_idx p r (i + 1)%N
  end.

Definition impl_slot_obs (s : state) (o : option handle) : list N :=
  match o with
  | None => [0%N]
  | Some (k, a) =>
    match lookup (st_heap s) a with
    | None => [999999%N]
    | Some al =>
      [kind_code k;
       first_idx (fun o' => match o' with Some (_, a') => (a' =? a)%N | None => false end)
                 (st_slots s) 0%N;
       a_rc al; N.of_nat (length (a_data al))] ++ a_data al
    end
  end.
Definition impl_obs (s : state) : list N :=
  N.of_nat (pool_len s) :: flat_map (impl_slot_obs s) (st_slots s).

Definition spec_slot_obs (t : sstate) (o : option (kind * bytes)) : list N :=
  match o with
  | None => [0%N]
  | Some (k, c) =>
    [kind_code k;
     first_idx (fun o' => match o' with Some (_, c') => bytes_eqb c' c | None => false end) t 0%N;
     N.of_nat (length c)] ++ c
  end.
Definition spec_obs (t : sstate) : list N :=
  N.of_nat (spec_pool_len t) :: flat_map (spec_slot_obs t) t.

Definition digest (l : list N) : N :=
  fold_left (fun h x => N.land (N.lxor (N.shiftl h 7) (N.shiftr h 3) + x + 1) 1152921504606846975)%N l 7%N.

(** digests of the observation after every step; a crash yields 0 from there on *)
Fixpoint impl_trace (s : option state) (ops : list op) : list N :=
  match ops with
  | [] => []
  | o :: r =>
    let s' := match s with Some st => impl_step st o | None => None end in
    (match s' with Some st => digest (impl_obs st) | None => 0%N end) :: impl_trace s' r
  end.
Fixpoint spec_trace (t : sstate) (ops : list op) : list N :=
  match ops with
  | [] => []
  | o :: r => let t' := spec_step t o in digest (spec_obs t') :: spec_trace t' r
  end.
Definition run_case (ops : list op) : list N * list N :=
  (impl_trace (Some init) ops, spec_trace [] ops).
(** full observations, for replays *)
Fixpoint impl_trace_full (s : option state) (ops : list op) : list (list N) :=
  match ops with
  | [] => []
  | o :: r =>
    let s' := match s with Some st => impl_step st o | None => None end in
    (match s' with Some st => impl_obs st | None => [888888%N] end) :: impl_trace_full s' r
  end.
Fixpoint spec_trace_full (t : sstate) (ops : list op) : list (list N) :=
  match ops with
  | [] => []
  | o :: r => let t' := spec_step t o in spec_obs t' :: spec_trace_full t' r
  end.
