(** C18 — which field types may own a [Cc], and the obligation on the regenerated inventory:
    no `#[trace(skip)]` field of a `derive(Trace)` type may.  Definitions + the decidable
    check; the theorem is closed by computation over [trace_inventory] (bound = that table). *)
From Coq Require Import List String Bool.
From JrV Require Import C18.TraceTy Gen.GenTrace.
Import ListNotations.
Open Scope string_scope.

Definition mem (s : string) (l : list string) : bool := existsb (String.eqb s) l.

(** never own what they point to *)
Definition non_owning : list string :=
  ["Weak"; "std::rc::Weak"; "PhantomData"; "std::marker::PhantomData"; "core::marker::PhantomData"].

(** closed list of external leaf types that contain no [Cc] whatever their arguments *)
Definition leaf_safe : list string :=
  ["bool"; "u8"; "u16"; "u32"; "u64"; "u128"; "usize"; "i8"; "i16"; "i32"; "i64"; "i128"; "isize";
   "f32"; "f64"; "char"; "str"; "String"; "PathBuf"; "Path"; "std::path::PathBuf"; "OsString";
   "IStr"; "IBytes"; "Span"; "Source"; "SourcePath"; "Visibility";
   "anyhow::Error"; "num_bigint::BigInt"; "std::fmt::Error"; "std::io::Error"].

(** own exactly what their arguments own *)
Definition transparent : list string :=
  ["Box"; "Rc"; "std::rc::Rc"; "Option"; "Vec"; "Cell"; "RefCell"; "Saturating"; "[]";
   "std::result::Result"; "std::cell::Cell"; "std::cell::RefCell"; "SmallVec"].

(** [own] : names of project types already known to (transitively) own a [Cc].
    [params]: type parameters of the definition being inspected (what they stand for is
    accounted for at the use site through the arguments).  A name that is neither listed
    nor defined in the inventory may own a [Cc]; [Cc] itself is such a name. *)
Fixpoint may_own_in (names own params : list string) (t : ty) : bool :=
  match t with
  | TFn => false
  | TRef _ => false
  | TDyn _ => true
  | TOther _ => true
  | TTuple l => existsb (may_own_in names own params) l
  | TPath name args =>
    if mem name non_owning then false
    else if mem name leaf_safe then false
    else if mem name params then false
    else if mem name transparent then existsb (may_own_in names own params) args
    else if mem name names then mem name own || existsb (may_own_in names own params) args
    else true
  end.

Definition def_owns (names own : list string) (d : tydef) : bool :=
  existsb (fun fl => may_own_in names own (d_params d) (f_ty fl)) (d_fields d).

(** one round of the least-fixpoint iteration *)
Definition own_step (inv : list tydef) (names own : list string) : list string :=
  map d_name (filter (def_owns names own) inv).

Fixpoint own_iter (n : nat) (inv : list tydef) (names own : list string) : list string :=
  match n with O => own | S k => own_iter k inv names (own_step inv names own) end.

Definition rounds : nat := 24.
Definition inv_names (inv : list tydef) : list string := map d_name inv.
Definition owning (inv : list tydef) : list string := own_iter rounds inv (inv_names inv) [].
(** the iteration has converged: one more round adds nothing *)
Definition stable_at (inv : list tydef) (own : list string) : bool :=
  forallb (fun n => mem n own) (own_step inv (inv_names inv) own).

Definition may_own_cc (inv : list tydef) (t : ty) : bool :=
  may_own_in (inv_names inv) (owning inv) [] t.

Definition skip_field_ok (inv : list tydef) (own : list string) (d : tydef) (fl : field) : bool :=
  negb (d_trace d && f_skip fl) || negb (may_own_in (inv_names inv) own [] (f_ty fl)).

Definition check_with (inv : list tydef) (own : list string) : bool :=
  stable_at inv own && forallb (fun d => forallb (skip_field_ok inv own d) (d_fields d)) inv.
Definition trace_complete_check (inv : list tydef) : bool :=
  let own := owning inv in check_with inv own.

Definition skipped_fields (inv : list tydef) : list (string * string) :=
  flat_map (fun d => if d_trace d
                     then map (fun fl => (d_name d, f_name fl)) (filter f_skip (d_fields d))
                     else []) inv.

Lemma trace_complete_of_check inv :
  trace_complete_check inv = true ->
  forall d fl, In d inv -> d_trace d = true -> In fl (d_fields d) -> f_skip fl = true ->
    may_own_cc inv (f_ty fl) = false.
Proof.
  intros H d fl Hd Ht Hf Hs. unfold trace_complete_check, check_with in H. cbv zeta in H.
  apply andb_true_iff in H. destruct H as [_ H]. unfold may_own_cc.
  rewrite forallb_forall in H. specialize (H d Hd). rewrite forallb_forall in H.
  specialize (H fl Hf). unfold skip_field_ok in H. rewrite Ht, Hs in H. cbn [andb negb orb] in H.
  destruct (may_own_in (inv_names inv) (owning inv) [] (f_ty fl)); [discriminate|reflexivity].
Qed.

(** the obligation on the table regenerated from /repo *)
Lemma trace_inventory_checked : trace_complete_check trace_inventory = true.
Proof. vm_compute. reflexivity. Qed.

Lemma trace_complete :
  forall d fl, In d trace_inventory -> d_trace d = true -> In fl (d_fields d) -> f_skip fl = true ->
    may_own_cc trace_inventory (f_ty fl) = false.
Proof. exact (trace_complete_of_check trace_inventory trace_inventory_checked). Qed.

(** non-vacuity: the table does contain skipped fields of traced types, and the classifier
    does answer [true] on the types that hold the interpreter's object graph *)
Example inventory_has_skips : Nat.leb 5 (List.length (skipped_fields trace_inventory)) = true.
Proof. vm_compute. reflexivity. Qed.
Example cc_may_own : may_own_cc trace_inventory (TPath "Cc" [TPath "ObjValueInner" []]) = true.
Proof. vm_compute. reflexivity. Qed.
Example val_may_own : may_own_cc trace_inventory (TPath "Val" []) = true.
Proof. vm_compute. reflexivity. Qed.
Example cache_may_own :
  may_own_cc trace_inventory
    (TPath "RefCell" [TPath "FxHashMap" [TTuple [TPath "IStr" []; TPath "CoreIdx" []]; TPath "CacheValue" []]]) = true.
Proof. vm_compute. reflexivity. Qed.
Example weak_does_not : may_own_cc trace_inventory (TPath "Weak" [TPath "ObjValueInner" []]) = false.
Proof. vm_compute. reflexivity. Qed.
