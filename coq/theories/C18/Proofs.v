(** C18 — lemmas about the interner model. *)
From Coq Require Import List NArith Bool Arith Lia Permutation.
From JrV Require Import C18.Model.
Import ListNotations.

(** * Reference counting functions *)
Definition bump (c : N -> nat) (a : N) : N -> nat := fun x => if N.eq_dec x a then S (c x) else c x.
Definition unbump (c : N -> nat) (a : N) : N -> nat := fun x => if N.eq_dec x a then pred (c x) else c x.

(** * The invariant on the heap, relative to a handle-count function *)
Definition alloc_ok (c : N -> nat) (al : alloc) : Prop :=
  a_pooled al = true /\
  a_rc al = (1 + N.of_nat (c (a_addr al)))%N /\
  (1 <= c (a_addr al))%nat /\
  (a_utf8 al = true -> valid_utf8 (a_data al) = true).

Definition Inv (h : heap) (c : N -> nat) : Prop :=
  NoDup (map a_addr h) /\ NoDup (map a_data h) /\ Forall (alloc_ok c) h /\
  (forall a, (0 < c a)%nat -> In a (map a_addr h)).

Lemma Inv_ext h c c' : (forall x, c x = c' x) -> Inv h c -> Inv h c'.
Proof.
  intros E (A & B & C & D). repeat split; auto.
  - eapply Forall_impl; [|exact C]. intros al (p & q & r & s). unfold alloc_ok.
    rewrite <- E. auto.
  - intros a Ha. apply D. rewrite E. exact Ha.
Qed.

Ltac sim := cbn [a_rc a_addr a_data a_utf8 a_pooled set_rc set_utf8 set_unpooled].

(** * lookup / upd / del *)
Lemma lookup_Some h a al : lookup h a = Some al -> In al h /\ a_addr al = a.
Proof.
  unfold lookup. intros H. apply find_some in H. destruct H as [H1 H2].
  apply N.eqb_eq in H2. auto.
Qed.

Lemma lookup_In h al : NoDup (map a_addr h) -> In al h -> lookup h (a_addr al) = Some al.
Proof.
  unfold lookup. induction h as [|x h IH]; intros ND HI; [contradiction|].
  cbn [find]. inversion ND; subst. destruct HI as [->|HI].
  - rewrite N.eqb_refl. reflexivity.
  - destruct (N.eqb_spec (a_addr x) (a_addr al)) as [E|E].
    + exfalso. apply H1. rewrite E. apply in_map. exact HI.
    + apply IH; auto.
Qed.

Lemma lookup_None h a : lookup h a = None -> ~ In a (map a_addr h).
Proof.
  unfold lookup. intros H HI. apply in_map_iff in HI. destruct HI as (al & E & HI).
  eapply find_none in H; [|exact HI]. cbn in H. rewrite E, N.eqb_refl in H. discriminate.
Qed.

Lemma lookup_ex h a : In a (map a_addr h) -> exists al, lookup h a = Some al.
Proof.
  intros HI. destruct (lookup h a) eqn:E; eauto. apply lookup_None in E. contradiction.
Qed.

Definition keeps_addr (f : alloc -> alloc) : Prop := forall al, a_addr (f al) = a_addr al.
Definition keeps_data (f : alloc -> alloc) : Prop := forall al, a_data (f al) = a_data al.

Lemma keeps_addr_set_rc n : keeps_addr (set_rc n). Proof. intros al; reflexivity. Qed.
Lemma keeps_addr_set_utf8 : keeps_addr set_utf8. Proof. intros al; reflexivity. Qed.
Lemma keeps_addr_set_unpooled : keeps_addr set_unpooled. Proof. intros al; reflexivity. Qed.
Lemma keeps_data_set_rc n : keeps_data (set_rc n). Proof. intros al; reflexivity. Qed.
Lemma keeps_data_set_utf8 : keeps_data set_utf8. Proof. intros al; reflexivity. Qed.
Lemma keeps_data_set_unpooled : keeps_data set_unpooled. Proof. intros al; reflexivity. Qed.
#[global] Hint Resolve keeps_addr_set_rc keeps_addr_set_utf8 keeps_addr_set_unpooled
  keeps_data_set_rc keeps_data_set_utf8 keeps_data_set_unpooled : c18.

Lemma upd_addrs h a f : keeps_addr f -> map a_addr (upd h a f) = map a_addr h.
Proof.
  intros K. unfold upd. rewrite map_map. apply map_ext. intros x.
  destruct (a_addr x =? a)%N; auto.
Qed.

Lemma upd_datas h a f : keeps_data f -> map a_data (upd h a f) = map a_data h.
Proof.
  intros K. unfold upd. rewrite map_map. apply map_ext. intros x.
  destruct (a_addr x =? a)%N; auto.
Qed.

Lemma lookup_upd h a f x :
  keeps_addr f ->
  lookup (upd h a f) x = if (x =? a)%N then option_map f (lookup h x) else lookup h x.
Proof.
  intros K. unfold lookup, upd. induction h as [|y h IH]; cbn [map find].
  - destruct (x =? a)%N; reflexivity.
  - destruct (N.eqb_spec (a_addr y) a) as [E|E].
    + rewrite K. destruct (N.eqb_spec (a_addr y) x) as [E2|E2].
      * subst. rewrite N.eqb_refl. reflexivity.
      * rewrite IH. reflexivity.
    + destruct (N.eqb_spec (a_addr y) x) as [E2|E2].
      * subst. destruct (N.eqb_spec (a_addr y) a); [contradiction|reflexivity].
      * exact IH.
Qed.

Lemma upd_notin h a f : ~ In a (map a_addr h) -> upd h a f = h.
Proof.
  unfold upd. induction h as [|y h IH]; intros NI; cbn [map]; [reflexivity|].
  cbn [map In] in NI. destruct (N.eqb_spec (a_addr y) a) as [E|E].
  - exfalso. apply NI. auto.
  - rewrite IH; auto.
Qed.

Lemma Forall_upd (P : alloc -> Prop) h a f :
  (forall al, In al h -> a_addr al <> a -> P al) ->
  (forall al, In al h -> a_addr al = a -> P (f al)) -> Forall P (upd h a f).
Proof.
  intros F HP. unfold upd. apply Forall_forall. intros y Hy.
  apply in_map_iff in Hy. destruct Hy as (x & E & Hx).
  destruct (N.eqb_spec (a_addr x) a); subst; auto.
Qed.

Lemma del_addrs h a : map a_addr (del h a) = filter (fun x => negb (x =? a)%N) (map a_addr h).
Proof.
  unfold del. induction h as [|y h IH]; cbn [map filter]; [reflexivity|].
  destruct (a_addr y =? a)%N; cbn [negb map]; rewrite IH; reflexivity.
Qed.

Lemma NoDup_map_filter {A B} (g : A -> B) p (l : list A) :
  NoDup (map g l) -> NoDup (map g (filter p l)).
Proof.
  induction l as [|x l IH]; cbn [map filter]; intros ND; [constructor|].
  inversion ND; subst. destruct (p x); cbn [map]; auto.
  constructor; auto. intros HI. apply H1. apply in_map_iff in HI.
  destruct HI as (y & E & Hy). apply filter_In in Hy. rewrite <- E. apply in_map. tauto.
Qed.

Lemma lookup_del h a x : lookup (del h a) x = if (x =? a)%N then None else lookup h x.
Proof.
  unfold lookup, del. induction h as [|y h IH]; cbn [filter find].
  - destruct (x =? a)%N; reflexivity.
  - destruct (N.eqb_spec (a_addr y) a) as [E|E]; cbn [negb find].
    + rewrite IH. destruct (N.eqb_spec x a) as [E2|E2]; [reflexivity|].
      destruct (N.eqb_spec (a_addr y) x); [congruence|reflexivity].
    + destruct (N.eqb_spec (a_addr y) x) as [E2|E2].
      * subst. destruct (N.eqb_spec (a_addr y) a); [contradiction|reflexivity].
      * exact IH.
Qed.

Lemma del_upd h a f : keeps_addr f -> del (upd h a f) a = del h a.
Proof.
  intros K. unfold del, upd. induction h as [|y h IH]; cbn [map filter]; [reflexivity|].
  destruct (N.eqb_spec (a_addr y) a) as [E|E].
  - rewrite K. destruct (N.eqb_spec (a_addr y) a); [|contradiction]. cbn [negb]. exact IH.
  - destruct (N.eqb_spec (a_addr y) a); [contradiction|]. cbn [negb]. rewrite IH. reflexivity.
Qed.

Lemma bytes_eqb_eq a b : bytes_eqb a b = true <-> a = b.
Proof.
  split; [apply bytes_eqb_true|]. intros ->. destruct (bytes_eqb b b) eqn:E; auto.
  exfalso. eapply bytes_eqb_false; eauto.
Qed.

Lemma pool_find_Some h c p : pool_find h c = Some p -> In p h /\ a_data p = c /\ a_pooled p = true.
Proof.
  unfold pool_find. intros H. apply find_some in H. destruct H as [H1 H2].
  apply andb_true_iff in H2. destruct H2 as [H2 H3]. apply bytes_eqb_eq in H3. auto.
Qed.

Lemma pool_find_None h c :
  Forall (fun al => a_pooled al = true) h -> pool_find h c = None -> ~ In c (map a_data h).
Proof.
  unfold pool_find. intros F H HI. apply in_map_iff in HI. destruct HI as (al & E & HI).
  eapply find_none in H; [|exact HI]. cbn in H. rewrite Forall_forall in F.
  rewrite (F _ HI) in H. cbn in H. apply not_true_iff_false in H. apply H. apply bytes_eqb_eq. auto.
Qed.

Lemma pool_find_In h al :
  NoDup (map a_data h) -> In al h -> a_pooled al = true -> pool_find h (a_data al) = Some al.
Proof.
  unfold pool_find. induction h as [|x h IH]; intros ND HI HP; [contradiction|].
  cbn [find]. inversion ND; subst. destruct HI as [->|HI].
  - rewrite HP. cbn. replace (bytes_eqb (a_data al) (a_data al)) with true; auto.
    symmetry. apply bytes_eqb_eq. reflexivity.
  - destruct (a_pooled x && bytes_eqb (a_data x) (a_data al)) eqn:E.
    + apply andb_true_iff in E. destruct E as [_ E]. apply bytes_eqb_eq in E.
      exfalso. apply H1. rewrite E. apply in_map. exact HI.
    + apply IH; auto.
Qed.

(** * What a step keeps for an address: same bytes, utf8 flag only ever set *)
Definition keeps (h h' : heap) (x : N) : Prop :=
  exists al al', lookup h x = Some al /\ lookup h' x = Some al' /\
                 a_data al' = a_data al /\ (a_utf8 al = true -> a_utf8 al' = true).

Lemma keeps_refl h x : In x (map a_addr h) -> keeps h h x.
Proof. intros HI. apply lookup_ex in HI. destruct HI as [al E]. exists al, al. auto. Qed.

Lemma keeps_trans h1 h2 h3 x : keeps h1 h2 x -> keeps h2 h3 x -> keeps h1 h3 x.
Proof.
  intros (a & b & E1 & E2 & D & U) (b' & c & E3 & E4 & D' & U').
  rewrite E2 in E3. inversion E3; subst. exists a, c. repeat split; auto; congruence.
Qed.

Lemma keeps_upd h a f x :
  keeps_addr f -> keeps_data f -> (forall al, a_utf8 al = true -> a_utf8 (f al) = true) ->
  In x (map a_addr h) -> keeps h (upd h a f) x.
Proof.
  intros KA KD KU HI. apply lookup_ex in HI. destruct HI as [al E].
  destruct (N.eqb_spec x a) as [EQ|NE].
  - exists al, (f al). rewrite lookup_upd by auto. rewrite E.
    destruct (N.eqb_spec x a); [|contradiction]. cbn. repeat split; auto.
  - exists al, al. rewrite lookup_upd by auto.
    destruct (N.eqb_spec x a); [contradiction|]. repeat split; auto.
Qed.

(** * Primitive operations preserve the invariant *)
Lemma Inv_lookup h c a : Inv h c -> (0 < c a)%nat ->
  exists al, lookup h a = Some al /\ In al h /\ a_addr al = a /\ alloc_ok c al.
Proof.
  intros (A & B & C & D) Ha. destruct (lookup_ex h a (D a Ha)) as [al E].
  exists al. destruct (lookup_Some _ _ _ E) as [HI HA]. rewrite Forall_forall in C. auto.
Qed.

Lemma clone_ok h c a :
  Inv h c -> (0 < c a)%nat -> (N.of_nat (c a) + 2 < refcnt_lim)%N ->
  exists h', inner_clone h a = Some h' /\ Inv h' (bump c a) /\
             (forall x, In x (map a_addr h) -> keeps h h' x) /\ map a_addr h' = map a_addr h.
Proof.
  intros I Ha Hb. destruct (Inv_lookup _ _ _ I Ha) as (al & E & HI & HA & (P & R & O & U)).
  destruct I as (A & B & C & D). unfold inner_clone. rewrite E.
  destruct (N.leb_spec refcnt_lim (a_rc al + 1)) as [L|L].
  { rewrite R, HA in L. lia. }
  eexists. split; [reflexivity|]. split; [|split].
  - repeat split.
    + rewrite upd_addrs; auto with c18.
    + rewrite upd_datas; auto with c18.
    + rewrite Forall_forall in C. apply Forall_upd.
      * intros y Hy Ey. destruct (C y Hy) as (p & r & o & u).
        unfold alloc_ok, bump. destruct (N.eq_dec (a_addr y) a); [contradiction|]. auto.
      * intros y Hy Ey. destruct (C y Hy) as (p & r & o & u).
        unfold alloc_ok, bump. sim. destruct (N.eq_dec (a_addr y) a); [|contradiction].
        assert (y = al).
        { pose proof (lookup_In h y A Hy) as L1. rewrite Ey, E in L1. congruence. }
        subst y. repeat split; auto; lia.
    + intros x Hx. rewrite upd_addrs by auto with c18. unfold bump in Hx.
      destruct (N.eq_dec x a); subst; apply D; lia.
  - intros x Hx. apply keeps_upd; auto with c18.
  - apply upd_addrs; auto with c18.
Qed.

Lemma unbump_pos c a x : (0 < unbump c a x)%nat -> (0 < c x)%nat.
Proof. unfold unbump. destruct (N.eq_dec x a); lia. Qed.

Lemma In_del_addr h a x : In x (map a_addr h) -> x <> a -> In x (map a_addr (del h a)).
Proof.
  intros HI NE. rewrite del_addrs. apply filter_In. split; auto.
  destruct (N.eqb_spec x a); [contradiction|reflexivity].
Qed.

Lemma drop_ok h c a :
  Inv h c -> (0 < c a)%nat ->
  exists h', handle_drop h a = Some h' /\ Inv h' (unbump c a) /\
             (forall x, (0 < unbump c a x)%nat -> keeps h h' x) /\
             incl (map a_addr h') (map a_addr h).
Proof.
  intros I Ha. destruct (Inv_lookup _ _ _ I Ha) as (al & E & HI & HA & (P & R & O & U)).
  destruct I as (A & B & C & D). rewrite HA in *.
  unfold handle_drop, maybe_unpool. rewrite E.
  destruct (N.leb_spec (a_rc al) 2) as [L|L].
  - (* last handle: unpool, then free *)
    assert (c a = 1%nat) as C1 by lia.
    rewrite (pool_find_In h al B HI P). rewrite HA.
    assert (R2 : a_rc al = 2%N) by lia.
    unfold inner_drop at 1. rewrite lookup_upd, N.eqb_refl, E by auto with c18.
    cbn [option_map]. sim. rewrite R2. cbn [N.eqb N.sub Pos.eqb Pos.sub Pos.pred_double Pos.sub_mask Pos.double_mask].
    change ((2 - 1 =? 0)%N) with false. cbn iota.
    unfold inner_drop. rewrite lookup_upd, N.eqb_refl by auto with c18.
    rewrite lookup_upd, N.eqb_refl, E by auto with c18. cbn [option_map]. sim.
    change ((2 - 1)%N) with 1%N. change ((1 =? 0)%N) with false. change ((1 - 1 =? 0)%N) with true.
    cbn iota. rewrite !del_upd by auto with c18.
    eexists. split; [reflexivity|]. split; [|split].
    + repeat split.
      * apply NoDup_map_filter. exact A.
      * apply NoDup_map_filter. exact B.
      * apply Forall_forall. intros y Hy. apply filter_In in Hy. destruct Hy as [Hy Ny].
        rewrite Forall_forall in C. destruct (C y Hy) as (p & r & o & u).
        unfold alloc_ok, unbump. destruct (N.eq_dec (a_addr y) a) as [e|e]; auto.
        rewrite e, N.eqb_refl in Ny. discriminate.
      * intros x Hx. pose proof (unbump_pos _ _ _ Hx) as Hx'. apply In_del_addr; auto.
        intros ->. unfold unbump in Hx. destruct (N.eq_dec a a); [|contradiction]. lia.
    + intros x Hx. pose proof (unbump_pos _ _ _ Hx) as Hx'.
      assert (x <> a).
      { intros ->. unfold unbump in Hx. destruct (N.eq_dec a a); [|contradiction]. lia. }
      destruct (lookup_ex h x (D x Hx')) as [ax Ex]. exists ax, ax.
      rewrite lookup_del. destruct (N.eqb_spec x a); [contradiction|]. auto.
    + intros x Hx. rewrite del_addrs in Hx. apply filter_In in Hx. tauto.
  - (* other handles remain: plain decrement *)
    unfold inner_drop. rewrite E.
    destruct (N.eqb_spec (a_rc al) 0) as [Z|Z]; [lia|].
    destruct (N.eqb_spec (a_rc al - 1) 0) as [Z1|Z1]; [lia|].
    eexists. split; [reflexivity|]. split; [|split].
    + repeat split.
      * rewrite upd_addrs; auto with c18.
      * rewrite upd_datas; auto with c18.
      * rewrite Forall_forall in C. apply Forall_upd.
        -- intros y Hy Ey. destruct (C y Hy) as (p & r & o & u).
           unfold alloc_ok, unbump. destruct (N.eq_dec (a_addr y) a); [contradiction|]. auto.
        -- intros y Hy Ey. destruct (C y Hy) as (p & r & o & u).
           unfold alloc_ok, unbump. sim. destruct (N.eq_dec (a_addr y) a); [|contradiction].
           assert (y = al).
           { pose proof (lookup_In h y A Hy) as L1. rewrite Ey, E in L1. congruence. }
           subst y. repeat split; auto; lia.
      * intros x Hx. rewrite upd_addrs by auto with c18. apply D. eapply unbump_pos; eauto.
    + intros x Hx. apply keeps_upd; auto with c18. apply D. eapply unbump_pos; eauto.
    + rewrite upd_addrs by auto with c18. apply incl_refl.
Qed.

Lemma bump_unbump c a x : unbump (bump c a) a x = c x.
Proof. unfold unbump, bump. destruct (N.eq_dec x a); reflexivity. Qed.

Lemma Inv_addr_in h c al : Inv h c -> In al h -> (0 < c (a_addr al))%nat.
Proof.
  intros (A & B & C & D) HI. rewrite Forall_forall in C. destruct (C al HI) as (_ & _ & o & _). lia.
Qed.

Lemma Inv_all_pooled h c : Inv h c -> Forall (fun al => a_pooled al = true) h.
Proof. intros (A & B & C & D). eapply Forall_impl; [|exact C]. intros al (p & _). exact p. Qed.

(** `K2(self.0.clone())` then drop of self: net effect on counts is nil *)
Lemma reclone_ok h c a :
  Inv h c -> (0 < c a)%nat -> (N.of_nat (c a) + 2 < refcnt_lim)%N ->
  exists h', reclone h a = Some h' /\ Inv h' c /\
             (forall x, (0 < c x)%nat -> keeps h h' x) /\ incl (map a_addr h') (map a_addr h).
Proof.
  intros I Ha Hb. destruct (clone_ok h c a I Ha Hb) as (h1 & E1 & I1 & K1 & A1).
  assert (Hb1 : (0 < bump c a a)%nat). { unfold bump. destruct (N.eq_dec a a); lia. }
  destruct (drop_ok h1 (bump c a) a I1 Hb1) as (h2 & E2 & I2 & K2 & A2).
  exists h2. unfold reclone. rewrite E1. split; [exact E2|]. split; [|split].
  - eapply Inv_ext; [|exact I2]. apply bump_unbump.
  - intros x Hx. eapply keeps_trans.
    + apply K1. destruct I as (_ & _ & _ & D). auto.
    + apply K2. rewrite bump_unbump. exact Hx.
  - rewrite <- A1. exact A2.
Qed.

Lemma set_utf8_ok h c a al :
  Inv h c -> lookup h a = Some al -> valid_utf8 (a_data al) = true ->
  Inv (upd h a set_utf8) c /\ (forall x, In x (map a_addr h) -> keeps h (upd h a set_utf8) x) /\
  (exists al', lookup (upd h a set_utf8) a = Some al' /\ a_utf8 al' = true /\ a_data al' = a_data al).
Proof.
  intros (A & B & C & D) E V. split; [|split].
  - repeat split.
    + rewrite upd_addrs; auto with c18.
    + rewrite upd_datas; auto with c18.
    + rewrite Forall_forall in C. apply Forall_upd.
      * intros y Hy _. auto.
      * intros y Hy Ey. destruct (C y Hy) as (p & r & o & u).
        assert (y = al).
        { pose proof (lookup_In h y A Hy) as L1. rewrite Ey, E in L1. congruence. }
        subst y. unfold alloc_ok. sim. auto.
    + intros x Hx. rewrite upd_addrs by auto with c18. auto.
  - intros x Hx. apply keeps_upd; auto with c18.
  - exists (set_utf8 al). rewrite lookup_upd, N.eqb_refl, E by auto with c18. auto.
Qed.

Definition fresh (h : heap) (next : N) : Prop := Forall (fun al => (a_addr al < next)%N) h.

Lemma fresh_notin h next : fresh h next -> ~ In next (map a_addr h).
Proof.
  intros F HI. apply in_map_iff in HI. destruct HI as (al & E & HI).
  unfold fresh in F. rewrite Forall_forall in F. specialize (F al HI). lia.
Qed.

Lemma fresh_incl h h' next next' :
  fresh h next -> incl (map a_addr h') (map a_addr h) -> (next <= next')%N -> fresh h' next'.
Proof.
  intros F I L. apply Forall_forall. intros al HI.
  assert (In (a_addr al) (map a_addr h)) as H by (apply I, in_map, HI).
  apply in_map_iff in H. destruct H as (y & E & Hy).
  unfold fresh in F. rewrite Forall_forall in F. specialize (F y Hy). lia.
Qed.

Lemma intern_ok h c next d :
  Inv h c -> fresh h next -> (forall x, N.of_nat (c x) + 2 < refcnt_lim)%N ->
  exists h' next' a,
    intern_raw h next d = Some (h', next', a) /\ Inv h' (bump c a) /\ fresh h' next' /\
    (forall x, (0 < c x)%nat -> keeps h h' x) /\
    (exists al, lookup h' a = Some al /\ a_data al = d).
Proof.
  intros I F Hb. unfold intern_raw. destruct (pool_find h d) as [p|] eqn:PF.
  - destruct (pool_find_Some _ _ _ PF) as (HI & HD & HP).
    pose proof (Inv_addr_in _ _ _ I HI) as Hc.
    destruct (clone_ok h c (a_addr p) I Hc (Hb _)) as (h1 & E1 & I1 & K1 & A1).
    rewrite E1. exists h1, next, (a_addr p). split; [reflexivity|]. split; [exact I1|]. split; [|split].
    + eapply fresh_incl; eauto. rewrite A1. apply incl_refl. lia.
    + intros x Hx. apply K1. destruct I as (_ & _ & _ & D). auto.
    + destruct I as (A & B & C & D).
      destruct (K1 (a_addr p)) as (al & al' & L1 & L2 & L3 & _). { apply in_map. exact HI. }
      exists al'. split; auto. rewrite L3. rewrite (lookup_In h p A HI) in L1. congruence.
  - pose proof (fresh_notin _ _ F) as NI.
    pose proof (pool_find_None _ _ (Inv_all_pooled _ _ I) PF) as ND.
    destruct I as (A & B & C & D).
    assert (C0 : c next = 0%nat).
    { destruct (c next) eqn:E; auto. exfalso. apply NI, D. lia. }
    unfold inner_clone, lookup. cbn [find]. sim. rewrite N.eqb_refl.
    destruct (N.leb_spec refcnt_lim (1 + 1)) as [L|L]; [unfold refcnt_lim in L; cbn in L; lia|].
    unfold upd. cbn [map]. sim. rewrite N.eqb_refl.
    fold (upd h next (set_rc (1 + 1))). rewrite (upd_notin h next _ NI).
    eexists _, _, _. split; [reflexivity|]. split; [|split; [|split]].
    + repeat split; cbn [map].
      * constructor; auto.
      * constructor; auto.
      * constructor.
        -- unfold alloc_ok, bump. sim. destruct (N.eq_dec next next); [|contradiction].
           rewrite C0. repeat split; auto; try lia; try discriminate.
        -- eapply Forall_impl; [|exact C]. intros y (p & r & o & u). unfold alloc_ok, bump.
           destruct (N.eq_dec (a_addr y) next) as [e|e]; auto.
           rewrite e, C0 in o. lia.
      * intros x Hx. unfold bump in Hx. destruct (N.eq_dec x next); [left; auto|right; auto].
    + constructor; sim; [lia|]. eapply Forall_impl; [|exact F]. cbn beta. intros; lia.
    + intros x Hx. destruct (lookup_ex h x (D x Hx)) as [ax Ex]. exists ax, ax.
      split; auto. split; auto. unfold lookup. cbn [find]. sim.
      destruct (N.eqb_spec next x) as [e|e]; auto.
      subst. rewrite C0 in Hx. lia.
    + eexists. unfold lookup. cbn [find]. sim. rewrite N.eqb_refl. split; reflexivity.
Qed.

(** * Slots and counts *)
Lemma refs_of_app l1 l2 : refs_of (l1 ++ l2) = refs_of l1 ++ refs_of l2.
Proof. unfold refs_of. apply flat_map_app. Qed.

Lemma refs_of_cons y l : refs_of (y :: l) = refs_of [y] ++ refs_of l.
Proof. apply (refs_of_app [y] l). Qed.

Lemma cnt_app_one sl k a x : cnt (refs_of (sl ++ [Some (k, a)])) x = bump (cnt (refs_of sl)) a x.
Proof.
  unfold cnt, bump. rewrite refs_of_app, count_occ_app. cbn [refs_of flat_map app count_occ].
  destruct (N.eq_dec a x), (N.eq_dec x a); subst; try congruence; lia.
Qed.

Lemma cnt_nth_pos sl i k a : nth_error sl i = Some (Some (k, a)) -> (0 < cnt (refs_of sl) a)%nat.
Proof.
  revert i. induction sl as [|y sl IH]; intros [|i] H; cbn in H; try discriminate.
  - inversion H; subst. unfold cnt. cbn [refs_of flat_map app count_occ].
    destruct (N.eq_dec a a); [lia|contradiction].
  - specialize (IH i H). unfold cnt in *.
    rewrite (refs_of_cons y (sl)). rewrite count_occ_app. lia.
Qed.

Lemma cnt_set_none sl i k a x :
  nth_error sl i = Some (Some (k, a)) ->
  cnt (refs_of (set_nth i None sl)) x = unbump (cnt (refs_of sl)) a x.
Proof.
  revert i. induction sl as [|y sl IH]; intros [|i] H; cbn in H; try discriminate.
  - inversion H; subst. unfold cnt, unbump. cbn [set_nth refs_of flat_map app count_occ].
    destruct (N.eq_dec a x), (N.eq_dec x a); subst; try congruence; reflexivity.
  - cbn [set_nth]. specialize (IH i H). unfold cnt, unbump in *.
    rewrite (refs_of_cons y (set_nth i _ sl)).
    rewrite (refs_of_cons y (sl)).
    pose proof (cnt_nth_pos _ _ _ _ H) as PP. unfold cnt in PP.
    rewrite !count_occ_app, IH. destruct (N.eq_dec x a); subst; lia.
Qed.

Lemma cnt_set_same sl i k k' a x :
  nth_error sl i = Some (Some (k, a)) ->
  cnt (refs_of (set_nth i (Some (k', a)) sl)) x = cnt (refs_of sl) x.
Proof.
  revert i. induction sl as [|y sl IH]; intros [|i] H; cbn in H; try discriminate.
  - inversion H; subst. reflexivity.
  - cbn [set_nth]. specialize (IH i H). unfold cnt in *.
    rewrite (refs_of_cons y (set_nth i _ sl)).
    rewrite (refs_of_cons y (sl)).
    rewrite !count_occ_app, IH. reflexivity.
Qed.

Lemma cnt_le_len sl x : (cnt (refs_of sl) x <= length sl)%nat.
Proof.
  induction sl as [|y sl IH]; [cbn; lia|]. unfold cnt in *.
  rewrite (refs_of_cons y (sl)). rewrite count_occ_app.
  cbn [length]. destruct y as [[k a]|]; cbn [refs_of flat_map app count_occ].
  - destruct (N.eq_dec a x); lia.
  - lia.
Qed.

Lemma in_slots_pos sl k x : In (Some (k, x)) sl -> (0 < cnt (refs_of sl) x)%nat.
Proof.
  intros HI. apply In_nth_error in HI. destruct HI as [i Hi]. eapply cnt_nth_pos; eauto.
Qed.

Lemma in_set_nth {A} i (v y : A) l : In y (set_nth i v l) -> y = v \/ In y l.
Proof.
  revert i. induction l as [|z l IH]; intros [|i] H; cbn in *; auto.
  - destruct H; auto.
  - destruct H; auto. destruct (IH _ H); auto.
Qed.

Lemma map_set_nth {A B} (f : A -> B) i v l : map f (set_nth i v l) = set_nth i (f v) (map f l).
Proof.
  revert i. induction l as [|z l IH]; intros [|i]; cbn; auto. rewrite IH. reflexivity.
Qed.

Lemma length_set_nth {A} i (v : A) l : length (set_nth i v l) = length l.
Proof. revert i. induction l as [|z l IH]; intros [|i]; cbn; auto. Qed.

(** * State invariant *)
Definition absf (h : heap) (o : option handle) : option (kind * bytes) :=
  match o with Some (k, a) => Some (k, data_of h a) | None => None end.

Lemma abs_absf s : abs s = map (absf (st_heap s)) (st_slots s).
Proof. reflexivity. Qed.

Definition str_ok (h : heap) (sl : list (option handle)) : Prop :=
  forall a, In (Some (KStr, a)) sl -> exists al, lookup h a = Some al /\ a_utf8 al = true.

Definition SInv (s : state) : Prop :=
  Inv (st_heap s) (cnt (refs_of (st_slots s))) /\ fresh (st_heap s) (st_next s) /\
  str_ok (st_heap s) (st_slots s).

Definition small (s : state) : Prop := (N.of_nat (length (st_slots s)) + 3 < refcnt_lim)%N.

Lemma keeps_data_of h h' x : keeps h h' x -> data_of h' x = data_of h x.
Proof. intros (al & al' & E1 & E2 & D & _). unfold data_of. rewrite E1, E2. exact D. Qed.

Lemma absf_keeps h h' sl :
  (forall k x, In (Some (k, x)) sl -> keeps h h' x) -> map (absf h') sl = map (absf h) sl.
Proof.
  intros K. apply map_ext_in. intros [[k a]|] HI; cbn; auto.
  rewrite (keeps_data_of h h' a); eauto.
Qed.

Lemma finish s h' sl' nx' :
  SInv s -> Inv h' (cnt (refs_of sl')) -> fresh h' nx' ->
  (forall x, In (Some (KStr, x)) sl' ->
     (In (Some (KStr, x)) (st_slots s) /\ keeps (st_heap s) h' x) \/
     (exists al, lookup h' x = Some al /\ a_utf8 al = true)) ->
  SInv (mkState h' sl' nx').
Proof.
  intros (I & F & S) I' F' H. split; [exact I'|]. split; [exact F'|].
  intros x Hx. destruct (H x Hx) as [[Ho K]|N]; auto.
  destruct (S x Ho) as (al & E & U). destruct K as (b & b' & E1 & E2 & _ & KU).
  exists b'. split; auto. apply KU. congruence.
Qed.

Lemma bound_of s x : small s -> (N.of_nat (cnt (refs_of (st_slots s)) x) + 3 < refcnt_lim)%N.
Proof. unfold small. pose proof (cnt_le_len (st_slots s) x). lia. Qed.

Lemma step_ok s o :
  SInv s -> small s ->
  exists s', impl_step s o = Some s' /\ SInv s' /\ abs s' = spec_step (abs s) o /\
             (length (st_slots s') <= S (length (st_slots s)))%nat.
Proof.
  intros SI SM. pose proof SI as (I & F & S).
  destruct s as [h sl nx]. cbn [st_heap st_slots st_next] in *.
  set (c := cnt (refs_of sl)) in *.
  assert (BD : forall x, (N.of_nat (c x) + 3 < refcnt_lim)%N).
  { intros x. apply (bound_of (mkState h sl nx)). exact SM. }
  assert (D : forall x, (0 < c x)%nat -> In x (map a_addr h)) by (destruct I as (_ & _ & _ & D); exact D).
  destruct o as [d|d|i|i|i|i|]; unfold impl_step; cbn [st_heap st_slots st_next].
  - (* intern_bytes *)
    destruct (intern_ok h c nx d I F) as (h' & nx' & a & E & I' & F' & K & (al & L & LD)).
    { intros x. specialize (BD x). lia. }
    rewrite E. eexists. split; [reflexivity|]. split; [|split].
    + apply (finish (mkState h sl nx)); auto.
      * eapply Inv_ext; [|exact I']. intros x. symmetry. apply cnt_app_one.
      * intros x Hx. apply in_app_or in Hx. destruct Hx as [Hx|[Hx|[]]]; [|discriminate].
        left. split; auto. apply K. eapply in_slots_pos; eauto.
    + rewrite !abs_absf. cbn [st_heap st_slots spec_step]. rewrite map_app. cbn [map absf].
      unfold data_of at 1. rewrite L, LD. f_equal. apply absf_keeps.
      intros k x Hx. apply K. eapply in_slots_pos; eauto.
    + cbn [st_slots]. rewrite app_length. cbn. lia.
  - (* intern_str *)
    cbn [spec_step]. destruct (valid_utf8 d) eqn:V.
    2:{ exists (mkState h sl nx); split; [reflexivity|]; split; [exact SI|]; split; [reflexivity|]; cbn [st_slots]; lia. }
    destruct (intern_ok h c nx d I F) as (h1 & nx' & a & E & I1 & F1 & K1 & (al & L & LD)).
    { intros x. specialize (BD x). lia. }
    rewrite E.
    assert (V1 : valid_utf8 (a_data al) = true) by (rewrite LD; exact V).
    destruct (set_utf8_ok h1 (bump c a) a al I1 L V1) as (I2 & K2 & (al2 & L2 & U2 & D2)).
    assert (P2 : (0 < bump c a a)%nat). { unfold bump. destruct (N.eq_dec a a); lia. }
    destruct (reclone_ok _ (bump c a) a I2 P2) as (h3 & E3 & I3 & K3 & A3).
    { unfold bump. destruct (N.eq_dec a a); [|contradiction]. specialize (BD a). lia. }
    rewrite E3. eexists. split; [reflexivity|].
    assert (KK : forall x, (0 < c x)%nat -> keeps h h3 x).
    { intros x Hx. eapply keeps_trans; [apply K1; exact Hx|].
      assert (In x (map a_addr h1)).
      { destruct (K1 x Hx) as (_ & b & _ & Eb & _). apply lookup_Some in Eb.
        destruct Eb as [Eb <-]. apply in_map. exact Eb. }
      eapply keeps_trans; [apply K2; exact H|]. apply K3. unfold bump.
      destruct (N.eq_dec x a); lia. }
    destruct (K3 a P2) as (b & b' & Eb & Eb' & Db & Ub).
    rewrite L2 in Eb. inversion Eb; subst b.
    split; [|split].
    + apply (finish (mkState h sl nx)); auto.
      * eapply Inv_ext; [|exact I3]. intros x. symmetry. apply cnt_app_one.
      * eapply fresh_incl; [exact F1| |lia]. rewrite <- (upd_addrs h1 a set_utf8) by auto with c18.
        exact A3.
      * intros x Hx. apply in_app_or in Hx. destruct Hx as [Hx|[Hx|[]]].
        -- left. split; auto. apply KK. eapply in_slots_pos; eauto.
        -- inversion Hx; subst x. right. exists b'. auto.
    + rewrite !abs_absf. cbn [st_heap st_slots]. rewrite map_app. cbn [map absf].
      unfold data_of at 1. rewrite Eb', Db, D2, LD. f_equal. apply absf_keeps.
      intros k x Hx. apply KK. eapply in_slots_pos; eauto.
    + cbn [st_slots]. rewrite app_length. cbn. lia.
  - (* clone *)
    cbn [spec_step]. rewrite abs_absf. cbn [st_heap st_slots]. rewrite nth_error_map.
    destruct (nth_error sl i) as [[[k a]|]|] eqn:N; cbn [option_map absf].
    2,3: exists (mkState h sl nx); split; [reflexivity|]; split; [exact SI|]; split; [reflexivity|]; cbn [st_slots]; lia.
    pose proof (cnt_nth_pos _ _ _ _ N) as Pa. fold c in Pa.
    destruct (clone_ok h c a I Pa) as (h' & E & I' & K & A). { specialize (BD a). lia. }
    rewrite E. cbn [with_heap st_next]. eexists. split; [reflexivity|]. split; [|split].
    + apply (finish (mkState h sl nx)); auto.
      * eapply Inv_ext; [|exact I']. intros x. symmetry. apply cnt_app_one.
      * eapply fresh_incl; [exact F| |lia]. rewrite A. apply incl_refl.
      * intros x Hx. left. cbn [st_slots st_heap].
        assert (In (Some (KStr, x)) sl).
        { apply in_app_or in Hx. destruct Hx as [Hx|[Hx|[]]]; auto.
          inversion Hx; subst. eapply nth_error_In; eauto. }
        split; auto. apply K, D. eapply in_slots_pos; eauto.
    + rewrite abs_absf. cbn [st_heap st_slots]. rewrite map_app. cbn [map absf].
      rewrite (keeps_data_of h h' a) by (apply K, D, Pa). f_equal. apply absf_keeps.
      intros k' x Hx. apply K, D. eapply in_slots_pos; eauto.
    + cbn [st_slots]. rewrite app_length. cbn. lia.
  - (* drop *)
    cbn [spec_step]. rewrite abs_absf. cbn [st_heap st_slots]. rewrite nth_error_map.
    destruct (nth_error sl i) as [[[k a]|]|] eqn:N; cbn [option_map absf].
    2,3: exists (mkState h sl nx); split; [reflexivity|]; split; [exact SI|]; split; [reflexivity|]; cbn [st_slots]; lia.
    pose proof (cnt_nth_pos _ _ _ _ N) as Pa. fold c in Pa.
    destruct (drop_ok h c a I Pa) as (h' & E & I' & K & A).
    rewrite E. cbn [with_heap st_next]. eexists. split; [reflexivity|].
    assert (KK : forall k' x, In (Some (k', x)) (set_nth i None sl) -> keeps h h' x).
    { intros k' x Hx. apply K. unfold c. rewrite <- (cnt_set_none sl i k a x N). eapply in_slots_pos; eauto. }
    split; [|split].
    + apply (finish (mkState h sl nx)); auto.
      * eapply Inv_ext; [|exact I']. intros x. symmetry. eapply cnt_set_none; eauto.
      * eapply fresh_incl; [exact F|exact A|lia].
      * intros x Hx. left. cbn [st_slots st_heap]. split; [|eapply KK; eauto].
        apply in_set_nth in Hx. destruct Hx; [discriminate|auto].
    + rewrite abs_absf. cbn [st_heap st_slots]. rewrite (absf_keeps h h' _ KK).
      apply (map_set_nth (absf h) i None sl).
    + cbn [st_slots]. rewrite length_set_nth. lia.
  - (* cast_bytes *)
    cbn [spec_step]. rewrite abs_absf. cbn [st_heap st_slots]. rewrite nth_error_map.
    destruct (nth_error sl i) as [[[[|] a]|]|] eqn:N; cbn [option_map absf].
    2,3,4: exists (mkState h sl nx); split; [reflexivity|]; split; [exact SI|]; split; [reflexivity|]; cbn [st_slots]; lia.
    pose proof (cnt_nth_pos _ _ _ _ N) as Pa. fold c in Pa.
    destruct (reclone_ok h c a I Pa) as (h' & E & I' & K & A). { specialize (BD a). lia. }
    rewrite E. cbn [with_heap st_next]. eexists. split; [reflexivity|].
    assert (KK : forall k' x, In (Some (k', x)) (set_nth i (Some (KBytes, a)) sl) -> keeps h h' x).
    { intros k' x Hx. apply K. unfold c. rewrite <- (cnt_set_same sl i KStr KBytes a x N).
      eapply in_slots_pos; eauto. }
    split; [|split].
    + apply (finish (mkState h sl nx)); auto.
      * eapply Inv_ext; [|exact I']. intros x. symmetry. eapply cnt_set_same; eauto.
      * eapply fresh_incl; [exact F|exact A|lia].
      * intros x Hx. left. cbn [st_slots st_heap]. split; [|eapply KK; eauto].
        apply in_set_nth in Hx. destruct Hx; [discriminate|auto].
    + rewrite abs_absf. cbn [st_heap st_slots]. rewrite (absf_keeps h h' _ KK).
      apply (map_set_nth (absf h) i (Some (KBytes, a)) sl).
    + cbn [st_slots]. rewrite length_set_nth. lia.
  - (* cast_str *)
    cbn [spec_step]. rewrite abs_absf. cbn [st_heap st_slots]. rewrite nth_error_map.
    destruct (nth_error sl i) as [[[[|] a]|]|] eqn:N; cbn [option_map absf].
    1,3,4: exists (mkState h sl nx); split; [reflexivity|]; split; [exact SI|]; split; [reflexivity|]; cbn [st_slots]; lia.
    pose proof (cnt_nth_pos _ _ _ _ N) as Pa. fold c in Pa.
    destruct (Inv_lookup _ _ _ I Pa) as (al & L & HI & HA & (P & R & O & U)).
    rewrite L. unfold data_of at 1. rewrite L.
    assert (KS : forall h', (forall x, (0 < c x)%nat -> keeps h h' x) ->
                 forall k' x, In (Some (k', x)) (set_nth i (Some (KStr, a)) sl) -> keeps h h' x).
    { intros h' K k' x Hx. apply K. unfold c. rewrite <- (cnt_set_same sl i KBytes KStr a x N).
      eapply in_slots_pos; eauto. }
    destruct (a_utf8 al) eqn:UF.
    + (* cached flag *)
      rewrite (U eq_refl).
      destruct (reclone_ok h c a I Pa) as (h' & E & I' & K & A). { specialize (BD a). lia. }
      rewrite E. cbn [with_heap st_next]. eexists. split; [reflexivity|]. split; [|split].
      * apply (finish (mkState h sl nx)); auto.
        -- eapply Inv_ext; [|exact I']. intros x. symmetry. eapply cnt_set_same; eauto.
        -- eapply fresh_incl; [exact F|exact A|lia].
        -- intros x Hx. cbn [st_slots st_heap].
           apply in_set_nth in Hx. destruct Hx as [Hx|Hx].
           ++ inversion Hx; subst x. right. destruct (K a Pa) as (b & b' & E1 & E2 & _ & KU).
              exists b'. split; auto. apply KU. congruence.
           ++ left. split; auto. apply K. eapply in_slots_pos; eauto.
      * rewrite abs_absf. cbn [st_heap st_slots]. rewrite (absf_keeps h h' _ (KS h' K)).
        rewrite (map_set_nth (absf h) i (Some (KStr, a)) sl). cbn [absf]. unfold data_of. rewrite L.
        reflexivity.
      * cbn [st_slots]. rewrite length_set_nth. lia.
    + destruct (valid_utf8 (a_data al)) eqn:V.
      * (* validate, cache, convert *)
        destruct (set_utf8_ok h c a al I L V) as (I2 & K2 & (al2 & L2 & U2 & D2)).
        destruct (reclone_ok _ c a I2 Pa) as (h' & E & I' & K3 & A). { specialize (BD a). lia. }
        rewrite E. cbn [with_heap st_next]. eexists. split; [reflexivity|].
        assert (K : forall x, (0 < c x)%nat -> keeps h h' x).
        { intros x Hx. eapply keeps_trans; [apply K2, D, Hx|apply K3, Hx]. }
        split; [|split].
        -- apply (finish (mkState h sl nx)); auto.
           ++ eapply Inv_ext; [|exact I']. intros x. symmetry. eapply cnt_set_same; eauto.
           ++ eapply fresh_incl; [exact F| |lia].
              rewrite <- (upd_addrs h a set_utf8) by auto with c18. exact A.
           ++ intros x Hx. cbn [st_slots st_heap].
              apply in_set_nth in Hx. destruct Hx as [Hx|Hx].
              ** inversion Hx; subst x. right.
                 destruct (K3 a Pa) as (b & b' & E1 & E2 & _ & KU).
                 exists b'. split; auto. apply KU. congruence.
              ** left. split; auto. apply K. eapply in_slots_pos; eauto.
        -- rewrite abs_absf. cbn [st_heap st_slots]. rewrite (absf_keeps h h' _ (KS h' K)).
           rewrite (map_set_nth (absf h) i (Some (KStr, a)) sl). cbn [absf]. unfold data_of.
           rewrite L. reflexivity.
        -- cbn [st_slots]. rewrite length_set_nth. lia.
      * (* not UTF-8: cast_str returns None and the handle is gone *)
        destruct (drop_ok h c a I Pa) as (h' & E & I' & K & A).
        rewrite E. cbn [with_heap st_next]. eexists. split; [reflexivity|].
        assert (KK : forall k' x, In (Some (k', x)) (set_nth i None sl) -> keeps h h' x).
        { intros k' x Hx. apply K. unfold c. rewrite <- (cnt_set_none sl i KBytes a x N).
          eapply in_slots_pos; eauto. }
        split; [|split].
        -- apply (finish (mkState h sl nx)); auto.
           ++ eapply Inv_ext; [|exact I']. intros x. symmetry. eapply cnt_set_none; eauto.
           ++ eapply fresh_incl; [exact F|exact A|lia].
           ++ intros x Hx. left. cbn [st_slots st_heap]. split; [|eapply KK; eauto].
              apply in_set_nth in Hx. destruct Hx; [discriminate|auto].
        -- rewrite abs_absf. cbn [st_heap st_slots]. rewrite (absf_keeps h h' _ KK).
           apply (map_set_nth (absf h) i None sl).
        -- cbn [st_slots]. rewrite length_set_nth. lia.
  - (* hand-over *)
    exists (mkState h sl nx); split; [reflexivity|]; split; [exact SI|]; split; [reflexivity|]; cbn [st_slots]; lia.
Qed.

(** * Whole histories *)
Lemma SInv_init : SInv init.
Proof.
  unfold SInv, init. cbn. repeat split; try constructor.
  - intros a H. unfold cnt in H. cbn in H. lia.
  - intros a [].
Qed.

Lemma run_ok ops : forall s,
  SInv s -> (N.of_nat (length (st_slots s) + length ops) + 3 < refcnt_lim)%N ->
  exists s', impl_run s ops = Some s' /\ SInv s' /\ abs s' = fold_left spec_step ops (abs s).
Proof.
  induction ops as [|o ops IH]; intros s SI B.
  - exists s. cbn. auto.
  - cbn [length] in B.
    destruct (step_ok s o SI) as (s1 & E1 & SI1 & A1 & L1). { unfold small. lia. }
    destruct (IH s1 SI1) as (s2 & E2 & SI2 & A2). { lia. }
    exists s2. cbn [impl_run fold_left]. rewrite E1, <- A1. auto.
Qed.

Lemma reach ops s :
  short ops -> impl_run init ops = Some s -> SInv s /\ abs s = spec_run ops.
Proof.
  intros B E. destruct (run_ok ops init SInv_init) as (s' & E' & SI & A).
  { unfold short in B. cbn [init st_slots length]. lia. }
  rewrite E in E'. inversion E'; subst. auto.
Qed.

Lemma intern_refines ops : short ops -> exists s, impl_run init ops = Some s /\ abs s = spec_run ops.
Proof.
  intros B. destruct (run_ok ops init SInv_init) as (s' & E' & SI & A).
  { unfold short in B. cbn [init st_slots length]. lia. }
  exists s'. auto.
Qed.

(** * Observables under the invariant *)
Lemma NoDup_map_inj {A B} (g : A -> B) l x y :
  NoDup (map g l) -> In x l -> In y l -> g x = g y -> x = y.
Proof.
  induction l as [|z l IH]; intros ND Hx Hy E; [contradiction|].
  cbn [map] in ND. inversion ND; subst. destruct Hx as [->|Hx], Hy as [->|Hy]; auto.
  - exfalso. apply H1. rewrite E. apply in_map. exact Hy.
  - exfalso. apply H1. rewrite <- E. apply in_map. exact Hx.
Qed.

Lemma eq_iff_content_inv s i j : SInv s -> impl_eq s i j = spec_eq (abs s) i j.
Proof.
  intros (I & F & S). unfold impl_eq, spec_eq. rewrite abs_absf, !nth_error_map.
  destruct (nth_error (st_slots s) i) as [[[k1 a1]|]|] eqn:N1; cbn [option_map absf]; auto.
  destruct (nth_error (st_slots s) j) as [[[k2 a2]|]|] eqn:N2; cbn [option_map absf]; auto.
  f_equal.
  destruct (Inv_lookup _ _ _ I (cnt_nth_pos _ _ _ _ N1)) as (al1 & L1 & H1 & A1 & _).
  destruct (Inv_lookup _ _ _ I (cnt_nth_pos _ _ _ _ N2)) as (al2 & L2 & H2 & A2 & _).
  unfold data_of. rewrite L1, L2. destruct I as (A & B & C & D).
  destruct (N.eqb_spec a1 a2) as [E|E].
  - assert (al1 = al2) by congruence. subst al2. symmetry. apply bytes_eqb_eq. reflexivity.
  - symmetry. apply not_true_iff_false. intros Q. apply bytes_eqb_eq in Q.
    apply E. rewrite <- A1, <- A2. f_equal. eapply NoDup_map_inj; eauto.
Qed.

Lemma cnt_pos_in sl a : (0 < cnt (refs_of sl) a)%nat -> exists k, In (Some (k, a)) sl.
Proof.
  unfold cnt. intros H. apply count_occ_In in H. unfold refs_of in H. apply in_flat_map in H.
  destruct H as ([[k a']|] & HI & Ha); [|contradiction]. destruct Ha as [->|[]]. eauto.
Qed.

Lemma live_contents_in t c : In c (live_contents t) <-> exists k, In (Some (k, c)) t.
Proof.
  unfold live_contents. rewrite in_flat_map. split.
  - intros ([[k c']|] & HI & Hc); [|contradiction]. destruct Hc as [->|[]]. eauto.
  - intros (k & HI). exists (Some (k, c)). split; auto. left; reflexivity.
Qed.

Lemma pool_len_inv s :
  SInv s -> pool_len s = spec_pool_len (abs s) /\ length (st_heap s) = pool_len s.
Proof.
  intros (I & F & S). pose proof (Inv_all_pooled _ _ I) as AP.
  assert (FE : filter a_pooled (st_heap s) = st_heap s).
  { clear -AP. induction (st_heap s) as [|x l IH]; [reflexivity|]. inversion AP; subst.
    cbn [filter]. rewrite H1, IH; auto. }
  unfold pool_len. rewrite FE. split; [|reflexivity].
  unfold spec_pool_len. rewrite <- (map_length a_data).
  apply Permutation_length. destruct I as (A & B & C & D).
  apply NoDup_Permutation; [exact B|apply NoDup_nodup|].
  intros d. rewrite nodup_In, live_contents_in. split.
  - intros HI. apply in_map_iff in HI. destruct HI as (al & E & HI).
    rewrite Forall_forall in C. destruct (C al HI) as (_ & _ & o & _).
    destruct (cnt_pos_in (st_slots s) (a_addr al)) as (k & Hk); [lia|].
    exists k. rewrite abs_absf. apply in_map_iff. exists (Some (k, a_addr al)). split; auto.
    cbn [absf]. unfold data_of. rewrite (lookup_In _ _ A HI). rewrite E. reflexivity.
  - intros (k & HI). rewrite abs_absf in HI. apply in_map_iff in HI.
    destruct HI as ([[k' a]|] & E & HI); [|discriminate]. cbn [absf] in E. inversion E; subst.
    pose proof (in_slots_pos _ _ _ HI) as P.
    destruct (lookup_ex _ _ (D a P)) as (al & L). unfold data_of. rewrite L.
    apply in_map. apply lookup_Some in L. tauto.
Qed.

Lemma refs_of_all_none sl : (forall o, In o sl -> o = None) -> refs_of sl = [].
Proof.
  induction sl as [|y sl IH]; intros H; [reflexivity|].
  rewrite refs_of_cons, IH by (intros; apply H; right; auto).
  rewrite (H y) by (left; auto). reflexivity.
Qed.

Lemma pool_drains_inv s : SInv s -> (forall o, In o (st_slots s) -> o = None) -> st_heap s = [].
Proof.
  intros (I & F & S) H. destruct I as (A & B & C & D).
  destruct (st_heap s) as [|al l]; [reflexivity|]. exfalso.
  inversion C; subst. destruct H2 as (_ & _ & o & _).
  rewrite (refs_of_all_none _ H) in o. cbn in o. lia.
Qed.

Lemma utf8_sound_inv s :
  SInv s ->
  (forall al, In al (st_heap s) -> a_utf8 al = true -> valid_utf8 (a_data al) = true) /\
  (forall i a, nth_error (st_slots s) i = Some (Some (KStr, a)) ->
     valid_utf8 (data_of (st_heap s) a) = true).
Proof.
  intros (I & F & S). destruct I as (A & B & C & D). rewrite Forall_forall in C. split.
  - intros al HI. destruct (C al HI) as (_ & _ & _ & u). exact u.
  - intros i a N. destruct (S a (nth_error_In _ _ N)) as (al & L & U).
    unfold data_of. rewrite L. destruct (lookup_Some _ _ _ L) as [HI _].
    destruct (C al HI) as (_ & _ & _ & u). auto.
Qed.

Lemma refcount_inv s :
  SInv s ->
  (forall al, In al (st_heap s) ->
     a_rc al = (1 + N.of_nat (handles_on s (a_addr al)))%N /\ (1 <= handles_on s (a_addr al))%nat) /\
  (forall i k a, nth_error (st_slots s) i = Some (Some (k, a)) ->
     exists al, lookup (st_heap s) a = Some al).
Proof.
  intros (I & F & S). split.
  - destruct I as (A & B & C & D). rewrite Forall_forall in C.
    intros al HI. destruct (C al HI) as (_ & r & o & _). auto.
  - intros i k a N. destruct (Inv_lookup _ _ _ I (cnt_nth_pos _ _ _ _ N)) as (al & L & _). eauto.
Qed.

(** * Live values keep their contents (spec level, then transported) *)
Lemma nth_error_set_nth_same {A} i (v x : A) l :
  nth_error l i = Some x -> nth_error (set_nth i v l) i = Some v.
Proof. revert i. induction l as [|z l IH]; intros [|i] H; cbn in *; try discriminate; auto. Qed.

Lemma nth_error_set_nth_other {A} i j (v : A) l :
  i <> j -> nth_error (set_nth i v l) j = nth_error l j.
Proof.
  revert i j. induction l as [|z l IH]; intros [|i] [|j] H; cbn; auto; try congruence.
Qed.

Lemma nth_error_app_some {A} (l l' : list A) i x :
  nth_error l i = Some x -> nth_error (l ++ l') i = Some x.
Proof. intros H. rewrite nth_error_app1; auto. apply nth_error_Some. congruence. Qed.

Definition content_kept (t t' : sstate) : Prop :=
  forall i k c, nth_error t i = Some (Some (k, c)) ->
    nth_error t' i = Some None \/ exists k', nth_error t' i = Some (Some (k', c)).

Lemma spec_content_kept t o : content_kept t (spec_step t o).
Proof.
  intros i k c H.
  assert (Keep : forall t', t' = t -> nth_error t' i = Some None \/
                             exists k', nth_error t' i = Some (Some (k', c))).
  { intros t' ->. right. eauto. }
  assert (App : forall x, nth_error (t ++ [x]) i = Some None \/
                          exists k', nth_error (t ++ [x]) i = Some (Some (k', c))).
  { intros x. right. exists k. apply nth_error_app_some. exact H. }
  destruct o as [d|d|j|j|j|j|]; cbn [spec_step]; auto.
  - destruct (valid_utf8 d); auto.
  - destruct (nth_error t j) as [[x|]|]; auto.
  - destruct (nth_error t j) as [[x|]|] eqn:N; auto.
    destruct (Nat.eq_dec j i) as [->|NE].
    + left. eapply nth_error_set_nth_same; eauto.
    + rewrite nth_error_set_nth_other by auto. eauto.
  - destruct (nth_error t j) as [[[[|] c']|]|] eqn:N; auto.
    destruct (Nat.eq_dec j i) as [->|NE].
    + right. exists KBytes. rewrite (nth_error_set_nth_same _ _ _ _ N). congruence.
    + rewrite nth_error_set_nth_other by auto. eauto.
  - destruct (nth_error t j) as [[[[|] c']|]|] eqn:N; auto.
    destruct (Nat.eq_dec j i) as [->|NE].
    + rewrite (nth_error_set_nth_same _ _ _ _ N).
      destruct (valid_utf8 c'); [right; exists KStr; congruence|left; reflexivity].
    + rewrite nth_error_set_nth_other by auto. eauto.
Qed.

Lemma live_keep_content ops o s s' :
  short (ops ++ [o]) -> impl_run init ops = Some s -> impl_step s o = Some s' ->
  content_kept (abs s) (abs s').
Proof.
  intros B E1 E2.
  assert (B1 : short ops). { unfold short in *. rewrite app_length in B. cbn [length] in B. lia. }
  destruct (reach ops s B1 E1) as (SI & A).
  destruct (step_ok s o SI) as (s1 & E & _ & A1 & _).
  { unfold small. unfold short in B. rewrite app_length in B. cbn [length] in B.
    assert (length (st_slots s) <= length ops)%nat; [|lia].
    rewrite <- (map_length (absf (st_heap s))), <- abs_absf, A. clear.
    unfold spec_run.
    assert (G : forall l t0, (length (fold_left spec_step l t0) <= length t0 + length l)%nat).
    { clear. induction l as [|o l IH]; intros t0; cbn [fold_left length]; [lia|].
      specialize (IH (spec_step t0 o)).
      assert (length (spec_step t0 o) <= S (length t0))%nat; [|lia].
      destruct o as [d|d|j|j|j|j|]; cbn [spec_step]; try lia.
      - rewrite app_length; cbn; lia.
      - destruct (valid_utf8 d); [rewrite app_length; cbn|]; lia.
      - destruct (nth_error t0 j) as [[x|]|]; [rewrite app_length; cbn| |]; lia.
      - destruct (nth_error t0 j) as [[x|]|]; [rewrite length_set_nth| |]; lia.
      - destruct (nth_error t0 j) as [[[[|] c']|]|]; try rewrite length_set_nth; lia.
      - destruct (nth_error t0 j) as [[[[|] c']|]|]; try rewrite length_set_nth; lia. }
    specialize (G ops (@nil (option (kind * bytes)))). cbn [length] in G. lia. }
  rewrite E2 in E. inversion E; subst s1. rewrite A1. apply spec_content_kept.
Qed.

(** * The statements of Properties.v *)
Lemma eq_iff_content ops s i j :
  short ops -> impl_run init ops = Some s -> impl_eq s i j = spec_eq (spec_run ops) i j.
Proof.
  intros B E. destruct (reach ops s B E) as [SI A]. rewrite <- A.
  apply eq_iff_content_inv. exact SI.
Qed.

Lemma pool_is_live_contents ops s :
  short ops -> impl_run init ops = Some s ->
  pool_len s = spec_pool_len (spec_run ops) /\ length (st_heap s) = pool_len s.
Proof.
  intros B E. destruct (reach ops s B E) as [SI A]. rewrite <- A. apply pool_len_inv. exact SI.
Qed.

Lemma pool_drains ops s :
  short ops -> impl_run init ops = Some s ->
  (forall o, In o (st_slots s) -> o = None) -> st_heap s = [] /\ pool_len s = 0%nat.
Proof.
  intros B E H. destruct (reach ops s B E) as [SI A].
  pose proof (pool_drains_inv s SI H) as Z. split; [exact Z|]. unfold pool_len. rewrite Z. reflexivity.
Qed.

Lemma utf8_flag_sound ops s :
  short ops -> impl_run init ops = Some s ->
  (forall al, In al (st_heap s) -> a_utf8 al = true -> valid_utf8 (a_data al) = true) /\
  (forall i a, nth_error (st_slots s) i = Some (Some (KStr, a)) ->
     valid_utf8 (data_of (st_heap s) a) = true).
Proof. intros B E. destruct (reach ops s B E) as [SI A]. apply utf8_sound_inv. exact SI. Qed.

Lemma refcount_exact ops s :
  short ops -> impl_run init ops = Some s ->
  (forall al, In al (st_heap s) ->
     a_rc al = (1 + N.of_nat (handles_on s (a_addr al)))%N /\ (1 <= handles_on s (a_addr al))%nat) /\
  (forall i k a, nth_error (st_slots s) i = Some (Some (k, a)) ->
     exists al, lookup (st_heap s) a = Some al).
Proof. intros B E. destruct (reach ops s B E) as [SI A]. apply refcount_inv. exact SI. Qed.

Lemma refcount_no_underflow ops : short ops -> impl_run init ops <> None.
Proof. intros B. destruct (intern_refines ops B) as (s & E & _). congruence. Qed.

(** non-vacuity: a history exercising every operation, within the bound *)
Definition demo_ops : list op :=
  [OInternStr [97%N]; OInternBytes [97%N]; OClone 0; OCastBytes 0; OCastStr 1; OHandover;
   OInternBytes [255%N]; OCastStr 3; ODrop 0; ODrop 1; ODrop 2].
Example demo_short : short demo_ops.
Proof. unfold short, demo_ops, refcnt_lim. cbn. lia. Qed.
Example demo_runs :
  exists s, impl_run init demo_ops = Some s /\ pool_len s = 0%nat /\
            abs s = [None; None; None; None].
Proof. eexists. split; [vm_compute; reflexivity|]. split; reflexivity. Qed.
Example demo_two_equal :
  exists s, impl_run init [OInternStr [97%N]; OInternBytes [97%N]; OInternBytes [98%N]] = Some s /\
            impl_eq s 0 1 = Some true /\ impl_eq s 0 2 = Some false /\ pool_len s = 2%nat.
Proof. eexists. split; [vm_compute; reflexivity|]. repeat split. Qed.
