(** Statements of the C18 property theorems, pinned: weakening one breaks this file. *)
From Coq Require Import String.
From Coq Require Import List NArith Bool Arith.
From JrV Require Import C18.Model C18.TraceTy Gen.GenTrace C18.Trace C18.Collect C18.Properties.
Import ListNotations.

Check C18_intern_refines :
  forall ops, short ops -> exists s, impl_run init ops = Some s /\ abs s = spec_run ops.
Check C18_refcount_no_underflow : forall ops, short ops -> impl_run init ops <> None.
Check C18_eq_iff_content :
  forall ops s i j, short ops -> impl_run init ops = Some s ->
    impl_eq s i j = spec_eq (spec_run ops) i j.
Check C18_pool_is_live_contents :
  forall ops s, short ops -> impl_run init ops = Some s ->
    pool_len s = spec_pool_len (spec_run ops) /\ length (st_heap s) = pool_len s.
Check C18_pool_drains :
  forall ops s, short ops -> impl_run init ops = Some s ->
    (forall o, In o (st_slots s) -> o = None) -> st_heap s = [] /\ pool_len s = 0%nat.
Check C18_utf8_flag_sound :
  forall ops s, short ops -> impl_run init ops = Some s ->
    (forall al, In al (st_heap s) -> a_utf8 al = true -> valid_utf8 (a_data al) = true) /\
    (forall i a, nth_error (st_slots s) i = Some (Some (KStr, a)) ->
       valid_utf8 (data_of (st_heap s) a) = true).
Check C18_refcount_exact :
  forall ops s, short ops -> impl_run init ops = Some s ->
    (forall al, In al (st_heap s) ->
       a_rc al = (1 + N.of_nat (handles_on s (a_addr al)))%N /\ (1 <= handles_on s (a_addr al))%nat) /\
    (forall i k a, nth_error (st_slots s) i = Some (Some (k, a)) ->
       exists al, lookup (st_heap s) a = Some al).
Check C18_live_keep_content :
  forall ops o s s', short (ops ++ [o]) -> impl_run init ops = Some s -> impl_step s o = Some s' ->
    forall i k c, nth_error (abs s) i = Some (Some (k, c)) ->
      nth_error (abs s') i = Some None \/ exists k', nth_error (abs s') i = Some (Some (k', c)).

Check C18_trace_complete :
  forall d fl, In d trace_inventory -> d_trace d = true -> In fl (d_fields d) -> f_skip fl = true ->
    may_own_cc trace_inventory (f_ty fl) = false.
Check C18_collect_reclaims :
  forall (node : Type) (node_eq_dec : forall a b : node, {a = b} + {a <> b})
         (nodes : list node) (owns traced : node -> list node) (ext : node -> nat),
    (forall n y, In n nodes -> In y (owns n) -> In y nodes) ->
    (forall n, In n nodes -> traced n = owns n) ->
    forall x, In x nodes ->
      (collected node node_eq_dec nodes owns traced ext x <-> ~ reachable node nodes owns ext x).
Check C18_collect_safe :
  forall (node : Type) (node_eq_dec : forall a b : node, {a = b} + {a <> b})
         (nodes : list node) (owns traced : node -> list node) (ext : node -> nat),
    (forall n y, In n nodes -> In y (owns n) -> In y nodes) ->
    (forall n z, In n nodes -> count_occ node_eq_dec (traced n) z <= count_occ node_eq_dec (owns n) z) ->
    forall x, reachable node nodes owns ext x -> marked node node_eq_dec nodes owns traced ext x.
Check C18_skipped_edge_leaks :
  forall (node : Type) (node_eq_dec : forall a b : node, {a = b} + {a <> b})
         (nodes : list node) (owns traced : node -> list node) (ext : node -> nat),
    (forall n z, In n nodes -> count_occ node_eq_dec (traced n) z <= count_occ node_eq_dec (owns n) z) ->
    forall x y, In x nodes -> In y nodes ->
      count_occ node_eq_dec (traced x) y < count_occ node_eq_dec (owns x) y ->
      marked node node_eq_dec nodes owns traced ext y.
(** the classifier, pinned on types whose answer must not change *)
Check eq_refl : may_own_in ["A"%string] [] [] (TPath "Cc" [TPath "A" []]) = true.
Check eq_refl : may_own_in ["A"%string] [] [] (TPath "Weak" [TPath "Cc" []]) = false.
Check eq_refl : may_own_in ["A"%string] ["A"%string] [] (TPath "Option" [TPath "A" []]) = true.
Check eq_refl : may_own_in ["A"%string] [] [] (TPath "Option" [TPath "A" []]) = false.
Check eq_refl : may_own_in [] [] [] (TRef (TDyn "StaticBuiltin")) = false.
Check eq_refl : may_own_in [] [] [] TFn = false.
Check eq_refl : may_own_in [] [] [] (TPath "T" []) = true.

(** the definitions the statements rest on, pinned by evaluation *)
Check eq_refl : short [OInternStr [97%N]] = (N.of_nat 1 + 3 < 2 ^ 31)%N.
Check eq_refl : spec_run [OInternStr [97%N]; OInternBytes [97%N]; OCastStr 1; ODrop 0]
                = [None; Some (KStr, [97%N])].
Check eq_refl : spec_run [OInternBytes [255%N]; OCastStr 0] = [None].
Check eq_refl : spec_pool_len [Some (KStr, [97%N]); Some (KBytes, [97%N]); Some (KBytes, [98%N]); None] = 2%nat.
Check eq_refl : spec_eq [Some (KStr, [97%N]); Some (KBytes, [97%N]); Some (KBytes, [98%N])] 0 1 = Some true.
Check eq_refl : spec_eq [Some (KStr, [97%N]); Some (KBytes, [97%N]); Some (KBytes, [98%N])] 0 2 = Some false.
Check eq_refl : map valid_utf8 [[195%N; 169%N]; [255%N]; [195%N]; [237%N; 160%N; 128%N]; [192%N; 128%N];
                                [240%N; 159%N; 146%N; 150%N]; [244%N; 144%N; 128%N; 128%N]; [224%N; 159%N; 191%N]]
                = [true; false; false; false; false; true; false; false].
