(** C18 — source tie, lemmas: the functions translated from the interner's source
    (Gen.GenIntern) are the hand model's (C18.Model) on every heap whose counts fit the 31-bit
    field, and that condition is kept by every step. *)
From Coq Require Import List NArith Bool Arith Lia.
From JrV Require Import C18.Model C18.Proofs C18.SourceVocab Gen.GenIntern C18.ModelSource.
Import ListNotations.

Local Arguments refcnt_lim : simpl never.

Lemma lim_eq : gen_refcnt_lim = refcnt_lim.
Proof. reflexivity. Qed.

Lemma lookup_In h a al : lookup h a = Some al -> In al h /\ a_addr al = a.
Proof.
  unfold lookup. intros H. apply find_some in H. destruct H as [H1 H2].
  apply N.eqb_eq in H2. auto.
Qed.

Lemma fits_lookup h a al : rc_fits h -> lookup h a = Some al -> (a_rc al < refcnt_lim)%N.
Proof.
  intros F L. apply lookup_In in L. destruct L as [I _].
  unfold rc_fits in F. rewrite Forall_forall in F. auto.
Qed.

Lemma del_upd h a f : (forall x, a_addr (f x) = a_addr x) -> del (upd h a f) a = del h a.
Proof.
  intros Hf. unfold del, upd. induction h as [|x h IH]; cbn; [reflexivity|].
  destruct (N.eqb_spec (a_addr x) a) as [E|E].
  - rewrite Hf. destruct (N.eqb_spec (a_addr x) a); [|contradiction]. cbn. exact IH.
  - destruct (N.eqb_spec (a_addr x) a); [contradiction|]. cbn. f_equal. exact IH.
Qed.

Lemma upd_fits_keep h a f : (forall x, a_rc (f x) = a_rc x) -> rc_fits h -> rc_fits (upd h a f).
Proof.
  intros Hf F. unfold rc_fits, upd in *. induction F as [|x h Hx F IH]; cbn; constructor; auto.
  destruct (a_addr x =? a)%N; [rewrite Hf|]; auto.
Qed.

Lemma upd_fits_set h a n : (n < refcnt_lim)%N -> rc_fits h -> rc_fits (upd h a (set_rc n)).
Proof.
  intros Hn F. unfold rc_fits, upd in *. induction F as [|x h Hx F IH]; cbn; constructor; auto.
  destruct (a_addr x =? a)%N; cbn; auto.
Qed.

Lemma del_fits h a : rc_fits h -> rc_fits (del h a).
Proof.
  intros F. unfold rc_fits, del in *. induction F as [|x h Hx F IH]; cbn; [constructor|].
  destruct (negb (a_addr x =? a)%N); [constructor|]; auto.
Qed.

(** ** the translated functions are the model's *)
Lemma src_clone_eq h a : gen_inner_clone h a = inner_clone h a.
Proof.
  unfold gen_inner_clone, inner_clone, hdr_refcnt, gen_set_refcnt, hdr_write_rc, bind.
  rewrite lim_eq. destruct (lookup h a) as [al|]; cbn; [|reflexivity].
  destruct (refcnt_lim <=? a_rc al + 1)%N; reflexivity.
Qed.

Lemma src_drop_eq h a : rc_fits h -> gen_inner_drop h a = inner_drop h a.
Proof.
  intros F.
  unfold gen_inner_drop, inner_drop, hdr_refcnt, gen_set_refcnt, hdr_write_rc, checked_sub, heap_free, bind.
  rewrite lim_eq. destruct (lookup h a) as [al|] eqn:L; cbn; [|reflexivity].
  pose proof (fits_lookup _ _ _ F L) as B.
  destruct (N.ltb_spec (a_rc al) 1) as [H1|H1]; destruct (N.eqb_spec (a_rc al) 0) as [H0|H0]; try lia; try reflexivity.
  cbn. destruct (N.leb_spec refcnt_lim (a_rc al - 1)) as [H2|H2]; [lia|].
  cbn. destruct (N.eqb_spec (a_rc al - 1) 0); [|reflexivity].
  f_equal. apply del_upd. intros x. reflexivity.
Qed.

Lemma src_strong_count_eq h a : gen_strong_count h a = option_map a_rc (lookup h a).
Proof. reflexivity. Qed.

Lemma src_unpool_threshold_eq h a : rc_fits h -> gen_maybe_unpool h a = maybe_unpool h a.
Proof.
  intros F.
  unfold gen_maybe_unpool, maybe_unpool, gen_strong_count, gen_unpool, hdr_refcnt, hdr_data, pool_remove,
    pool_is_empty, bind.
  destruct (lookup h a) as [al|] eqn:L; cbn; [|reflexivity].
  destruct (a_rc al <=? 2)%N; [|reflexivity].
  cbn.
  destruct (pool_find h (a_data al)) as [p|].
  - rewrite src_drop_eq.
    + destruct (inner_drop _ _); reflexivity.
    + apply upd_fits_keep; auto.
  - destruct (existsb a_pooled h); reflexivity.
Qed.

Lemma clone_fits h a h' : rc_fits h -> inner_clone h a = Some h' -> rc_fits h'.
Proof.
  unfold inner_clone. intros F. destruct (lookup h a) as [al|]; [|discriminate].
  destruct (N.leb_spec refcnt_lim (a_rc al + 1)); [discriminate|].
  intros E. injection E as <-. apply upd_fits_set; auto.
Qed.

Lemma drop_fits h a h' : rc_fits h -> inner_drop h a = Some h' -> rc_fits h'.
Proof.
  unfold inner_drop. intros F. destruct (lookup h a) as [al|] eqn:L; [|discriminate].
  pose proof (fits_lookup _ _ _ F L) as B.
  destruct (a_rc al =? 0)%N; [discriminate|].
  destruct (a_rc al - 1 =? 0)%N; intros E; injection E as <-.
  - apply del_fits; auto.
  - apply upd_fits_set; auto. lia.
Qed.

Lemma unpool_fits h a h' : rc_fits h -> maybe_unpool h a = Some h' -> rc_fits h'.
Proof.
  unfold maybe_unpool. intros F. destruct (lookup h a) as [al|]; [|discriminate].
  destruct (a_rc al <=? 2)%N.
  - destruct (pool_find h (a_data al)) as [p|].
    + apply drop_fits. apply upd_fits_keep; auto.
    + destruct (existsb a_pooled h); [discriminate|]. intros E; injection E as <-; auto.
  - intros E; injection E as <-; auto.
Qed.

Lemma handle_drop_fits h a h' : rc_fits h -> handle_drop h a = Some h' -> rc_fits h'.
Proof.
  unfold handle_drop. intros F. destruct (maybe_unpool h a) as [h1|] eqn:U; [|discriminate].
  apply drop_fits. eapply unpool_fits; eauto.
Qed.

Lemma reclone_fits h a h' : rc_fits h -> reclone h a = Some h' -> rc_fits h'.
Proof.
  unfold reclone. intros F. destruct (inner_clone h a) as [h1|] eqn:C; [|discriminate].
  apply handle_drop_fits. eapply clone_fits; eauto.
Qed.

Lemma intern_fits h n c h' n' a : rc_fits h -> intern_raw h n c = Some (h', n', a) -> rc_fits h'.
Proof.
  unfold intern_raw. intros F. destruct (pool_find h c) as [p|].
  - destruct (inner_clone h (a_addr p)) as [h1|] eqn:C; [|discriminate].
    intros E; injection E as <- <- <-. eapply clone_fits; eauto.
  - destruct (inner_clone _ n) as [h1|] eqn:C; [|discriminate].
    intros E; injection E as <- <- <-. eapply clone_fits; [|exact C].
    constructor; auto. cbn. reflexivity.
Qed.

Lemma src_handle_drop_eq k h a : rc_fits h -> gen_handle_drop k h a = handle_drop h a.
Proof.
  intros F. unfold handle_drop.
  destruct k; unfold gen_handle_drop, gen_handle_drop_str, gen_handle_drop_bytes, bind;
    rewrite src_unpool_threshold_eq by auto;
    (destruct (maybe_unpool h a) as [h1|] eqn:U; [|reflexivity]);
    apply src_drop_eq; eapply unpool_fits; eauto.
Qed.

Lemma src_handle_clone_eq k h a : gen_handle_clone k h a = inner_clone h a.
Proof. destruct k; apply src_clone_eq. Qed.

Lemma src_intern_eq h n c : gen_intern_bytes h n c = intern_raw h n c.
Proof.
  unfold gen_intern_bytes, intern_raw, pool_lookup, heap_alloc, bind.
  destruct (pool_find h c) as [p|]; cbn.
  - rewrite src_clone_eq. destruct (inner_clone h (a_addr p)); reflexivity.
  - rewrite src_clone_eq. reflexivity.
Qed.

Lemma src_reclone_eq k h a :
  rc_fits h -> bind (gen_inner_clone h a) (fun h1 => gen_handle_drop k h1 a) = reclone h a.
Proof.
  intros F. unfold reclone, bind. rewrite src_clone_eq.
  destruct (inner_clone h a) as [h1|] eqn:C; [|reflexivity].
  apply src_handle_drop_eq. eapply clone_fits; eauto.
Qed.

Lemma src_cast_bytes_eq h a : rc_fits h -> gen_cast_bytes h a = reclone h a.
Proof. intros F. apply (src_reclone_eq KStr); auto. Qed.

Lemma src_cast_str_unchecked_eq h a : rc_fits h -> gen_cast_str_unchecked h a = reclone (upd h a set_utf8) a.
Proof.
  intros F. unfold gen_cast_str_unchecked, gen_assume_utf8, gen_set_is_utf8, hdr_write_utf8. cbn [bind].
  apply (src_reclone_eq KBytes). apply upd_fits_keep; auto.
Qed.

Lemma src_intern_str_eq h n c : rc_fits h ->
  gen_intern_str h n c =
  match intern_raw h n c with
  | Some (h1, nx, a) => match reclone (upd h1 a set_utf8) a with Some h2 => Some (h2, nx, a) | None => None end
  | None => None
  end.
Proof.
  intros F. unfold gen_intern_str. rewrite src_intern_eq.
  destruct (intern_raw h n c) as [[[h1 nx] a]|] eqn:I; cbn [bind fst snd]; [|reflexivity].
  rewrite src_cast_str_unchecked_eq by (eapply intern_fits; eauto).
  destruct (reclone _ a); reflexivity.
Qed.

Lemma src_cast_str_eq h a : rc_fits h ->
  gen_cast_str h a =
  match lookup h a with
  | None => None
  | Some al =>
    if a_utf8 al then option_map (fun x => (x, true)) (reclone h a)
    else if valid_utf8 (a_data al) then option_map (fun x => (x, true)) (reclone (upd h a set_utf8) a)
    else option_map (fun x => (x, false)) (handle_drop h a)
  end.
Proof.
  intros F. unfold gen_cast_str, gen_check_utf8, hdr_is_utf8, hdr_data, gen_set_is_utf8, hdr_write_utf8.
  destruct (lookup h a) as [al|] eqn:L; cbn; [|reflexivity].
  destruct (a_utf8 al); cbn.
  - rewrite (src_reclone_eq KBytes) by auto. destruct (reclone h a); reflexivity.
  - destruct (valid_utf8 (a_data al)); cbn.
    + rewrite (src_reclone_eq KBytes) by (apply upd_fits_keep; auto). destruct (reclone _ a); reflexivity.
    + change gen_handle_drop_bytes with (gen_handle_drop KBytes). rewrite src_handle_drop_eq by auto.
      destruct (handle_drop h a); reflexivity.
Qed.

(** ** the assembled machine *)
Lemma src_step_eq s o : rc_fits (st_heap s) -> src_step s o = impl_step s o.
Proof.
  intros F. destruct o as [c|c|i|i|i|i|]; cbn [src_step impl_step].
  - rewrite src_intern_eq. reflexivity.
  - destruct (valid_utf8 c); [|reflexivity]. rewrite src_intern_str_eq by auto.
    destruct (intern_raw _ _ c) as [[[h1 nx] a]|]; [|reflexivity].
    destruct (reclone _ a); reflexivity.
  - destruct (nth_error (st_slots s) i) as [[[k a]|]|]; try reflexivity.
    rewrite src_handle_clone_eq. reflexivity.
  - destruct (nth_error (st_slots s) i) as [[[k a]|]|]; try reflexivity.
    rewrite src_handle_drop_eq by auto. reflexivity.
  - destruct (nth_error (st_slots s) i) as [[[[|] a]|]|]; try reflexivity.
    rewrite src_cast_bytes_eq by auto. reflexivity.
  - destruct (nth_error (st_slots s) i) as [[[[|] a]|]|]; try reflexivity.
    rewrite src_cast_str_eq by auto.
    destruct (lookup (st_heap s) a) as [al|]; [|reflexivity].
    destruct (a_utf8 al); [destruct (reclone _ a); reflexivity|].
    destruct (valid_utf8 (a_data al)); [destruct (reclone _ a); reflexivity|].
    destruct (handle_drop _ a); reflexivity.
  - reflexivity.
Qed.

Lemma with_heap_fits s r sl s' :
  (forall h', r = Some h' -> rc_fits h') -> with_heap s r sl = Some s' -> rc_fits (st_heap s').
Proof. unfold with_heap. destruct r; [|discriminate]. intros H E. injection E as <-. cbn. auto. Qed.

Lemma impl_step_fits s o s' : rc_fits (st_heap s) -> impl_step s o = Some s' -> rc_fits (st_heap s').
Proof.
  intros F. destruct o as [c|c|i|i|i|i|]; cbn [impl_step].
  - destruct (intern_raw _ _ c) as [[[h1 nx] a]|] eqn:I; [|discriminate].
    intros E; injection E as <-. cbn. eapply intern_fits; eauto.
  - destruct (valid_utf8 c); [|intros E; injection E as <-; auto].
    destruct (intern_raw _ _ c) as [[[h1 nx] a]|] eqn:I; [|discriminate].
    destruct (reclone _ a) as [h2|] eqn:R; [|discriminate].
    intros E; injection E as <-. cbn. eapply reclone_fits; [|exact R].
    apply upd_fits_keep; auto. eapply intern_fits; eauto.
  - destruct (nth_error (st_slots s) i) as [[[k a]|]|]; try (intros E; injection E as <-; auto).
    apply with_heap_fits. intros h'. apply clone_fits; auto.
  - destruct (nth_error (st_slots s) i) as [[[k a]|]|]; try (intros E; injection E as <-; auto).
    apply with_heap_fits. intros h'. apply handle_drop_fits; auto.
  - destruct (nth_error (st_slots s) i) as [[[[|] a]|]|]; try (intros E; injection E as <-; auto).
    apply with_heap_fits. intros h'. apply reclone_fits; auto.
  - destruct (nth_error (st_slots s) i) as [[[[|] a]|]|]; try (intros E; injection E as <-; auto).
    destruct (lookup (st_heap s) a) as [al|]; [|discriminate].
    destruct (a_utf8 al); [apply with_heap_fits; intros h'; apply reclone_fits; auto|].
    destruct (valid_utf8 (a_data al)).
    + apply with_heap_fits; intros h'; apply reclone_fits. apply upd_fits_keep; auto.
    + apply with_heap_fits; intros h'; apply handle_drop_fits; auto.
  - intros E; injection E as <-; auto.
Qed.

Lemma src_run_eq_from s ops : rc_fits (st_heap s) -> src_run s ops = impl_run s ops.
Proof.
  revert s. induction ops as [|o r IH]; intros s F; cbn; [reflexivity|].
  rewrite src_step_eq by auto.
  destruct (impl_step s o) as [s'|] eqn:E; [|reflexivity].
  apply IH. eapply impl_step_fits; eauto.
Qed.

Lemma src_run_eq ops : src_run init ops = impl_run init ops.
Proof. apply src_run_eq_from. constructor. Qed.

Lemma src_run_fits ops s : src_run init ops = Some s -> rc_fits (st_heap s).
Proof.
  rewrite src_run_eq.
  assert (G : forall s0, rc_fits (st_heap s0) -> impl_run s0 ops = Some s -> rc_fits (st_heap s)).
  { induction ops as [|o r IH]; intros s0 F; cbn.
    - intros E; injection E as <-; auto.
    - destruct (impl_step s0 o) as [s1|] eqn:E; [|discriminate]. apply IH. eapply impl_step_fits; eauto. }
  apply G. constructor.
Qed.
