(** Statements of the C18 source-tie theorems, pinned: weakening one breaks this file. *)
From Coq Require Import List NArith Bool Arith.
From JrV Require Import C18.Model C18.SourceVocab Gen.GenIntern C18.ModelSource C18.PropertiesSource.
Import ListNotations.

Check C18_model_is_translated_source_clone : forall h a, gen_inner_clone h a = inner_clone h a.
Check C18_model_is_translated_source_drop : forall h a, rc_fits h -> gen_inner_drop h a = inner_drop h a.
Check C18_model_is_translated_source_unpool : forall h a, rc_fits h -> gen_maybe_unpool h a = maybe_unpool h a.
Check C18_model_is_translated_source_handle_drop :
  forall k h a, rc_fits h -> gen_handle_drop k h a = handle_drop h a.
Check C18_model_is_translated_source_intern : forall h next c, gen_intern_bytes h next c = intern_raw h next c.
Check C18_model_is_translated_source_step : forall s o, rc_fits (st_heap s) -> src_step s o = impl_step s o.
Check C18_model_is_translated_source_run : forall ops, src_run init ops = impl_run init ops.
Check C18_source_counts_fit : forall ops s, src_run init ops = Some s -> rc_fits (st_heap s).
Check C18_source_refines :
  forall ops, short ops -> exists s, src_run init ops = Some s /\ abs s = spec_run ops.
Check C18_source_canonical :
  forall ops s i j, short ops -> src_run init ops = Some s ->
    impl_eq s i j = spec_eq (spec_run ops) i j.
Check C18_source_pool_is_live_contents :
  forall ops s, short ops -> src_run init ops = Some s ->
    pool_len s = spec_pool_len (spec_run ops) /\ length (st_heap s) = pool_len s.
Check C18_source_no_free_while_handle :
  forall ops s, short ops -> src_run init ops = Some s ->
    (forall al, In al (st_heap s) ->
       a_rc al = (1 + N.of_nat (handles_on s (a_addr al)))%N /\ (1 <= handles_on s (a_addr al))%nat) /\
    (forall i k a, nth_error (st_slots s) i = Some (Some (k, a)) ->
       exists al, lookup (st_heap s) a = Some al).
Check C18_source_pool_drains :
  forall ops s, short ops -> src_run init ops = Some s ->
    (forall o, In o (st_slots s) -> o = None) -> st_heap s = [] /\ pool_len s = 0%nat.
(* definitions pinned: the side condition, the dispatch, and what the vocabulary means *)
Check eq_refl : rc_fits = fun h => Forall (fun al => (a_rc al < refcnt_lim)%N) h.
Check eq_refl : refcnt_lim = 2147483648%N.
Check eq_refl : src_step init (OInternBytes [98%N]) = Some (mkState [mkAlloc 0 [98%N] 2 false true] [Some (KBytes, 0%N)] 1).
Check eq_refl : checked_sub 0 1 = None.
Check eq_refl : pool_remove [mkAlloc 5 [1%N] 2 false true] [1%N] = Some ([mkAlloc 5 [1%N] 2 false false], 5%N).
