(** C18 — syntactic Rust types and item definitions, as emitted by translator/gens/trace.py
    into Gen/GenTrace.v.  Definitions only. *)
From Coq Require Import List String.

Inductive ty :=
| TPath (name : string) (args : list ty)   (* `a::b::Name<args>`, `[T]` as "[]", `Name!(..)` as "Name!" *)
| TFn                                       (* fn pointer: no captured state *)
| TRef (t : ty)                             (* &T / &mut T: borrows, never owns *)
| TDyn (name : string)                      (* bare `dyn Trait` *)
| TTuple (l : list ty)
| TOther (what : string).                   (* raw pointers, unparsed aliases: unknown *)

Record field := mkField { f_name : string; f_skip : bool; f_ty : ty }.
Record tydef := mkTyDef {
  d_name : string; d_file : string; d_trace : bool; d_params : list string; d_fields : list field }.
