(** C18 — source tie, property theorems only.  [gen_*] = the functions of
    crates/jrsonnet-interner/src/{inner,lib}.rs translated statement by statement on every run
    (Gen/GenIntern.v); [src_step]/[src_run] = the operation machine assembled from them
    (ModelSource.v).  [rc_fits h]: every count in the heap is below 2^31, i.e. fits the 31-bit
    field it is stored in (true of every header the code can hold; kept by every step:
    C18_source_counts_fit). *)
From Coq Require Import List NArith Bool Arith.
From JrV Require Import C18.Model C18.Proofs C18.Properties C18.SourceVocab Gen.GenIntern C18.ModelSource C18.ProofsSource.
Import ListNotations.

(** Inner::clone as written = the model's: count read, `+ 1`, set_refcnt with its assertion. *)
Theorem C18_model_is_translated_source_clone :
  forall h a, gen_inner_clone h a = inner_clone h a.
Proof. exact src_clone_eq. Qed.
Print Assumptions C18_model_is_translated_source_clone.

(** Drop for Inner as written (checked `- 1`, store, `== 0` -> dealloc) = the model's. *)
Theorem C18_model_is_translated_source_drop :
  forall h a, rc_fits h -> gen_inner_drop h a = inner_drop h a.
Proof. exact src_drop_eq. Qed.
Print Assumptions C18_model_is_translated_source_drop.

(** maybe_unpool as written (strong_count `<= 2`, pool.remove, the is_empty assertion, the
    removed key dropped) = the model's. *)
Theorem C18_model_is_translated_source_unpool :
  forall h a, rc_fits h -> gen_maybe_unpool h a = maybe_unpool h a.
Proof. exact src_unpool_threshold_eq. Qed.
Print Assumptions C18_model_is_translated_source_unpool.

(** Drop for IStr / IBytes (maybe_unpool, then the field's drop) = the model's handle_drop. *)
Theorem C18_model_is_translated_source_handle_drop :
  forall k h a, rc_fits h -> gen_handle_drop k h a = handle_drop h a.
Proof. exact src_handle_drop_eq. Qed.
Print Assumptions C18_model_is_translated_source_handle_drop.

(** intern_bytes as written (lookup by content; Occupied: clone the pooled key; Vacant: insert a
    new allocation with count 1 and flag off, clone it) = the model's intern_raw. *)
Theorem C18_model_is_translated_source_intern :
  forall h next c, gen_intern_bytes h next c = intern_raw h next c.
Proof. exact src_intern_eq. Qed.
Print Assumptions C18_model_is_translated_source_intern.

(** For ALL states and operations: translated step = hand model step. *)
Theorem C18_model_is_translated_source_step :
  forall s o, rc_fits (st_heap s) -> src_step s o = impl_step s o.
Proof. exact src_step_eq. Qed.
Print Assumptions C18_model_is_translated_source_step.

(** ... and over ALL operation histories from the empty pool, crash for crash. *)
Theorem C18_model_is_translated_source_run :
  forall ops, src_run init ops = impl_run init ops.
Proof. exact src_run_eq. Qed.
Print Assumptions C18_model_is_translated_source_run.

(** the side condition is an invariant of the translated machine *)
Theorem C18_source_counts_fit :
  forall ops s, src_run init ops = Some s -> rc_fits (st_heap s).
Proof. exact src_run_fits. Qed.
Print Assumptions C18_source_counts_fit.

(** Corollaries: the TRANSLATED machine satisfies the C18 invariants over all histories. *)
(** it never crashes and every live handle dereferences to what the specification says *)
Theorem C18_source_refines :
  forall ops, short ops -> exists s, src_run init ops = Some s /\ abs s = spec_run ops.
Proof. intros ops H. rewrite src_run_eq. exact (C18_intern_refines ops H). Qed.
Print Assumptions C18_source_refines.

(** canonicity: two live handles are the same entry iff their bytes are equal *)
Theorem C18_source_canonical :
  forall ops s i j, short ops -> src_run init ops = Some s ->
    impl_eq s i j = spec_eq (spec_run ops) i j.
Proof. intros ops s i j H R. rewrite src_run_eq in R. exact (C18_eq_iff_content ops s i j H R). Qed.
Print Assumptions C18_source_canonical.

(** pool size = number of distinct live contents, and nothing is allocated outside the pool *)
Theorem C18_source_pool_is_live_contents :
  forall ops s, short ops -> src_run init ops = Some s ->
    pool_len s = spec_pool_len (spec_run ops) /\ length (st_heap s) = pool_len s.
Proof. intros ops s H R. rewrite src_run_eq in R. exact (C18_pool_is_live_contents ops s H R). Qed.
Print Assumptions C18_source_pool_is_live_contents.

(** no entry is freed while a handle exists: count = 1 + handles, every handle's allocation is live *)
Theorem C18_source_no_free_while_handle :
  forall ops s, short ops -> src_run init ops = Some s ->
    (forall al, In al (st_heap s) ->
       a_rc al = (1 + N.of_nat (handles_on s (a_addr al)))%N /\ (1 <= handles_on s (a_addr al))%nat) /\
    (forall i k a, nth_error (st_slots s) i = Some (Some (k, a)) ->
       exists al, lookup (st_heap s) a = Some al).
Proof. intros ops s H R. rewrite src_run_eq in R. exact (C18_refcount_exact ops s H R). Qed.
Print Assumptions C18_source_no_free_while_handle.

(** when the last handle is gone the pool is empty and everything is freed *)
Theorem C18_source_pool_drains :
  forall ops s, short ops -> src_run init ops = Some s ->
    (forall o, In o (st_slots s) -> o = None) -> st_heap s = [] /\ pool_len s = 0%nat.
Proof. intros ops s H R. rewrite src_run_eq in R. exact (C18_pool_drains ops s H R). Qed.
Print Assumptions C18_source_pool_drains.

(** Non-vacuity: a history with two contents, a re-intern after a drop, casts and clones runs on
    the translated machine, ends with one pooled entry of count 3, and its heap fits. *)
Definition nv_ops : list op :=
  [OInternBytes [97%N]; OInternStr [97%N]; ODrop 0; ODrop 1; OInternBytes [97%N]; OClone 2;
   OCastStr 2; OInternBytes [255%N]; OCastStr 4; OCastBytes 2].
Example nv_short : short nv_ops.
Proof. vm_compute. reflexivity. Qed.
Example nv_runs :
  option_map (fun s => (pool_len s, map a_rc (st_heap s), st_slots s)) (src_run init nv_ops)
  = Some (1%nat, [3%N], [None; None; Some (KBytes, 1%N); Some (KBytes, 1%N); None]).
Proof. vm_compute. reflexivity. Qed.
Example nv_fits : rc_fits [mkAlloc 0 [97%N] 2 false true].
Proof. repeat constructor. Qed.
Example nv_drop_frees : gen_handle_drop KBytes [mkAlloc 0 [97%N] 2 false true] 0 = Some [].
Proof. vm_compute. reflexivity. Qed.
Example nv_drop_keeps : gen_handle_drop KBytes [mkAlloc 0 [97%N] 3 false true] 0 = Some [mkAlloc 0 [97%N] 2 false true].
Proof. vm_compute. reflexivity. Qed.
