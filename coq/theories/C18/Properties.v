(** C18 — property theorems only.  Interner part: histories of intern / clone / drop / cast /
    hand-over; collector part: Trace inventory and the collection criterion.  Each theorem is
    closed by [exact] of a lemma and followed by [Print Assumptions]; the statements are pinned
    again in Pins.v. *)
From Coq Require Import List NArith Bool Arith.
From JrV Require Import C18.Model C18.Proofs C18.TraceTy Gen.GenTrace C18.Trace C18.Collect.
Import ListNotations.

(** Every operation history (shorter than the 31-bit counter allows) runs without a crash:
    no use after free, no refcount underflow or overflow, the issue-113 assertion never
    fires; and what the live handles dereference to is exactly what the specification says. *)
Theorem C18_intern_refines :
  forall ops, short ops -> exists s, impl_run init ops = Some s /\ abs s = spec_run ops.
Proof. exact intern_refines. Qed.
Print Assumptions C18_intern_refines.

(** In particular no step of any history hits a model crash: refcount underflow (`refcnt() - 1`
    on zero), the 31-bit overflow assertion, a dangling handle, the issue-113 assertion. *)
Theorem C18_refcount_no_underflow :
  forall ops, short ops -> impl_run init ops <> None.
Proof. exact refcount_no_underflow. Qed.
Print Assumptions C18_refcount_no_underflow.

(** Pointer equality of two live handles (IStr or IBytes, also across casts) is content equality. *)
Theorem C18_eq_iff_content :
  forall ops s i j, short ops -> impl_run init ops = Some s ->
    impl_eq s i j = spec_eq (spec_run ops) i j.
Proof. exact eq_iff_content. Qed.
Print Assumptions C18_eq_iff_content.

(** The pool holds exactly one entry per distinct live content, and no allocation exists
    outside the pool: values dropped to zero references have left it and are freed. *)
Theorem C18_pool_is_live_contents :
  forall ops s, short ops -> impl_run init ops = Some s ->
    pool_len s = spec_pool_len (spec_run ops) /\ length (st_heap s) = pool_len s.
Proof. exact pool_is_live_contents. Qed.
Print Assumptions C18_pool_is_live_contents.

Theorem C18_pool_drains :
  forall ops s, short ops -> impl_run init ops = Some s ->
    (forall o, In o (st_slots s) -> o = None) -> st_heap s = [] /\ pool_len s = 0%nat.
Proof. exact pool_drains. Qed.
Print Assumptions C18_pool_drains.

(** The cached flag is only ever set on well-formed UTF-8, and every IStr handle
    dereferences to well-formed UTF-8 (what `as_str_unchecked` relies on). *)
Theorem C18_utf8_flag_sound :
  forall ops s, short ops -> impl_run init ops = Some s ->
    (forall al, In al (st_heap s) -> a_utf8 al = true -> valid_utf8 (a_data al) = true) /\
    (forall i a, nth_error (st_slots s) i = Some (Some (KStr, a)) ->
       valid_utf8 (data_of (st_heap s) a) = true).
Proof. exact utf8_flag_sound. Qed.
Print Assumptions C18_utf8_flag_sound.

(** count = 1 (the pool's reference) + number of live handles, never below 2; every live
    handle points at a live allocation (no underflow, no dangling handle). *)
Theorem C18_refcount_exact :
  forall ops s, short ops -> impl_run init ops = Some s ->
    (forall al, In al (st_heap s) ->
       a_rc al = (1 + N.of_nat (handles_on s (a_addr al)))%N /\ (1 <= handles_on s (a_addr al))%nat) /\
    (forall i k a, nth_error (st_slots s) i = Some (Some (k, a)) ->
       exists al, lookup (st_heap s) a = Some al).
Proof. exact refcount_exact. Qed.
Print Assumptions C18_refcount_exact.

(** A live value keeps its bytes through every step that does not consume it. *)
Theorem C18_live_keep_content :
  forall ops o s s', short (ops ++ [o]) -> impl_run init ops = Some s -> impl_step s o = Some s' ->
    forall i k c, nth_error (abs s) i = Some (Some (k, c)) ->
      nth_error (abs s') i = Some None \/ exists k', nth_error (abs s') i = Some (Some (k', c)).
Proof. exact live_keep_content. Qed.
Print Assumptions C18_live_keep_content.

(** * Collector *)

(** On the inventory regenerated from crates/jrsonnet-evaluator (every struct, enum and
    top-level alias; bound = that table), no `#[trace(skip)]` field of a `derive(Trace)`
    type has a type that may own a `Cc`. *)
Theorem C18_trace_complete :
  forall d fl, In d trace_inventory -> d_trace d = true -> In fl (d_fields d) -> f_skip fl = true ->
    may_own_cc trace_inventory (f_ty fl) = false.
Proof. exact trace_complete. Qed.
Print Assumptions C18_trace_complete.

(** If the traced edges are the owning edges, the criterion releases exactly the objects
    the program cannot reach: every garbage cycle goes, nothing reachable does. *)
Theorem C18_collect_reclaims :
  forall (node : Type) (node_eq_dec : forall a b : node, {a = b} + {a <> b})
         (nodes : list node) (owns traced : node -> list node) (ext : node -> nat),
    (forall n y, In n nodes -> In y (owns n) -> In y nodes) ->
    (forall n, In n nodes -> traced n = owns n) ->
    forall x, In x nodes ->
      (collected node node_eq_dec nodes owns traced ext x <-> ~ reachable node nodes owns ext x).
Proof. exact collect_reclaims. Qed.
Print Assumptions C18_collect_reclaims.

(** Reporting fewer edges than are owned never releases a reachable object ... *)
Theorem C18_collect_safe :
  forall (node : Type) (node_eq_dec : forall a b : node, {a = b} + {a <> b})
         (nodes : list node) (owns traced : node -> list node) (ext : node -> nat),
    (forall n y, In n nodes -> In y (owns n) -> In y nodes) ->
    (forall n z, In n nodes -> count_occ node_eq_dec (traced n) z <= count_occ node_eq_dec (owns n) z) ->
    forall x, reachable node nodes owns ext x -> marked node node_eq_dec nodes owns traced ext x.
Proof. exact collect_safe. Qed.
Print Assumptions C18_collect_safe.

(** ... but the target of every owning edge that is not traced stays marked for ever, whether
    reachable or not: a cycle through a skipped owning field is never reclaimed.  This is
    why C18_trace_complete is the obligation that matters. *)
Theorem C18_skipped_edge_leaks :
  forall (node : Type) (node_eq_dec : forall a b : node, {a = b} + {a <> b})
         (nodes : list node) (owns traced : node -> list node) (ext : node -> nat),
    (forall n z, In n nodes -> count_occ node_eq_dec (traced n) z <= count_occ node_eq_dec (owns n) z) ->
    forall x y, In x nodes -> In y nodes ->
      count_occ node_eq_dec (traced x) y < count_occ node_eq_dec (owns x) y ->
      marked node node_eq_dec nodes owns traced ext y.
Proof. exact skipped_edge_leaks. Qed.
Print Assumptions C18_skipped_edge_leaks.
