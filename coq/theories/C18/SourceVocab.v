(** C18 — vocabulary of the source tie (hand-written, fixed): the primitive reads and writes
    that the statements of crates/jrsonnet-interner/src/{inner,lib}.rs are translated INTO by
    translator/gens/internsm.py (Gen/GenIntern.v).  Nothing here says what the functions do:
    - a header read through a pointer whose allocation is gone is a crash ([None]);
    - `x - k` on u32 is overflow-checked (the harness is built with overflow checks);
    - the POOL map is content-keyed ([Model.pool_find]); [pool_remove] takes the entry out and
      hands back the removed key (an [Inner], i.e. one counted reference);
    - the allocator hands out [next] and bumps it. *)
From Coq Require Import List NArith Bool.
From JrV Require Import C18.Model.
Import ListNotations.

Definition bind {A B} (x : option A) (f : A -> option B) : option B :=
  match x with Some v => f v | None => None end.

Definition hdr_refcnt (h : heap) (a : N) : option N := option_map a_rc (lookup h a).
Definition hdr_is_utf8 (h : heap) (a : N) : option bool := option_map a_utf8 (lookup h a).
Definition hdr_data (h : heap) (a : N) : option bytes := option_map a_data (lookup h a).
Definition hdr_write_rc (h : heap) (a : N) (n : N) : heap := upd h a (set_rc n).
Definition hdr_write_utf8 (h : heap) (a : N) : heap := upd h a set_utf8.
Definition checked_sub (x k : N) : option N := if (x <? k)%N then None else Some (x - k)%N.
Definition heap_free (h : heap) (a : N) : heap := del h a.
Definition heap_alloc (h : heap) (next : N) (c : bytes) (rc : N) (utf8 pooled : bool) : heap :=
  mkAlloc next c rc utf8 pooled :: h.

Definition pool_remove (h : heap) (c : bytes) : option (heap * N) :=
  match pool_find h c with
  | Some p => Some (upd h (a_addr p) set_unpooled, a_addr p)
  | None => None
  end.
Definition pool_is_empty (h : heap) : bool := negb (existsb a_pooled h).
Definition pool_lookup (h : heap) (c : bytes) : option N := option_map a_addr (pool_find h c).
