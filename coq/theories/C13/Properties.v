(** C13 — property theorems only.  Each is closed by [exact] of a lemma from Proofs.v and
    followed by [Print Assumptions]; statements are pinned again in Pins.v. *)
From Coq Require Import Ascii String.
From Coq Require Import List ZArith NArith Bool Sorted.
From JrV Require Import C13.Model C13.Proofs.
Import ListNotations.

(** std.objectFields / objectFieldsAll / objectFieldsEx: the filter-and-sort of `fields_ex` lists the
    names in ascending code point order, exactly the visible (or all) ones, and it is the only
    list that does. *)
Theorem C13_listing_sorted_exact :
  forall h fs, wf_fields fs ->
    listing_spec h fs (fields_ex h fs) /\ forall l, listing_spec h fs l -> l = fields_ex h fs.
Proof. exact listing_sorted_exact. Qed.
Print Assumptions C13_listing_sorted_exact.

(** std.objectHas* and std.objectFields* agree on every name *)
Theorem C13_has_iff_listed :
  forall h fs k, wf_fields fs -> (has_ex fs k h = true <-> In k (fields_ex h fs)).
Proof. exact has_iff_listed. Qed.
Print Assumptions C13_has_iff_listed.

(** The two visibility routes of obj/mod.rs — the scan of `field_visibility_idx` (objectHas, get) and the
    one-pass state machine of `fields_visibility` (objectFields, length, values) — both implement the
    language rule "the most derived explicit `::` / `:::` wins, `:` inherits", for every chain. *)
Theorem C13_has_field_is_language_rule :
  forall k decls h,
    has_field_impl k decls h = match vis_spec k decls with Some hid => h || negb hid | None => false end.
Proof. exact has_field_impl_spec. Qed.
Print Assumptions C13_has_field_is_language_rule.

Theorem C13_visibility_routes_agree :
  forall decls h,
    StronglySorted str_lt (fields_impl decls h) /\
    forall k, In k (fields_impl decls h) <-> has_field_impl k decls h = true.
Proof. exact fields_impl_spec. Qed.
Print Assumptions C13_visibility_routes_agree.

(** objectValues[i] = o[objectFields[i]], position by position, the value NOT forced (a bomb stays a bomb) *)
Theorem C13_values_align :
  forall h fs, exists l,
    values_spec h fs = VArr l /\ length l = length (fields_ex h fs) /\
    forall i k, nth_error (fields_ex h fs) i = Some k -> nth_error l i = Some (value_of k fs).
Proof. exact values_align. Qed.
Print Assumptions C13_values_align.

Theorem C13_keys_values_align :
  forall h fs, exists l,
    keys_values_spec h fs = VArr l /\ length l = length (fields_ex h fs) /\
    forall i k, nth_error (fields_ex h fs) i = Some k -> nth_error l i = Some (kv_obj k (value_of k fs)).
Proof. exact keys_values_align. Qed.
Print Assumptions C13_keys_values_align.

(** std.get: the implementation (visibility pre-check + get) is the definition; the default is
    forced only when the field is absent or invisible *)
Theorem C13_get_spec :
  forall fs k d h,
    get_impl fs k d h = get_spec fs k d h /\
    (has_ex fs k h = true -> get_spec fs k d h = force (value_of k fs)) /\
    (has_ex fs k h = false -> get_spec fs k d h = default_of d).
Proof. exact get_spec_full. Qed.
Print Assumptions C13_get_spec.

(** std.mergePatch: on JSON values in canonical form the loop over the ordered union of visible names
    with `get` reads computes exactly RFC 7396's MergePatch, for every target and patch *)
Theorem C13_mergepatch_rfc7396 :
  forall n t p, json t = true -> json p = true -> (depth p < n)%nat -> mp_impl n t p = Ok (rfc7396 t p).
Proof. exact mergepatch_rfc7396. Qed.
Print Assumptions C13_mergepatch_rfc7396.

(** ... and a visible target field the patch does not mention visibly is handed over unevaluated, whatever it
    is (also a failing expression), without failing the call *)
Theorem C13_mergepatch_lazy :
  forall n t pf out k,
    wf_fields (obj_fields t) -> wf_fields pf ->
    mp_impl (S n) t (VObj pf) = Ok (VObj out) ->
    has_ex (obj_fields t) k false = true -> vlookup k pf = None ->
    lookup k out = Some (false, value_of k (obj_fields t)).
Proof. exact mergepatch_lazy. Qed.
Print Assumptions C13_mergepatch_lazy.

(** full statement `forall t p, mp_impl = mp_def` (the std.jsonnet definition): REFUTED (eager recursion) *)
Theorem C13_mergepatch_eager_refuted :
  exists t p, mp_def (fuel_for p) t p = Ok (VObj [(lit "a", (false, VBomb 0)); (lit "b", (false, VNum 2))]) /\
              mp_impl (fuel_for p) t p = Err ERun.
Proof. exact mergepatch_eager_refuted. Qed.
Print Assumptions C13_mergepatch_eager_refuted.

(** std.prune: the result is clean (no null / empty array / object without visible field / hidden field
    inside any container), clean values are left alone, hence idempotent; it fails only on a failing leaf *)
Theorem C13_prune_spec :
  forall v,
    (forall v', prune v = Ok v' -> clean v' = true /\ prune v' = Ok v') /\
    (clean v = true -> prune v = Ok v) /\
    (bomb_free v = true -> exists v', prune v = Ok v').
Proof. exact prune_spec_full. Qed.
Print Assumptions C13_prune_spec.

(** std.equals on canonical JSON values never fails, decides structural equality, and therefore is
    reflexive, symmetric and transitive (numbers compared exactly) *)
Theorem C13_equals_equiv :
  forall a b c, json a = true -> json b = true -> json c = true ->
    (exists r, equals_spec a b = Ok r /\ (r = true <-> a = b)) /\
    equals_spec a a = Ok true /\
    equals_spec a b = equals_spec b a /\
    (equals_spec a b = Ok true -> equals_spec b c = Ok true -> equals_spec a c = Ok true).
Proof. exact equals_spec_equiv. Qed.
Print Assumptions C13_equals_equiv.

Theorem C13_equals_shortcut_refuted :
  exists a, equals_spec a a = Err ERun /\ equals_impl true a a = Ok true.
Proof. exact equals_shortcut_refuted. Qed.
Print Assumptions C13_equals_shortcut_refuted.

(** std.type and the std.is* predicates: for every evaluated value exactly one predicate holds and
    std.type names it; the seven names are distinct *)
Theorem C13_type_partition :
  forall v, is_bomb v = false ->
    exists t, type_spec v = Ok (VStr (ty_name t)) /\
              (forall t', is_spec t' v = Ok (VBool (ty_eqb t' t))) /\
              (forall t', ty_eqb t' t = true <-> t' = t) /\
              (forall t', ty_name t' = ty_name t -> t' = t).
Proof. exact type_partition_full. Qed.
Print Assumptions C13_type_partition.

(** where the implementation is more eager than the definition, or rebinds self *)
Theorem C13_mapwithkey_lazy_refuted :
  exists f fs, wf_fields fs /\ map_with_key_spec f fs <> map_with_key_impl f fs.
Proof. exact mapwithkey_lazy_refuted. Qed.
Print Assumptions C13_mapwithkey_lazy_refuted.

Theorem C13_removekey_self_refuted :
  exists fs k sd, wf_fields fs /\ remove_key_spec fs k sd <> remove_key_impl fs k sd.
Proof. exact removekey_self_refuted. Qed.
Print Assumptions C13_removekey_self_refuted.
